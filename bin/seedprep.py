#!/usr/bin/env python3
"""seedprep.py <suffix> [ids...] — prepare scratch worktrees and prompt texts for a wave of independent seeded changes.
The prompt contains ONLY the property text, build instructions and one-line hints naming the sites earlier waves already
used (so that the new change is a different mechanism); nothing about the checks."""
import json, os, subprocess, sys
V = os.path.dirname(os.path.dirname(os.path.abspath(__file__)))
suffix = sys.argv[1]
props = {json.loads(l)['id']: json.loads(l) for l in open(os.path.join(V, 'properties.jsonl'))}
ids = sys.argv[2:] or sorted(props)
for p in ids:
    name = p + suffix
    wt = f"/tmp/seedwt_{name}"
    out = f"/tmp/seedout_{name}"
    subprocess.run(["git", "-C", "/repo", "worktree", "remove", "--force", wt], capture_output=True)
    subprocess.run(["git", "-C", "/repo", "worktree", "add", "--detach", wt, "HEAD"], check=True, capture_output=True)
    os.makedirs(out, exist_ok=True)
    earlier = []
    for d in sorted(os.listdir(os.path.join(V, 'seeded'))):
        if d.startswith(p) and len(d) <= len(p) + 1 and d != name:
            m = json.load(open(os.path.join(V, 'seeded', d, 'meta.json')))
            earlier.append("- " + m['summary'][:260].replace("\n", " ") + " ...")
    pr = props[p]
    txt = f"""You are given a scratch git worktree of the Go project markusressel/fan2go (a Linux daemon that drives PWM fans from
temperature sensors) at {wt}. Work ONLY inside {wt} and write deliverables to {out}. Do not read or touch /repo or /verif.

PROPERTY ({p}: {pr['title']}):
{pr['statement']}

TASK: write a change to fan2go's source that BREAKS this property while the project still compiles and its existing test
suite still passes. It must look like a plausible, well-meant change a contributor might submit (refactor, optimisation,
clean-up, robustness 'fix'), and it must need something SPECIFIC to manifest: a particular interleaving, a crash or fault at
a particular point, a multi-step sequence of operations, an unusual input, or two cooperating sites that each look fine
alone. Not something ordinary use or a smoke test would expose at once. Also write a DEMONSTRATION (a Go test file or small
program) that PASSES on the unchanged tree and FAILS with your change applied.

Earlier changes for this property already exist; yours must use a DIFFERENT mechanism and preferably a different
function/file than these:
{chr(10).join(earlier) if earlier else '- (none)'}

BUILD NOTES (sandbox is offline):
* every shell call: export GOFLAGS=-mod=mod GOPROXY=off GOSUMDB=off GOTOOLCHAIN=local ; unset DISPLAY
* existing suite (must still pass with your change; the PID-curve tests use the wall clock and may flake under load - re-run a failed package once before concluding):
  go test -mod=mod -vet=off -count=1 ./internal/configuration/ ./internal/control_loop/ ./internal/controller/ ./internal/curves/ ./internal/fans/ ./internal/persistence/ ./internal/sensors/ ./internal/ui/ ./internal/util/
* packages ./internal (backend.go etc.), ./internal/hwmon and ./cmd/... import a cgo libsensors binding whose C header is missing here,
  so they do not compile with plain `go build`. To compile them anyway: cp go.mod /tmp/alt_{name}.mod; cp go.sum /tmp/alt_{name}.sum;
  echo 'replace github.com/md14454/gosensors => /tmp/seedaid/gosensors' >> /tmp/alt_{name}.mod; then `go build -modfile /tmp/alt_{name}.mod ./...`
  (a pure-Go stand-in). If your demo needs those packages it must use the same -modfile in its command.
* the sandbox runs as root (chown works). `go test -race` works.
* Do NOT use `git stash` (the stash is shared between worktrees of one repository and other workers use it at the same time); to compare with the clean tree use `git diff > /tmp/mine.diff; git checkout -- .` and `git apply /tmp/mine.diff`.

DELIVERABLES in {out}/ :
* patch.diff — `git diff` of the SOURCE change only (must apply with `git apply` on a clean checkout; no demo files in it)
* demo/<path relative to the repository root>/... — the demonstration file(s), laid out so that copying demo/ over the repo root puts them in place
* meta.json — {{"property": "{p}", "summary": "<what you changed and why it breaks the property>", "needs": "<what it needs in order to manifest>", "demo": "<one shell command, run from the repository root after the demo files were copied in, exit 0 = pass>"}}
Before finishing, verify yourself: (1) demo passes on the clean tree, (2) with the patch the suite passes, (3) with the patch the demo fails.
Leave the worktree with your change applied or not, it will be discarded. Reply with a five-line summary.
"""
    open(f"/tmp/seedprompt_{name}.txt", "w").write(txt)
    print(name, wt, out)
