#!/usr/bin/env python3
"""seedtest.py <seedout-dir> <property-id> [--checks C01,C05,...]

Confirm a seeded change delivered by an independent sub-agent and run the checks against it:
 1. scratch worktree of /repo HEAD (under /tmp): demo passes without the patch; with the patch the
    existing suite passes and the demo fails;
 2. apply the patch to /repo, run the named checks (default: the property's own), undo it at once;
 3. store patch, demo and meta.json (+ what was run and what each check said) under /verif/seeded/<id>/.
"""
import json
import os
import shutil
import subprocess
import sys
import time

VERIF = os.path.dirname(os.path.dirname(os.path.abspath(__file__)))
REPO = "/repo"
ENV = dict(os.environ, GOFLAGS="-mod=mod", GOPROXY="off", GOSUMDB="off", GOTOOLCHAIN="local")
ENV.pop("DISPLAY", None)
SUITE = ["./internal/configuration/", "./internal/control_loop/", "./internal/controller/", "./internal/curves/",
         "./internal/fans/", "./internal/persistence/", "./internal/sensors/", "./internal/ui/", "./internal/util/"]


def sh(cmd, cwd=None, timeout=1800):
    r = subprocess.run(cmd, cwd=cwd, env=ENV, shell=isinstance(cmd, str), stdout=subprocess.PIPE, stderr=subprocess.STDOUT,
                       text=True, timeout=timeout)
    return r.returncode, r.stdout


def main():
    src, pid = sys.argv[1], sys.argv[2]
    checks = [pid]
    name = pid
    for i, a in enumerate(sys.argv):
        if a == "--checks":
            checks = sys.argv[i + 1].split(",")
        if a == "--name":
            name = sys.argv[i + 1]
    demo_override = None
    for i, a in enumerate(sys.argv):
        if a == "--demo":
            demo_override = sys.argv[i + 1]
    meta = json.load(open(os.path.join(src, "meta.json")))
    patch = os.path.join(src, "patch.diff")
    if "--rerun" in sys.argv:
        # the change was confirmed earlier (src = /verif/seeded/<name>): only run the checks against it again
        return rerun(src, pid, name, checks, meta, patch)
    wt = f"/tmp/confirm_{name}"
    sh(["git", "-C", REPO, "worktree", "remove", "--force", wt])
    rc, out = sh(["git", "-C", REPO, "worktree", "add", "--detach", wt, "HEAD"])
    assert rc == 0, out
    result = {"confirmed": False}
    try:
        # place the demo
        demo_root = os.path.join(src, "demo")
        demo_files = []
        if os.path.isdir(demo_root):
            for root, _, files in os.walk(demo_root):
                for f in files:
                    if f.endswith(".go"):
                        rel = os.path.relpath(os.path.join(root, f), demo_root)
                        dst = os.path.join(wt, rel)
                        os.makedirs(os.path.dirname(dst), exist_ok=True)
                        shutil.copy(os.path.join(root, f), dst)
                        demo_files.append(rel)
        demo_cmd = demo_override or meta.get("demo", "")
        result["demo_cmd"] = demo_cmd
        result["demo_files"] = demo_files
        rc0, out0 = sh(demo_cmd, cwd=wt, timeout=600)
        result["demo_without_patch"] = "pass" if rc0 == 0 else "FAIL"
        rc, out = sh(["git", "apply", patch], cwd=wt)
        result["patch_applies"] = rc == 0
        rc1, out1 = sh(demo_cmd, cwd=wt, timeout=600)
        result["demo_with_patch"] = "fail" if rc1 != 0 else "PASS"
        result["demo_with_patch_excerpt"] = out1[-600:]
        # the suite must not see the demo file
        for rel in demo_files:
            os.remove(os.path.join(wt, rel))
        rc2, out2 = sh(["go", "test", "-mod=mod", "-vet=off", "-count=1"] + SUITE, cwd=wt, timeout=1200)
        for _ in range(3):   # the suite has wall-clock-dependent PID curve tests that flake under machine load
            if rc2 == 0:
                break
            failed = [l.split()[1] for l in out2.split("\n") if l.startswith("FAIL\tgithub.com")]
            if not failed:
                break
            rc2, out2 = sh(["go", "test", "-mod=mod", "-vet=off", "-count=1"] + failed, cwd=wt, timeout=1200)
        result["suite_with_patch"] = "pass" if rc2 == 0 else "FAIL"
        if rc2 != 0:
            result["suite_excerpt"] = out2[-800:]
        rcb, outb = sh(["go", "build", "./internal/..."], cwd=wt)
        result["confirmed"] = (rc0 == 0 and rc1 != 0 and rc2 == 0 and result["patch_applies"])
    finally:
        sh(["git", "-C", REPO, "worktree", "remove", "--force", wt])
    verdicts = run_checks(name, patch, checks)
    result["checks"] = verdicts
    store(src, pid, name, meta, patch, result, verdicts)


def rerun(src, pid, name, checks, meta, patch):
    verdicts = run_checks(name, patch, checks)
    meta["what_i_ran"]["checks"] = verdicts
    json.dump(meta, open(os.path.join(src, "meta.json"), "w"), indent=1)
    print(json.dumps({"seed": name, "rerun": True,
                      "checks": {k: ("CAUGHT+input" if v["with_failing_input"] else "CAUGHT(no input)" if v["caught"] else "missed") for k, v in verdicts.items()}}))
    for v in verdicts.values():
        for l in v["lines"]:
            print("   ", l[:400])


def run_checks(name, patch, checks):
    # run the checks against a patched COPY of the repository (a second scratch worktree; VERIF_REPO points the whole
    # machinery at it), so that /repo itself, the committed evidence and concurrently running work are not disturbed
    verdicts = {}
    wt2 = f"/tmp/seedrun_{name}"
    sh(["git", "-C", REPO, "worktree", "remove", "--force", wt2])
    rc, out = sh(["git", "-C", REPO, "worktree", "add", "--detach", wt2, "HEAD"])
    assert rc == 0, out
    try:
        rc, out = sh(["git", "apply", patch], cwd=wt2)
        if rc == 0:
            env2 = dict(ENV, VERIF_REPO=wt2, VERIF_EVIDENCE_DIR=f"/tmp/seedrun_{name}_evidence", VERIF_REPLAY_DIR=os.path.join(VERIF, "replays"))
            for c in checks:
                t0 = time.time()
                r = subprocess.run(["python3", os.path.join(VERIF, "bin", "check"), c], env=env2, stdout=subprocess.PIPE,
                                   stderr=subprocess.STDOUT, text=True, timeout=3600)
                crc, cout = r.returncode, r.stdout
                lines = [l for l in cout.split("\n") if l.startswith("VIOLATION") or l.startswith("OK ") or l.startswith("  violation") or l.startswith("  broken")]
                verdicts[c] = {"exit": crc, "wall_s": round(time.time() - t0, 1), "lines": [l[:300] for l in lines[:6]],
                               "caught": crc == 1, "with_failing_input": any(l.startswith("VIOLATION") and "no-failing-input-found" not in l for l in lines)}
    finally:
        sh(["git", "-C", REPO, "worktree", "remove", "--force", wt2])
        shutil.rmtree(f"/tmp/seedrun_{name}_evidence", ignore_errors=True)
        # regenerate the source-derived Lean files for /repo itself again
        subprocess.run(["python3", "-m", "vlib.factgen"], cwd=VERIF, env=ENV, stdout=subprocess.DEVNULL, stderr=subprocess.DEVNULL)
        for gen in ("accessgen", "transgen", "transgen2", "transgen3"):
            if os.path.exists(os.path.join(VERIF, "vlib", gen + ".py")):
                subprocess.run(["python3", "-m", "vlib." + gen], cwd=VERIF, env=ENV, stdout=subprocess.DEVNULL, stderr=subprocess.DEVNULL)
    return verdicts


def store(src, pid, name, meta, patch, result, verdicts):
    dst = os.path.join(VERIF, "seeded", name)
    os.makedirs(dst, exist_ok=True)
    shutil.copy(patch, os.path.join(dst, "patch.diff"))
    if os.path.isdir(os.path.join(src, "demo")):
        shutil.rmtree(os.path.join(dst, "demo"), ignore_errors=True)
        shutil.copytree(os.path.join(src, "demo"), os.path.join(dst, "demo"))
    meta_out = {"property": pid, "summary": meta.get("summary"), "needs": meta.get("needs"), "author": "independent sub-agent (saw only the property text and a scratch worktree)",
                "what_i_ran": result}
    json.dump(meta_out, open(os.path.join(dst, "meta.json"), "w"), indent=1)
    print(json.dumps({"seed": name, "confirmed": result["confirmed"], "demo_without": result.get("demo_without_patch"),
                      "demo_with": result.get("demo_with_patch"), "suite": result.get("suite_with_patch"),
                      "checks": {k: ("CAUGHT+input" if v["with_failing_input"] else "CAUGHT(no input)" if v["caught"] else "missed") for k, v in verdicts.items()}}, indent=1))


if __name__ == "__main__":
    main()
