#!/bin/bash
# run every check (default quick) on the current tree; prints one line per check
tier=${1:-quick}
cd /verif
for i in $(seq -w 1 20); do
  python3 bin/check C$i --tier $tier 2>&1 | grep -E "^OK|^VIOLATION" | cut -c1-170
done
