#!/usr/bin/env python3
"""Mutation self-test of the translation tie (go/transgen + lean/Fan2go/Props/Trans.lean).

For every mutation: fresh scratch copy of /repo under /tmp (never /repo itself), one textual edit, regenerate
Generated/Trans.lean with VERIF_REPO=<copy>, `lake build Fan2go.Props.Trans`, and report which `trans_*` theorems
no longer check (or which targets the translator refuses).  Expected: exactly the theorem(s) listed.
At the end Generated/Trans.lean is regenerated from the real tree and the scratch copy is removed.

usage: bin/transtest.py            (run from anywhere; do not run concurrently with bin/check)"""
import os
import re
import shutil
import subprocess
import sys

VERIF = os.path.dirname(os.path.dirname(os.path.abspath(__file__)))
sys.path.insert(0, VERIF)
from vlib import transgen  # noqa: E402
LEAN = os.path.join(VERIF, "lean")
SCRATCH = "/tmp/transtest_repo"
SRC_REPO = os.environ.get("VERIF_REPO", "/repo")

# (label, file, old, new, expected broken theorems, expected refused targets)
MUTATIONS = [
    ("unrelated: log message", "internal/controller/controller.go",
     'ui.Warning("Tried to set out-of-bounds PWM value %d on fan %s", target, fan.GetId())\n\t\ttarget = fans.MaxPwmValue',
     'ui.Warning("Out-of-bounds PWM value %d on fan %s!", target, fan.GetId())\n\t\ttarget = fans.MaxPwmValue', [], []),
    ("Coerce: > to >=", "internal/util/math.go", "if value > max {", "if value >= max {", ["trans_util_Coerce"], []),
    ("getClosest: >= to >", "internal/util/math.go", "if target-val1 >= val2-target {", "if target-val1 > val2-target {",
     ["trans_util_getClosest"], []),
    ("rescale: /fans.MaxPwmValue to /256", "internal/controller/controller.go", "(float64(target)/fans.MaxPwmValue)",
     "(float64(target)/256)", ["trans_ctl_rescale"], []),
    ("rescale: /fans.MaxPwmValue to /(fans.MaxPwmValue+1)", "internal/controller/controller.go",
     "(float64(target)/fans.MaxPwmValue)", "(float64(target)/(fans.MaxPwmValue+1))", ["trans_ctl_rescale"], []),
    ("stall test: <= 0 to < 0", "internal/controller/controller.go", "if int(avgRpm) <= 0 {", "if int(avgRpm) < 0 {",
     ["trans_ctl_stallCond"], []),
    ("give-up test: >= to >", "internal/controller/controller.go", "if target >= maxPwm {", "if target > maxPwm {",
     ["trans_ctl_stallAtMax"], []),
    ("clamp: upper bound assigns MinPwmValue", "internal/controller/controller.go",
     "fan.GetId())\n\t\ttarget = fans.MaxPwmValue", "fan.GetId())\n\t\ttarget = fans.MinPwmValue", ["trans_ctl_clamp"], []),
    ("constant: MaxPwmValue = 254", "internal/fans/common.go", "MaxPwmValue = 255", "MaxPwmValue = 254",
     ["trans_ctl_clamp", "trans_ctl_rescale", "trans_HwMonFan_GetStartPwm", "trans_HwMonFan_GetMaxPwm"], []),
    ("Ratio: drop the *100/100", "internal/util/math.go",
     "return ((target - rangeMin) / (rangeMax - rangeMin) * 100) / 100", "return (target - rangeMin) / (rangeMax - rangeMin)",
     ["trans_util_Ratio"], []),
    ("moving avg: 1/n to 1/(n+1)", "internal/util/math.go", "(1/float64(n))", "(1/float64(n+1))",
     ["trans_util_UpdateSimpleMovingAvg"], []),
    ("direct loop: clamp error by +max only", "internal/control_loop/direct.go",
     "util.Coerce(err, -float64(maxChangeValue), +float64(maxChangeValue))", "util.Coerce(err, 0, +float64(maxChangeValue))",
     ["trans_DirectControlLoop_Cycle"], []),
    ("direct loop: clock value used", "internal/control_loop/direct.go",
     "var stepTarget = float64(target)", "var stepTarget = float64(target) + float64(loopTime.Second())",
     ["trans_DirectControlLoop_Cycle"], ["DirectControlLoop_Cycle"]),
    ("pid loop: coerce to 0..254", "internal/control_loop/pid.go", "util.Coerce(float64(current)+result, 0, 255)",
     "util.Coerce(float64(current)+result, 0, 254)", ["trans_PidControlLoop_Cycle"], []),
    ("pid loop: arguments swapped", "internal/control_loop/pid.go", "l.pidLoop.Loop(float64(target), float64(current))",
     "l.pidLoop.Loop(float64(current), float64(target))", ["trans_PidControlLoop_Cycle"], []),
    ("linear curve: >= to >", "internal/curves/linear.go", "if avgTemp >= maxTemp {", "if avgTemp > maxTemp {",
     ["trans_LinearSpeedCurve_minMax"], []),
    ("linear curve: math.Round added", "internal/curves/linear.go", "value = int(ratio * 255)", "value = int(math.Round(ratio * 255))",
     ["trans_LinearSpeedCurve_minMax"], []),
    ("GetMinPwm: neverStop test dropped", "internal/fans/hwmon.go", "if fan.ShouldNeverStop() {\n\t\tif fan.MinPwm != nil {",
     "if true {\n\t\tif fan.MinPwm != nil {", ["trans_HwMonFan_GetMinPwm"], []),
    ("ShouldNeverStop negated (inlined into GetMinPwm)", "internal/fans/hwmon.go", "return fan.Config.NeverStop",
     "return !fan.Config.NeverStop", ["trans_HwMonFan_GetMinPwm"], []),
    ("SetMaxPwm: || to &&", "internal/fans/hwmon.go", "if fan.Config.MaxPwm == nil || force {\n\t\tfan.MaxPwm",
     "if fan.Config.MaxPwm == nil && force {\n\t\tfan.MaxPwm", ["trans_HwMonFan_SetMaxPwm"], []),
    ("lastSet test: == to >=", "internal/controller/controller.go", "*f.lastSetPwm == target", "*f.lastSetPwm >= target",
     ["trans_ctl_lastSetEqualsTarget"], []),
    ("Coerce: loop added (outside the subset)", "internal/util/math.go", "if value > max {\n\t\treturn max",
     "for value > max {\n\t\treturn max",
     ["trans_util_Coerce", "trans_DirectControlLoop_Cycle", "trans_PidControlLoop_Cycle"], ["util_Coerce", "DirectControlLoop_Cycle", "PidControlLoop_Cycle"]),
]


def sh(cmd, **kw):
    return subprocess.run(cmd, stdout=subprocess.PIPE, stderr=subprocess.STDOUT, text=True, **kw)


def run_one(env):
    r = sh([sys.executable, "-c", "from vlib import transgen; import json; print(json.dumps(transgen.regenerate()))"],
           cwd=VERIF, env=env)
    try:
        refused = [m.split(" ")[0] for m in __import__("json").loads(r.stdout.strip().split("\n")[-1])]
    except Exception:
        return None, None, "transgen failed: " + r.stdout[-400:]
    b = sh(["lake", "build", "Fan2go.Props.Trans"], cwd=LEAN)
    broken = transgen.broken_theorems(b.stdout)
    other = [m.group(0) for m in re.finditer(r"error: (\S+?):(\d+):\d+:", b.stdout) if not m.group(1).endswith("Props/Trans.lean")]
    return broken, refused, "; ".join(other)


def main():
    ok = True
    env = dict(os.environ)
    env["VERIF_REPO"] = SCRATCH
    try:
        for label, rel, old, new, exp_b, exp_r in MUTATIONS:
            shutil.rmtree(SCRATCH, ignore_errors=True)
            shutil.copytree(SRC_REPO, SCRATCH, ignore=shutil.ignore_patterns(".git"))
            p = os.path.join(SCRATCH, rel)
            src = open(p).read()
            if src.count(old) != 1:
                print(f"SKIP  {label}: pattern occurs {src.count(old)} times in {rel}")
                ok = False
                continue
            open(p, "w").write(src.replace(old, new))
            broken, refused, extra = run_one(env)
            if broken is None:
                print(f"FAIL  {label}: {extra}")
                ok = False
                continue
            examples = [b for b in broken if b.startswith("example@")]   # concrete evaluations next to the theorems
            broken = [b for b in broken if not b.startswith("example@")]
            if exp_b is None:
                verdict = "INFO "
            else:
                good = sorted(broken) == sorted(exp_b) and sorted(refused) == sorted(exp_r) and not extra
                verdict = "ok   " if good else "FAIL "
                ok = ok and good
            print(f"{verdict} {label}: broken theorems {broken or '-'}; refused targets {refused or '-'}"
                  + (f"; also {len(examples)} non-vacuity example(s)" if examples else "") + (f"; other errors {extra}" if extra else ""))
    finally:
        shutil.rmtree(SCRATCH, ignore_errors=True)
        env["VERIF_REPO"] = SRC_REPO
        broken, refused, extra = run_one(env)
        print(f"restored from {SRC_REPO}: broken {broken or '-'}; refused {refused or '-'} {extra}")
        ok = ok and broken == [] and refused == []
    print("SELFTEST " + ("PASSED" if ok else "FAILED"))
    return 0 if ok else 1


if __name__ == "__main__":
    sys.exit(main())
