#!/bin/bash
# re-run every seeded change through its check (patches /repo temporarily: run nothing else meanwhile)
cd /verif
for id in C01 C02 C03 C04 C05 C06 C07 C08 C09 C10 C11 C12 C13 C14 C15 C16 C17 C18 C19 C20; do
  src=/verif/seeded/$id
  [ -d /tmp/seedout_$id ] && src=/tmp/seedout_$id
  demo=$(python3 -c "
import json
m=json.load(open('/verif/seeded/$id/meta.json'))
print(m['what_i_ran'].get('demo_cmd',''))")
  python3 bin/seedtest.py $src $id --demo "$demo" 2>&1 | tr '\n' ' '; echo
done
