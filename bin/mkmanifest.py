#!/usr/bin/env python3
"""(Re)generate /verif/MANIFEST.json from the property definitions in vlib/props."""
import json
import os
import sys

sys.path.insert(0, os.path.dirname(os.path.dirname(os.path.abspath(__file__))))
from vlib import props  # noqa: E402

VERIF = os.path.dirname(os.path.dirname(os.path.abspath(__file__)))

TEXT = {
 "C01": "Lean theorems over the executable model of controller.go: for every reachable controller state (induction over arbitrary event lists), every loop output (treated as an arbitrary integer) and every fault, the requested PWM lies in [min+raises, max] and every written value is the PWM-map output of a supported input in 0..255. IEEE-754 rounding is modelled (F64) so the range mapping's monotonicity is proved, not assumed. Tied to the code by exact correspondence of the real DefaultFanController on virtual devices with the model, plus regenerated constants.",
 "C02": "Theorems: the fan's own minimum is never changed while regulating, the floor (minimum + raises) is monotone over every event, every request is >= every earlier floor (history theorem by induction), and a raise is exactly +1 over the request at which the fan stalled. Correspondence on stall-heavy runs.",
 "C03": "(i) restore logic: theorem for every original mode/PWM, every fan kind and every combination of applied/refused/ignored mode writes that the fan ends in its original mode or at PWM 255 (tightness witnesses when every write is lost); (ii) lifecycle LTS of the daemon's actor group: no schedule with any number of signals reaches a panic and every exited run has restored every touched fan; the pre-fix semantics is shown to crash. Tied by exhaustive correspondence of restorePwmEnabled, regenerated facts about RunDaemon/Run, and real daemon runs with signal bursts.",
 "C04": "Theorems: the stateless direct loop reaches the steady value after one cycle from any state; steady(0)=min, steady(255)=max, monotone; with maxPwmChangePerCycle the step is the exact integer clamp (<= limit, monotone approach) and on the 0..255 range the request settles at the curve value within ceil(255/m) cycles (rescale identity proved for all 256 values by kernel evaluation). The full-strength claim is REFUTED in Lean for other ranges (known finding). PID settling is not proved (partial).",
 "C05": "Theorems: under the property's device contract a cycle re-asserts manual mode and leaves the register at the map output of the nearest supported input of the new target, whatever mode/PWM a third party wrote before; a changed register is counted exactly once; over arbitrary runs of cycles and polls without interference nothing is ever counted (induction, Synced invariant).",
 "C06": "Theorems over the F64 model: linear curves in 0..255 for every non-NaN average and all Go ints, end values, closeness to the exact interpolation (< 1 + 2^-40), steps form range / knots / between neighbours; six aggregate closed forms; compositionality over curve trees of any depth; PID value definition and range whenever the PID term is not NaN; the unconditional PID claim is refuted (known finding).",
 "C07": "Theorems: monotonicity of the linear min/max form for all Go ints incl. +-Inf, of step curves with non-decreasing binary32-representable speeds (the general claim is refuted by a kernel-evaluated witness: known finding), of sum/max/min/average and of curve trees built from them, of the clamp+rescale request and of FindClosest.",
 "C08": "Theorems: hull for window >= 2 (with the overflow guard) and its history version, exact update for window 1 when the difference is representable, geometric convergence with an explicit rounding slack, failed or non-finite reads leave the average unchanged for all three backends, NaN is absorbing; the unrestricted hull is refuted (two known findings).",
 "C10": "Theorems: file/cmd fans notice a stall after one poll; the hwmon exponential average drops below 1 within 16*window polls from any prior average <= 2^15 (floating-point contraction lemma + Bernoulli bound); after the reset to 1 the next zero poll is noticed; each raise is +1 and at most max-floor raises happen before 'stalled at max' is returned.",
 "C11": "Theorems over the model of validateConfig (checks in source order): accepted => unique ids, one backend per entry, all references resolve, no self reference, acyclic member graph (closure criterion proved equivalent to mutual reachability), every curve evaluates without panic at any nesting depth, control algorithm instantiable; completeness for the documented forms. Tied through the real YAML->viper->Validate path with a struct dump comparison, and all digraphs on <= 3/4 nodes.",
 "C12": "Theorems: FindClosest returns a nearest element of a strictly sorted slice (binary-search invariant; termination is the well-founded recursion), exact hits, saturation, monotonicity; the distinct-target extraction is the first key of each run of equal outputs; composition as setPwm wires it. The tie is relational for FindClosest (either neighbour on a tie).",
 "C13": "Theorems: start/max PWM derived from the data equal specification functions written from the property text (lowest key with non-zero whole RPM; lowest key reaching the maximum whole RPM), refusal on empty data, configured limits win over any sequence of attachments and non-forced setters, minimum 0 without neverStop; re-attachment claim refuted (known finding).",
 "C14": "Refinement theorem: every operation sequence on the persistence model yields the outputs of the obvious finite-map spec; corollaries round-trip, isolation per fan and per kind, missing, idempotent delete, corrupt entry discarded, crash atomicity of a save. bbolt and encoding/json are assumed; tied by random op sequences on a real bbolt file and SIGKILL runs.",
 "C15": "Theorems over the start-up decision model (exhaustive over fan declarations x stores, induction over start/reset/init histories): a configured pwmMap is never swept, stored data are reused without any analysis, analysis happens only when an entry was missing or in `fan init`, reset makes it happen again; the README's min+max promise is refuted (known finding).",
 "C16": "Interleaving theorem for any number of fans and any schedule: if a program's analysis steps lie inside its lock..unlock span no two processes analyse at once; the premise is discharged by `decide` on the call sequence REGENERATED from controller.go on every run; parallel=true may overlap; the pre-fix program shape overlaps.",
 "C17": "Theorems for every platform matcher: fan selectors bind exactly the three paths of the selected chip/channel (pwm channel defaulting to the rpm channel), by-index = position among features with an input, enumeration-order invariance for a unique match, clean error (never panic, never another device) for fans and sensors. Tied by running the real hwmon/backend code over a pure-Go libsensors stand-in.",
 "C18": "Theorems: the Go branch structure of CheckFilePermissionsForExecution equals the predicate (owner root, not group-writable unless group root, not other-writable) for ALL uid/gid/mode naturals; nothing is attempted or run unless the check at this very call passed; each call of a sequence is judged by the stat at that call; the configuration-file rule. Regenerated facts: the only os/exec use reachable from sensors/fans is inside SafeCmdExecution, after the check.",
 "C19": "Theorem C19_holds: for every permission outcome (except the nil-FileInfo residual), every process behaviour and timeout the call returns trimmed output or an error, never panics, and is bounded by timeout + 200 ms; trim algebra. Tied by real processes for every failure mode with a watchdog.",
 "C09": "Theorems: for every device state (all read/write faults arbitrary, changeable between any two events), every fan kind and curve outcome, a control cycle never panics; it either continues with the invariant intact or stops with an error after which the restore theorem of C03 applies; sensor polls and curve evaluation propagate errors without crashing; the regenerated list of syntactic crash sites equals the accounted list.",
 "C20": "Lockset discipline: the access table (field reads/writes per concurrent activity with held mutexes, incl. reflection-based readers) is regenerated from the source with go/ssa on every run; Lean proves the lockset soundness theorem for an abstract machine and, by `decide` on the regenerated table, that every conflicting pair outside an explicit known-findings list shares a mutex.",
}

NOTE = {
 "default": "Trusted: Lean kernel; the Props statements; the F64 model of IEEE-754 (validated against Go on every run); the hand-written model being the code only as far as the correspondence streams explore (generator coverage is reported in the evidence); the harness/overlay build, verifhook, driver, factgen, the Go->Lean translators go/transgen* (with Model/GoSem.lean as the meaning of the Go constructs they emit) and vlib/check.py; Go toolchain. Modelled, not verified: the OS, files, os/exec, bbolt, encoding/json, viper, regexp, oklog/run, os/signal, sync.Mutex (each an explicit parameter with its stated contract, see DESIGN.md 2.8).",
}


def main():
    checks = []
    na = []
    allprops = [json.loads(l) for l in open(os.path.join(VERIF, "properties.jsonl"))]
    for p in allprops:
        pid = p["id"]
        prop = props.get(pid)
        if prop is None:
            na.append({"property_id": pid, "reason": REASONS.get(pid, "check not built in this round")})
            continue
        partial = getattr(prop, "partial_note", "")
        checks.append({
            "property_id": pid,
            "quick_cmd": f"python3 /verif/bin/check {pid} --tier quick",
            "thorough_cmd": f"python3 /verif/bin/check {pid} --tier thorough",
            "evidence_file": f"/verif/evidence/{pid}.json",
            "replay_cmd_template": f"python3 /verif/bin/check {pid} --replay {{path}}",
            "engine": "lean4-proof+correspondence",
            "level_claimed": {"category": "proof", "text": TEXT.get(pid, "") + (" PARTIAL: " + partial if partial else ""),
                              "design_ref": f"DESIGN.md section 3 ({pid})"},
            "level_note": NOTE["default"] + (" Assumptions: " + "; ".join(prop.assumptions) if prop.assumptions else ""),
            "technique": "machine-checked proof in Lean 4 over an executable model + model/implementation correspondence (differential, line protocol) + definitions regenerated from the Go source on every run (Go->Lean translation, tie theorems generated = model) + regenerated source facts",
        })
    m = {
        "version": 1,
        "setup_cmd": "bash /verif/bin/setup.sh",
        "hooks": {
            "guard": "verif",
            "enable": "go build -tags verif -modfile /verif/build/alt.mod -overlay /verif/build/overlay.json ./verifharness  (generated by vlib/gobuild.py from /repo's current tree; no hook is committed to /repo)",
            "baseline_off_cmd": "cd /repo && GOFLAGS=-mod=mod GOPROXY=off GOSUMDB=off GOTOOLCHAIN=local go test -mod=mod -json -vet=off -count=1 -timeout 25m ./...",
            "source_commits": [],
            "add_only": True,
        },
        "engines": [
            {"name": "lean4-proof+correspondence", "path": "/verif/lean, /verif/vlib, /verif/go",
             "serves_properties": [c["property_id"] for c in checks],
             "kind_free_text": "Lean 4 theorems about a hand-written executable model; Go harness compiled into the fan2go module by overlay runs the real code, a core-only Lean driver runs the model on the same op file; python engine diffs, runs the property oracle, audits axioms, regenerates source facts"}],
        "checks": checks,
        "notes": "Genuine defects found and repaired in /repo are listed in /verif/known_findings.json (status fixed, one `fix:` commit each); recorded, unrepaired findings have status known and print KNOWN-FINDING lines.",
        "not_applicable": na,
    }
    json.dump(m, open(os.path.join(VERIF, "MANIFEST.json"), "w"), indent=1)
    print("checks:", [c["property_id"] for c in checks], "not_applicable:", [x["property_id"] for x in na])


REASONS = {
    "C09": "check under construction in this round (theorems being proved); will be claimed when Props/C09.lean builds",
    "C20": "check under construction in this round (lockset extractor); claimed only if the access table can be extracted soundly, see DESIGN.md 3 C20",
}

if __name__ == "__main__":
    main()
