#!/bin/bash
# Build the framework from files on disk only (offline). Run once after a fresh restore.
set -e
export GOFLAGS=-mod=mod GOPROXY=off GOSUMDB=off GOTOOLCHAIN=local
cd /verif
python3 -m vlib.factgen                      # regenerate lean/Fan2go/Generated/Facts.lean from /repo
python3 -m vlib.transgen                     # regenerate lean/Fan2go/Generated/Trans.lean (Go->Lean translation of the pure core)
python3 -m vlib.transgen2                    # regenerate lean/Fan2go/Generated/Trans2.lean (second-generation translation: loops, slices, maps)
python3 -m vlib.transgen3                    # regenerate lean/Fan2go/Generated/Trans3.lean (third generation: the stateful controller methods)
[ -f vlib/accessgen.py ] && python3 -m vlib.accessgen || true
cd /verif/lean
lake build Fan2go drv 2>&1 | tail -3
cd /verif
python3 vlib/gobuild.py harness
python3 vlib/gobuild.py fan2go
echo setup-ok
