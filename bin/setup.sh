#!/bin/bash
# Build the framework from files on disk only (offline).
set -e
cd /verif/lean
lake build Fan2go drv 2>&1 | tail -5
cd /verif
export GOFLAGS=-mod=mod GOPROXY=off GOSUMDB=off GOTOOLCHAIN=local
python3 vlib/gobuild.py harness
echo setup-ok
