#!/usr/bin/env python3
"""Rewrite section 7 of DESIGN.md from /verif/seeded/*/meta.json."""
import glob
import json
import os
import re

VERIF = os.path.dirname(os.path.dirname(os.path.abspath(__file__)))
rows = []
for d in sorted(glob.glob(os.path.join(VERIF, "seeded", "*"))):
    try:
        m = json.load(open(os.path.join(d, "meta.json")))
    except Exception:
        continue
    w = m.get("what_i_ran", {})
    checks = w.get("checks", {})
    verdict = "; ".join(f"{k}: " + ("caught, failing input replayed" if v.get("with_failing_input") else
                                      "caught (no-failing-input-found)" if v.get("caught") else "MISSED")
                        for k, v in checks.items())
    if "checks_after_fix_fc39d65" in w:
        verdict += " (on the tree before fix fc39d65; harmless after the fix: checks quiet, as they must be)"
    summ = (m.get("summary") or "").replace("\n", " ").replace("|", "/")
    needs = (m.get("needs") or "").replace("\n", " ").replace("|", "/")
    conf = "yes" if w.get("confirmed") else "no"
    rows.append(f"| `{os.path.basename(d)}` | {m.get('property')} | {summ[:330]} | {needs[:220]} | {conf} | {verdict} |")
text = """## 7. Seeded changes

Each change was written by a fresh sub-agent that saw only the property text and its own scratch worktree of
/repo (nothing from /verif), was confirmed by `bin/seedtest.py` in a scratch worktree (demonstration passes
without the patch; with it the existing suite passes and the demonstration fails), then applied to /repo,
checked, and undone at once. `seeded/<id>/` holds patch, demonstration and `meta.json` (incl. the check output).
Checks strengthened because of a seeded change are named in section 8.

| seed | breaks | change (author's summary) | needs in order to manifest | confirmed | check verdict |
|---|---|---|---|---|---|
""" + "\n".join(rows) + "\n"
p = os.path.join(VERIF, "DESIGN.md")
s = open(p).read()
i = s.index("## 7. Seeded changes")
j = s.find("\n## 8.", i)
s = s[:i] + text + (s[j:] if j >= 0 else "")
open(p, "w").write(s)
print(len(rows), "rows")
