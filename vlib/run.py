"""Run an operation file through the Go harness (real code) and the Lean driver (model), and
compare the two output streams line by line."""
import os
import subprocess
import tempfile
import time

from . import gobuild

VERIF = gobuild.VERIF
LEAN_DIR = os.path.join(VERIF, "lean")
DRV = os.path.join(LEAN_DIR, ".lake", "build", "bin", "drv")


class RunError(Exception):
    pass


def scratch_dir():
    base = os.path.join(VERIF, "build", "scratch")
    os.makedirs(base, exist_ok=True)
    return tempfile.mkdtemp(prefix="run-", dir=base)


def run_harness(binary, ops_path, out_path, timeout=600, env=None):
    e = dict(os.environ)
    e.pop("DISPLAY", None)
    e["GOMEMLIMIT"] = "4GiB"
    if env:
        e.update(env)
    t0 = time.time()
    try:
        r = subprocess.run([binary, ops_path, out_path], env=e, stdout=subprocess.PIPE,
                           stderr=subprocess.PIPE, text=True, timeout=timeout)
        rc, err = r.returncode, r.stderr[-4000:]
        if rc != 0:
            import re
            m = re.search(r"^(fatal error:|panic:).*$", r.stderr, re.M)
            if m:
                err = m.group(0) + "\n" + err
    except subprocess.TimeoutExpired:
        rc, err = -9, "timeout"
    return rc, err, time.time() - t0


def run_driver(ops_path, out_path, timeout=900):
    t0 = time.time()
    try:
        r = subprocess.run([DRV, ops_path, out_path], stdout=subprocess.PIPE, stderr=subprocess.PIPE,
                           text=True, timeout=timeout)
        rc, err = r.returncode, r.stderr[-4000:]
    except subprocess.TimeoutExpired:
        rc, err = -9, "timeout"
    return rc, err, time.time() - t0


def read_lines(path):
    try:
        with open(path) as f:
            return f.read().split("\n")
    except FileNotFoundError:
        return []


def split_cases(ops):
    """ops: list of lines. A case starts at a line beginning with '#case'. Returns list of
    (start_index, end_index) ranges (end exclusive); lines before the first marker form case 0."""
    starts = [i for i, l in enumerate(ops) if l.startswith("#case")]
    if not starts or starts[0] != 0:
        starts = [0] + starts
    ranges = []
    for k, s in enumerate(starts):
        e = starts[k + 1] if k + 1 < len(starts) else len(ops)
        ranges.append((s, e))
    return ranges


def both(binary, ops_lines, workdir=None, parallel=1, harness_env=None, timeout=900):
    """Run both sides on the given op lines. Returns dict with go/lean output lines, diffs
    (list of (line_no, op, go_out, lean_out)), and status."""
    own = workdir is None
    wd = workdir or scratch_dir()
    try:
        if parallel > 1:
            return _both_parallel(binary, ops_lines, wd, parallel, harness_env, timeout)
        ops_path = os.path.join(wd, "ops.txt")
        with open(ops_path, "w") as f:
            f.write("\n".join(ops_lines) + "\n")
        go_out, lean_out = os.path.join(wd, "go.out"), os.path.join(wd, "lean.out")
        p_lean = subprocess.Popen([DRV, ops_path, lean_out], stdout=subprocess.DEVNULL, stderr=subprocess.PIPE, text=True)
        rc_go, err_go, t_go = run_harness(binary, ops_path, go_out, timeout=timeout, env=harness_env)
        try:
            _, err_lean = p_lean.communicate(timeout=timeout)
            rc_lean = p_lean.returncode
        except subprocess.TimeoutExpired:
            p_lean.kill()
            rc_lean, err_lean = -9, "timeout"
        g, l = read_lines(go_out), read_lines(lean_out)
        return _compare(ops_lines, g, l, rc_go, err_go, rc_lean, err_lean)
    finally:
        if own:
            import shutil
            shutil.rmtree(wd, ignore_errors=True)


def _compare(ops_lines, g, l, rc_go, err_go, rc_lean, err_lean):
    diffs = []
    n = len(ops_lines)
    for i in range(n):
        a = g[i] if i < len(g) else "<missing>"
        b = l[i] if i < len(l) else "<missing>"
        if a != b:
            diffs.append((i, ops_lines[i], a, b))
    # a process that died leaves its output short: pad, so that the lines of the chunks that follow keep their places
    g = (g + ["<missing>"] * n)[:n]
    l = (l + ["<missing>"] * n)[:n]
    return {"go": g, "lean": l, "diffs": diffs, "rc_go": rc_go, "err_go": err_go,
            "rc_lean": rc_lean, "err_lean": err_lean}


def _both_parallel(binary, ops_lines, wd, parallel, harness_env, timeout):
    from concurrent.futures import ThreadPoolExecutor
    ranges = split_cases(ops_lines)
    # group cases into `parallel` chunks of consecutive cases
    per = max(1, (len(ranges) + parallel - 1) // parallel)
    chunks = []
    for k in range(0, len(ranges), per):
        s = ranges[k][0]
        e = ranges[min(k + per, len(ranges)) - 1][1]
        chunks.append((s, e))

    def work(idx):
        s, e = chunks[idx]
        sub = os.path.join(wd, f"c{idx}")
        os.makedirs(sub, exist_ok=True)
        return both(binary, ops_lines[s:e], workdir=sub, parallel=1, harness_env=harness_env, timeout=timeout)

    with ThreadPoolExecutor(max_workers=parallel) as ex:
        results = list(ex.map(work, range(len(chunks))))
    g, l, diffs = [], [], []
    rc_go = rc_lean = 0
    err_go = err_lean = ""
    for idx, r in enumerate(results):
        s, _ = chunks[idx]
        g += r["go"]
        l += r["lean"]
        diffs += [(i + s, op, a, b) for (i, op, a, b) in r["diffs"]]
        if r["rc_go"] != 0:
            rc_go, err_go = r["rc_go"], r["err_go"]
        if r["rc_lean"] != 0:
            rc_lean, err_lean = r["rc_lean"], r["err_lean"]
    return {"go": g, "lean": l, "diffs": diffs, "rc_go": rc_go, "err_go": err_go,
            "rc_lean": rc_lean, "err_lean": err_lean}
