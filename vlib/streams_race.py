"""C20 – race-detector stream.  NOT part of the proof: it validates the extracted access table
(every race the detector reports should be a conflict of the table) and searches for a failing schedule.

    race_run(seed, seconds, tier) -> dict

builds the REAL daemon from /repo's current tree with `-race` (gobuild.build("fan2go", race=True)), runs it
through vlib/daemon.py on a fake hwmon tree with several fans that share ONE curve and ONE sensor, with the
REST api and the Prometheus endpoint enabled on free ports, hammers /fan/, /fan/<id>/, /curve/, /curve/<id>/,
/sensor/, /sensor/<id>/ and /metrics from a few threads while the fake device files keep changing, sends
SIGTERM, and parses the `WARNING: DATA RACE` reports.  Every report is mapped, through the source positions
of its two stacks, to (obj.field, kindA, kindB) of the access table as far as possible.

    python3 -m vlib.streams_race [seeds] [seconds]     # e.g. 3 8
"""
import json
import os
import random
import re
import shutil
import signal
import socket
import sys
import tempfile
import threading
import time
import urllib.request

from . import daemon, gobuild

KIND_RANK = {"api": 0, "collector": 1, "control": 2, "init": 3, "rpmmon": 4, "sensor": 5}
MOD = "github.com/markusressel/fan2go/"


def _free_port():
    s = socket.socket()
    s.bind(("127.0.0.1", 0))
    p = s.getsockname()[1]
    s.close()
    return p


def make_config(base, chip, nfans, curve, api_port, stats_port, file_fans=1, never_stop=True, extras=False,
                pwm_map_override=False, default_algo=False):
    """like daemon.make_config, but: every fan (hwmon and file) uses the SAME curve c1, which reads the one
    sensor s1; file fans get an rpmPath so that they have an RPM monitor too; direct and pid control
    algorithms alternate."""
    lines = [f"dbPath: {base}/fan2go.db", "controllerAdjustmentTickRate: 5ms", "rpmPollingRate: 5ms",
             "tempSensorPollingRate: 5ms", "runFanInitializationInParallel: true",
             "api:", "  enabled: true", "  host: 127.0.0.1", f"  port: {api_port}",
             "statistics:", "  enabled: true", f"  port: {stats_port}", "fans:"]
    for i in range(1, nfans + 1):
        algo = ["    controlAlgorithm: direct"] if i % 2 else ["    controlAlgorithm:", "      pid:", "        p: 0.3",
                                                               "        i: 0.02", "        d: 0.005"]
        if default_algo and i >= 2:
            algo = []   # the default control algorithm (like the file fans): one loop object PER FAN (seed C20h: one for all)
        lines += [f"  - id: f{i}", "    hwmon:", "      platform: fakechip", f"      rpmChannel: {i}",
                  f"    neverStop: {'true' if never_stop else 'false'}", "    curve: c1"] + algo
        if i == nfans and pwm_map_override:
            # a user-defined PWM map: the controller's map then IS the configuration's map object, which the REST api
            # serves (seed C20g: the controller "sanitised" it in place while requests were reading it)
            lines += ["    pwmMap:", "      0: 0", "      64: 64", "      128: 140", "      200: 210", "      255: 255"]
    for i in range(1, file_fans + 1):
        open(os.path.join(base, f"filefan{i}"), "w").write("90\n")
        open(os.path.join(base, f"filefan{i}_rpm"), "w").write("900\n")
        lines += [f"  - id: ff{i}", "    file:", f"      path: {base}/filefan{i}", f"      rpmPath: {base}/filefan{i}_rpm",
                  f"    neverStop: {'true' if never_stop else 'false'}", "    curve: c1"]
    if extras:  # a cmd fan whose curve cx = max(linear(file sensor s2), linear(cmd sensor s3))
        open(os.path.join(base, "cmdfan_pwm"), "w").write("80\n")
        open(os.path.join(base, "cmdfan_rpm"), "w").write("800\n")
        open(os.path.join(base, "s2_input"), "w").write("45000\n")
        open(os.path.join(base, "s3_input"), "w").write("55000\n")
        lines += ["  - id: cf1", "    cmd:", "      setPwm:", "        exec: /bin/true", "        args: [\"%pwm%\"]",
                  "      getPwm:", "        exec: /bin/cat", f"        args: [\"{base}/cmdfan_pwm\"]",
                  "      getRpm:", "        exec: /bin/cat", f"        args: [\"{base}/cmdfan_rpm\"]",
                  f"    neverStop: {'true' if never_stop else 'false'}", "    curve: cx"]
    lines += ["sensors:", "  - id: s1", "    hwmon:", "      platform: fakechip", "      index: 1"]
    # two more sensors that no curve uses: they are monitored and scraped all the same, and they fail TOGETHER for a
    # moment near the end of the run (seed C20j: the scrape collected the ids of failed sensors from several goroutines)
    for k in (1, 2):
        open(os.path.join(base, f"sx{k}_input"), "w").write("40000\n")
        lines += [f"  - id: sx{k}", "    file:", f"      path: {base}/sx{k}_input"]
    if extras:
        lines += ["  - id: s2", "    file:", f"      path: {base}/s2_input",
                  "  - id: s3", "    cmd:", "      exec: /bin/cat", f"      args: [\"{base}/s3_input\"]"]
    lines.append("curves:")
    if extras:
        lines += ["  - id: c3", "    linear:", "      sensor: s2", "      min: 30", "      max: 80",
                  "  - id: c4", "    linear:", "      sensor: s3", "      min: 30", "      max: 80",
                  "  - id: cx", "    function:", "      type: maximum", "      curves:", "        - c3", "        - c4"]
    if curve == "pid":
        lines += ["  - id: c1", "    pid:", "      sensor: s1", "      setPoint: 60", "      p: -0.05", "      i: -0.005",
                  "      d: -0.005"]
    elif curve == "function":
        lines += ["  - id: c0", "    linear:", "      sensor: s1", "      min: 30", "      max: 80",
                  "  - id: c2", "    pid:", "      sensor: s1", "      setPoint: 60", "      p: -0.05", "      i: -0.005",
                  "      d: -0.005",
                  "  - id: c1", "    function:", "      type: maximum", "      curves:", "        - c0", "        - c2"]
    else:
        lines += ["  - id: c1", "    linear:", "      sensor: s1", "      min: 30", "      max: 80"]
    path = os.path.join(base, "fan2go.yaml")
    open(path, "w").write("\n".join(lines) + "\n")
    os.chmod(path, 0o644)
    return path


# ------------------------------------------------------------------------------------------------
# report parsing

_HDR = re.compile(r"^(Write|Read|Previous write|Previous read|Atomic write|Atomic read|Previous atomic write|"
                  r"Previous atomic read) at (0x[0-9a-f]+) by (main goroutine|goroutine \d+)")


def parse_reports(text):
    """-> list of {"ops": [(op, [(func, file:line), ...]), (op, [...])]}"""
    reports = []
    blocks = text.split("WARNING: DATA RACE")
    for blk in blocks[1:]:
        blk = blk.split("==================")[0]
        ops = []
        cur = None
        lines = blk.split("\n")
        k = 0
        while k < len(lines):
            ln = lines[k]
            m = _HDR.match(ln.strip())
            if m:
                cur = (m.group(1), [])
                ops.append(cur)
            elif ln.strip().startswith("Goroutine ") or ln.strip().startswith("Mutex "):
                cur = None
            elif cur is not None and ln.startswith("  ") and not ln.startswith("      ") and ln.strip():
                fn = ln.strip()
                loc = ""
                if k + 1 < len(lines) and lines[k + 1].startswith("      "):
                    loc = lines[k + 1].strip().split(" ")[0]
                    k += 1
                fn = re.sub(r"\(\)$", "", fn)
                cur[1].append((fn, loc))
            k += 1
        if len(ops) >= 1:
            reports.append({"ops": ops[:2]})
    return reports


def _kind_of(stack):
    names = [f for f, _ in stack]
    for f in names:
        if f.endswith(".measureRpm"):
            return "rpmmon"
    for f in names:
        if f.endswith(".UpdateFanSpeed") or f.endswith(".restorePwmEnabled"):
            return "control"
    for f in names:
        if "/internal/statistics." in f and f.endswith(".Collect"):
            return "collector"
    for f in names:
        if "/internal/api." in f:
            return "api"
    for f in names:
        if f.endswith("internal.updateSensor") or f.endswith("sensorMonitor.Run"):
            return "sensor"
    for f in names:
        if f.endswith("controller.(*DefaultFanController).Run"):
            return "init"
    return "?"


_LINE_MAPS = {}


def _line_map(rel):
    """the race binary compiles REWRITTEN copies of a few files (gobuild.REWRITES: hook import added after the
    package clause, so the lines are shifted): map a line of the rewritten copy back to the line of /repo's file"""
    if rel in _LINE_MAPS:
        return _LINE_MAPS[rel]
    m = None
    if rel in gobuild.REWRITES:
        try:
            import difflib
            orig = open(os.path.join(gobuild.REPO, rel)).read().split("\n")
            new = open(os.path.join(gobuild.BUILD, "rewritten", rel)).read().split("\n")
            m = {}
            for tag, i1, i2, j1, j2 in difflib.SequenceMatcher(None, orig, new, autojunk=False).get_opcodes():
                if tag == "equal" or (tag == "replace" and i2 - i1 == j2 - j1):
                    for k in range(j2 - j1):
                        m[j1 + k + 1] = i1 + k + 1
        except Exception:
            m = None
    _LINE_MAPS[rel] = m
    return m


def _rel(loc, repo):
    # /repo/internal/fans/hwmon.go:98 -> internal/fans/hwmon.go:98 (line numbers of /repo's file)
    if loc.startswith(repo.rstrip("/") + "/"):
        loc = loc[len(repo.rstrip("/")) + 1:]
        f, _, ln = loc.rpartition(":")
        m = _line_map(f)
        if m and ln.isdigit() and int(ln) in m:
            return "%s:%d" % (f, m[int(ln)])
    return loc


def _short(fn):
    return fn.replace(MOD + "internal/", "").replace(MOD, "")


def map_reports(reports, data, repo=None):
    """map every report to table conflicts; returns (pairs, unmapped, uncovered)"""
    repo = repo or gobuild.REPO
    by_pos = {}
    for a in data["accesses"]:
        by_pos.setdefault(a["pos"], []).append(a)
    conflicts = {(c["key"], c["kindA"], c["kindB"]) for c in data["conflicts"]}
    pairs, unmapped, uncovered = {}, {}, {}
    for r in reports:
        sides = []
        if len(r["ops"]) >= 2 and all(any("/internal/control_loop." in f for f, _ in stack) for _, stack in r["ops"][:2]):
            # both accesses inside a control-loop object's Cycle: a control loop belongs to ONE controller (the table knows
            # no conflict on it), so two goroutines in the same loop object means that controllers share it. The accessed
            # field (util.PidLoop.*) is also a field of PID curves, whose sharing is a known finding: not to be mistaken for it
            f0 = [f for f, _ in r["ops"][0][1] if f.startswith(MOD)][:1] + [f for f, _ in r["ops"][1][1] if f.startswith(MOD)][:1]
            fpair = "control-loop object shared between controllers: " + " x ".join(_short(f) for f in f0)
            u = unmapped.setdefault((fpair, "control", "control"), {"functions": fpair, "kindA": "control", "kindB": "control", "n": 0,
                                                                  "candidates": [], "runtime_frames": []})
            u["n"] += 1
            continue
        for op, stack in r["ops"]:
            is_write = "rite" in op
            kind = _kind_of(stack)
            own = [(f, _rel(l, repo)) for f, l in stack if f.startswith(MOD) and "/internal/verifhook." not in f]
            cands = set()
            top = own[0] if own else (stack[0] if stack else ("?", ""))
            # the innermost module frame is the access; reflective readers (json / reprint walking a struct) have
            # no module frame of their own below the api handler, so walk up until a table position is found
            approx = False
            reflective = bool(stack) and stack[0][0].split(".")[0] in ("reflect", "encoding/json", "runtime", "fmt", "github.com/qdm12/reprint")
            for n, (f, l) in enumerate(own):
                if n > 0 and not reflective:
                    # the access itself is in a module function at a position the table does not know (memory that is not a
                    # tracked field: a pooled buffer, a package-level cache ...): not to be blamed on a caller's field access
                    break
                hits = [a for a in by_pos.get(l, []) if a["kind"] == kind or kind == "?"]
                hits = [a for a in hits if a["write"] == is_write] or hits
                if hits:
                    cands = {(a["type"] + "." + a["field"]) for a in hits}
                    top = (f, l)
                    approx = n > 0 and not (stack and stack[0][0].split(".")[0] in ("reflect", "encoding/json", "runtime"))
                    break
            sides.append({"op": op, "kind": kind, "func": _short(top[0]), "pos": top[1], "cands": cands,
                          "rt": stack[0][0] if stack else "?", "approx": approx})
        if len(sides) < 2:
            sides.append({"op": "?", "kind": "?", "func": "[stack not restored]", "pos": "", "cands": set(), "rt": "?"})
        a, b = sides[0], sides[1]
        if KIND_RANK.get(a["kind"], 9) > KIND_RANK.get(b["kind"], 9):
            a, b = b, a
        common = sorted(a["cands"] & b["cands"])
        fpair = "%s [%s %s] x %s [%s %s]" % (a["func"], a["op"], a["pos"], b["func"], b["op"], b["pos"])
        lost = [x for x in (a, b) if x["func"] == "[stack not restored]"]
        if len(lost) == 1 and not common:
            # the race detector could not restore the second stack (its history had been overwritten): the report still
            # names a field (the side that is known) - it is matched with the table's conflicts on that field in which the
            # known side's kind takes part; only when there is none is it a race outside the table
            known = b if lost[0] is a else a
            trip = sorted((k, ka, kb) for (k, ka, kb) in conflicts if k in known["cands"] and known["kind"] in (ka, kb))
            if trip:
                k, ka, kb = trip[0]
                e = pairs.setdefault((k, ka, kb), {"key": k, "kindA": ka, "kindB": kb, "n": 0, "functions": fpair})
                e["n"] += 1
                continue
        if not common:
            # one side mapped: still say which fields it could be
            either = sorted(a["cands"] | b["cands"])
            key = (fpair, a["kind"], b["kind"])
            u = unmapped.setdefault(key, {"functions": fpair, "kindA": a["kind"], "kindB": b["kind"], "n": 0,
                                          "candidates": either, "runtime_frames": [a["rt"], b["rt"]]})
            u["n"] += 1
            continue
        hit = [k for k in common if (k, a["kind"], b["kind"]) in conflicts]
        tgt = pairs if hit else uncovered
        for k in (hit or common):
            key = (k, a["kind"], b["kind"])
            e = tgt.setdefault(key, {"key": k, "kindA": a["kind"], "kindB": b["kind"], "n": 0, "functions": fpair})
            e["n"] += 1
    srt = lambda d: [d[k] for k in sorted(d)]
    return srt(pairs), srt(unmapped), srt(uncovered)


# ------------------------------------------------------------------------------------------------

def _hammer(stop, url_list, counters, idx, fan_after):
    """fan_after: time.time() before which the /fan/ endpoints are left alone (marshalling a fan while its RPM
    monitor inserts into FanCurveData aborts the daemon within a second or two; odd seeds give the other
    activities some time first)"""
    rnd = random.Random(idx)
    while not stop.is_set():
        u = url_list[rnd.randrange(len(url_list))]
        if "/fan/" in u and time.time() < fan_after:
            continue
        try:
            with urllib.request.urlopen(u, timeout=2) as r:
                r.read()
            counters[idx] += 1
        except Exception:
            time.sleep(0.005)


def _put(path, text):
    tmp = path + ".tmp"
    with open(tmp, "w") as f:
        f.write(text)
    os.replace(tmp, path)   # atomic: the daemon never sees an empty file


def _wiggle(stop, chip, base, nfans, file_fans, seed, fault_at):
    """keeps the fake device files changing: temperatures, RPMs (incl. 0 = stall), now and then a third party
    PWM write; shortly before the end the sensor file turns unreadable once (error path of the curves)"""
    rnd = random.Random(seed)
    faulted = False
    while not stop.is_set():
        try:
            if not faulted and time.time() >= fault_at:
                faulted = True
                _put(os.path.join(chip, "temp1_input"), "x\n")
                time.sleep(0.05)
            # the two unused sensors fail TOGETHER for ~0.15 s about once a second, all through the run (the daemon may be
            # gone before the end: the known concurrent-map abort)
            if os.path.exists(os.path.join(base, "sx1_input")):
                bad = (time.time() % 1.1) < 0.15
                for k in (1, 2):
                    _put(os.path.join(base, f"sx{k}_input"), "x\n" if bad else "%d\n" % rnd.randrange(30000, 60000))
            _put(os.path.join(chip, "temp1_input"), "%d\n" % rnd.randrange(25000, 90000))
            i = rnd.randrange(1, nfans + 1)
            # an RPM input is unreadable now and then (EIO while the chip updates its registers; seed C20l: the monitor's retry
            # assigned the control loop's error variable)
            _put(os.path.join(chip, f"fan{i}_input"), rnd.choice(["0\n", "0\n", "300\n", "1000\n", "2500\n", "x\n"]))
            if rnd.randrange(20) == 0:
                _put(os.path.join(chip, f"pwm{i}"), "%d\n" % rnd.randrange(0, 256))
            for j in range(1, file_fans + 1):
                _put(os.path.join(base, f"filefan{j}_rpm"), rnd.choice(["0\n", "0\n", "500\n", "2000\n", "x\n"]))
            if os.path.exists(os.path.join(base, "cmdfan_rpm")):
                _put(os.path.join(base, "cmdfan_rpm"), "%d\n" % rnd.choice([0, 0, 700]))
                _put(os.path.join(base, "s2_input"), "%d\n" % rnd.randrange(25000, 90000))
                _put(os.path.join(base, "s3_input"), "%d\n" % rnd.randrange(25000, 90000))
        except Exception:
            pass
        time.sleep(0.003)


def build_race_binary():
    """gobuild.build("fan2go", race=True) with inlining switched off in the module's packages, so that the frames
    and lines of the reports are those of the source functions (an inlined setter's parameter spill is otherwise
    attributed to the caller's line)."""
    flags = gobuild.GOENV.get("GOFLAGS", "")
    gobuild.GOENV["GOFLAGS"] = (flags + " -gcflags=github.com/markusressel/fan2go/...=-l").strip()
    try:
        return gobuild.build("fan2go", race=True, out=os.path.join(gobuild.BUILD, "veriffan2go-race-noinline"))
    finally:
        gobuild.GOENV["GOFLAGS"] = flags


def build_race_harness():
    """the correspondence harness built with -race (inlining off in the module's packages, as for the daemon)"""
    flags = gobuild.GOENV.get("GOFLAGS", "")
    gobuild.GOENV["GOFLAGS"] = (flags + " -gcflags=github.com/markusressel/fan2go/...=-l").strip()
    try:
        return gobuild.build("harness", race=True, out=os.path.join(gobuild.BUILD, "verifharness-race-noinline"))
    finally:
        gobuild.GOENV["GOFLAGS"] = flags


def shared_curve_run(seed=0, tier="quick", data=None):
    """ONE curve object (linear / pid / function) shared by several real fan controllers whose control loops are
    released at the same instant (go/harness/racecurve.go, harness built with -race). Returns a dict shaped like a
    race_run result. Exercises what the daemon runs rarely line up: the very first evaluations of a shared curve."""
    import subprocess
    if data is None:
        from . import accessgen
        data = accessgen.extract()
    binary = build_race_harness()
    rounds = 12 if tier == "quick" else 60
    wd = tempfile.mkdtemp(prefix="c20rc-")
    res = {"seed": seed, "curve": "shared:linear,pid,function", "nfans": 4, "warm": False, "quiet": True, "crashed": False,
           "requests": 0}
    try:
        ops = ["#case rc"] + [f"rc.shared kind={k} loops={2 + (seed + i) % 4} rounds={rounds} cycles=12"
                              for i, k in enumerate(["function", "linear", "pid", "function"])]
        # controllers that share nothing (own sensor, own step curve, own fan), all at once
        ops += [f"rc.indep loops={10 + seed % 7} rounds={max(6, rounds // 2)} cycles=80"]
        # one sensor object under its monitor, control loops and scrapes while its input fails and recovers
        ops += [f"rc.sensor kind={k} readers={2 + (seed + i) % 3} rounds={max(2, rounds // (6 if k == 'cmd' else 2))}"
                for i, k in enumerate(["file", "hwmon", "cmd"])]
        # a fan with a configured PWM map through the real start-up while the real REST handlers encode it
        ops += [f"rc.cfgmap rounds={4 if tier == 'quick' else 12}"]
        open(os.path.join(wd, "ops"), "w").write("\n".join(ops) + "\n")
        env = dict(os.environ, GORACE="halt_on_error=0 history_size=2", GOMAXPROCS="8")
        env.pop("DISPLAY", None)
        r = subprocess.run([binary, os.path.join(wd, "ops"), os.path.join(wd, "out")], stdout=subprocess.PIPE,
                           stderr=subprocess.PIPE, text=True, timeout=600, env=env)
        reports = parse_reports(r.stderr)
        pairs, unmapped, uncovered = map_reports(reports, data)
        out = open(os.path.join(wd, "out")).read() if os.path.exists(os.path.join(wd, "out")) else ""
        res.update({"reports": len(reports), "pairs": pairs, "unmapped": unmapped, "not_in_table": uncovered,
                    "rc": r.returncode, "ran": out.count("ok rounds="), "log_tail": r.stderr[-1500:]})
    finally:
        shutil.rmtree(wd, ignore_errors=True)
    return res


def race_run(seed=0, seconds=8.0, tier="quick", data=None, keep=False, curve=None, warm=False, quiet=False):
    """one race-detector run. `data` = the extractor's JSON (build/access.json is used when None).
    warm: the fans are characterised by a first, short run, so that in the measured run all control loops start at the
    same moment (races of first-use initialisation); quiet: no API load (the daemon is not killed by the known
    'concurrent map' abort before the control loops have met each other)."""
    if data is None:
        from . import accessgen
        try:
            data = json.load(open(accessgen.JSON_OUT))
        except Exception:
            data = accessgen.extract()
    binary = build_race_binary()
    nfans = 3 if tier == "quick" else 4
    file_fans = 2   # two file fans with an RPM input: whatever file / cmd fans share behind their methods is written by two monitors (seed C20i)
    curve = curve or ["pid", "linear", "function"][seed % 3]
    base = tempfile.mkdtemp(prefix="c20race-")
    res = {"seed": seed, "seconds": seconds, "curve": curve, "nfans": nfans, "file_fans": file_fans, "warm": warm, "quiet": quiet}
    d = None
    try:
        chip, jpath = daemon.make_tree(base, nfans=nfans)
        api_port, stats_port = _free_port(), _free_port()
        extras = tier != "quick"
        cfg = make_config(base, chip, nfans, curve, api_port, stats_port, file_fans=file_fans, never_stop=(seed % 2 == 0),
                          extras=extras, pwm_map_override=(seed % 3 != 2), default_algo=(seed % 2 == 1))
        if warm:
            d0 = daemon.Daemon(binary, base, cfg, jpath, extra_env={"GORACE": "halt_on_error=0 history_size=2", "GOMAXPROCS": "4"})
            try:
                d0.wait_regulating(chip, nfans=nfans + file_fans + (1 if extras else 0), timeout=60.0)
                d0.signal(signal.SIGTERM)
                d0.wait(timeout=30.0)
            finally:
                d0.close()
        d = daemon.Daemon(binary, base, cfg, jpath,
                          extra_env={"GORACE": "halt_on_error=0 history_size=2", "GOMAXPROCS": "4"})
        api = f"http://127.0.0.1:{api_port}"
        urls = [api + "/fan/", api + "/fan/f1/", api + "/fan/f2/", api + "/fan/ff1/", api + "/fan/ff2/", api + "/curve/", api + "/curve/c1/",
                api + "/sensor/", api + "/sensor/s1/", f"http://127.0.0.1:{stats_port}/metrics",
                f"http://127.0.0.1:{stats_port}/metrics"]
        urls.append(api + f"/fan/f{nfans}/")
        if extras:
            urls += [api + "/fan/cf1/", api + "/sensor/s2/", api + "/sensor/s3/", api + "/curve/cx/"]
        stop = threading.Event()
        nthreads = 0 if quiet else 4 if tier == "quick" else 6
        counters = [0] * nthreads
        fan_after = time.time() + (0.6 * seconds + 3.0 if seed % 2 == 1 else 0.0)
        threads = [threading.Thread(target=_hammer, args=(stop, urls, counters, i, fan_after), daemon=True)
                   for i in range(nthreads)]
        fault_at = time.time() + seconds + 2.0   # ~ when the measured window ends (start-up takes a moment)
        threads.append(threading.Thread(target=_wiggle, args=(stop, chip, base, nfans, file_fans, seed, fault_at), daemon=True))
        for t in threads:
            t.start()   # from the very beginning: the start-up part of the controllers races with requests too
        regulating = d.wait_regulating(chip, nfans=nfans + file_fans + (1 if extras else 0), timeout=60.0)
        t0 = time.time()
        while time.time() - t0 < seconds and d.p.poll() is None:
            time.sleep(0.05)
        while time.time() < fault_at + 0.4 and d.p.poll() is None:
            time.sleep(0.05)
        died_early = d.p.poll() is not None
        d.signal(signal.SIGTERM)
        rc = d.wait(timeout=30.0)
        stop.set()
        for t in threads:
            t.join(timeout=3)
        text = d.logtext()
        reports = parse_reports(text)
        pairs, unmapped, uncovered = map_reports(reports, data)
        crashed = "fatal error:" in text or bool(re.search(r"^panic: ", text, re.M))
        res.update({"reports": len(reports), "pairs": pairs, "unmapped": unmapped, "not_in_table": uncovered,
                    "crashed": crashed, "exited_early": died_early, "fatal": re.findall(r"^fatal error: .*$", text, re.M)[:3],
                    "regulating": regulating, "rc": rc, "requests": sum(counters),
                    "log_tail": text[-1500:]})
    finally:
        if d is not None:
            d.close()
        if keep:
            res["dir"] = base
        else:
            shutil.rmtree(base, ignore_errors=True)
    return res


def summarize(runs):
    """merge several race_run results"""
    tot = {"runs": len(runs), "reports": sum(r.get("reports", 0) for r in runs), "crashed": [r["seed"] for r in runs if r.get("crashed")],
           "requests": sum(r.get("requests", 0) for r in runs)}
    for name in ("pairs", "unmapped", "not_in_table"):
        m = {}
        for r in runs:
            for e in r.get(name, []):
                k = (e.get("key", e.get("functions")), e["kindA"], e["kindB"])
                if k in m:
                    m[k]["n"] += e["n"]
                else:
                    m[k] = dict(e)
        tot[name] = [m[k] for k in sorted(m)]
    return tot


if __name__ == "__main__":
    nseeds = int(sys.argv[1]) if len(sys.argv) > 1 else 3
    secs = float(sys.argv[2]) if len(sys.argv) > 2 else 8.0
    tier = sys.argv[3] if len(sys.argv) > 3 else "quick"
    runs = []
    for s in range(nseeds):
        r = race_run(s, secs, tier)
        runs.append(r)
        print("seed %d curve=%s: %d reports, %d mapped triples, %d unmapped, %d not in table, crashed=%s rc=%s requests=%d regulating=%s %s"
              % (s, r["curve"], r["reports"], len(r["pairs"]), len(r["unmapped"]), len(r["not_in_table"]), r["crashed"], r["rc"],
                 r["requests"], r["regulating"], r["fatal"]))
    t = summarize(runs)
    print(json.dumps(t, indent=1))
