"""Lean side of a check: build the property module, audit axioms, scan for forbidden tokens."""
import os
import re
import subprocess
import time

from . import gobuild

VERIF = gobuild.VERIF
LEAN_DIR = os.path.join(VERIF, "lean")
ALLOWED_AXIOMS = {"propext", "Classical.choice", "Quot.sound"}
FORBIDDEN = re.compile(r"\b(sorry|admit|native_decide|bv_decide|implemented_by)\b|^\s*axiom\s|\bunsafe\s|maxHeartbeats\s+0\b", re.M)


def strip_comments(src):
    # remove block comments (nested) and line comments
    out = []
    i, depth, n = 0, 0, len(src)
    while i < n:
        if src.startswith("/-", i):
            depth += 1
            i += 2
        elif depth and src.startswith("-/", i):
            depth -= 1
            i += 2
        elif depth:
            if src[i] == "\n":
                out.append("\n")
            i += 1
        elif src.startswith("--", i):
            while i < n and src[i] != "\n":
                i += 1
        else:
            out.append(src[i])
            i += 1
    return "".join(out)


def lean_files():
    res = []
    for root, _, files in os.walk(LEAN_DIR):
        if ".lake" in root:
            continue
        for f in files:
            if f.endswith(".lean"):
                res.append(os.path.join(root, f))
    return sorted(res)


def scan_forbidden():
    hits = []
    for p in lean_files():
        code = strip_comments(open(p).read())
        # string literals may legitimately contain words; drop them
        code = re.sub(r'"(\\.|[^"\\])*"', '""', code)
        for m in FORBIDDEN.finditer(code):
            line = code.count("\n", 0, m.start()) + 1
            hits.append(f"{os.path.relpath(p, LEAN_DIR)}:{line}: {m.group(0).strip()}")
    return hits


def lake_build(targets, timeout=3600):
    t0 = time.time()
    r = subprocess.run(["lake", "build"] + targets, cwd=LEAN_DIR, stdout=subprocess.PIPE, stderr=subprocess.STDOUT,
                       text=True, timeout=timeout)
    return r.returncode, r.stdout, time.time() - t0


def theorem_names(module):
    """fully qualified names of the property theorems (`theorem Cxx_...`) declared in a Props module"""
    path = os.path.join(LEAN_DIR, module.replace(".", "/") + ".lean")
    code = strip_comments(open(path).read())
    stack, names = [], []
    for line in code.split("\n"):
        m = re.match(r"^\s*namespace\s+(\S+)", line)
        if m:
            stack.append(m.group(1))
            continue
        m = re.match(r"^\s*end\s+(\S+)\s*$", line)
        if m and stack and stack[-1] == m.group(1):
            stack.pop()
            continue
        m = re.match(r"^\s*(?:@\[[^\]]*\]\s*)?(?:protected\s+|private\s+)?theorem\s+([A-Za-z_][\w'.]*)", line)
        if m and re.match(r"^(C\d\d|fact|trans\d*)_", m.group(1).split(".")[-1]):
            names.append(".".join(stack + [m.group(1)]))
    return names


def audit(modules, tag):
    """#print axioms for every property theorem of the given modules. Returns
    (results: {name: [axioms] or None}, raw output)."""
    names = []
    for m in modules:
        names += theorem_names(m)
    os.makedirs(os.path.join(VERIF, "build"), exist_ok=True)
    path = os.path.join(VERIF, "build", f"audit_{tag}.lean")
    with open(path, "w") as f:
        for m in modules:
            f.write(f"import {m}\n")
        for n in names:
            f.write(f"#print axioms {n}\n")
    r = subprocess.run(["lake", "env", "lean", path], cwd=LEAN_DIR, stdout=subprocess.PIPE, stderr=subprocess.STDOUT,
                       text=True, timeout=1800)
    out = r.stdout
    res = {n: None for n in names}
    for m in re.finditer(r"'(\S+)' depends on axioms: \[([^\]]*)\]", out):
        res[m.group(1)] = [a.strip() for a in m.group(2).split(",") if a.strip()]
    for m in re.finditer(r"'(\S+)' does not depend on any axioms", out):
        res[m.group(1)] = []
    return res, out, r.returncode


def leanchecker(modules, timeout=3600):
    r = subprocess.run(["lake", "env", "leanchecker"] + modules, cwd=LEAN_DIR, stdout=subprocess.PIPE,
                       stderr=subprocess.STDOUT, text=True, timeout=timeout)
    return r.returncode, r.stdout[-3000:]
