"""Op-file generator for the `ps` stream (C14: internal/persistence against a real bbolt file).

Each case: `#case ps`, `ps.open`, then a random sequence of save / load / delete / reopen / putraw
operations over 4 fan ids x 2 kinds (plus, rarely, ids that bbolt rejects)."""
from .gen import bx, f2bits, finite_float_bits
from .streams import int_map_tok, float_map_tok, gen_pwm_map

IDS = ["fanA", "fanB", "cpu_fan-1", "f"]
KINDS = ["rpm", "map"]

NONFINITE_BITS = [0x7FF0000000000000, 0xFFF0000000000000, 0x7FF8000000000001, 0xFFF8000000000000,
                  0x7FF0000000000001]
INTERESTING_BITS = [
    0x7E37E43C8800759C,  # 1e300
    0xFE37E43C8800759C,  # -1e300
    0x7FEFFFFFFFFFFFFF,  # max finite
    0x0000000000000001,  # smallest subnormal
    0x000FFFFFFFFFFFFF,  # largest subnormal
    0x0010000000000000,  # smallest normal
    0x8000000000000000,  # -0
    0x3FB999999999999A,  # 0.1
    0x3FD5555555555555,  # 1/3
    0x4340000000000001,  # 2^53 + 2
    0x444B1AE4D6E2EF50,  # 1e21 (JSON switches to exponent form)
    0x3EB0C6F7A0B5ED8D,  # 1e-6
    0x3E7AD7F29ABCAF48,  # 1e-7 (exponent form)
]


def _raw(text, rpm, mp):
    """raw bytes + what json.Unmarshal does with them into a nil map[int]float64 / map[int]int
    (`dec` token: bad | bad:<map left behind> | ok:<map>); maps given as python dicts / None"""
    def tok(d, fl):
        if d == "bad":
            return "bad"
        st, m = d
        if fl and m:
            m = {k: float(v) for k, v in m.items()}
        return st + ":" + (float_map_tok(m) if fl else int_map_tok(m))
    return (text.encode().hex() or "-", tok(rpm, True), tok(mp, False))


OK, BAD = "ok", "bad"
# (hex, dec for kind rpm, dec for kind map)
RAW_TABLE = [
    # not JSON at all: the syntax check fails before anything is stored -> map variable stays nil
    _raw("zz", BAD, BAD),
    _raw("{", BAD, BAD),
    _raw("[1,2", BAD, BAD),
    _raw("", BAD, BAD),
    _raw('{"1":2}garbage', BAD, BAD),
    ("00fffe", "bad", "bad"),  # not even UTF-8
    # JSON whose top-level value is not an object: type error, map variable stays nil
    _raw("[1,2]", BAD, BAD),
    _raw("7", BAD, BAD),
    _raw('"s"', BAD, BAD),
    _raw("true", BAD, BAD),
    # decodes fine (hand-written forms Save* never produces)
    _raw("null", (OK, None), (OK, None)),
    _raw("{}", (OK, {}), (OK, {})),
    _raw(' { "1" : 2 } ', (OK, {1: 2}), (OK, {1: 2})),
    _raw('{"1":null}', (OK, {1: 0}), (OK, {1: 0})),
    _raw('{"1":2,"1":3}', (OK, {1: 3}), (OK, {1: 3})),
    _raw('{"-3":2.5e0,"7":1E2}', (OK, {-3: 2.5, 7: 100.0}), (BAD, {-3: 0, 7: 0})),
    _raw('{"1":1.5}', (OK, {1: 1.5}), (BAD, {1: 0})),
    # an object of the wrong shape: the decoder reports the first type error but keeps going,
    # the map holds whatever could be decoded (zero value for an undecodable element)
    _raw('{"1":2,"x":3}', (BAD, {1: 2}), (BAD, {1: 2})),
    _raw('{"a":1,"2":3}', (BAD, {2: 3}), (BAD, {2: 3})),
    _raw('{"1":"a"}', (BAD, {1: 0}), (BAD, {1: 0})),
    _raw('{"1.0":2}', (BAD, {}), (BAD, {})),
    _raw('{"1":1e400}', (BAD, {1: 0}), (BAD, {1: 0})),
    _raw('{"1":{"a":2},"2":5}', (BAD, {1: 0, 2: 5}), (BAD, {1: 0, 2: 5})),
    _raw('{"20":[900,910],"40":[1500]}', (BAD, {20: 0, 40: 0}), (BAD, {20: 0, 40: 0})),  # map[int][]float64
    _raw('{"9223372036854775808":1}', (BAD, {}), (BAD, {})),
]


def gen_rpm_data(r):
    """token for data= of ps.saverpm, with the flag `finite`"""
    style = r.below(12)
    if style == 0:
        return "-"
    if style == 1:
        return r.pick(["nil", "nilptr", "-"])
    n = r.pick([1, 1, 2, 3, 5, 8, 20, 60])
    if style in (2, 3):
        keys = set(r.range(-300, 600) for _ in range(n))
    elif style == 4:
        keys = set(r.pick([-2**63, -2**62, -10**9, -1, 0, 1, 255, 10**9, 2**62, 2**63 - 1]) for _ in range(n))
    else:
        keys = set(r.range(0, 255) for _ in range(n))
    m = {}
    for k in keys:
        c = r.below(10)
        if c == 0:
            m[k] = r.pick(INTERESTING_BITS)
        elif c == 1:
            m[k] = f2bits(r.range(-10**6, 10**6) / 1000.0)
        elif c == 2:
            m[k] = r.below(1 << 20)  # subnormal
        elif c < 6:
            m[k] = finite_float_bits(r)
        else:
            m[k] = f2bits(float(r.range(0, 6000)))
    if m and r.chance(0.12):
        m[r.pick(sorted(m))] = r.pick(NONFINITE_BITS)  # json.Marshal must refuse this map
    return ",".join(f"{k}:{bx(v)}" for k, v in sorted(m.items())) if m else "-"


def gen_int_map(r):
    style = r.below(10)
    if style == 0:
        return "-"
    if style == 1:
        return "nil"
    if style < 5:
        return int_map_tok(gen_pwm_map(r))
    n = r.pick([1, 2, 3, 6, 15])
    big = [-2**63, -2**62, -10**12, -1, 0, 1, 255, 256, 10**12, 2**62, 2**63 - 1]
    if style < 8:
        m = {r.range(-300, 600): r.range(-300, 600) for _ in range(n)}
    else:
        m = {r.pick(big): r.pick(big) for _ in range(n)}
    return int_map_tok(m)


def gen_id(r):
    c = r.below(250)
    if c == 0:
        return ""            # bbolt: ErrKeyRequired
    if c == 1:
        return "L" * 32769   # bbolt: ErrKeyTooLarge
    if c == 2:
        return "M" * 32768   # the longest key bbolt accepts
    return r.pick(IDS)


def gen_persist(r, ncases, maxlen=60):
    ops = []
    # several saves in flight at once (queued behind the database file lock), on one and on several scheduler threads
    for k in range(3 if ncases < 100 else 20):
        ops += ["#case ps parallel", "ps.open", f"ps.parallel n={r.range(3, 8)} seed={r.range(1, 99)} procs={r.pick([1, 1, 0])} hold_ms={r.range(10, 60)}",
                f"ps.parallel n={r.range(3, 8)} seed={r.range(1, 99)} procs={r.pick([1, 0])} hold_ms={r.range(10, 60)}"]
    # the deletion of the database's only entry and a save, both waiting for the database file (seed C14i: the deleter
    # removed the emptied file under the waiting save)
    for k in range(2 if ncases < 100 else 10):
        ops += ["#case ps delsave", "ps.open", f"ps.delsave trials={r.pick([6, 10])} seed={r.range(1, 99)} hold_ms={r.pick([15, 25, 40])}"]
    busy_left = 4 if ncases < 100 else 40   # each costs its hold time
    for _ in range(2 if ncases < 1000 else 8):
        # several controllers look their stored entries up again and again, each at its own pace
        ops += ["#case ps lookups", "ps.open", f"ps.lookups workers={r.pick([2, 3, 4, 6])} ms={3000 if ncases < 1000 else 6000} seed={r.range(1, 99)}"]
    for _ in range(2 if ncases < 1000 else 10):
        # a database that is mostly unused pages when a controller starts up (Init) under a held lock, saves queued behind it
        ops += ["#case ps sparse", "ps.open", f"ps.initsparse rounds=2 savers={r.pick([3, 4, 5])} hold_ms={r.pick([40, 60, 90])} n=24"]
    for _ in range(ncases):
        ops.append("#case ps")
        ops.append("ps.open")
        n = r.range(1, maxlen)
        # some cases concentrate on one or two ids so that overwrite / delete / reload chains are long
        ids_bias = r.sample(IDS, r.pick([1, 2, 4]))
        last_saved = {}   # (kind, id) -> token of the last saved map
        for _ in range(n):
            fid = gen_id(r)
            if fid in IDS and r.chance(0.7):
                fid = r.pick(ids_bias)
            kind = r.pick(KINDS)
            c = r.below(100)
            if last_saved and busy_left > 0 and r.chance(0.04):
                # another controller starts (Init) while this database is being used by someone else for a while (seed
                # C14g: a start-up probe took the held file lock for corruption and moved the database aside)
                busy_left -= 1
                ops.append(f"ps.initbusy hold_ms={r.pick([120, 150, 250])}")
                for (k2, f2) in list(last_saved)[:3]:
                    ops.append(f"ps.load{k2} id={f2}")
                continue
            if c < 28:
                tok = gen_rpm_data(r) if kind == "rpm" else gen_int_map(r)
                prev = last_saved.get((kind, fid))
                if prev and "," in prev and r.chance(0.35):
                    # overwrite with a RELATED map: a strict subset of what is stored (same values), or the same keys with
                    # one value changed - an overwrite must take effect whatever the new content has in common with the old
                    ents = prev.split(",")
                    if r.chance(0.6):
                        keep = [e for e in ents if r.chance(0.6)] or ents[:1]
                        tok = ",".join(keep)
                    else:
                        k0, v0 = ents[0].split(":")
                        ents[0] = k0 + ":" + (v0[:-1] + ("1" if v0[-1] != "1" else "2"))
                        tok = ",".join(ents)
                if kind == "rpm":
                    ops.append(f"ps.saverpm id={fid} data={tok}")
                else:
                    ops.append(f"ps.savemap id={fid} m={tok}")
                last_saved[(kind, fid)] = tok
                ops.append(f"ps.load{kind} id={fid}")
            elif c < 62:
                ops.append(f"ps.load{kind} id={fid}")
            elif c < 72:
                ops.append(f"ps.del{kind} id={fid}")
            elif c < 82:
                ops.append("ps.reopen")
            elif c < 94:
                hx, drpm, dmap = r.pick(RAW_TABLE)
                ops.append(f"ps.putraw kind={kind} id={fid} hex={hx} dec={drpm if kind == 'rpm' else dmap}")
            else:
                # read everything back
                for k in KINDS:
                    for i in IDS:
                        ops.append(f"ps.load{k} id={i}")
    return ops


def gen_persist_crash(r, ncases, maxlen=30, maxdelay_us=4000):
    """Like gen_persist, with `ps.crashsave` operations mixed in: a child process performing the
    save is killed with SIGKILL `delay` microseconds after it announced the call (see
    go/harness/persist_crash.go). Every slot is read back after each crash."""
    ops = []
    for _ in range(ncases):
        ops.append("#case ps")
        ops.append("ps.open")
        for _ in range(r.range(1, maxlen)):
            fid = r.pick(IDS)
            kind = r.pick(KINDS)
            c = r.below(100)
            if c < 30:
                delay = r.pick([0, r.range(0, 300), r.range(0, maxdelay_us)])
                if kind == "rpm":
                    data = gen_rpm_data(r)
                    if data == "nilptr":
                        data = "nil"
                    ops.append(f"ps.crashsave kind=rpm id={fid} data={data} delay={delay}")
                else:
                    ops.append(f"ps.crashsave kind=map id={fid} m={gen_int_map(r)} delay={delay}")
                for k in KINDS:
                    for i in IDS:
                        ops.append(f"ps.load{k} id={i}")
            elif c < 50:
                if kind == "rpm":
                    ops.append(f"ps.saverpm id={fid} data={gen_rpm_data(r)}")
                else:
                    ops.append(f"ps.savemap id={fid} m={gen_int_map(r)}")
            elif c < 75:
                ops.append(f"ps.load{kind} id={fid}")
            elif c < 83:
                ops.append(f"ps.del{kind} id={fid}")
            elif c < 90:
                ops.append("ps.reopen")
            else:
                hx, drpm, dmap = r.pick(RAW_TABLE)
                ops.append(f"ps.putraw kind={kind} id={fid} hex={hx} dec={drpm if kind == 'rpm' else dmap}")
    return ops
