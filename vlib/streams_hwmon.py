"""Generator of the "hw" correspondence stream (property C17: hwmon discovery and binding).

A case = one fake libsensors tree (`hw.tree`), a batch of fan / sensor selectors, multi-entry calls
(`hw.bindsensors` / `hw.bindfans`: 2-4 of those selectors in ONE initializeSensors / initializeFans
call), then the SAME tree with the chips enumerated in another order and the same ops again.

Patterns are drawn from [A-Za-z0-9-] only, for which Go's `(?i)` regexp match equals the
case-insensitive substring test the Lean driver uses.
"""
from .gen import Rng

PREFIXES = ["nct6775", "nct6798", "nct6687", "k10temp", "coretemp", "it8620", "it8628", "amdgpu",
            "NCT6775", "acpitz", "nvme", "dell-smm", "asus-ec", "corsaircpro", "-"]
BUS_TYPES = [0, 1, 1, 1, 2, 2, 4, 5, 6, 8, 3]
ODD_FAN_NAMES = ["fanX", "fan", "fan-1", "fan+4", "fan1_2", "fan2a", "fan01", "fan007", "fan0", "fan-0",
                 "fan99999999999999999999", "fan9223372036854775807", "fan9223372036854775808",
                 "fan_1", "fan--1", "fan12_input", "Fan1", "pwm1", "xfan1", "fan0x10", "fan1e3", "fa",
                 "fan-9223372036854775808", "fan-9223372036854775809"]


# Directed cases (always emitted first): the documented behaviours and the known defect.
HW_DIRECTED = [
    "#case hw directed: sensor index missing on the only matching chip (clean error; nil dereference before /repo 218c45c)",
    "hw.tree spec=k10temp|2|0|195|/nx/c17/hwmon1|T1:temp1",
    "hw.bindsensor platform=k10temp index=1",
    "hw.bindsensor platform=k10temp index=2",
    "hw.bindsensor platform=k10temp-pci-00c3 index=2",
    "hw.bindsensor platform=coretemp index=1",
    "#case hw directed: sensor pattern also matches a chip without that index (fan-only chip is skipped)",
    "hw.tree spec=nct6775|1|0|656|/nx/c17/hwmon2|F1:fan1,T1:temp1,T1:temp2;nct6775|1|0|672|/nx/c17/hwmon3|F1:fan1",
    "hw.bindsensor platform=nct6775 index=1",
    "hw.bindsensor platform=nct6775-isa-0290 index=1",
    "hw.bindfan platform=nct6775 index=1 rpm=0 pwm=0",
    "#case hw directed: ambiguous pattern, fans take the first chip, sensors the last",
    "hw.tree spec=coretemp|1|0|0|/nx/c17/hwmon0|T1:temp1,F1:fan1;coretemp|1|0|1|/nx/c17/hwmon1|T1:temp1,F1:fan1",
    "hw.bindsensor platform=coretemp index=1",
    "hw.bindfan platform=coretemp index=1 rpm=0 pwm=0",
    "hw.tree spec=coretemp|1|0|1|/nx/c17/hwmon1|T1:temp1,F1:fan1;coretemp|1|0|0|/nx/c17/hwmon0|T1:temp1,F1:fan1",
    "hw.bindsensor platform=coretemp index=1",
    "hw.bindfan platform=coretemp index=1 rpm=0 pwm=0",
    "#case hw directed: index = position among accepted features, channel from the name",
    "hw.tree spec=nct6798|1|0|656|/nx/c17/hwmon4|O1:in0,F1:fan2,F1:fanX,F0:fan4,T1:temp1,F3:fan5,T0:temp2,T3:temp3,F1:fan07",
    "hw.bindfan platform=nct6798 index=1 rpm=0 pwm=0",
    "hw.bindfan platform=nct6798 index=2 rpm=0 pwm=0",
    "hw.bindfan platform=nct6798 index=3 rpm=0 pwm=2",
    "hw.bindfan platform=nct6798 index=4 rpm=0 pwm=0",
    "hw.bindfan platform=nct6798 index=0 rpm=5 pwm=0",
    "hw.bindfan platform=nct6798 index=0 rpm=4 pwm=0",
    "hw.bindfan platform=nct6798 index=0 rpm=7 pwm=1",
    "hw.bindsensor platform=nct6798 index=2",
    "hw.bindsensor platform=nct6798 index=3",
    "#case hw directed: a platform pattern that is no regular expression (glob style, unbalanced bracket): an error naming the entry, never a crash",
    "hw.tree spec=nct6798|1|0|2592|/nx/c17/hwmon2|T1:temp1,T1:temp2,F1:fan1",
    "hw.bindsensor platform=*-isa-0a20 index=1",
    "hw.bindsensor platform=nct6798-isa-[0a20 index=1",
    "hw.bindsensor platform=nct6798 index=1",
    "#case hw directed: platform from the path / from the directory name",
    "hw.tree spec=-|0|0|0|/nx/c17/hwmon7|F1:fan1;it8620|1|0|2608|/nx/c17/platform/{}/it87.2608/hwmon8|F1:fan3",
    "hw.bindfan platform=hwmon7 index=1 rpm=0 pwm=0",
    "hw.bindfan platform=it87 index=1 rpm=0 pwm=0",
    "hw.bindfan platform=it8620-isa index=1 rpm=0 pwm=0",
    "#case hw directed: a chip directory with two fan inputs and ONE pwm file: every entry gets the controls of ITS channel",
    "hw.tree spec=thinkpad|1|0|0|@R9|F1:fan1,F1:fan2",
    "hw.files chip=@R9 files=fan1_input+fan2_input+pwm1+pwm1_enable",
    "hw.bindfan platform=thinkpad index=2 rpm=0 pwm=0",
    "hw.bindfan platform=thinkpad index=0 rpm=2 pwm=0",
    "hw.bindfan platform=thinkpad index=1 rpm=0 pwm=3",
    "hw.bindfan platform=thinkpad index=1 rpm=0 pwm=0",
    "#case hw directed: several fan entries in one initializeFans call (independent entries; first failure aborts)",
    "hw.tree spec=nct6798|1|0|656|/nx/c17/hwmon4|F1:fan2,F1:fan5,T1:temp1;coretemp|1|0|0|/nx/c17/hwmon0|T1:temp1,F1:fan1",
    "hw.bindfans sels=nct6798:1:0:0;coretemp:0:1:3",
    "hw.bindfans sels=coretemp:0:1:3;nct6798:1:0:0",
    "hw.bindfans sels=nct6798:2:0:0;nct6798:2:0:0;nct6798:0:2:7",
    "hw.bindfans sels=nct6798:1:0:0;coretemp:0:2:3;zzz:0:0:0",
    "hw.bindfans sels=zzz:0:0:0;nct6798:1:0:0",
    "hw.bindfans sels=:0:0:0;-:0:0:4;nct6798:3:0:0;coretemp:1:0:0",
    "hw.bindsensors sels=nct6798:1;coretemp:1;nct6798:1",
    "hw.bindsensors sels=coretemp:1;coretemp:2;zzz:1",
]


def hex3(n):
    return "%03x" % n


def identifier(chip):
    name = chip["prefix"]
    if name == "":
        name = chip["path"].rsplit("/", 1)[1]
    bt, nr, addr = chip["bus"], chip["nr"], chip["addr"]
    if bt == 1:
        return f"{name}-isa-{nr}{hex3(addr)}"
    if bt == 2:
        return f"{name}-pci-{nr}{hex3(addr)}"
    if bt == 4:
        return f"{name}-virtual-{nr}"
    if bt == 5:
        return f"{name}-acpi-{nr}"
    if bt == 6:
        return f"{name}-hid-{nr}-{addr}"
    if bt == 8:
        return f"{name}-scsi-{nr}-{addr}"
    return name


def platform(chip):
    return chip["path"] if "/platform/{}/" in chip["path"] else identifier(chip)


def gen_features(r, style):
    feats = []
    # fans on an arbitrary channel subset
    nf = 0 if style == "temps-only" else r.pick([0, 1, 2, 3, 4, 6, 12])
    for ch in r.sample(list(range(1, 15)), nf):
        flags = r.pick([1, 1, 1, 1, 3, 0, 4, 5, 7, 2])
        feats.append(f"F{flags}:fan{ch}")
    if r.chance(0.35):
        for _ in range(r.range(1, 2)):
            feats.append(f"F{r.pick([1, 1, 3, 0])}:{r.pick(ODD_FAN_NAMES)}")
    # temperature inputs on arbitrary indices
    nt = 0 if style == "fans-only" else r.pick([0, 1, 2, 3, 5])
    for i in r.sample(list(range(1, 12)), nt):
        flags = r.pick([1, 1, 1, 1, 3, 0, 4, 5, 2])
        feats.append(f"T{flags}:temp{i}")
    for _ in range(r.pick([0, 0, 1, 2])):
        feats.append(f"O{r.pick([0, 1, 3, 5])}:{r.pick(['in0', 'in3', 'power1', 'curr1', 'fan1', 'temp1'])}")
    if r.chance(0.75):
        feats = r.shuffle(feats)
    return feats


def gen_tree(r):
    n = r.pick([0, 1, 1, 2, 2, 2, 3, 3, 3, 4, 4, 4])
    chips = []
    family = r.pick(PREFIXES)  # shared platform substrings are likely
    for k in range(n):
        prefix = family if r.chance(0.35) else r.pick(PREFIXES)
        prefix = "" if prefix == "-" else prefix
        sub = r.pick(["", "", "", "/devices/pci0", "/platform/{}", "/platform/{}/nct6775.656", "/platform/x"])
        chip = {
            "prefix": prefix,
            "bus": r.pick(BUS_TYPES),
            "nr": r.pick([0, 0, 0, 1, 2, -1, 11]),
            "addr": r.pick([0, 1, 0x290, 0x2a0, 0xc3, 0xfff, 0x1000, r.range(0, 70000)]),
            "path": f"/nx/c17{sub}/hwmon{k if r.chance(0.8) else r.range(0, 30)}",
            "feats": gen_features(r, r.pick(["mixed", "mixed", "mixed", "temps-only", "fans-only", "empty"])),
        }
        if r.chance(0.08):
            chip["feats"] = []
        if chips and r.chance(0.12):  # a twin: same platform text as an earlier chip
            twin = r.pick(chips)
            chip.update(prefix=twin["prefix"], bus=twin["bus"], nr=twin["nr"], addr=twin["addr"])
            if r.chance(0.5):
                chip["path"] = twin["path"]
        chips.append(chip)
    return chips


def tree_tok(chips):
    if not chips:
        return "-"
    out = []
    for c in chips:
        feats = ",".join(c["feats"]) if c["feats"] else "-"
        out.append(f"{c['prefix'] or '-'}|{c['bus']}|{c['nr']}|{c['addr']}|{c['path']}|{feats}")
    return ";".join(out)


def randcase(r, s):
    return "".join((ch.upper() if r.chance(0.5) else ch.lower()) if r.chance(0.3) else ch for ch in s)


def alnum_runs(s):
    runs, cur = [], ""
    for ch in s:
        if ch.isalnum() or ch == "-":
            cur += ch
        else:
            if cur:
                runs.append(cur)
            cur = ""
    if cur:
        runs.append(cur)
    return runs


def gen_pattern(r, chips):
    """a pattern over [A-Za-z0-9-]: full platform, a piece of one, a shared stem, empty, or absent"""
    k = r.below(10)
    if not chips or k == 0:
        return r.pick(["zzz", "nct9999", "hwmon99", "k10temp-pci-99", "x", "Q7"])
    if k == 1:
        return ""
    c = r.pick(chips)
    runs = alnum_runs(platform(c)) or ["zzz"]
    if k <= 5:
        p = r.pick(runs) if "/" in platform(c) else platform(c)   # the whole identifier
    elif k <= 7:
        s = r.pick(runs)
        i = r.below(len(s))
        j = r.range(i + 1, len(s))
        p = s[i:j]
    elif k == 8:
        s = r.pick(runs)
        p = s[:r.pick([2, 3, 4])]
    else:
        p = r.pick(["hwmon", "temp", "nct", "isa", "pci", "-", "0", "it86", "c17", "platform", "nx"])
    return randcase(r, p)


def fan_channels(chip):
    """channels of the fans GetFans will create, in order (mirror of the documented behaviour,
    used only to aim selectors)"""
    import re
    out = []
    for f in chip["feats"]:
        head, name = f.split(":", 1)
        if head[0] != "F" or int(head[1:]) % 2 == 0:
            continue
        m = re.match(r"^fan([+-]?\d+)", name)
        if m and -2**63 <= int(m.group(1)) < 2**63:
            out.append(int(m.group(1)))
    return out


def temp_count(chip):
    return sum(1 for f in chip["feats"] if f[0] == "T" and int(f.split(":", 1)[0][1:]) % 2 == 1)


def gen_fan_sel(r, chips):
    pat = gen_pattern(r, chips)
    cands = [c for c in chips if pat.lower() in platform(c).lower()] or chips
    chans = fan_channels(r.pick(cands)) if cands else []
    index = rpm = 0
    mode = r.below(10)
    if mode <= 3:      # by rpm channel
        rpm = r.pick(chans) if chans and r.chance(0.75) else r.range(1, 10)
    elif mode <= 6:    # by index
        index = r.range(1, len(chans)) if chans and r.chance(0.75) else r.pick([len(chans) + 1, 9, 100])
    elif mode == 7:    # both
        if chans and r.chance(0.6):
            index = r.range(1, len(chans))
            rpm = chans[index - 1] if r.chance(0.6) else r.range(1, 10)
        else:
            index, rpm = r.range(1, 5), r.range(1, 10)
    elif mode == 8:    # neither: first fan of the first matching chip
        pass
    else:              # non-positive values are "not given"
        index, rpm = r.pick([-1, 0, -5]), r.pick([-2, 0, 3])
    pwm = r.pick([0, 0, 0, 0, r.range(1, 9), r.range(1, 9), rpm, -1, 12])
    return f"hw.bindfan platform={pat} index={index} rpm={rpm} pwm={pwm}"


def gen_sensor_sel(r, chips):
    pat = gen_pattern(r, chips)
    cands = [c for c in chips if pat.lower() in platform(c).lower()] or chips
    n = temp_count(r.pick(cands)) if cands else 0
    k = r.below(10)
    if k <= 5 and n > 0:
        index = r.range(1, n)
    elif k <= 7:
        index = r.pick([n + 1, n + 2, 12, 100])
    else:
        index = r.pick([0, -1, 1])
    return f"hw.bindsensor platform={pat} index={index}"


def fan_sel_hits(chips, op):
    """does this hw.bindfan selector name a device? (mirror of the documented behaviour, used only to aim
    the multi-entry calls at the all-entries-bound path)"""
    kvs = dict(t.split("=", 1) for t in op.split()[1:])
    pat, index, rpm = kvs.get("platform", ""), int(kvs.get("index", "0")), int(kvs.get("rpm", "0"))
    for c in chips:
        if pat.lower() not in platform(c).lower():
            continue
        for i, ch in enumerate(fan_channels(c)):
            if (index <= 0 or i + 1 == index) and (rpm <= 0 or ch == rpm):
                return True
    return False


def gen_hwmon_case(r):
    chips = gen_tree(r)
    files_ops = []
    if r.chance(0.35):
        # some chips live in REAL directories holding their fan inputs and PWM controls for a SUBSET of the channels (often a
        # single pwm file): an entry is bound to the controls of the channel it names whatever else the directory holds
        # (seed C17h: "the only pwm file there is" was taken instead of the missing one)
        named = [c for c in chips if c["prefix"]]
        for k, c in enumerate(r.sample(named, min(len(named), 2))):
            c["path"] = f"@R{k}"
            chans = [ch for ch in fan_channels(c) if 0 < ch < 100]
            have = r.sample(chans, 1) if chans and r.chance(0.6) else [ch for ch in chans if r.chance(0.5)]
            fl = [f"fan{ch}_input" for ch in chans] + [f"pwm{ch}" for ch in have] + [f"pwm{ch}_enable" for ch in have]
            files_ops.append(f"hw.files chip=@R{k} files={'+'.join(fl)}")
    ops = ["#case hw", f"hw.tree spec={tree_tok(chips)}"] + files_ops
    sels = []
    for _ in range(r.range(5, 9)):
        sels.append(gen_fan_sel(r, chips))
    for _ in range(r.range(4, 8)):
        sels.append(gen_sensor_sel(r, chips))
    sels = r.shuffle(sels)
    ops += sels
    # several entries in ONE initializeSensors / initializeFans call (an entry must not inherit anything from
    # an earlier one; the first entry without a device aborts the call)
    multi = []
    ssel = [x for x in sels if x.startswith("hw.bindsensor ")]
    for _ in range(2):
        pick = [r.pick(ssel) for _ in range(r.range(2, 4))]
        toks = []
        for x in pick:
            kvs = dict(t.split("=", 1) for t in x.split()[1:])
            toks.append(f"{kvs.get('platform', '')}:{kvs.get('index', '0')}")
        multi.append("hw.bindsensors sels=" + ";".join(toks))
    fsel = [x for x in sels if x.startswith("hw.bindfan ")]
    for k in range(3):
        n = r.range(2, 4)
        # k = 0: any entries (with repetitions); k = 1: distinct entries (mostly ones that name a device); k = 2: a permutation / sub-list of the previous call
        if k == 0:
            pick = [r.pick(fsel) for _ in range(n)]
        elif k == 1:
            good = [x for x in fsel if fan_sel_hits(chips, x)]
            pool = good if len(good) >= 2 and r.chance(0.7) else fsel
            pick = r.sample(pool, min(n, len(pool)))
        else:
            pick = r.shuffle(pick)
            if len(pick) > 2 and r.chance(0.4):
                pick = pick[:-1]
        toks = []
        for x in pick:
            kvs = dict(t.split("=", 1) for t in x.split()[1:])
            toks.append(f"{kvs.get('platform', '')}:{kvs.get('index', '0')}:{kvs.get('rpm', '0')}:{kvs.get('pwm', '0')}")
        multi.append("hw.bindfans sels=" + ";".join(toks))
    ops += multi
    if len(chips) > 1:
        # same tree, chips enumerated in another order, same selectors and multi-entry calls
        ops.append(f"hw.tree spec={tree_tok(r.shuffle(chips))}")
        ops += sels
        ops += multi
    return ops


def gen_hwmon(r, ncases, directed=True):
    ops = list(HW_DIRECTED) if directed else []
    for _ in range(ncases):
        ops += gen_hwmon_case(r.fork())
    return ops
