"""Build the Go harness INTO the fan2go module from /repo's current working tree.

Nothing is written under /repo: harness sources, export shims, the verifhook package, the
gosensors stand-in and mechanically rewritten copies of a few fan2go files are injected with
`go build -tags verif -modfile <alt.mod> -overlay <overlay.json>`.
"""
import json
import os
import re
import shutil
import subprocess

VERIF = os.path.dirname(os.path.dirname(os.path.abspath(__file__)))
REPO = os.environ.get("VERIF_REPO", "/repo")
BUILD = os.path.join(VERIF, "build")
GO_DIR = os.path.join(VERIF, "go")

GOENV = dict(os.environ)
GOENV.update({
    "GOFLAGS": "-mod=mod", "GOPROXY": "off", "GOSUMDB": "off", "GOTOOLCHAIN": "local",
    "CGO_ENABLED": "0",
})
GOENV.pop("DISPLAY", None)

HOOK_IMPORT = 'import verifhook "github.com/markusressel/fan2go/internal/verifhook"\n'

# file -> list of (regex, replacement, minimum number of expected hits)
REWRITES = {
    "internal/util/file.go": [
        (r"\bos\.ReadFile\(", "verifhook.ReadFile(", 1),
        (r"\bos\.WriteFile\(", "verifhook.WriteFile(", 1),
        (r"\batomic\.WriteFile\(", "verifhook.AtomicWriteFile(", 1),
    ],
    "internal/util/pid.go": [
        (r"\btime\.Now\(\)", "verifhook.Now()", 1),
    ],
    # linear and function curves read no clock today; one that is added (a per-tick memo, a rate limit) reads the virtual
    # clock the streams control (`cv.eval now=`) instead of the wall clock, which hardly moves during a run (seed C07l)
    "internal/curves/curve.go": [(r"\btime\.Now\(\)", "verifhook.Now()", 0)],
    "internal/curves/functional.go": [(r"\btime\.Now\(\)", "verifhook.Now()", 0)],
    "internal/curves/linear.go": [(r"\btime\.Now\(\)", "verifhook.Now()", 0)],
    "internal/controller/controller.go": [
        (r"\btime\.Sleep\(", "verifhook.Sleep(", 1),
        # no time-out exists in the controller today; one that is added is measured on the virtual clock too (seed C16e)
        (r"\btime\.After\(", "verifhook.After(", 0),
    ],
    # the sensor monitor reads no clock today; if a change makes the smoothing depend on elapsed time, the streams
    # control that time (virtual clock) instead of the wall clock (seed C08d)
    "internal/monitor.go": [
        (r"\btime\.Now\(\)", "verifhook.Now()", 0),
        # no time-out exists in the monitor today; one that is added is measured on the virtual clock (seed C08h)
        (r"\btime\.After\(", "verifhook.After(", 0),
        (r"\btime\.NewTimer\(", "verifhook.NewTimer(", 0),
    ],
    # the sensor backends use no timers today; one that is added runs on the virtual clock too (seed C09i)
    "internal/sensors/hwmon.go": [
        (r"\btime\.After\(", "verifhook.After(", 0),
        (r"\btime\.NewTimer\(", "verifhook.NewTimer(", 0),
    ],
    "internal/sensors/file.go": [
        (r"\btime\.After\(", "verifhook.After(", 0),
        (r"\btime\.NewTimer\(", "verifhook.NewTimer(", 0),
    ],
}
KEEPALIVE = {
    "internal/util/file.go": "\nvar _ = atomic.WriteFile\nvar _ = os.ReadFile\n",
    "internal/util/pid.go": "\nvar _ = time.Now\n",
    "internal/controller/controller.go": "\nvar _ = time.Sleep\n",
    "internal/monitor.go": "\nvar _ = time.Now\nvar _ = verifhook.Now\n",
    "internal/sensors/hwmon.go": "\nvar _ = verifhook.Now\n",
    "internal/sensors/file.go": "\nvar _ = verifhook.Now\n",
}


class BuildError(Exception):
    def __init__(self, msg, output=""):
        super().__init__(msg)
        self.output = output


def _write_if_changed(path, content):
    os.makedirs(os.path.dirname(path), exist_ok=True)
    try:
        with open(path) as f:
            if f.read() == content:
                return
    except FileNotFoundError:
        pass
    with open(path, "w") as f:
        f.write(content)


def rewrite_source(rel):
    """Token-level rewrite of the CURRENT content of a fan2go file (so a mutated file is
    rewritten as mutated). Returns (new_text, broken_ties)."""
    src = open(os.path.join(REPO, rel)).read()
    broken = []
    for pat, repl, minhits in REWRITES[rel]:
        src, n = re.subn(pat, repl, src)
        if n < minhits:
            broken.append(f"{rel}: expected >= {minhits} occurrence(s) of /{pat}/, found {n}")
    # add the import right after the package clause
    m = re.search(r"^package\s+\w+\s*$", src, re.M)
    src = src[:m.end()] + "\n\n" + HOOK_IMPORT + src[m.end():]
    src += KEEPALIVE.get(rel, "")
    if rel.startswith("internal/curves/"):
        src += "\nvar _ = verifhook.Now\n"
        if re.search(r'^\s*"time"\s*$', src, re.M):
            src += "var _ = time.Now\n"
    return src, broken


def prepare():
    """(Re)generate build/alt.mod, build/overlay.json and the rewritten sources."""
    os.makedirs(BUILD, exist_ok=True)
    gomod = open(os.path.join(REPO, "go.mod")).read()
    gomod += f"\nreplace github.com/md14454/gosensors => {GO_DIR}/stubs/gosensors\n"
    _write_if_changed(os.path.join(BUILD, "alt.mod"), gomod)
    shutil.copyfile(os.path.join(REPO, "go.sum"), os.path.join(BUILD, "alt.sum"))

    replace = {}
    broken = []
    for rel in REWRITES:
        text, b = rewrite_source(rel)
        broken += b
        out = os.path.join(BUILD, "rewritten", rel)
        _write_if_changed(out, text)
        replace[os.path.join(REPO, rel)] = out
    # hook package
    replace[os.path.join(REPO, "internal/verifhook/hook.go")] = os.path.join(GO_DIR, "hook/hook.go")
    # export shims
    replace[os.path.join(REPO, "internal/controller/zz_verif_export.go")] = os.path.join(GO_DIR, "shims/controller_export.go")
    replace[os.path.join(REPO, "internal/zz_verif_export.go")] = os.path.join(GO_DIR, "shims/internal_export.go")
    replace[os.path.join(REPO, "internal/util/zz_verif_export.go")] = os.path.join(GO_DIR, "shims/util_export.go")
    for extra in sorted(os.listdir(os.path.join(GO_DIR, "shims"))):
        m = re.match(r"^(\w+?)__(.+)\.go$", extra)  # <pkgpath with _>__name.go, optional extras
        if m:
            pkg = m.group(1).replace("_", "/")
            replace[os.path.join(REPO, pkg, "zz_verif_" + m.group(2) + ".go")] = os.path.join(GO_DIR, "shims", extra)
    # harness packages
    for d in sorted(os.listdir(GO_DIR)):
        if d.startswith("harness"):
            for f in sorted(os.listdir(os.path.join(GO_DIR, d))):
                if f.endswith(".go"):
                    replace[os.path.join(REPO, "verif" + d, f)] = os.path.join(GO_DIR, d, f)
    _write_if_changed(os.path.join(BUILD, "overlay.json"), json.dumps({"Replace": replace}, indent=1, sort_keys=True))
    return broken


def go(args, timeout=600, cwd=None, env=None):
    e = dict(GOENV)
    if env:
        e.update(env)
    return subprocess.run(["go"] + args, cwd=cwd or REPO, env=e, stdout=subprocess.PIPE,
                          stderr=subprocess.STDOUT, text=True, timeout=timeout)


class build_lock:
    """serialises the build phases of concurrently running checks (flock on build/.lock; re-entrant per process)"""
    _depth = 0
    _fh = None

    def __enter__(self):
        import fcntl
        cls = build_lock
        if cls._depth == 0:
            os.makedirs(BUILD, exist_ok=True)
            cls._fh = open(os.path.join(BUILD, ".lock"), "w")
            fcntl.flock(cls._fh, fcntl.LOCK_EX)
        cls._depth += 1
        return self

    def __exit__(self, *a):
        import fcntl
        cls = build_lock
        cls._depth -= 1
        if cls._depth == 0:
            fcntl.flock(cls._fh, fcntl.LOCK_UN)
            cls._fh.close()
            cls._fh = None


def build(pkg="harness", race=False, out=None):
    """Build ./verif<pkg> from the current tree. Returns the binary path. Raises BuildError.
    The binary is built under a private name and renamed into place (a running copy is never overwritten)."""
    with build_lock():
        return _build(pkg, race, out)


last_shim_notes = []


def _patch_shims(output):
    """A change to /repo may rename or remove an unexported identifier that an export shim forwards to; the harness must
    still build so that the remaining streams can look for a failing input. Compile errors located in a shim file
    (`.../zz_verif_*.go:<line>:`) are answered by replacing the body of the function at that line with a panic
    (ops that need it then answer `panic:...`, everything else works). Returns the list of patched shims."""
    ov_path = os.path.join(BUILD, "overlay.json")
    ov = json.load(open(ov_path))
    rep = ov["Replace"]
    patched = []
    hits = {}
    for m in re.finditer(r"(\S+\.go):(\d+):\d+: (.*)", output):
        hits.setdefault(m.group(1), set()).add(int(m.group(2)))
    for rel, lines in hits.items():
        # the compiler cites the overlay's replacement file (go/shims/*.go or an already patched copy) or the overlaid path
        key = next((k for k, v in rep.items() if (v == rel or k.endswith(rel.lstrip("./"))) and "zz_verif_" in k), None)
        if key is None:
            continue
        src = open(rep[key]).read().split("\n")
        for ln in sorted(lines, reverse=True):   # bottom-up: replacing a function shortens the file below it only
            # find the `func` line at or above ln
            i = min(ln - 1, len(src) - 1)
            while i >= 0 and not src[i].startswith("func "):
                i -= 1
            if i < 0:
                continue
            gone = 'panic("verif: the identifier this export shim forwards to is gone")'
            if src[i].rstrip().endswith("}") and "{ " in src[i]:
                # single-line `func ... { body }`: the body starts at the first brace that is followed by a blank
                # (`interface{}` / `map[int]struct{}` in the signature are not)
                src[i] = src[i][:src[i].index("{ ") + 1] + " " + gone + " }"
            else:
                # multi-line: the signature ends with the first line (from the func line on) that ends in `{`, the body
                # with the closing brace at column 0; the signature stays, the body becomes the panic
                k = i
                while k < len(src) and not src[k].rstrip().endswith("{"):
                    k += 1
                j = k
                while j < len(src) and src[j] != "}":
                    j += 1
                if k >= len(src) or j >= len(src):
                    continue
                src[k + 1:j] = ["\t" + gone]
            patched.append(f"{rel}:{ln}")
        out = os.path.join(BUILD, "shims_patched", os.path.basename(key))
        _write_if_changed(out, "\n".join(src))
        rep[key] = out
    if patched:
        with open(ov_path, "w") as f:
            json.dump(ov, f, indent=1, sort_keys=True)
    return patched


def _build(pkg, race, out):
    broken = prepare()
    final = out or os.path.join(BUILD, "verif" + pkg + ("-race" if race else ""))
    out = final + f".tmp{os.getpid()}"
    args = ["build", "-tags", "verif", "-modfile", os.path.join(BUILD, "alt.mod"),
            "-overlay", os.path.join(BUILD, "overlay.json"), "-o", out]
    env = {}
    if race:
        args.insert(1, "-race")
        env["CGO_ENABLED"] = "1"
    args.append("." if pkg == "fan2go" else "./verif" + pkg)
    r = go(args, env=env)
    shim_notes = []
    for _ in range(4):
        if r.returncode == 0:
            break
        p = _patch_shims(r.stdout)
        if not p:
            break
        shim_notes += p
        r = go(args, env=env)
    global last_shim_notes
    last_shim_notes = list(shim_notes)
    if r.returncode != 0:
        try:
            os.remove(out)
        except OSError:
            pass
        raise BuildError("go build failed for verif" + pkg, r.stdout + "\n".join(broken))
    os.replace(out, final)
    if broken:
        raise BuildError("source rewrite tie broken", "\n".join(broken))
    return final


if __name__ == "__main__":
    import sys
    try:
        print(build(sys.argv[1] if len(sys.argv) > 1 else "harness"))
    except BuildError as e:
        print(e, e.output)
        sys.exit(1)
