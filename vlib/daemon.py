"""Process-level runs of the REAL fan2go daemon (built from /repo's working tree with the pure-Go
gosensors stand-in and the verifhook clock) on a fake hwmon tree made of plain files.
Used by C03 (signals / restore), C09 (faults while running) and C20 (race detector)."""
import json
import os
import shutil
import signal
import subprocess
import tempfile
import time


def make_tree(base, nfans=1, orig_mode=2, orig_pwm=100, with_enable=True, extra_fans_file=0):
    chip = os.path.join(base, "hwmon0")
    os.makedirs(chip, exist_ok=True)
    feats = []
    for i in range(1, nfans + 1):
        open(os.path.join(chip, f"pwm{i}"), "w").write(f"{orig_pwm}\n")
        if with_enable:
            open(os.path.join(chip, f"pwm{i}_enable"), "w").write(f"{orig_mode}\n")
        open(os.path.join(chip, f"fan{i}_input"), "w").write("1000\n")
        feats.append({"Name": f"fan{i}", "Type": 1,
                      "SubFeatures": [{"Name": f"fan{i}_input", "Type": 256, "Value": 1000}]})
    open(os.path.join(chip, "temp1_input"), "w").write("40000\n")
    open(os.path.join(chip, "name"), "w").write("fakechip\n")
    feats.append({"Name": "temp1", "Type": 2,
                  "SubFeatures": [{"Name": "temp1_input", "Type": 512, "Value": 40000}]})
    chips = [{"Prefix": "fakechip", "Bus": {"Type": 1, "Nr": 0}, "Addr": 656, "Path": chip, "Features": feats}]
    jpath = os.path.join(base, "sensors.json")
    json.dump(chips, open(jpath, "w"))
    return chip, jpath


def make_config(base, chip, nfans=1, never_stop=False, curve="linear", algo="direct", api=False, file_fans=0,
                tick="5ms", api_port=19101, stats_port=19100, cmd_fans=0):
    lines = [f"dbPath: {base}/fan2go.db", f"controllerAdjustmentTickRate: {tick}", "rpmPollingRate: 5ms",
             "tempSensorPollingRate: 5ms", "runFanInitializationInParallel: true"]
    if api:
        lines += ["api:", "  enabled: true", "  host: 127.0.0.1", f"  port: {api_port}",
                  "statistics:", "  enabled: true", f"  port: {stats_port}"]
    lines.append("fans:")
    for i in range(1, nfans + 1):
        lines += [f"  - id: f{i}", "    hwmon:", "      platform: fakechip", f"      rpmChannel: {i}",
                  f"    neverStop: {'true' if never_stop else 'false'}", "    curve: c1",
                  f"    controlAlgorithm: {algo}"]
    for i in range(1, file_fans + 1):
        open(os.path.join(base, f"filefan{i}"), "w").write("90\n")
        lines += [f"  - id: ff{i}", "    file:", f"      path: {base}/filefan{i}", "    curve: c1"]
    for i in range(1, cmd_fans + 1):
        # a cmd fan: the register is a plain file, setPwm / getPwm are root-owned scripts (every value handed to setPwm is
        # appended to <register>.log)
        reg = os.path.join(base, f"cmdfan{i}_pwm")
        open(reg, "w").write("90\n")
        setp, getp = os.path.join(base, f"cmdfan{i}_set.sh"), os.path.join(base, f"cmdfan{i}_get.sh")
        open(setp, "w").write(f"#!/bin/sh\necho \"$1\" > {reg}\necho \"$1\" >> {reg}.log\n")
        open(getp, "w").write(f"#!/bin/sh\ncat {reg}\n")
        for f in (setp, getp):
            os.chmod(f, 0o755)
            os.chown(f, 0, 0)
        lines += [f"  - id: cf{i}", "    cmd:", "      setPwm:", f"        exec: {setp}", "        args: [\"%pwm%\"]",
                  "      getPwm:", f"        exec: {getp}", "    curve: c1"]
    lines += ["sensors:", "  - id: s1", "    hwmon:", "      platform: fakechip", "      index: 1"]
    lines.append("curves:")
    if curve == "pid":
        lines += ["  - id: c1", "    pid:", "      sensor: s1", "      setPoint: 60", "      p: -0.05", "      i: -0.005", "      d: -0.005"]
    elif curve == "function":
        lines += ["  - id: c0", "    linear:", "      sensor: s1", "      min: 30", "      max: 80",
                  "  - id: c1", "    function:", "      type: maximum", "      curves:", "        - c0"]
    else:
        lines += ["  - id: c1", "    linear:", "      sensor: s1", "      min: 30", "      max: 80"]
    path = os.path.join(base, "fan2go.yaml")
    open(path, "w").write("\n".join(lines) + "\n")
    os.chmod(path, 0o644)
    return path


def read_int(path):
    try:
        return int(open(path).read().strip())
    except Exception:
        return None


class Daemon:
    def __init__(self, binary, base, cfg, jpath, extra_env=None):
        env = dict(os.environ)
        env.pop("DISPLAY", None)
        env.update({"VERIF_GOSENSORS_JSON": jpath, "VERIF_VIRTUAL_CLOCK": "1", "GOMEMLIMIT": "2GiB"})
        if extra_env:
            env.update(extra_env)
        self.log = open(os.path.join(base, "daemon.log"), "wb")
        self.p = subprocess.Popen([binary, "-c", cfg, "--no-style"], env=env, stdout=self.log, stderr=subprocess.STDOUT,
                                  cwd=base)
        self.base = base

    def wait_regulating(self, chip, nfans=1, timeout=20.0):
        """regulation began for every hwmon fan: pwmN_enable == 1 after 'Starting controller loop' was logged"""
        t0 = time.time()
        while time.time() - t0 < timeout:
            if self.p.poll() is not None:
                return False
            txt = self.logtext()
            if txt.count("Starting controller loop") >= nfans:
                return True
            time.sleep(0.01)
        return False

    def logtext(self):
        try:
            return open(os.path.join(self.base, "daemon.log"), "rb").read().decode("utf-8", "replace")
        except Exception:
            return ""

    def signal(self, sig=signal.SIGTERM):
        try:
            self.p.send_signal(sig)
        except ProcessLookupError:
            pass

    def wait(self, timeout=15.0):
        try:
            return self.p.wait(timeout=timeout)
        except subprocess.TimeoutExpired:
            self.p.kill()
            self.p.wait()
            return "hang"

    def close(self):
        if self.p.poll() is None:
            self.p.kill()
            self.p.wait()
        self.log.close()


def classify_log(text):
    kinds = []
    if "panic:" in text or "goroutine " in text and "[running]" in text:
        kinds.append("go-panic")
    if "send on closed channel" in text:
        kinds.append("closedchan")
    if "DATA RACE" in text:
        kinds.append("race")
    if "fatal error:" in text:
        kinds.append("fatal-error")
    return kinds


def restored(chip, i, orig_mode, with_enable=True):
    pwm = read_int(os.path.join(chip, f"pwm{i}"))
    mode = read_int(os.path.join(chip, f"pwm{i}_enable")) if with_enable else None
    ok = (with_enable and orig_mode != 1 and mode == orig_mode) or pwm == 255
    return ok, pwm, mode
