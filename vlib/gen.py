"""Deterministic generators for the correspondence streams. Every random choice derives from
one SplitMix64 state seeded by VERIF_SEED."""
import struct

MASK = (1 << 64) - 1


class Rng:
    def __init__(self, seed):
        # scramble the seed so that neighbouring seeds do not yield shifted copies of one stream
        z = (seed * 0xD1342543DE82EF95 + 0x632BE59BD9B4E019) & MASK
        z = ((z ^ (z >> 32)) * 0xDABA0B6EB09322E3) & MASK
        z = ((z ^ (z >> 29)) * 0xBF58476D1CE4E5B9) & MASK
        self.s = z ^ (z >> 32)

    def u64(self):
        self.s = (self.s + 0x9E3779B97F4A7C15) & MASK
        z = self.s
        z = ((z ^ (z >> 30)) * 0xBF58476D1CE4E5B9) & MASK
        z = ((z ^ (z >> 27)) * 0x94D049BB133111EB) & MASK
        return z ^ (z >> 31)

    def below(self, n):
        return self.u64() % n if n > 0 else 0

    def range(self, lo, hi):  # inclusive
        return lo + self.below(hi - lo + 1)

    def chance(self, p):
        return (self.u64() >> 11) / float(1 << 53) < p

    def pick(self, xs):
        return xs[self.below(len(xs))]

    def shuffle(self, xs):
        xs = list(xs)
        for i in range(len(xs) - 1, 0, -1):
            j = self.below(i + 1)
            xs[i], xs[j] = xs[j], xs[i]
        return xs

    def sample(self, xs, k):
        return self.shuffle(xs)[:k]

    def fork(self):
        return Rng(self.u64())


def f2bits(f):
    return struct.unpack("<Q", struct.pack("<d", f))[0]


def bits2f(b):
    return struct.unpack("<d", struct.pack("<Q", b & MASK))[0]


def fx(f):
    """protocol token of a Python float"""
    if f != f:
        return "x7ff8000000000001"
    if f == 0:
        return "x0000000000000000"
    return "x%016x" % f2bits(f)


def bx(b):
    return fx(bits2f(b))


SPECIAL_BITS = [
    0x0000000000000000, 0x0000000000000001, 0x0000000000000002, 0x0000000000000003,
    0x000FFFFFFFFFFFFF, 0x0010000000000000, 0x0010000000000001, 0x3FF0000000000000,
    0x3FEFFFFFFFFFFFFF, 0x3FF0000000000001, 0x3FE0000000000000, 0x3FDFFFFFFFFFFFFF,
    0x4340000000000000, 0x433FFFFFFFFFFFFF, 0x4340000000000001, 0x43E0000000000000,
    0x43DFFFFFFFFFFFFF, 0x7FEFFFFFFFFFFFFF, 0x7FF0000000000000, 0x7FF8000000000001,
    0x7E37E43C8800759C,  # 1e300
    0x3FB999999999999A, 0x406FE00000000000, 0x405FDFFFFFFFFFFF, 0x47EFFFFFE0000000,
    0x47EFFFFFF0000000, 0x36A0000000000000, 0x3690000000000000, 0x3800000000000000,
]


def any_float_bits(r):
    """mixture: specials, random bit patterns, small ints, halves, near-ints"""
    k = r.below(10)
    if k == 0:
        b = r.pick(SPECIAL_BITS)
    elif k == 1:
        b = r.u64()
    elif k == 2:
        b = f2bits(float(r.range(-300, 600)))
    elif k == 3:
        b = f2bits(r.range(-2000, 2000) / 2.0)
    elif k == 4:
        b = f2bits(float(r.range(-10**6, 10**6)))
    elif k == 5:
        b = f2bits(r.range(-10**9, 10**9) / 1000.0)
    elif k == 6:
        # random exponent, random mantissa
        e = r.range(0, 2046)
        b = (e << 52) | (r.u64() & ((1 << 52) - 1))
    elif k == 7:
        # near a half integer
        b = f2bits(r.range(-300, 300) + 0.5) + r.range(-2, 2)
    elif k == 8:
        b = r.below(1 << 12)  # tiny subnormals
    else:
        b = f2bits(float(r.range(0, 255)))
    if r.chance(0.3):
        b ^= 1 << 63
    return b & MASK


def finite_float_bits(r):
    while True:
        b = any_float_bits(r)
        if (b >> 52) & 0x7FF != 0x7FF:
            return b
