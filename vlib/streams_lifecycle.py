"""Op-file generator for the `lc` stream (C03 part ii): the REAL per-controller life cycle
`DefaultFanController.Run(ctx)` on a virtual device with a real bbolt file in virtual time, its context
cancelled at a scripted stop point (go/harness/lifecycle.go), against the single-controller slice of the
life-cycle model Fan2go/Model/Lifecycle.lean (Driver/LifecycleStream.lean).

Each case: `#case lc <kind> <stored> <stop>`, `lc.open`, one `lc.fan` declaration, one to three `lc.run`
(the later ones find what the earlier ones stored: they take the load path), sometimes `lc.stored`.

    lc.fan  fan=<id> kind=hwmon|file hasrpm=<0|1> startpwm=<n> stored=none|rpm|both origmode=<n> origpwm=<n> [ns=1] [spinat=<n>]
    lc.run  fan=<id> stop=startupWait|midSweep|afterSweep|midMeasure|headStart|cycle<k>|idle<k>
    lc.run  fan=<id> stop=never err=curve|stall after=<k>
            [db=bad]  every database operation of this run fails: `Run` takes its error returns
    ->      ret=<nil|err|panic:..|hang> touched=<0|1> restored=<0|1> mode=<n> pwm=<n> evals=<n> at=<where the cancellation was delivered>

`stored` selects the start-up path: both = load path (no write before the control loop), rpm = PWM-map sweep
only, none = full initialisation sequence for a hwmon fan (sweep + RPM-curve measurement) / curve save + sweep
for a file fan. A hwmon fan without RPM input and without stored data makes `Run` return an error after the
sweep (it must have restored the fan). A stop point that is not on the fan's path falls back to cycle1."""

KINDS = ["hwmon", "file"]
STORED = ["none", "rpm", "both"]
ORIG_MODES = [0, 1, 2, 3]
PRE_STOPS = ["startupWait", "midSweep", "afterSweep", "midMeasure", "headStart"]
LOOP_STOPS = ["cycle1", "cycle2", "cycle3", "idle1", "idle2", "idle3"]
SELF_STOPS = ["never:curve", "never:stall"]
STOPS = PRE_STOPS + LOOP_STOPS + SELF_STOPS
COMBOS = [(k, s, m) for k in KINDS for s in STORED for m in ORIG_MODES]      # 24
PRODUCT = len(COMBOS) * len(STOPS)                                           # 312: the full product


def _run_line(r, fid, stop, can_stall, baddb=False):
    tail = " db=bad" if baddb else ""
    if stop.startswith("never"):
        err = stop.split(":")[1]
        if err == "stall" and not can_stall:
            err = "curve"
        after = r.range(1, 3) if err == "stall" else r.range(0, 3)
        return f"lc.run fan={fid} stop=never err={err} after={after}" + tail
    return f"lc.run fan={fid} stop={stop}" + tail


def on_path(kind, hasrpm, rpm_stored, map_stored, stop):
    """is the stop point on the start-up path of this fan? (mirrors the decisions of `Run`; used for the
    coverage statistics only – both sides decide for themselves)"""
    hw = kind == "hwmon"
    init = hw and not rpm_stored
    sweep = not map_stored            # swept by the initialisation sequence or by computePwmMap
    reaches_loop = rpm_stored or not hw or hasrpm
    if stop == "startupWait":
        return True
    if stop in ("midSweep", "afterSweep"):
        return sweep and (init or reaches_loop)
    if stop == "midMeasure":
        return init and hasrpm
    return reaches_loop


def gen_lifecycle(r, ncases):
    """walks the product {hwmon, file} x stored x original mode {0,1,2,3} x 13 stop points systematically
    (complete every 312 cases); RPM input, start PWM, original PWM, spin threshold, the number of good cycles
    before a self-inflicted stop and the follow-up runs are random"""
    ops = []
    for ci in range(ncases):
        j = ci % len(COMBOS)
        kind, stored, om = COMBOS[j]
        stop = STOPS[((ci // len(COMBOS)) + j) % len(STOPS)]
        fid = "fa"
        # a hwmon fan without RPM input can never regulate unless its data are stored: keep it rare but present
        hasrpm = 0 if r.chance(0.15) else 1
        if stop == "never:stall" or stop == "midMeasure":
            hasrpm = 1
        ns = 1 if (stop == "never:stall" or r.chance(0.2)) else 0
        startpwm = r.pick([0, 1, 60, 128, 254, 255, r.range(2, 253)])
        origpwm = r.pick([0, 1, 90, 128, 254, 255, r.range(2, 253)])
        spinat = r.range(5, 90)
        ops.append(f"#case lc {kind} {stored} {stop}")
        ops.append("lc.open")
        ops.append(f"lc.fan fan={fid} kind={kind} hasrpm={hasrpm} startpwm={startpwm} stored={stored} "
                   f"origmode={om} origpwm={origpwm} ns={ns} spinat={spinat}")
        can_stall = bool(hasrpm and ns)
        ops.append(_run_line(r, fid, stop, can_stall, baddb=r.chance(0.1)))
        # follow-up runs on the same database (what the first run stored is found by the next: mostly stop points
        # of the load path; with a failing database the analysis is repeated, so the sweep stops are reachable again)
        for _ in range(r.pick([0, 0, 0, 1, 1, 2])):
            bad = r.chance(0.25)
            pool = PRE_STOPS if bad else (["startupWait", "headStart"] + LOOP_STOPS + SELF_STOPS + ["midSweep"])
            ops.append(_run_line(r, fid, r.pick(pool), can_stall, baddb=bad))
        if r.chance(0.3):
            ops.append(f"lc.stored fan={fid}")
    return ops


def coverage(ops, go_lines):
    """{(kind, stored, original mode, hasrpm, requested stop, delivered at)} of the executed first runs"""
    seen = set()
    decl = None
    for op, g in zip(ops, go_lines):
        if op.startswith("lc.fan"):
            decl = dict(t.split("=", 1) for t in op.split()[1:])
        elif op.startswith("lc.run") and decl is not None:
            a = dict(t.split("=", 1) for t in op.split()[1:])
            res = dict(t.split("=", 1) for t in g.split() if "=" in t)
            seen.add((decl.get("kind"), decl.get("stored"), decl.get("origmode"), decl.get("hasrpm"),
                      a.get("stop") + (":" + a["err"] if "err" in a else "") + ("/baddb" if a.get("db") == "bad" else ""),
                      res.get("at"), res.get("ret")))
    return seen
