"""Generator of the `cfg` correspondence stream (property C11): abstract configurations ->
(YAML text for the real loader, `spec=` tokens for the Lean driver).

An abstract configuration is a dict {"sensors": [...], "curves": [...], "fans": [...]} of dicts that
mirror the YAML document (absent key = key not written). `to_yaml` writes the document in the
README / fan2go.yaml spelling; `to_spec` writes what the decoded Go struct is MEANT to be, in the
grammar documented in lean/Driver/ConfigStream.lean. The harness's dump of the struct the real
loader decoded must equal the driver's dump of the spec.

Cases: a valid configuration assembled from the documented forms, with 0..3 planted deviations.
"""
import base64

from .gen import Rng, fx

FN_TYPES = ["minimum", "maximum", "average", "delta", "sum", "difference"]


class Raw(str):
    """YAML text written verbatim after `key:` (e.g. `[]`, `{}`, `` for null)"""


# ---------------------------------------------------------------------------------------------
# YAML writer (block style; scalars are already YAML text)

def _emit(obj, ind, out):
    pad = "  " * ind
    if isinstance(obj, dict):
        for k, v in obj.items():
            _emit_kv(k, v, ind, out, pad)
    elif isinstance(obj, list):
        for it in obj:
            if isinstance(it, dict) and it:
                sub = []
                _emit(it, ind + 1, sub)
                sub[0] = pad + "- " + sub[0][len(pad) + 2:]
                out.extend(sub)
            elif isinstance(it, dict):
                out.append(pad + "- {}")
            else:
                out.append(pad + "- " + str(it))


def _emit_kv(k, v, ind, out, pad):
    if isinstance(v, Raw):
        out.append(f"{pad}{k}: {v}".rstrip())
    elif isinstance(v, dict):
        if v:
            out.append(f"{pad}{k}:")
            _emit(v, ind + 1, out)
        else:
            out.append(f"{pad}{k}: {{}}")
    elif isinstance(v, list):
        if v:
            out.append(f"{pad}{k}:")
            _emit(v, ind + 1, out)
        else:
            out.append(f"{pad}{k}: []")
    else:
        out.append(f"{pad}{k}: {v}")


def ystr(s):
    """YAML scalar for an id-like string (quoted when it has surrounding blanks)"""
    if s == "":
        return '""'
    if s != s.strip():
        return '"' + s + '"'
    return s


def num_text(r, v):
    """(yaml text, float) for a PID gain / step value"""
    if isinstance(v, int):
        return str(v), float(v)
    t = repr(v)
    return t, float(t)


# ---------------------------------------------------------------------------------------------
# abstract configuration -> YAML tree

def sensor_tree(s):
    t = {}
    if s.get("id") is not None:
        t["id"] = ystr(s["id"])
    for kind in s.get("order", ["hwmon", "file", "cmd"]):
        if kind == "hwmon" and "hwmon" in s:
            h = {"platform": "coretemp"}
            if s["hwmon"] is not None:
                h["index"] = s["hwmon"]
            t["hwmon"] = h
        if kind == "file" and s.get("file"):
            t["file"] = {"path": "/tmp/verif_no_such_sensor"}
        if kind == "cmd" and s.get("cmd"):
            t["cmd"] = {"exec": "/usr/bin/true", "args": Raw("[ 'a', 'b' ]")}
    return t


def steps_tree(st):
    kind, entries = st
    if kind == "null":
        return Raw("")
    if kind == "emptylist":
        return Raw("[]")
    if kind == "emptymap":
        return Raw("{}")
    if kind == "map":  # undocumented but decodable spelling
        return {str(k): txt for k, txt, _ in entries}
    return [{str(k): txt} for k, txt, _ in entries]  # documented: list of single-entry maps


def curve_tree(c):
    t = {}
    if c.get("id") is not None:
        t["id"] = ystr(c["id"])
    for kind in c.get("order", ["linear", "pid", "function"]):
        if kind == "linear" and "linear" in c:
            l = c["linear"]
            lt = {}
            if l.get("sensor") is not None:
                lt["sensor"] = ystr(l["sensor"])
            if "min" in l:
                lt["min"] = l["min"]
            if "max" in l:
                lt["max"] = l["max"]
            if "steps" in l:
                lt["steps"] = steps_tree(l["steps"])
            t["linear"] = lt
        if kind == "pid" and "pid" in c:
            p = c["pid"]
            pt = {}
            if p.get("sensor") is not None:
                pt["sensor"] = ystr(p["sensor"])
            for k in ("setPoint", "p", "i", "d"):
                if k in p:
                    pt[k] = p[k][0]
            t["pid"] = pt
        if kind == "function" and "function" in c:
            f = c["function"]
            ft = {}
            if f.get("type") is not None:
                ft["type"] = ystr(f["type"])
            if f.get("curves") is not None:
                ft["curves"] = [ystr(m) for m in f["curves"]]
            t["function"] = ft
    return t


def fan_tree(f):
    t = {}
    if f.get("id") is not None:
        t["id"] = ystr(f["id"])
    for kind in f.get("order", ["hwmon", "file", "cmd"]):
        if kind == "hwmon" and "hwmon" in f:
            h = {"platform": "nct6798"}
            for k in ("index", "rpmChannel", "pwmChannel"):
                if k in f["hwmon"]:
                    h[k] = f["hwmon"][k]
            t["hwmon"] = h
        if kind == "file" and "file" in f:
            ft = {}
            if f["file"].get("path") is not None:
                ft["path"] = ystr(f["file"]["path"])
            ft["rpmPath"] = "/tmp/verif_no_such_rpm"
            t["file"] = ft
        if kind == "cmd" and "cmd" in f:
            ct = {}
            for k in ("setPwm", "getPwm"):
                if k in f["cmd"]:
                    e = {}
                    if f["cmd"][k].get("exec") is not None:
                        e["exec"] = ystr(f["cmd"][k]["exec"])
                    e["args"] = Raw('[ "--set", "%pwm%" ]')
                    ct[k] = e
            ct["getRpm"] = {"exec": "/usr/bin/true"}
            t["cmd"] = ct
    if f.get("neverStop"):
        t["neverStop"] = "true"
    if f.get("curve") is not None:
        t["curve"] = ystr(f["curve"])
    ca = f.get("ca")
    if ca is not None:
        if ca[0] == "str":
            t["controlAlgorithm"] = ca[1]
        elif ca[0] == "null":
            t["controlAlgorithm"] = Raw("")
        else:
            m = {}
            if "direct" in ca[1]:
                d = ca[1]["direct"]
                m["direct"] = {} if d is None else {"maxPwmChangePerCycle": d}
            if "pid" in ca[1]:
                m["pid"] = {k: v[0] for k, v in zip("pid", ca[1]["pid"])}
            t["controlAlgorithm"] = m
    return t


def to_yaml(cfg):
    top = {}
    top["dbPath"] = '"/tmp/verif_no_such.db"'
    for sec, fn in (("fans", fan_tree), ("sensors", sensor_tree), ("curves", curve_tree)):
        items = cfg.get(sec)
        if items is None:
            continue  # section absent
        top[sec] = [fn(x) for x in items]
    out = []
    _emit(top, 0, out)
    extra = cfg.get("yaml_extra")
    return "\n".join(out) + "\n" + (extra or "")


# ---------------------------------------------------------------------------------------------
# abstract configuration -> spec (the decoded struct the generator means)

def _lst(sep, elems):
    return str(len(elems)) + "".join(sep + e for e in elems)


def sensor_spec(s):
    items = []
    if "hwmon" in s:
        items.append("h(%d)" % (s["hwmon"] or 0))
    if s.get("file"):
        items.append("f")
    if s.get("cmd"):
        items.append("c")
    return (s.get("id") or "") + ":" + ",".join(items)


def steps_spec(st):
    kind, entries = st
    if kind == "null":
        return "nil"
    m = {}
    for k, _, v in entries:
        m[k] = v  # later entries win (the loader merges the list of maps)
    return _lst("/", ["%d>%s" % (k, fx(m[k])) for k in sorted(m)])


def curve_spec(c):
    items = []
    if "linear" in c:
        l = c["linear"]
        items.append("L(%s|%d|%d|%s)" % (l.get("sensor") or "", l.get("min", 0), l.get("max", 0),
                                          steps_spec(l["steps"]) if "steps" in l else "nil"))
    if "pid" in c:
        p = c["pid"]
        g = lambda k: fx(p[k][1]) if k in p else fx(0.0)
        items.append("P(%s|%s|%s|%s|%s)" % (p.get("sensor") or "", g("setPoint"), g("p"), g("i"), g("d")))
    if "function" in c:
        f = c["function"]
        items.append("F(%s|%s)" % (f.get("type") or "", _lst("/", f.get("curves") or [])))
    return (c.get("id") or "") + ":" + ",".join(items)


DEFAULT_PID = (0.3, 0.02, 0.005)  # control_loop.DefaultPidConfig


def fan_spec(f):
    items = ["k(%s)" % (f.get("curve") or "")]
    ca = f.get("ca")
    if ca is not None and ca[0] != "null":
        if ca[0] == "str":
            if ca[1] == "direct":
                items.append("a(m-|nil)")
            else:
                items.append("a(nil|%s)" % "/".join(fx(x) for x in DEFAULT_PID))
        else:
            d, p = "nil", "nil"
            if "direct" in ca[1]:
                d = "m-" if ca[1]["direct"] is None else "m%d" % ca[1]["direct"]
            if "pid" in ca[1]:
                p = "/".join(fx(v[1]) for v in ca[1]["pid"])
            items.append("a(%s|%s)" % (d, p))
    if "hwmon" in f:
        h = f["hwmon"]
        items.append("h(%d|%d|%d)" % (h.get("index", 0), h.get("rpmChannel", 0), h.get("pwmChannel", 0)))
    if "file" in f:
        items.append("f(%s)" % ("n" if f["file"].get("path") else "e"))
    if "cmd" in f:
        ex = lambda k: "nil" if k not in f["cmd"] else ("n" if f["cmd"][k].get("exec") else "e")
        items.append("c(%s|%s)" % (ex("setPwm"), ex("getPwm")))
    return (f.get("id") or "") + ":" + ",".join(items)


def to_spec(cfg):
    if cfg.get("fatal"):
        return "fatal"
    return ("S" + _lst(";", [sensor_spec(s) for s in cfg.get("sensors") or []])
            + "!C" + _lst(";", [curve_spec(c) for c in cfg.get("curves") or []])
            + "!F" + _lst(";", [fan_spec(f) for f in cfg.get("fans") or []]))


# ---------------------------------------------------------------------------------------------
# valid configurations assembled from the documented forms

def gen_gain(r, nonzero=True):
    while True:
        v = r.pick([0, 0, 1, -1, 0.3, 0.02, 0.005, -0.05, -0.005, 2.5, r.range(-50, 50) / 100.0])
        if isinstance(v, float) and v == int(v):
            v = int(v)
        if not nonzero or v != 0:
            return num_text(r, v)


def gen_gains(r):
    """three gains, not all zero"""
    g = [gen_gain(r, nonzero=False) for _ in range(3)]
    if all(x[1] == 0 for x in g):
        g[r.below(3)] = gen_gain(r, nonzero=True)
    return g


def gen_step_entries(r, n):
    ks = sorted(set(r.range(20, 95) for _ in range(n)))
    while len(ks) < n:
        ks = sorted(set(ks + [r.range(-20, 130)]))
    vals = sorted(r.pick([r.range(0, 255), r.range(0, 2550) / 10.0]) for _ in ks)
    ent = []
    for k, v in zip(ks, vals):
        if isinstance(v, float) and v == int(v):
            v = int(v)
        txt, fv = num_text(r, v)
        ent.append((k, txt, fv))
    return ent


def gen_sensor(r, sid):
    kind = r.below(3)
    if kind == 0:
        return {"id": sid, "hwmon": r.range(1, 9)}
    if kind == 1:
        return {"id": sid, "file": True}
    return {"id": sid, "cmd": True}


def gen_leaf_curve(r, cid, sensor_ids):
    kind = r.below(4)
    s = r.pick(sensor_ids)
    if kind == 0:
        lo = r.range(20, 60)
        return {"id": cid, "linear": {"sensor": s, "min": lo, "max": lo + r.range(1, 50)}}
    if kind in (1, 2):
        n = r.pick([1, 1, 2, 3, 3, 5, 9])
        return {"id": cid, "linear": {"sensor": s, "steps": ("list", gen_step_entries(r, n))}}
    g = gen_gains(r)
    return {"id": cid, "pid": {"sensor": s, "setPoint": num_text(r, r.range(30, 80)), "p": g[0], "i": g[1], "d": g[2]}}


def gen_ca(r):
    k = r.below(6)
    if k == 0:
        return None
    if k == 1:
        return ("str", "direct")
    if k == 2:
        return ("str", "pid")
    if k == 3:
        return ("map", {"direct": r.pick([1, 10, 10, 255])})
    if k == 4:
        return ("map", {"pid": gen_gains(r)})
    return ("map", {"direct": None})


def gen_fan(r, fid, curve_ids):
    kind = r.below(3)
    f = {"id": fid}
    if kind == 0:
        if r.chance(0.7):
            f["hwmon"] = {"rpmChannel": r.range(1, 6)}
        else:
            f["hwmon"] = {"index": r.range(1, 6)}
        if r.chance(0.5):
            f["hwmon"]["pwmChannel"] = r.range(0, 6)
    elif kind == 1:
        f["file"] = {"path": "/tmp/verif_no_such_fan"}
    else:
        f["cmd"] = {"setPwm": {"exec": "/usr/bin/true"}, "getPwm": {"exec": "/usr/bin/true"}}
    f["neverStop"] = r.chance(0.5)
    f["curve"] = r.pick(curve_ids)
    ca = gen_ca(r)
    if ca is not None:
        f["ca"] = ca
    return f


def gen_dag(r, n, leaf_ids, fn_ids, max_members=4, p_edge=0.4):
    """function curves fn_ids[0..n); fn i may only reference fn j with j > i (so: acyclic) and
    leaves; >= 1 member each."""
    out = []
    for i in range(n):
        members = [fn_ids[j] for j in range(i + 1, n) if r.chance(p_edge)]
        nleaf = r.range(0 if members else 1, 2)
        members += [r.pick(leaf_ids) for _ in range(nleaf)]
        members = r.shuffle(members)[:max(1, max_members)]
        out.append({"id": fn_ids[i], "function": {"type": r.pick(FN_TYPES), "curves": members}})
    return out


def gen_valid(r, pre, n_fn=None):
    ns = r.range(1, 4)
    sensors = [gen_sensor(r, f"{pre}s{i}") for i in range(ns)]
    sids = [s["id"] for s in sensors]
    nl = r.range(1, 4)
    leaves = [gen_leaf_curve(r, f"{pre}l{i}", sids) for i in range(nl)]
    lids = [c["id"] for c in leaves]
    if n_fn is None:
        n_fn = r.pick([0, 1, 1, 2, 3, 4, 6, 8])
    fids = [f"{pre}f{i}" for i in range(n_fn)]
    fns = gen_dag(r, n_fn, lids, fids)
    curves = r.shuffle(leaves + fns)
    cids = [c["id"] for c in curves]
    nf = r.range(1, 4)
    fans = [gen_fan(r, f"{pre}fan{i}", cids) for i in range(nf)]
    return {"sensors": sensors, "curves": curves, "fans": fans, "mode": "644"}


# ---------------------------------------------------------------------------------------------
# deviations. Each takes (r, cfg, pre) and changes cfg in place; returns False if not applicable.

def _fn_curves(cfg):
    return [c for c in cfg["curves"] if "function" in c]


def _leaf_curves(cfg):
    return [c for c in cfg["curves"] if "function" not in c]


def _ensure_fn(r, cfg, pre, n):
    """make sure there are at least n function curves (adds DAG nodes referencing a leaf)"""
    have = _fn_curves(cfg)
    leaves = [c["id"] or "" for c in _leaf_curves(cfg)]
    k = len(have)
    while k < n:
        cfg["curves"].insert(r.below(len(cfg["curves"]) + 1),
                             {"id": f"{pre}x{k}", "function": {"type": r.pick(FN_TYPES), "curves": [r.pick(leaves)]}})
        k += 1
    return _fn_curves(cfg)


def add_backend(r, entry, kinds):
    missing = [k for k in kinds if k not in entry or not entry[k]]
    if not missing:
        return False
    k = r.pick(missing)
    entry[k] = kinds[k](r)
    entry["order"] = r.shuffle(list(kinds))
    return True


SENSOR_KINDS = {"hwmon": lambda r: r.range(1, 5), "file": lambda r: True, "cmd": lambda r: True}
FAN_KINDS = {"hwmon": lambda r: {"rpmChannel": r.range(1, 5)}, "file": lambda r: {"path": "/tmp/verif_x"},
             "cmd": lambda r: {"setPwm": {"exec": "/usr/bin/true"}, "getPwm": {"exec": "/usr/bin/true"}}}


def m_sensor_dup(r, cfg, pre):
    if len(cfg["sensors"]) < 1:
        return False
    s = dict(r.pick(cfg["sensors"]))
    cfg["sensors"].insert(r.below(len(cfg["sensors"]) + 1), s)


def m_sensor_noid(r, cfg, pre):
    s = r.pick(cfg["sensors"])
    s["id"] = r.pick([None, ""])


def m_sensor_nobackend(r, cfg, pre):
    s = r.pick(cfg["sensors"])
    for k in ("hwmon", "file", "cmd"):
        s.pop(k, None)


def m_sensor_more(r, cfg, pre):
    s = r.pick(cfg["sensors"])
    add_backend(r, s, SENSOR_KINDS)
    if r.chance(0.3):
        add_backend(r, s, SENSOR_KINDS)


def m_sensor_index(r, cfg, pre):
    hs = [s for s in cfg["sensors"] if "hwmon" in s]
    if not hs:
        s = r.pick(cfg["sensors"])
        for k in ("file", "cmd"):
            s.pop(k, None)
        hs = [s]
    r.pick(hs)["hwmon"] = r.pick([0, -1, None, -7])


def m_sensor_add_cmd(r, cfg, pre):
    cfg["sensors"].append({"id": f"{pre}sc", "cmd": True})


def m_curve_dup(r, cfg, pre):
    c = dict(r.pick(cfg["curves"]))
    cfg["curves"].insert(r.below(len(cfg["curves"]) + 1), c)


def m_curve_noid(r, cfg, pre):
    c = r.pick(cfg["curves"])
    c["id"] = r.pick([None, ""])


def m_curve_nobackend(r, cfg, pre):
    c = r.pick(cfg["curves"])
    for k in ("linear", "pid", "function"):
        c.pop(k, None)


def m_curve_more(r, cfg, pre):
    c = r.pick(cfg["curves"])
    sid = r.pick(cfg["sensors"])["id"] or "zz"
    kinds = {"linear": lambda r: {"sensor": sid, "min": 30, "max": 70},
             "pid": lambda r: {"sensor": sid, "setPoint": ("50", 50.0), "p": ("1", 1.0)},
             "function": lambda r: {"type": "sum", "curves": [r.pick(cfg["curves"])["id"] or "zz"]}}
    add_backend(r, c, kinds)
    if r.chance(0.3):
        add_backend(r, c, kinds)


def m_fn_type(r, cfg, pre):
    fn = _ensure_fn(r, cfg, pre, 1)
    r.pick(fn)["function"]["type"] = r.pick(["median", "Average", None, "", "max"])


def m_fn_members_empty(r, cfg, pre):
    fn = _ensure_fn(r, cfg, pre, 1)
    c = r.pick(fn)
    c["function"]["curves"] = r.pick([[], None])
    if r.chance(0.7):
        c["function"]["type"] = r.pick(["average", "delta", r.pick(FN_TYPES)])


def m_fn_members_one(r, cfg, pre):
    fn = _ensure_fn(r, cfg, pre, 1)
    c = r.pick(fn)
    c["function"]["curves"] = c["function"]["curves"][:1]


def m_fn_members_many(r, cfg, pre):
    fn = _ensure_fn(r, cfg, pre, 1)
    c = r.pick(fn)
    leaves = [x["id"] or "" for x in _leaf_curves(cfg)]
    c["function"]["curves"] = c["function"]["curves"] + [r.pick(leaves) for _ in range(r.range(2, 6))]


def m_fn_self(r, cfg, pre):
    fn = _ensure_fn(r, cfg, pre, 1)
    c = r.pick(fn)
    ms = c["function"]["curves"]
    ms.insert(r.below(len(ms) + 1), c["id"] or "")


def m_fn_dangling(r, cfg, pre):
    fn = _ensure_fn(r, cfg, pre, 1)
    c = r.pick(fn)
    ms = c["function"]["curves"]
    ms.insert(r.below(len(ms) + 1), r.pick([f"{pre}nope", "", f"{pre}s0"]))


def m_fn_near_miss(r, cfg, pre):
    """a member id that is ALMOST an existing curve id (surrounding blank, other case, trailing dot): the
    validator compares ids exactly, exactly like the registry lookup at evaluation time"""
    fn = _ensure_fn(r, cfg, pre, 1)
    c = r.pick(fn)
    ms = c["function"]["curves"]
    others = [x["id"] for x in cfg["curves"] if x.get("id") and x["id"] != c["id"]]
    if not others:
        return
    base = r.pick(others)
    near = r.pick([" " + base, base + " ", " " + base + " ", base.upper() if base.upper() != base else base + ".", base + "."])
    ms.insert(r.below(len(ms) + 1), near)


def plant_cycle(r, cfg, pre, length):
    fn = _ensure_fn(r, cfg, pre, max(1, length))
    nodes = r.sample(fn, length)
    for i, c in enumerate(nodes):
        nxt = nodes[(i + 1) % length]["id"] or ""
        ms = c["function"]["curves"]
        ms.insert(r.below(len(ms) + 1), nxt)


def m_fn_cycle(r, cfg, pre):
    plant_cycle(r, cfg, pre, r.range(1, 8))


def m_lin_sensor(r, cfg, pre):
    ls = [c for c in cfg["curves"] if "linear" in c]
    if not ls:
        return False
    r.pick(ls)["linear"]["sensor"] = r.pick([None, "", f"{pre}nosensor", r.pick(cfg["curves"])["id"]])


def m_lin_steps(r, cfg, pre):
    ls = [c for c in cfg["curves"] if "linear" in c]
    if not ls:
        return False
    l = r.pick(ls)["linear"]
    k = r.below(7)
    if k == 0:
        l["steps"] = ("emptylist", [])
    elif k == 1:
        l["steps"] = ("emptymap", [])
    elif k == 2:
        l["steps"] = ("null", [])
    elif k == 3:
        l["steps"] = ("list", gen_step_entries(r, 1))
    elif k == 4:
        l["steps"] = ("map", gen_step_entries(r, r.range(1, 4)))
    elif k == 5:  # duplicate key in the list spelling: later entry wins
        e = gen_step_entries(r, r.range(2, 4))
        e.append((e[0][0], "77", 77.0))
        l["steps"] = ("list", e)
    else:
        l["steps"] = ("list", gen_step_entries(r, r.range(2, 12)))
    if r.chance(0.5):
        l.setdefault("min", 30)
        l.setdefault("max", 70)


def m_pid_zero(r, cfg, pre):
    ps = [c for c in cfg["curves"] if "pid" in c]
    if not ps:
        c = r.pick(_leaf_curves(cfg))
        s = (c.get("linear") or c.get("pid"))["sensor"]
        c.pop("linear", None)
        c["pid"] = {"sensor": s, "setPoint": ("60", 60.0)}
        ps = [c]
    p = r.pick(ps)["pid"]
    k = r.below(4)
    if k == 0:
        for g in "pid":
            p.pop(g, None)
    elif k == 1:
        for g in "pid":
            p[g] = r.pick([("0", 0.0), ("0.0", 0.0), ("-0.0", -0.0)])
    elif k == 2:
        p["p"], p["i"], p["d"] = ("0", 0.0), ("0", 0.0), ("0.001", 0.001)
    else:
        p["sensor"] = r.pick([None, "", f"{pre}nosensor"])


def m_fn_type_and_empty(r, cfg, pre):
    """position of the empty-member check: after the type check, before the member loop"""
    fn = _ensure_fn(r, cfg, pre, 1)
    c = r.pick(fn)
    c["function"]["curves"] = r.pick([[], None])
    c["function"]["type"] = r.pick(["median", None, "sum", "average"])


def m_lin_sensor_and_empty_steps(r, cfg, pre):
    """position of the empty-steps check: after the sensor checks"""
    ls = [c for c in cfg["curves"] if "linear" in c]
    if not ls:
        return False
    l = r.pick(ls)["linear"]
    l["steps"] = (r.pick(["emptylist", "emptymap"]), [])
    if r.chance(0.6):
        l["sensor"] = r.pick([None, "", f"{pre}nosensor"])


def m_fan_ca_empty_and(r, cfg, pre):
    """position of the empty-controlAlgorithm check: after the curve checks, before hwmon/file/cmd"""
    f = r.pick(cfg["fans"])
    f["ca"] = ("map", {})
    k = r.below(4)
    if k == 0:
        f["curve"] = r.pick([None, f"{pre}nocurve"])
    elif k == 1:
        for kk in ("file", "cmd"):
            f.pop(kk, None)
        f["hwmon"] = {}
    elif k == 2:
        for kk in ("hwmon", "cmd"):
            f.pop(kk, None)
        f["file"] = {"path": ""}


def m_curves_absent(r, cfg, pre):
    """function curve without `curves:`; or whole sections absent"""
    k = r.below(3)
    if k == 0:
        cfg["fans"] = None
    elif k == 1:
        cfg["fans"] = []
    else:
        fn = _ensure_fn(r, cfg, pre, 1)
        r.pick(fn)["function"]["curves"] = None


def m_fan_dup(r, cfg, pre):
    f = dict(r.pick(cfg["fans"]))
    cfg["fans"].insert(r.below(len(cfg["fans"]) + 1), f)


def m_fan_noid(r, cfg, pre):
    r.pick(cfg["fans"])["id"] = r.pick([None, ""])


def m_fan_nobackend(r, cfg, pre):
    f = r.pick(cfg["fans"])
    for k in ("hwmon", "file", "cmd"):
        f.pop(k, None)


def m_fan_more(r, cfg, pre):
    f = r.pick(cfg["fans"])
    add_backend(r, f, FAN_KINDS)
    if r.chance(0.3):
        add_backend(r, f, FAN_KINDS)


def m_fan_curve(r, cfg, pre):
    r.pick(cfg["fans"])["curve"] = r.pick([None, "", f"{pre}nocurve", cfg["sensors"][0]["id"]])


def m_fan_ca(r, cfg, pre):
    f = r.pick(cfg["fans"])
    k = r.below(9)
    if k < 4:
        f["ca"] = ("map", {"direct": [-1, 0, 1, 10][k]})
    elif k == 4:
        f["ca"] = ("map", {"pid": [("0", 0.0), ("0", 0.0), ("0", 0.0)]})
    elif k == 5:
        f["ca"] = ("map", {})
    elif k == 6:
        f["ca"] = ("null",)
    elif k == 7:
        f["ca"] = ("map", {"direct": r.pick([0, 5, None]), "pid": r.pick([gen_gains(r), [("0", 0.0)] * 3])})
    else:
        f["ca"] = ("str", r.pick(["direct", "pid"]))


def _hw_fan(r, cfg):
    hs = [f for f in cfg["fans"] if "hwmon" in f]
    if hs:
        return r.pick(hs)
    f = r.pick(cfg["fans"])
    for k in ("file", "cmd"):
        f.pop(k, None)
    f["hwmon"] = {"rpmChannel": 1}
    return f


def m_fan_hwmon(r, cfg, pre):
    f = _hw_fan(r, cfg)
    k = r.below(7)
    if k == 0:
        f["hwmon"] = {"index": r.range(1, 4), "rpmChannel": r.range(1, 4)}
    elif k == 1:
        f["hwmon"] = {}
    elif k == 2:
        f["hwmon"] = {"index": r.pick([-1, -3])}
    elif k == 3:
        f["hwmon"] = {"rpmChannel": r.pick([-1, -2])}
    elif k == 4:
        f["hwmon"] = {r.pick(["index", "rpmChannel"]): 2, "pwmChannel": r.pick([-1, -5])}
    elif k == 5:
        f["hwmon"] = {"index": 0, "rpmChannel": 0, "pwmChannel": 3}
    else:
        f["hwmon"] = {"index": r.pick([-1, 2]), "rpmChannel": r.pick([-1, 2]), "pwmChannel": -1}


def m_fan_file(r, cfg, pre):
    f = r.pick(cfg["fans"])
    for k in ("hwmon", "cmd"):
        f.pop(k, None)
    f["file"] = {"path": r.pick([None, ""])}


def m_fan_cmd(r, cfg, pre):
    f = r.pick(cfg["fans"])
    for k in ("hwmon", "file"):
        f.pop(k, None)
    full = {"setPwm": {"exec": "/usr/bin/true"}, "getPwm": {"exec": "/usr/bin/true"}}
    k = r.below(6)
    if k == 0:
        full.pop("setPwm")
    elif k == 1:
        full.pop("getPwm")
    elif k == 2:
        full["setPwm"]["exec"] = r.pick([None, ""])
    elif k == 3:
        full["getPwm"]["exec"] = r.pick([None, ""])
    elif k == 4:
        full = {}
    f["cmd"] = full


def m_mode(r, cfg, pre):
    cfg["mode"] = r.pick(["666", "602", "646", "664", "600", "777", "755"])
    if r.chance(0.7) and not any("cmd" in f for f in cfg["fans"] or []) and not any(s.get("cmd") for s in cfg["sensors"]):
        m_sensor_add_cmd(r, cfg, pre)


def m_fatal(r, cfg, pre):
    """documents the loader cannot decode: `config validate` dies in ui.Fatal"""
    k = r.below(3)
    cfg["fatal"] = True
    if k == 0 and cfg.get("fans"):
        r.pick(cfg["fans"])["ca"] = ("str", r.pick(["bogus", "PID", "Direct"]))
    elif k == 1:
        s = r.pick(cfg["sensors"])
        for kk in ("file", "cmd"):
            s.pop(kk, None)
        s["hwmon"] = "abc"
        s.pop("order", None)
    else:
        cfg["yaml_extra"] = "tempRollingWindowSize: many\n"


def m_cross_section_id(r, cfg, pre):
    """a fan named like a sensor (the README's own examples do that): ids are unique per section only"""
    f = r.pick(cfg["fans"])
    f["id"] = r.pick(cfg["sensors"])["id"]


def m_cross_section_curve_id(r, cfg, pre):
    """a fan named like a curve"""
    f = r.pick(cfg["fans"])
    f["id"] = r.pick(cfg["curves"])["id"]


MUTATIONS = [
    m_cross_section_id, m_cross_section_curve_id,
    m_sensor_dup, m_sensor_noid, m_sensor_nobackend, m_sensor_more, m_sensor_index, m_sensor_add_cmd,
    m_curve_dup, m_curve_noid, m_curve_nobackend, m_curve_more,
    m_fn_type, m_fn_members_empty, m_fn_members_one, m_fn_members_many, m_fn_self, m_fn_dangling, m_fn_near_miss, m_fn_cycle,
    m_lin_sensor, m_lin_steps, m_lin_steps, m_pid_zero, m_curves_absent,
    m_fn_type_and_empty, m_lin_sensor_and_empty_steps, m_fan_ca_empty_and,
    m_fan_dup, m_fan_noid, m_fan_nobackend, m_fan_more, m_fan_curve, m_fan_ca, m_fan_ca, m_fan_hwmon, m_fan_hwmon,
    m_fan_file, m_fan_cmd, m_fan_cmd, m_mode, m_mode,
]


def apply_mutation(r, m, cfg, pre):
    """a deviation that does not apply to the current shape (e.g. no fans left) is skipped"""
    try:
        m(r, cfg, pre)
    except (IndexError, TypeError, KeyError, AttributeError):
        pass


def case_lines(cfg, run=True, vals=None, label="cfg"):
    y = to_yaml(cfg)
    b = base64.b64encode(y.encode()).decode()
    ops = [f"#case {label}", f"cfg.load yaml={b} mode={cfg.get('mode', '644')} spec={to_spec(cfg).replace(' ', '~')}"]
    if run:
        vals = vals or [30000, 55000, 90000]
        # ... and once more with every sensor read failing (seed C11h: a function curve that skips failing members divided
        # by the number of members left)
        ops.append("cfg.run vals=%s now=1000000000 fail=1" % ",".join(str(v) for v in vals))
    return ops


def gen_vals(r):
    return [r.pick([r.range(-5000, 120000), r.range(20, 95) * 1000, 0]) for _ in range(3)]


def gen_config_case(r, idx):
    pre = f"k{idx}_" if r.chance(0.8) else ""
    k = r.below(20)
    if k == 0:  # one planted cycle of a fixed length 1..8 in an 8-node graph
        cfg = gen_valid(r, pre, n_fn=8)
        plant_cycle(r, cfg, pre, 1 + idx % 8)
    elif k == 1:  # big valid DAG
        cfg = gen_valid(r, pre, n_fn=8)
    elif k == 2:  # the fatal family
        cfg = gen_valid(r, pre)
        m_fatal(r, cfg, pre)
    else:
        cfg = gen_valid(r, pre)
        nm = r.pick([0, 0, 1, 1, 1, 1, 2, 2, 3])
        for _ in range(nm):
            apply_mutation(r, r.pick(MUTATIONS), cfg, pre)
    return case_lines(cfg, vals=gen_vals(r))


def gen_config(r, ncases):
    ops = []
    for i in range(ncases):
        ops += gen_config_case(r.fork(), i)
    return ops


def gen_config_directed(r=None):
    """every deviation applied alone to a fixed valid configuration, plus every planted cycle
    length 1..8, every function type with 0/1/3 members, every steps spelling."""
    r = r or Rng(11)
    ops = []
    n = 0
    for m in MUTATIONS:
        for rep in range(6):
            rr = r.fork()
            cfg = gen_valid(rr, f"d{n}_")
            apply_mutation(rr, m, cfg, f"d{n}_")
            ops += case_lines(cfg, vals=gen_vals(rr), label="cfg-directed " + m.__name__)
            n += 1
    for L in range(1, 9):
        for rep in range(4):
            rr = r.fork()
            cfg = gen_valid(rr, f"d{n}_", n_fn=8)
            plant_cycle(rr, cfg, f"d{n}_", L)
            ops += case_lines(cfg, vals=gen_vals(rr), label=f"cfg-directed cycle{L}")
            n += 1
    for ty in FN_TYPES + ["median"]:
        for nm in (0, 1, 3):
            rr = r.fork()
            cfg = gen_valid(rr, f"d{n}_", n_fn=0)
            leaves = [c["id"] for c in cfg["curves"]]
            cfg["curves"].append({"id": f"d{n}_fn", "function": {"type": ty, "curves": [rr.pick(leaves) for _ in range(nm)]}})
            ops += case_lines(cfg, vals=gen_vals(rr), label=f"cfg-directed fn-{ty}-{nm}")
            n += 1
    return ops


def gen_config_witnesses():
    """pinned witnesses of the defects found with this stream. Before the fixes 6a042ff / ffb7e7d the
    validator accepted them and running them panicked (empty-member `average`: integer divide by
    zero; `delta`, here with `curves:` absent: index out of range; `steps: []` / `steps: {}`:
    index out of range; `controlAlgorithm: {}`: nil control loop in the controller). They are now
    rejected with curveNoMembers / curveEmptySteps / fanEmptyAlgo (the model produces the
    expectation; `cfg.run` then prints `run=skipped` on both sides)."""
    sensors = [{"id": "s", "file": True}]
    fan = [{"id": "fan", "file": {"path": "/tmp/verif_x"}, "curve": "c"}]
    cases = {
        "average-empty": {"id": "c", "function": {"type": "average", "curves": []}},
        "delta-absent": {"id": "c", "function": {"type": "delta", "curves": None}},
        "steps-emptylist": {"id": "c", "linear": {"sensor": "s", "steps": ("emptylist", [])}},
        "steps-emptymap": {"id": "c", "linear": {"sensor": "s", "steps": ("emptymap", [])}},
    }
    ops = []
    for k, c in cases.items():
        ops += case_lines({"sensors": sensors, "curves": [c], "fans": fan, "mode": "644"}, label="cfg-witness " + k)
    leaf = {"id": "c", "linear": {"sensor": "s", "min": 40, "max": 80}}
    fan2 = [{"id": "fan", "file": {"path": "/tmp/verif_x"}, "curve": "c", "ca": ("map", {})}]
    ops += case_lines({"sensors": sensors, "curves": [leaf], "fans": fan2, "mode": "644"},
                      label="cfg-witness controlAlgorithm-empty")
    return ops


def gen_config_exhaustive_graphs(nodes=4, with_run=False, loops=True):
    """ALL digraphs on 1..nodes function-curve nodes (with self loops: 2^(n*n) graphs per n; without:
    2^(n*(n-1))); verdict only unless with_run. Every node also lists the leaf, so accepted graphs
    can be evaluated."""
    ops = []
    for n in range(1, nodes + 1):
        cells = [(i, j) for i in range(n) for j in range(n) if loops or i != j]
        for mask in range(1 << len(cells)):
            adj = {i: [] for i in range(n)}
            for b, (i, j) in enumerate(cells):
                if (mask >> b) & 1:
                    adj[i].append(f"n{j}")
            curves = [{"id": "leaf", "linear": {"sensor": "s", "min": 30, "max": 70}}]
            for i in range(n):
                curves.append({"id": f"n{i}", "function": {"type": "maximum", "curves": adj[i] + ["leaf"]}})
            cfg = {"sensors": [{"id": "s", "file": True}], "curves": curves,
                   "fans": [{"id": "fan", "file": {"path": "/tmp/verif_x"}, "curve": "n0"}], "mode": "644"}
            ops += case_lines(cfg, run=with_run, label=f"cfg-graph n={n} loops={int(loops)} mask={mask}")
    return ops
