"""The check engine: decides one property on /repo's current working tree.

Per run:  regenerate facts -> build harness from the tree -> lake build the property's theorems
(+ generated-fact theorems) -> audit axioms -> run the correspondence streams (real code vs model)
-> run the property oracle on the implementation's outputs -> verdict, evidence, replay.
"""
import hashlib
import json
import os
import shutil
import sys
import time
import traceback

from . import gobuild, leanside, run as runmod
from .gen import Rng

VERIF = gobuild.VERIF
# (overridable so that experiments on a patched copy of the repository do not clobber the committed evidence)
EVIDENCE_DIR = os.environ.get("VERIF_EVIDENCE_DIR", os.path.join(VERIF, "evidence"))
REPLAY_DIR = os.environ.get("VERIF_REPLAY_DIR", os.path.join(VERIF, "replays"))
KNOWN_PATH = os.path.join(VERIF, "known_findings.json")

TRUSTED_BASE_COMMON = [
    "Lean 4.33.0 kernel (lake build; thorough tier: leanchecker re-check of the property modules)",
    "axioms limited to propext, Classical.choice, Quot.sound (audited per theorem on every run; no native_decide, no bv_decide, no sorry, no own axioms)",
    "the statements in lean/Fan2go/Props/ being the right reading of properties.jsonl",
    "F64 (lean/Fan2go/F64/Basic.lean) being IEEE-754 binary64 as Go executes it on amd64 (validated by stream f64 on every run)",
    "the hand-written model (lean/Fan2go/Model/) being the code: established by the correspondence streams listed under coverage.streams to the extent their generators explore",
    "vlib/gobuild.py (overlay/modfile build, source rewrites), go/hook (verifhook), go/harness, lean/Driver, vlib/check.py (diff, oracle), factgen, the Go toolchain",
]


class Violation:
    def __init__(self, what, stream=None, case_ops=None, go=None, lean=None, detail=None, kind="oracle"):
        self.what = what
        self.stream = stream
        self.case_ops = case_ops or []
        self.go = go or []
        self.lean = lean or []
        self.detail = detail
        self.kind = kind  # oracle | correspondence | obligation | tie | build

    def to_json(self):
        return {"kind": self.kind, "what": self.what, "stream": self.stream, "ops": self.case_ops,
                "impl_output": self.go, "model_output": self.lean, "detail": self.detail}


class Stream:
    """one correspondence stream: gen(rng, tier) -> op lines"""

    def __init__(self, name, gen, parallel=8, exact=True, env=None, timeout=1200, contract=None):
        self.name = name
        self.gen = gen
        self.parallel = parallel
        self.exact = exact          # outputs must be equal line by line
        self.contract = contract    # for non-exact streams: f(op, go_line, lean_line) -> bool (allowed?)
        self.env = env
        self.timeout = timeout


class Prop:
    id = "C00"
    lean_modules = []       # Props modules whose theorems are the obligations
    fact_modules = []       # generated-fact theorem modules
    streams = []            # list of Stream
    assumptions = []
    trusted_extra = []
    rule = ""
    partial_note = ""
    lean_out = None         # set by the engine before each oracle call: the model driver's output lines for the same ops

    def oracle(self, name, ops, go):
        """evaluate the property on the implementation's outputs of one stream; return list of Violation"""
        return []

    def nontrivial(self, name, ops, go):
        """return a set of hashable 'case classes' that count as distinct & non-trivial"""
        return set()

    def search_streams(self):
        """extra (Stream, generator) pairs used only by the search for a failing input after something broke"""
        return []

    def extra(self, ctx):
        """process-level runs etc.; return (violations, stats dict)"""
        return [], {}

    def classify(self, v):
        """map a violation to the id of a 'known' entry in known_findings.json, or None"""
        return None


def load_known():
    try:
        d = json.load(open(KNOWN_PATH))
    except FileNotFoundError:
        return {}
    return {f["id"]: f for f in d.get("findings", [])}


def case_of(ops, idx):
    s = idx
    while s > 0 and not ops[s].startswith("#case"):
        s -= 1
    e = idx + 1
    while e < len(ops) and not ops[e].startswith("#case"):
        e += 1
    return s, e


def shrink_case(binary, case_ops, still_fails, budget_s=20):
    """greedy op removal keeping the case's first two lines (#case + constructor)."""
    t0 = time.time()
    ops = list(case_ops)
    head = 2 if len(ops) > 2 else len(ops)
    changed = True
    while changed and time.time() - t0 < budget_s:
        changed = False
        # try dropping the tail after the first failing line, then single ops
        i = len(ops) - 1
        while i >= head and time.time() - t0 < budget_s:
            cand = ops[:i] + ops[i + 1:]
            if still_fails(cand):
                ops = cand
                changed = True
            i -= 1
    return ops


def write_replay(pid, payload):
    os.makedirs(REPLAY_DIR, exist_ok=True)
    h = hashlib.sha1(json.dumps(payload, sort_keys=True, default=str).encode()).hexdigest()[:10]
    path = os.path.join(REPLAY_DIR, f"{pid}-{h}.json")
    with open(path, "w") as f:
        json.dump(payload, f, indent=1, default=str)
    return path


def run_check(prop, tier="quick", seed=0, replay=None):
    t0 = time.time()
    pid = prop.id
    os.makedirs(EVIDENCE_DIR, exist_ok=True)
    known = load_known()
    violations = []        # hard violations (not known)
    known_hits = {}        # finding id -> example
    broken = []            # broken obligations / ties (strings)
    notes = []
    cov = {"streams": {}, "samples": []}
    evaluations = 0
    nontrivial = set()
    traces_validated = 0

    # ---- 1. regenerated facts + harness build from the current tree
    #         (steps 1-2 write shared files under lean/ and build/: serialised across concurrently running checks)
    binary = None
    _lock = gobuild.build_lock()
    _lock.__enter__()
    try:
        from . import factgen
        fg_broken = factgen.regenerate()
        broken += [f"factgen: {b}" for b in fg_broken]
    except Exception as e:  # factgen itself failing is a broken tie
        broken.append(f"factgen failed: {e}")
    try:
        from . import transgen
        broken += [f"transgen: {b}" for b in transgen.regenerate()]
    except Exception as e:
        broken.append(f"transgen failed: {e}")
    try:
        from . import transgen2
        broken += [f"transgen2: {b}" for b in transgen2.regenerate()]
    except Exception as e:
        broken.append(f"transgen2 failed: {e}")
    try:
        from . import transgen3
        broken += [f"transgen3: {b}" for b in transgen3.regenerate()]
    except Exception as e:
        broken.append(f"transgen3 failed: {e}")
    if hasattr(prop, "pregen"):
        try:
            broken += prop.pregen()
        except Exception as e:
            broken.append(f"pregen failed: {e}")
    try:
        binary = gobuild.build("harness")
        # a private copy: a concurrently running check (another property, or the same machinery pointed at another tree)
        # replaces the shared binary when its own build phase comes
        import atexit
        import shutil
        priv = os.path.join(os.path.dirname(binary), "run", f"{os.path.basename(binary)}.{os.getpid()}")
        os.makedirs(os.path.dirname(priv), exist_ok=True)
        shutil.copy2(binary, priv)
        atexit.register(lambda p=priv: os.path.exists(p) and os.remove(p))
        binary = priv
        if gobuild.last_shim_notes:
            broken.append("export shims whose target identifier no longer exists in the tree (stubbed so that the harness still builds): "
                          + ", ".join(gobuild.last_shim_notes))
    except gobuild.BuildError as e:
        broken.append(f"harness build against the current tree failed: {e}: {e.output[-1500:]}")

    # ---- 2. Lean: build driver + property theorems, audit
    mods = list(prop.lean_modules) + list(prop.fact_modules)
    rc, out, lake_s = leanside.lake_build(["drv"] + mods)
    obligations = 0
    discharged = 0
    theorem_list = []
    if rc != 0:
        errs = [l for l in out.split("\n") if "error" in l][:12]
        broken.append("lake build failed: " + " | ".join(errs))
        # which modules fail?
        for m in mods:
            try:
                theorem_list += leanside.theorem_names(m)
            except Exception:
                pass
        obligations = len(theorem_list)
    else:
        forb = leanside.scan_forbidden()
        if forb:
            broken.append("forbidden tokens in Lean sources: " + "; ".join(forb[:8]))
        res, raw, arc = leanside.audit(mods, pid)
        theorem_list = sorted(res)
        obligations = len(res)
        for n, ax in res.items():
            if ax is None:
                broken.append(f"theorem {n}: no axiom report (does not check)")
            elif not set(ax) <= leanside.ALLOWED_AXIOMS:
                broken.append(f"theorem {n}: disallowed axioms {sorted(set(ax) - leanside.ALLOWED_AXIOMS)}")
            else:
                discharged += 1
        if obligations == 0:
            broken.append("no property theorems found in " + ", ".join(mods))
        if tier == "thorough" and not forb:
            lrc, lout = leanside.leanchecker(mods)
            cov["leanchecker"] = "ok" if lrc == 0 else "FAILED"
            if lrc != 0:
                broken.append("leanchecker rejected the property modules: " + lout[-500:])

    _lock.__exit__()
    # ---- 3. correspondence streams + oracle
    rng = Rng(seed * 1000003 + int(pid[1:]))
    drv_ok = os.path.exists(runmod.DRV)
    if binary and drv_ok:
        for st in prop.streams:
            r = rng.fork()
            ops = st.gen(r, tier)
            # committed corpus (minimised past failures / witnesses of known findings) runs first
            cpath = os.path.join(VERIF, "corpus", f"{pid}.{st.name}.ops")
            if os.path.exists(cpath):
                ops = [l for l in open(cpath).read().split("\n") if l] + ops
            if replay and replay.get("stream") == st.name:
                ops = replay["ops"] + ops
            t1 = time.time()
            res = runmod.both(binary, ops, parallel=st.parallel, harness_env=st.env, timeout=st.timeout)
            n_ops = sum(1 for o in ops if o and not o.startswith("#"))
            evaluations += n_ops
            ncases = sum(1 for o in ops if o.startswith("#case"))
            sinfo = {"ops": n_ops, "cases": ncases, "diffs": len(res["diffs"]), "wall_s": round(time.time() - t1, 2)}
            cov["streams"][st.name] = sinfo
            if res["rc_go"] != 0 or res["rc_lean"] != 0:
                broken.append(f"stream {st.name}: harness rc={res['rc_go']} driver rc={res['rc_lean']} "
                              f"{res['err_go'][-300:]} {res['err_lean'][-300:]}")
            diffs = res["diffs"]
            if not st.exact and st.contract:
                diffs = [d for d in diffs if not st.contract(d[1], d[2], d[3])]
            if diffs:
                i, op, a, b = diffs[0]
                s, e = case_of(ops, i)
                case_ops = ops[s:e]

                def still(c, _b=binary, _st=st):
                    rr = runmod.both(_b, c, harness_env=_st.env, timeout=120)
                    dd = rr["diffs"]
                    if not _st.exact and _st.contract:
                        dd = [d for d in dd if not _st.contract(d[1], d[2], d[3])]
                    return bool(dd)
                small = shrink_case(binary, case_ops, still, budget_s=15 if tier == "quick" else 60)
                rr = runmod.both(binary, small, harness_env=st.env, timeout=120)
                broken.append(f"correspondence stream {st.name}: model and implementation differ on {len(diffs)} line(s); "
                              f"first: op `{op}` impl `{a}` model `{b}`")
                violations_corr = Violation(f"correspondence broken in stream {st.name}", stream=st.name, case_ops=small,
                                            go=rr["go"], lean=rr["lean"], kind="correspondence",
                                            detail={"first_diff": {"op": op, "impl": a, "model": b}, "n_diffs": len(diffs)})
                cov.setdefault("correspondence_breaks", []).append(violations_corr.to_json())
            else:
                traces_validated += ncases
            # oracle on the implementation's outputs (self-contained replays)
            try:
                prop.lean_out = res["lean"]     # the proved model's answers, for oracles that use them as reference
                vs = prop.oracle(st.name, ops, res["go"])
                # an operation the implementation never came back from (harness watchdog): a deadlock or an endless loop
                # in the code under test - every property presupposes that its operations terminate
                for k, gl in enumerate(res["go"]):
                    if gl == "hang:watchdog" and k < len(ops):
                        s0, e0 = case_of(ops, k)
                        vs.append(Violation(f"the implementation did not return from `{ops[k][:160]}` (deadlock or endless loop; the model answers "
                                            f"`{(res['lean'][k] if k < len(res['lean']) else '?')[:80]}`)", stream=st.name, case_ops=ops[s0:k + 1],
                                            go=res["go"][s0:k + 1]))
                        break
                # ... or that brought the whole process down (a fatal error of the runtime, a panic on a goroutine nobody
                # recovers): the first operation of the stream that has no answer
                if res["rc_go"] != 0:
                    for k, gl in enumerate(res["go"]):
                        if gl == "<missing>" and k < len(ops) and not ops[k].startswith("#"):
                            s0, e0 = case_of(ops, k)
                            tail = [x for x in res["err_go"].strip().split("\n") if x.strip()]
                            why = next((x for x in tail if x.startswith(("fatal error:", "panic:"))), tail[-1] if tail else "?")
                            vs.append(Violation(f"the implementation brought the process down while executing `{ops[k][:160]}` (exit status {res['rc_go']}: "
                                                f"{why[:160]}; the model answers `{(res['lean'][k] if k < len(res['lean']) else '?')[:80]}`)",
                                                stream=st.name, case_ops=ops[s0:k + 1], go=res["go"][s0:k + 1]))
                            break
                nontrivial |= prop.nontrivial(st.name, ops, res["go"])
            except Exception as e:
                vs = []
                broken.append(f"oracle crashed on stream {st.name}: {e}\n{traceback.format_exc()[-600:]}")
            for v in vs:
                v.stream = v.stream or st.name
                fid = prop.classify(v)
                if fid and fid in known and known[fid].get("status") == "known":
                    known_hits.setdefault(fid, v)
                else:
                    violations.append(v)
            if ops and len(cov["samples"]) < 6:
                # a sample case, written out
                starts = [k for k, o in enumerate(ops) if o.startswith("#case")]
                if starts:
                    k = starts[min(len(starts) - 1, 1)]
                    s, e = case_of(ops, k)
                    cov["samples"].append({"stream": st.name, "ops": ops[s:min(e, s + 8)], "impl": res["go"][s:min(e, s + 8)]})
    elif not drv_ok:
        broken.append("Lean driver executable missing (lake build drv failed)")

    # ---- 4. property-specific process-level part
    try:
        ctx = {"tier": tier, "seed": seed, "rng": rng.fork(), "binary": binary, "prop": prop}
        evs, stats = prop.extra(ctx)
        for v in evs:
            fid = prop.classify(v)
            if fid and fid in known and known[fid].get("status") == "known":
                known_hits.setdefault(fid, v)
            else:
                violations.append(v)
        evaluations += stats.pop("evaluations", 0)
        nontrivial |= set(stats.pop("nontrivial", []))
        traces_validated += stats.pop("traces_validated", 0)
        for s in stats.pop("samples", []):
            cov["samples"].append(s)
        broken += stats.pop("broken", [])
        cov.update(stats)
    except Exception as e:
        broken.append(f"extra part crashed: {e}\n{traceback.format_exc()[-800:]}")

    # ---- 4b. something no longer checks and the executed cases showed no failing input: SEARCH for one.
    #          Fresh generator seeds (and the property's own focused generators, `search_streams`) are run through the
    #          implementation and judged by the property oracle alone, within a time budget. Never runs on a tree on
    #          which everything checks, so it costs nothing there and cannot raise an alarm there.
    if broken and not violations and binary and drv_ok and not os.environ.get("VERIF_NO_SEARCH"):
        budget = float(os.environ.get("VERIF_SEARCH_S", "150" if tier == "quick" else "900"))
        t_end = time.time() + budget
        sstat = {"rounds": 0, "ops": 0, "budget_s": budget, "found": False}
        k = 0
        try:
            while time.time() < t_end and not violations:
                k += 1
                r2 = Rng(seed * 7919 + 104729 * k + int(pid[1:]))
                todo = [(st, st.gen) for st in prop.streams] + [(st, g) for st, g in prop.search_streams()]
                for st, g in todo:
                    if time.time() >= t_end or violations:
                        break
                    ops = g(r2.fork(), tier)
                    res = runmod.both(binary, ops, parallel=st.parallel, harness_env=st.env, timeout=st.timeout)
                    sstat["ops"] += sum(1 for o in ops if o and not o.startswith("#"))
                    try:
                        prop.lean_out = res["lean"]
                        vs = prop.oracle(st.name, ops, res["go"])
                    except Exception:
                        vs = []
                    for v in vs:
                        v.stream = v.stream or st.name
                        fid = prop.classify(v)
                        if fid and fid in known and known[fid].get("status") == "known":
                            continue
                        v.what += f"  [found by the search after a broken obligation / tie, round {k}]"
                        violations.append(v)
                sstat["rounds"] = k
        except Exception as e:
            notes.append(f"search crashed: {e}")
        sstat["found"] = bool(violations)
        cov["search"] = sstat

    # ---- 5. verdict
    lines = []
    exit_code = 0
    for fid, v in sorted(known_hits.items()):
        lines.append(f"KNOWN-FINDING: property={pid} {fid}: {known[fid].get('what', '')}")
    replay_paths = []
    if violations:
        v = violations[0]
        payload = {"property": pid, "tier": tier, "seed": seed, "violation": v.to_json(),
                   "n_violations": len(violations), "others": [x.what for x in violations[1:6]],
                   "replay_cmd": f"python3 /verif/bin/check {pid} --replay <this file>"}
        path = write_replay(pid, payload)
        replay_paths.append(path)
        lines.append(f"VIOLATION property={pid} replay={path}")
        exit_code = 1
    elif broken:
        brk = cov.get("correspondence_breaks", [])
        payload = {"property": pid, "tier": tier, "seed": seed, "kind": "unproved",
                   "no_longer_checks": broken, "correspondence_breaks": brk,
                   "note": "an obligation, a regenerated-fact tie or a correspondence broke; the search over the executed cases "
                           "found no input on which the property oracle fails",
                   "replay_cmd": f"python3 /verif/bin/check {pid} --replay <this file>"}
        path = write_replay(pid, payload)
        replay_paths.append(path)
        lines.append(f"VIOLATION property={pid} replay={path} no-failing-input-found")
        exit_code = 1

    # ---- 6. evidence
    cov.pop("correspondence_breaks", None)
    coverage = {
        "obligations": max(obligations, 1) if obligations else 0,
        "discharged": discharged,
        "checker_cmd": f"cd /verif/lean && lake build drv {' '.join(mods)} && lake env lean /verif/build/audit_{pid}.lean"
                       + (" && lake env leanchecker " + " ".join(mods) if tier == "thorough" else ""),
        "trusted_base": TRUSTED_BASE_COMMON + list(prop.trusted_extra),
        "theorems": theorem_list,
        "evaluations": evaluations,
        "distinct_nontrivial": len(nontrivial),
        "rule": prop.rule,
        "traces_validated_against_impl": traces_validated,
        "broken": broken,
        "known_findings_reported": sorted(known_hits),
    }
    coverage.update(cov)
    if not coverage["samples"]:
        coverage["samples"] = [{"note": "no stream case executed"}]
    if prop.partial_note:
        coverage["partial"] = prop.partial_note
    ev = {"property_id": pid, "tier": tier, "seed": seed, "level": "proof", "coverage": coverage,
          "assumptions": list(prop.assumptions), "wall_s": round(time.time() - t0, 2),
          "violations": len(violations) + (1 if (broken and not violations) else 0)}
    if coverage["obligations"] < 1 or coverage["discharged"] < 1:
        # schema needs >= 1 for a proof-level claim; an unbuildable proof is reported through exit code + broken
        coverage["obligations"] = max(coverage["obligations"], 1)
        coverage["discharged"] = max(coverage["discharged"], 0)
    with open(os.path.join(EVIDENCE_DIR, f"{pid}.json"), "w") as f:
        json.dump(ev, f, indent=1, default=str)
    for l in lines:
        print(l)
    if exit_code == 0:
        print(f"OK property={pid} tier={tier} obligations={obligations} discharged={discharged} "
              f"evaluations={evaluations} streams={','.join(cov['streams'])} wall={ev['wall_s']}s")
    else:
        for b in broken[:10]:
            print("  broken:", b[:400])
        for v in violations[:5]:
            print("  violation:", v.what[:400])
    return exit_code
