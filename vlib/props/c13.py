"""C13 — measured fan limits follow the RPM curve; configured limits always win."""
import math

from ..check import Prop, Stream
from .. import streams
from ..gen import bits2f
from .common import kv, cases, viol


def gen_fans(r, tier):
    return streams.gen_fans(r, 600 if tier == "quick" else 20000)


def gen_fans_exhaustive(r, tier):
    """all data maps over 6 keys x RPM in {0, 0.5, 1, 300, 300.9, 1200} (sampled in quick) x 16 configurations"""
    import itertools
    keys = [0, 40, 80, 120, 200, 255]
    vals = [0.0, 0.5, 1.0, 300.0, 300.9, 1200.0]
    combos = list(itertools.product(vals, repeat=len(keys)))
    if tier == "quick":
        combos = r.sample(combos, 400)
    ops = []
    cfgs = [(a, b, c, ns) for a in (None, 25) for b in (None, 60) for c in (None, 180) for ns in (0, 1)]
    for combo in combos:
        data = dict(zip(keys, combo))
        for (cmin, cstart, cmax, ns) in (cfgs if tier == "thorough" else r.sample(cfgs, 2)):
            ops.append("#case fanx")
            ops.append(f"fan.new kind=hwmon ns={ns} cmin={streams.opt_tok(cmin)} cstart={streams.opt_tok(cstart)} cmax={streams.opt_tok(cmax)}")
            ops.append(f"fan.attach data={streams.float_map_tok(data)}")
    return ops


def gen_startlim(r, tier):
    """a restart of the daemon: a measured RPM curve of an earlier run is in the database (sparse: measured at a few PWM
    values only, with gaps between the last value at which the fan stands still and the first at which it spins), then the
    REAL controller start-up (`Run`: load, attach, map) runs on a fresh fan object; the limits that fan carries into
    regulation must be those of the stored measurements (seed C13g: the start-up path filled the gaps by interpolation first)"""
    ops = []
    for _ in range(10 if tier == "quick" else 150):
        ks = sorted(set([0, 255] + [r.range(1, 254) for _ in range(r.range(2, 7))]))
        z = r.range(1, len(ks) - 1)           # the first z points: the fan stands still
        top = r.range(z, len(ks) - 1)         # from here on the highest speed
        data = {}
        for i, k in enumerate(ks):
            data[k] = 0.0 if i < z else float(min(i, top) * 700 + r.range(0, 90))
        ns = r.below(2)
        ops += ["#case startlim", "su.open parallel=1",
                f"su.fan fan=f1 kind=hwmon ns={ns} cfgmap=1 spinat={r.range(5, 60)}",
                f"su.putrpm fan=f1 data={streams.float_map_tok(data)}",
                "su.start fan=f1"]
    return ops


def gen_ctrl_cfgmin(r, tier):
    """regulation of never-stop hwmon fans whose minPwm is CONFIGURED, with stall episodes (the controller raises its
    request): whatever regulation learns, the fan's limits stay the configured ones (seed C13i: the stall workaround wrote
    its raised minimum into the fan with force)"""
    import re
    ops = []
    for _ in range(60 if tier == "quick" else 1500):
        case = streams.gen_world_case(r, n_events=40, faults=False, kind="hwmon", ns=1, stall_bias=0.8,
                                      loop=r.pick([None, "loop=direct m=-"]))
        m = re.search(r" minp=(\d+)", case[1])
        if not m:
            continue
        ops += [case[0].replace("#case w", "#case w cfgmin"), case[1] + f" cmin={m.group(1)}"] + case[2:]
    return ops


def gen_analysis(r, tier):
    """the measurement itself: the real start-up analysis (`Run` / `fan init`) on devices that follow the PWM register
    (RPM = 10 x PWM from a spin threshold on), with quantisers and configured maps the device does not read back (those
    points are skipped), each followed by `su.data`: the stored curve is what the device did AT each stored PWM value, and
    the limits are the curve's (seed C13k: the samples were collected in a list and keyed by position afterwards, so a
    skipped point shifted every later one)"""
    from .. import streams_startup as ss
    return ss.gen_startup_data(r, 60 if tier == "quick" else 1500)


def goint(f):
    if f != f or f in (float("inf"), float("-inf")) or abs(f) >= 2.0**63:
        return -2**63
    return int(f)


def expected_limits(data):
    """the property text: start = lowest PWM with non-zero (whole) RPM, max = lowest PWM reaching the highest whole RPM"""
    start, mx = 255, 255
    best = 0
    for k in sorted(data):
        rpm = goint(data[k])
        if rpm > best:
            best, mx = rpm, k
        if rpm > 0 and k < start:
            start = k
    return start, mx


def parse_float_map(tok):
    if tok in ("nil", None):
        return None
    if tok in ("-", ""):
        return {}
    m = {}
    for p in tok.split(","):
        k, v = p.split(":")
        m[int(k)] = bits2f(int(v[1:], 16))
    return m


class C13(Prop):
    id = "C13"
    lean_modules = ["Fan2go.Props.C13"]
    fact_modules = ["Fan2go.Props.Trans", "Fan2go.Props.Trans2Keys", "Fan2go.Props.Trans3Fan", "Fan2go.Props.Trans3FileFan", "Fan2go.Props.Trans3RunInit"]
    rule = ("analysis: the real start-up analysis on register-following devices (quantisers, configured maps the device does not read back), "
            "stored curve and limits against the data-carrying model; fans: real HwMonFan/FileFan/CmdFan values through fans.NewFan; data maps (sparse, non-monotonic, plateaus, all-zero, "
            "single point, fractional / negative / non-finite RPM) x the 8 configured/unconfigured combinations x neverStop x "
            "attachment and setter sequences; fanx: data maps over 6 keys x RPM in {0,0.5,1,300,300.9,1200} (exhaustive in the "
            "thorough tier). non-trivial = distinct (kind, configured mask, neverStop, data shape, attach count)")
    assumptions = ["RPM values are compared in whole RPM (Go int(rpm) truncation), as the property states"]
    streams = [Stream("fans", gen_fans, parallel=8), Stream("fanx", gen_fans_exhaustive, parallel=8),
               Stream("startlim", gen_startlim, parallel=8), Stream("ctrl-cfgmin", gen_ctrl_cfgmin, parallel=8),
               Stream("analysis", gen_analysis, parallel=8)]

    def oracle(self, name, ops, go):
        out = []
        if name == "analysis":
            # reference: the data-carrying model of the analysis (Model/Analysis.lean) on the same operations
            lean = getattr(self, "lean_out", None) or go
            lean_cases = [lc for _, lc in cases(ops, lean)]
            for ci, (cops, cgo) in enumerate(cases(ops, go)):
                clean = lean_cases[ci] if ci < len(lean_cases) else cgo
                for i, (op, g) in enumerate(zip(cops, cgo)):
                    if not op.startswith("su.data") or i >= len(clean):
                        continue
                    a, b = kv(g), kv(clean[i])
                    if a.get("rpm") != b.get("rpm") and a.get("rpm") not in (None, "nil"):
                        out.append(viol(f"the stored RPM curve is not what the device did at those PWM values: stored {a.get('rpm')}, the device "
                                        f"(RPM = 10 x PWM register from its spin threshold on) gave {b.get('rpm')}", cops, cgo, upto=i))
                        break
                    data = parse_float_map(a.get("rpm"))
                    if data and "/" in a.get("lim", "-"):
                        mn, st, mx = (int(x) for x in a["lim"].split("/"))
                        es, em = expected_limits(data)
                        fan_line = next((o for o in reversed(cops[:i]) if o.startswith("su.fan") and f"fan={kv(op).get('fan')}" in o), "")
                        fa = kv(fan_line)
                        if fa.get("kind") == "hwmon" and fa.get("minmax", "0") == "0" and "startpwm" not in fa and (st, mx) != (es, em):
                            out.append(viol(f"limits {st}/{mx} derived from the stored curve, whose lowest spinning / fastest points are {es}/{em}", cops, cgo, upto=i))
                            break
            return out
        for cops, cgo in cases(ops, go):
            if name == "ctrl-cfgmin":
                if len(cops) < 2 or not cops[1].startswith("w.new"):
                    continue
                cmin = int(kv(cops[1])["cmin"])
                for i, g in enumerate(cgo):
                    st = kv(g)
                    if "min" in st and st["min"].lstrip("-").isdigit() and int(st["min"]) != cmin:
                        out.append(viol(f"the configured minPwm {cmin} was replaced by {st['min']} during regulation", cops, cgo, upto=i))
                        break
                continue
            if name == "startlim":
                data = None
                for i, (op, g) in enumerate(zip(cops, cgo)):
                    if op.startswith("su.putrpm"):
                        data = parse_float_map(kv(op)["data"])
                    if op.startswith("su.start") and data and kv(g).get("res") == "ok" and "/" in kv(g).get("lim", "-"):
                        mn, st, mx = (int(x) for x in kv(g)["lim"].split("/"))
                        es, em = expected_limits(data)
                        if (st, mx) != (es, em):
                            out.append(viol(f"after a restart the fan carries start/max {st}/{mx} into regulation; the stored measurements say {es}/{em}",
                                            cops, cgo, upto=i))
                            break
                continue
            if len(cops) < 2 or not cops[1].startswith("fan.new"):
                continue
            a = kv(cops[1])
            kind, ns = a["kind"], a["ns"] == "1"
            cfg = {k: (None if a.get(k, "-") == "-" else int(a[k])) for k in ("cmin", "cstart", "cmax")}
            attached = 0
            last_data = None
            forced = set()
            for i in range(1, len(cops)):
                op, g = cops[i], kv(cgo[i])
                if op.startswith("fan.set") and kv(op).get("force") == "1":
                    forced.add(kv(op)["which"])
                if kind != "hwmon":
                    if (int(g["min"]), int(g["start"]), int(g["max"])) != (0, 1, 255):
                        out.append(viol("file/cmd fan limits are not the constants (0,1,255)", cops, cgo, upto=i))
                        break
                    continue
                if not ns and int(g["min"]) != 0:
                    out.append(viol(f"fan without neverStop has minimum {g['min']}", cops, cgo, upto=i))
                    break
                # configured limits always win (unless a forced set was issued by the test itself)
                bad = None
                if cfg["cstart"] is not None and "start" not in forced and int(g["start"]) != cfg["cstart"]:
                    bad = f"configured startPwm {cfg['cstart']} replaced by {g['start']}"
                if cfg["cmax"] is not None and "max" not in forced and int(g["max"]) != cfg["cmax"]:
                    bad = f"configured maxPwm {cfg['cmax']} replaced by {g['max']}"
                if ns and cfg["cmin"] is not None and "min" not in forced and int(g["min"]) != cfg["cmin"]:
                    bad = f"configured minPwm {cfg['cmin']} replaced by {g['min']}"
                if bad:
                    out.append(viol(bad, cops, cgo, upto=i))
                    break
                if op.startswith("fan.restart") and cgo[i].startswith("ok") and not forced and attached:
                    # limits after the restart = limits of the last measured curve (on a fresh object: no earlier start PWM)
                    es, em = expected_limits(last_data)
                    if cfg["cmax"] is None and int(g["max"]) != em:
                        out.append(viol(f"after a restart (save, load, attach) maxPwm is {g['max']}, the measured curve says {em}", cops, cgo, upto=i))
                        break
                    if cfg["cstart"] is None and int(g["start"]) != es:
                        out.append(viol(f"after a restart (save, load, attach) startPwm is {g['start']}, the measured curve says {es}", cops, cgo, upto=i))
                        break
                if op.startswith("fan.attach"):
                    data = parse_float_map(kv(op)["data"])
                    res = cgo[i].split()[0]
                    if not data:
                        prev = kv(cgo[i - 1])
                        if res != "err" or (g["min"], g["start"], g["max"]) != (prev["min"], prev["start"], prev["max"]):
                            out.append(viol("attaching no measurements did not refuse / changed limits", cops, cgo, upto=i))
                            break
                        continue
                    attached += 1
                    if res != "err":
                        last_data = data
                    if forced:
                        continue
                    es, em = expected_limits(data)
                    if cfg["cmax"] is None and int(g["max"]) != em:
                        out.append(viol(f"measured maxPwm {g['max']}, the data say {em}", cops, cgo, upto=i, detail={"attach_no": attached}))
                        break
                    if cfg["cstart"] is None and int(g["start"]) != es:
                        prev_ptr = kv(cgo[i - 1]).get("startp", "-")
                        out.append(viol(f"measured startPwm {g['start']}, the data say {es}", cops, cgo, upto=i,
                                        detail={"attach_no": attached, "start_already_set": prev_ptr != "-"}))
                        break
        return out

    def classify(self, v):
        # known finding: on RE-attachment the previously measured start PWM is taken for a user override
        d = v.detail or {}
        if "measured startPwm" in v.what and d.get("start_already_set"):
            return "C13-reattach-stale-start"
        return None

    def nontrivial(self, name, ops, go):
        s = set()
        for cops, cgo in cases(ops, go):
            if len(cops) < 2:
                continue
            if name == "ctrl-cfgmin":
                s.add(("cfgmin", kv(cops[1]).get("loop"), min(len(cops) // 10, 5)))
                continue
            if name == "analysis":
                s.add(("analysis", tuple(o.split()[0] for o in cops[1:8]), frozenset(kv(o).get("mapstyle") for o in cops if o.startswith("su.fan"))))
                continue
            if name == "startlim":
                d = next((parse_float_map(kv(o)["data"]) for o in cops if o.startswith("su.putrpm")), None) or {}
                s.add(("startlim", len(d), expected_limits(d)[0] // 32))
                continue
            a = kv(cops[1])
            mask = tuple(a.get(k, "-") != "-" for k in ("cmin", "cstart", "cmax"))
            n_att = sum(1 for o in cops if o.startswith("fan.attach"))
            shapes = frozenset(min(len(parse_float_map(kv(o)["data"]) or {}), 7) for o in cops if o.startswith("fan.attach"))
            s.add((a["kind"], mask, a["ns"], n_att, shapes))
        return s


PROP = C13()
