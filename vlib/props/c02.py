"""C02 — a never-stop fan is never driven below its minimum, and the minimum never drops."""
from ..check import Prop, Stream
from .. import streams
from .common import kv, cases, world_ok, viol
from . import ctrl


def gen_stall(r, tier):
    """stall-heavy controller runs on neverStop fans (at the minimum, mid-range and max-1)"""
    n = 300 if tier == "quick" else 8000
    ops = []
    for _ in range(n):
        ops += streams.gen_world_case(r, n_events=60, faults=False, ns=1, stall_bias=0.8,
                                      loop=r.pick([None, "loop=direct m=-", "loop=direct m=-"]))
    return ops


def gen_attach(r, tier):
    """the minimum as start-up installs it: a neverStop hwmon fan with any combination of configured minPwm / startPwm /
    maxPwm, limits then derived from measured curve data (`w.attach`), then regulation with stall episodes"""
    import re
    n = 150 if tier == "quick" else 4000
    ops = []
    for _ in range(n):
        case = streams.gen_world_case(r, n_events=40, faults=False, kind="hwmon", ns=1, stall_bias=0.6,
                                      loop=r.pick([None, "loop=direct m=-"]))
        new = re.sub(r" (minp|maxp|startp|cmin|cmax|cstart)=\S+", "", case[1])
        ks = sorted(set(r.range(0, 255) for _ in range(r.pick([3, 6, 12, 40]))) | {255})
        spin = r.pick(ks)
        data = {k: (0.0 if k < spin else float(300 + 10 * min(k, r.pick([120, 200, 255])))) for k in ks}
        first = min(k for k in ks if data[k] > 0)
        top = max(data.values())
        mx = min(k for k in ks if data[k] == top)
        cfg = ""
        if r.chance(0.4):
            cfg += f" cmin={r.range(0, mx)}"
        if r.chance(0.4):
            cfg += f" cstart={r.range(0, mx)}"
        if r.chance(0.3):
            cfg += f" cmax={r.range(first, 255)}"
        ops += [case[0], new + cfg, "w.attach data=" + streams.float_map_tok(data)] + case[2:]
    return ops


def gen_busy_stall(r, tier):
    """a never-stop fan stalls at its minimum while an RPM measurement of the same controller is under way (waiting for a
    slow RPM read that then FAILS): the control cycle that falls into it raises the minimum; afterwards the curve stays at 0
    (direct loop), so the requests are the minimum plus the raises so far and must never fall (oracle-only; seed C02h: the
    measurement wrote back a snapshot of the counters it had taken before the raise)"""
    ops = []
    ident = streams.int_map_tok({i: i for i in range(256)})
    for _ in range(40 if tier == "quick" else 800):
        lo = r.range(1, 200)
        hi = r.range(lo + 10, 255)
        ops.append("#case busy-stall")
        ops.append(f"w.new kind=hwmon ns=1 win={r.pick([1, 2, 10])} minp={lo} maxp={hi} startp={lo} avg=x0000000000000000 map={ident} "
                   f"loop=direct m=- resp=id pwm={lo} rpm=0 origmode=2 origpwm=0 mode=1")
        now = r.range(1, 10**12)
        for k in range(r.range(4, 14)):
            now += 200_000_000
            if k > 0 and r.chance(0.5):
                ops.append(f"w.cyclebusy curve=0 now={now} fail={r.pick([1, 1, 0])}")
            else:
                ops.append(f"w.cycle curve=0 now={now}")
            if r.chance(0.3):
                ops.append("w.poll")
    return ops


def gen_stall_writefault(r, tier):
    """a never-stop fan is found stalled and the write that carries the raised request is refused by the device (a one-off
    EIO / read-only moment); the fan then turns again and the curve stays at 0 (direct loop): every later request is at least
    the raised minimum, i.e. the requests never fall (seed C02l: the raise was only recorded after a successful write)"""
    ops = []
    ident = streams.int_map_tok({i: i for i in range(256)})
    for _ in range(40 if tier == "quick" else 800):
        lo = r.range(1, 200)
        hi = r.range(lo + 10, 255)
        ops.append("#case stall-writefault")
        ops.append(f"w.new kind=hwmon ns=1 win={r.pick([1, 2, 10])} minp={lo} maxp={hi} startp={lo} avg=x0000000000000000 map={ident} "
                   f"loop=direct m=- resp=id pwm={r.pick([lo, r.range(0, 255)])} rpm=0 origmode=2 origpwm=0 mode=1")
        now = r.range(1, 10**12)
        n = r.range(4, 12)
        bad = r.range(1, 3)
        for k in range(n):
            now += 200_000_000
            if k == bad:
                ops.append(f"w.dev pwmwrite={r.pick(['refused', 'refused', 'ignored'])}")
            ops.append(f"w.cycle curve=0 now={now}")
            if k == bad:
                ops.append("w.dev pwmwrite=applied" + (" rpm=900" if r.chance(0.6) else ""))
                if r.chance(0.5):
                    ops.append(f"w.dev pwm={r.range(0, 255)}")   # something else moves the register meanwhile
            if r.chance(0.4):
                ops.append("w.poll")
    return ops


class C02(Prop):
    id = "C02"
    lean_modules = ["Fan2go.Props.C02"]
    fact_modules = ["Fan2go.Props.Facts", "Fan2go.Props.Trans", "Fan2go.Props.Trans3A", "Fan2go.Props.Trans3B", "Fan2go.Props.Trans3Fan", "Fan2go.Props.Trans3FileFan"]
    rule = ("ctrl-stall: neverStop fans (hwmon with configured or measured minimum, file, cmd) x all loops x event lists with "
            "stall episodes (RPM 0 while the request is unchanged) forced in most lists; ctrl: the general controller stream; ctrl-attach: "
            "limits installed from measured data on top of the 8 configuration combinations (w.attach), floor recomputed by the oracle. "
            "non-trivial = distinct (kind, configured-min?, loop, number of raises observed (capped), stalled-at-max seen?)")
    assumptions = ["limits inside the quantifier (0 <= min <= max <= 255); the floor is GetMinPwm() + raises so far"]
    streams = [Stream("ctrl-stall", gen_stall, parallel=8),
               Stream("ctrl", lambda r, tier: ctrl.gen_ctrl(r, tier, n_quick=300, n_thorough=8000), parallel=8),
               Stream("ctrl-long", ctrl.gen_long_quiet, parallel=8),
               Stream("ctrl-attach", gen_attach, parallel=8),
               Stream("busy-stall", gen_busy_stall, parallel=8, exact=False, contract=lambda op, a, b: True),
               Stream("stall-writefault", gen_stall_writefault, parallel=8)]

    def oracle_attach(self, ops, go):
        """the floor is computed from the configuration and the measured data alone: the configured minPwm, else the
        measured one (= the lowest measured PWM with non-zero RPM; a configured startPwm may stand in for it)"""
        from .c06 import parse_fmap
        out = []
        for cops, cgo in cases(ops, go):
            if len(cops) < 3 or not cops[2].startswith("w.attach") or not cgo[2].startswith("ok"):
                continue
            a = kv(cops[1])
            data = parse_fmap(kv(cops[2])["data"])
            measured = min([k for k, v in data.items() if int(v) > 0] or [255])
            if "cmin" in a:
                floor0 = int(a["cmin"])
            elif "cstart" in a:
                floor0 = min(measured, int(a["cstart"]))
            else:
                floor0 = measured
            st = kv(cgo[2])
            hi = int(st["max"])
            if not (0 <= floor0 <= hi <= 255) or not world_ok(cops[1] + f" minp={floor0} maxp={hi}"):
                continue
            if int(st["min"]) < floor0:
                out.append(viol(f"after the limits were derived the fan's minimum is {st['min']}, below the configured / measured minimum {floor0}",
                                cops, cgo, upto=2))
                continue
            for i, op, pre, post in ctrl.walk(cops, cgo):
                if op.startswith("w.cycle") and post.get("res") == "ok" and post.get("last", "-") != "-" and int(post["last"]) < floor0:
                    out.append(viol(f"requested PWM {post['last']} below the configured / measured minimum {floor0}", cops, cgo, upto=i))
                    break
        return out

    def oracle(self, name, ops, go):
        out = []
        if name in ("busy-stall", "stall-writefault"):
            # constant curve 0, direct loop: request = minimum + raises so far, which never falls
            for cops, cgo in cases(ops, go):
                prev = None
                for i, (op, g) in enumerate(zip(cops, cgo)):
                    if not op.startswith("w.cycle"):
                        continue
                    st = kv(g)
                    if name == "stall-writefault" and st.get("res") != "ok" and st.get("last", "-") != "-":
                        # the refused write: the request was made all the same
                        prev = max(prev or 0, int(st["last"]))
                        continue
                    if st.get("res") != "ok" or st.get("last", "-") == "-":
                        break
                    t = int(st["last"])
                    if prev is not None and t < prev:
                        out.append(viol(f"the request fell from {prev} to {t} although the curve stayed at its lowest value: the raised minimum dropped",
                                        cops, cgo, upto=i))
                        break
                    prev = t
            return out
        if name == "ctrl-attach":
            out += self.oracle_attach(ops, go)
        for cops, cgo in cases(ops, go):
            if len(cops) < 2 or not cops[1].startswith("w.new") or not world_ok(cops[1]):
                continue
            a = kv(cops[1])
            if a.get("ns") != "1":
                continue
            if name == "ctrl-attach":
                # configured and measured limits may contradict each other (minimum above maximum): outside the quantifier
                st2 = kv(cgo[2]) if len(cgo) > 2 else {}
                if not (cgo[2].startswith("ok") and 0 <= int(st2.get("min", -1)) <= int(st2.get("max", -1)) <= 255):
                    continue
            st0 = kv(cgo[1])
            floor_max = int(st0["min"]) + int(st0["off"])
            min0 = int(st0["min"])
            for i, op, pre, post in ctrl.walk(cops, cgo):
                if "min" not in post:
                    continue
                if int(post["min"]) < min0:
                    out.append(viol(f"the fan's minimum PWM dropped from {min0} to {post['min']}", cops, cgo, upto=i))
                    break
                floor_now = int(post["min"]) + int(post["off"])
                if floor_now < floor_max:
                    out.append(viol(f"the raised minimum dropped from {floor_max} to {floor_now}", cops, cgo, upto=i))
                    break
                if op.startswith("w.cycle") and post.get("res") == "ok" and post.get("last", "-") != "-":
                    t = int(post["last"])
                    if t < floor_max:
                        out.append(viol(f"requested PWM {t} below the (raised) minimum {floor_max}", cops, cgo, upto=i))
                        break
                    if int(post["inc"]) > int(pre["inc"]):
                        # a raise: strictly higher than the request at which the fan stalled
                        if pre.get("last", "-") != "-" and not t > int(pre["last"]):
                            out.append(viol(f"raise did not increase the request ({pre['last']} -> {t})", cops, cgo, upto=i))
                            break
                        if int(post["off"]) != int(pre["off"]) + 1:
                            out.append(viol("raise changed the offset by other than +1", cops, cgo, upto=i))
                            break
                floor_max = max(floor_max, floor_now)
        return out

    def nontrivial(self, name, ops, go):
        s = set()
        for cops, cgo in cases(ops, go):
            if len(cops) < 3 or not cops[1].startswith("w.new"):
                continue
            a = kv(cops[1])
            last = kv(cgo[-1])
            s.add((a.get("kind"), "cmin" in a, a.get("loop"), a.get("m", "-") != "-", min(int(last.get("inc", 0) or 0), 5),
                   any("stalled" in g for g in cgo)))
        return s


PROP = C02()
