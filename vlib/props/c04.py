"""C04 — constant curve value: request settles at one target, same for every algorithm."""
from ..check import Prop, Stream
from .. import streams
from ..gen import fx
from .common import kv, cases, viol

IDENT = streams.int_map_tok({i: i for i in range(256)})
# non-identity, non-decreasing PWM maps: the fan then reads back a value that differs from the request (seed C04d:
# the control loop continued from the read-back value instead of its own previous request)
SCALE100 = streams.int_map_tok({i: (i * 100) // 255 for i in range(256)})


def closed_map(r):
    k = r.below(4)
    if k <= 1:
        return IDENT
    if k == 2:
        return SCALE100
    q = r.pick([3, 8, 16, 51])
    return streams.int_map_tok({i: (i // q) * q for i in range(256)})


def gen_loop(r, tier):
    ops = streams.gen_loop(r, 200 if tier == "quick" else 5000)
    # the stateless direct algorithms, exhaustively over targets x currents for some / all limits
    ms = [None, 1, 10, 255] if tier == "quick" else [None] + list(range(1, 256, 7)) + [254, 255]
    for m in ms:
        ops.append("#case loop-exh")
        ops.append(f"loop.new loop=direct m={'-' if m is None else m}")
        step = 5 if tier == "quick" else 1
        for t in range(0, 256, step):
            for c in range(0, 256, step):
                ops.append(f"loop.cycle target={t} current={c} now=1000")
    return ops


def steady_py(c, lo, hi):
    c = max(0, min(255, c))
    return lo + int((float(c) / 255) * (float(hi) - float(lo)))


def gen_closed(r, tier):
    ops = []
    for _ in range(200 if tier == "quick" else 6000):
        lo, hi = streams.gen_limits(r)
        if lo == hi:
            hi = min(255, lo + 1)
            lo = hi - 1
        ident_range = r.chance(0.5)
        if ident_range:
            lo, hi = 0, 255
        kind = r.pick(["direct", "directm", "directm", "pid"])
        loop = streams.loop_tok(r, kind)
        ops.append(f"#case closed kind={kind}")
        ns = 1 if lo > 0 else 0
        startp, rpm_tok = lo, "avg=x408f400000000000"
        rpm = 900
        if r.chance(0.15):
            # a fan that is allowed to stop, stands still (0 RPM) and has a start PWM well above its minimum: the steady request
            # is still the curve's (seed C04k: a spin-up safeguard replaced small requests by the start PWM while the RPM read 0)
            ns, rpm, rpm_tok = 0, 0, "avg=x0000000000000000"
            lo = 0   # GetMinPwm of a fan that may stop is 0
            startp = min(hi, r.range(2, 80))
        ops.append(f"w.new kind=hwmon ns={ns} win=10 minp={lo} maxp={hi} startp={startp} {rpm_tok} map={closed_map(r)} {loop} "
                   f"resp=id pwm={r.range(0,255)} rpm={rpm} origmode=2 origpwm=0")
        now = r.range(1, 10**12)
        tick = r.pick([50_000_000, 200_000_000, 200_000_000, 1_000_000_000, 2_000_000_000])
        # prior history: arbitrary curve trajectory incl. long idling at 0 or 255
        for _ in range(r.range(0, 30)):
            # a single elapsed time of hours (suspend/resume) is outside the property's quantifier for PID (tick periods
            # 50 ms..2 s): it winds the integral up without bound -- noted in DESIGN.md as an observation
            now += r.pick([tick, tick, 3 * 3600 * 10**9]) if kind != "pid" else tick
            ops.append(f"w.cycle curve={r.pick([0, 255, r.range(0, 255)])} now={now}")
            ops.append("w.poll")
        if kind == "pid" and r.chance(0.7):
            # a long idle phase ON target, at the tick period: at an end of the scale or wherever the loop has settled
            idle = r.pick([0, 255, r.range(0, 255)])
            for _ in range(r.pick([200, 600]) if tier == "quick" else r.pick([600, 1800])):
                now += tick
                ops.append(f"w.cycle curve={idle} now={now}")
        c = r.pick([0, 255, r.range(0, 255), r.range(0, 255)])
        ops.append(f"#const c={c} lo={lo} hi={hi} tick={tick}")
        n = 300 if kind != "pid" else 700
        # the REQUEST is what has to settle - also while the device refuses or ignores writes for a while (read-only pwm file,
        # failing setPwm command): an outage window inside the constant phase (seed C04e: the request was only recorded
        # when the write had succeeded)
        fault = None
        if kind in ("directm", "direct") and r.chance(0.35):
            a0 = r.range(0, 12)
            fault = (a0, a0 + r.range(1, 60), r.pick(["refused", "ignored"]))
        # a competing writer (BIOS, another daemon) that rewrites the register after every one of fan2go's writes: the
        # read-back never matches, the REQUEST must settle all the same (seed C04g: every mismatch reset the PID loop)
        rival = r.range(0, 255) if (not fault and r.chance(0.25)) else None
        for k in range(n):
            if rival is not None:
                ops.append(f"w.dev pwm={rival}")
            if fault and k == fault[0]:
                ops.append(f"w.dev pwmwrite={fault[2]}")
            if fault and k == fault[1]:
                ops.append("w.dev pwmwrite=applied")
            now += tick
            ops.append(f"w.cycle curve={c} now={now}")
            ops.append("w.poll")
    return ops


def gen_wire_groups(r, tier):
    from .c20 import gen_wire_groups as g
    return g(r, tier)


class C04(Prop):
    id = "C04"
    lean_modules = ["Fan2go.Props.C04", "Fan2go.Props.C04pid"]
    fact_modules = ["Fan2go.Props.Facts", "Fan2go.Props.Trans", "Fan2go.Props.Trans3A", "Fan2go.Props.Trans3B", "Fan2go.Props.Trans3Leaf"]
    rule = ("loop: both Cycle functions, exhaustive targets x currents for the stateless direct algorithms (all 256x256 for a set of "
            "limits in the thorough tier), random PID gains / clocks; closed: the real controller in virtual time, limits random or "
            "0..255, loop direct / direct+limit / default PID with tick periods 50 ms..2 s, an arbitrary prior curve trajectory "
            "(incl. hours of idling), then a constant curve value for 300 (700 for PID) cycles. non-trivial = distinct (loop kind, "
            "limit, identity range?, curve class, history length bucket)")
    assumptions = ["the settling time of the PID algorithm is NOT proved (C04_pid_* are first-cycle / rest-point facts); its behaviour is sampled by stream closed"]
    partial_note = ("PID: settling is sampled, not proved. Direct+limit on a range other than 0..255 violates the property on the code that "
                    "exists (known finding C04-scale-mismatch, refuted in Lean by C04_limited_refuted)")
    streams = [Stream("loop", gen_loop, parallel=8), Stream("closed", gen_closed, parallel=8),
               # which algorithm the real initializeFanControllers wires for a configuration (absent = default PID,
               # direct, direct+limit, pid, deprecated controlLoop block)
               Stream("wiring", lambda r, tier: streams.gen_wiring(r, 300 if tier == "quick" else 6000), parallel=4),
               # several fans wired by ONE call: each gets control-loop state of its own (what "depends only on the
               # control-algorithm settings, not on what happened before" presupposes; seed C04j: one default PID loop for all)
               Stream("wiring-groups", gen_wire_groups, parallel=2)]

    def oracle(self, name, ops, go):
        out = []
        if name == "wiring-groups":
            for op, g in zip(ops, go):
                if op.startswith("wire.group") and (not g.startswith("ok") or " shared=0" not in g):
                    out.append(viol(f"fans wired together share one control-loop object ({op} -> {g}): each fan's request then depends on what the "
                                    "other fans' loops did before, and does not settle at its own curve's steady value", ["#case wire groups", op], ["#case wire groups", g]))
            return out
        if name != "closed":
            return out
        for cops, cgo in cases(ops, go):
            if len(cops) < 3:
                continue
            a = kv(cops[1])
            kind = kv(cops[0]).get("kind")
            ci = next((i for i, o in enumerate(cops) if o.startswith("#const")), None)
            if ci is None:
                continue
            k = kv(cops[ci])
            c, lo, hi = int(k["c"]), int(k["lo"]), int(k["hi"])
            st = steady_py(c, lo, hi)
            ident = (lo, hi) == (0, 255)
            m = None if a.get("m", "-") == "-" else int(a["m"])
            reqs = []
            prev = None
            for i in range(ci + 1, len(cops)):
                if not cops[i].startswith("w.cycle"):
                    continue
                g = kv(cgo[i])
                if g.get("res") != "ok":
                    break
                reqs.append(int(g["last"]))
            if not reqs:
                continue
            detail = {"kind": kind, "ident": ident, "lo": lo, "hi": hi, "m": m, "c": c}
            if kind == "direct":
                if any(x != st for x in reqs):
                    out.append(viol(f"direct loop: requests {reqs[:5]} differ from the steady value {st}", cops, cgo, upto=ci + 4, detail=detail))
            elif kind == "directm":
                n = -(-255 // m) + 1
                tail = reqs[n:]
                if tail and any(x != st for x in tail):
                    out.append(viol(f"direct loop with maxPwmChangePerCycle={m}: after {n} cycles the request is {tail[0]}.., steady value {st} (range {lo}..{hi})",
                                    cops, cgo, upto=ci + 2 * n + 2, detail=detail))
                    continue
                if ident:
                    last = int(kv(cgo[ci - 2]).get("last", reqs[0])) if ci > 2 and "last" in kv(cgo[ci - 2]) and kv(cgo[ci - 2])["last"] != "-" else None
                    seq = ([last] if last is not None else []) + reqs
                    for x, y in zip(seq, seq[1:]):
                        if abs(y - x) > m or (x <= c and not (x <= y <= max(c, x))) or (x >= c and not (min(c, x) <= y <= x)):
                            out.append(viol(f"limited loop step {x}->{y} exceeds {m} or is not a monotone approach to {c}", cops, cgo, detail=detail))
                            break
            elif kind == "pid":
                tail = reqs[500:]
                if tail and any(abs(x - st) > 1 for x in tail):
                    out.append(viol(f"default PID: after 500 cycles the request is {tail[0]}..{tail[-1]}, steady value {st} (range {lo}..{hi})",
                                    cops, cgo, upto=ci + 3, detail=detail))
        return out

    def classify(self, v):
        d = v.detail or {}
        if d.get("kind") in ("directm", "pid") and d.get("ident") is False:
            return "C04-scale-mismatch"
        return None

    def nontrivial(self, name, ops, go):
        s = set()
        for cops, cgo in cases(ops, go):
            if name == "closed" and len(cops) > 2:
                a = kv(cops[1])
                ci = next((i for i, o in enumerate(cops) if o.startswith("#const")), 0)
                k = kv(cops[ci]) if ci else {}
                s.add((kv(cops[0]).get("kind"), a.get("m"), a.get("minp"), a.get("maxp"), k.get("c"), min(ci // 10, 6)))
            elif name == "loop" and len(cops) > 1:
                s.add((cops[1][:40], len(cops) // 100))
        return s


PROP = C04()
