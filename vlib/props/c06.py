"""C06 — curves evaluate to their documented function, always within 0..255."""
from fractions import Fraction

from ..check import Prop, Stream
from .. import streams
from ..gen import bits2f, fx, finite_float_bits
from .common import kv, cases, viol


def gen_curves(r, tier):
    return streams.gen_curves(r, 400 if tier == "quick" else 15000)


def gen_defs(r, tier):
    """definition cases: linear leaves evaluated alone, then function curves over them in topological order, so
    that the oracle can recompute every aggregate from the members' own results"""
    ops = []
    for _ in range(250 if tier == "quick" else 8000):
        ops += ["#case defs", "cv.reset"]
        nl = r.range(1, 5)
        leaves = []
        for i in range(nl):
            s = f"s{i}"
            if r.chance(0.5):
                mn = r.range(-20, 90)
                # min == max (an on/off threshold) and min > max: 255 from max on, 0 below (seed C06l: min and max became the keys
                # of a two-point step map, which collapses / inverts for such curves)
                mx = mn + (r.range(1, 60) if r.chance(0.85) else r.range(-10, 0))
                ops.append(f"cv.add id=L{i} kind=linear sensor={s} min={mn} max={mx} steps=nil")
            else:
                steps = streams.gen_steps(r, fractional=r.chance(0.4))
                ops.append(f"cv.add id=L{i} kind=linear sensor={s} min=0 max=0 steps={streams.float_map_tok(steps)}")
            leaves.append(f"L{i}")
        fns = []
        allc = list(leaves)
        for i in range(r.pick([1, 2, 3, 4, 6])):
            nm = r.pick([1, 1, 2, 2, 3, 4, 8])
            members = [r.pick(allc) for _ in range(nm)]
            ty = r.pick(streams.FN_TYPES)
            ops.append(f"cv.add id=F{i} kind=function type={ty} members={','.join(members)}")
            fns.append(f"F{i}")
            allc.append(f"F{i}")
        for _ in range(r.range(1, 6)):
            for i in range(nl):
                avg = streams.gen_reading(r, r.range(-20, 90), r.range(20, 120))
                ops.append(f"cv.sensor id=s{i} avg={fx(avg)} val={fx(avg)}")
            for c in allc:
                ops.append(f"cv.eval id={c} now=1000")
    return ops


def gen_torn(r, tier):
    """the sensor monitor stores a new reading in the middle of an evaluation (right after the curve's first look at the
    average): the result is the curve's function of a reading the sensor HAD - the old one, the new one, or between (seed
    C06k: the average was read once for the range test and again for the interpolation). Oracle-only."""
    ops = []
    for _ in range(300 if tier == "quick" else 8000):
        ops += ["#case torn", "cv.reset"]
        mn = r.range(-20, 90)
        mx = mn + r.range(1, 60)
        if r.chance(0.7):
            ops.append(f"cv.add id=L0 kind=linear sensor=s0 min={mn} max={mx} steps=nil")
        else:
            steps = streams.gen_steps(r, fractional=r.chance(0.4))
            ops.append(f"cv.add id=L0 kind=linear sensor=s0 min=0 max=0 steps={streams.float_map_tok(steps)}")
        for _ in range(r.range(1, 4)):
            a = float(r.range(mn * 1000 - 2000, mx * 1000 + 2000))
            b = r.pick([float(r.range(-40000, 160000)), float(r.range(mn * 1000 - 2000, mx * 1000 + 2000))])
            ops.append(f"cv.sensor id=s0 avg={fx(a)} val={fx(a)}")
            ops.append("cv.eval id=L0 now=1000")
            ops.append(f"cv.sensor id=s0 avg={fx(b)} val={fx(b)}")
            ops.append("cv.eval id=L0 now=1000")
            ops.append(f"cv.sensor id=s0 avg={fx(a)} val={fx(a)} then={fx(b)}")
            ops.append("cv.eval id=L0 now=1000")
    return ops


def parse_fmap(tok):
    if tok in ("nil", None):
        return None
    if tok in ("-", ""):
        return {}
    m = {}
    for p in tok.split(","):
        k, v = p.split(":")
        m[int(k)] = bits2f(int(v[1:], 16))
    return m


def go_round(x):
    """math.Round (half away from zero), computed exactly: abs(x)+0.5 in floating point rounds 0.49999999999999994
    up to 1.0, which Go's math.Round does not"""
    import math
    q = abs(Fraction(x)) + Fraction(1, 2)
    return int(math.floor(q)) * (1 if x >= 0 else -1)


class C06(Prop):
    id = "C06"
    lean_modules = ["Fan2go.Props.C06"]
    fact_modules = ["Fan2go.Props.Facts", "Fan2go.Props.Trans", "Fan2go.Props.Trans2Interp", "Fan2go.Props.Trans2Evaluate", "Fan2go.Props.Trans3Leaf"]
    rule = ("curve: real LinearSpeedCurve / FunctionSpeedCurve / PidSpeedCurve objects in the real registries over mock sensors "
            "(bit patterns), virtual clock for PID; linear min<max and min>=max, 1..12 steps with integer / fractional speeds and "
            "negative / huge temperatures; readings at boundaries +-1 m-degree, negative, 0, 1e300, subnormal; six function types "
            "x 0..8 members x depth <= 4; defs: every member evaluated alone before its aggregate. non-trivial = distinct (curve "
            "kinds, function types, member counts, result classes)")
    assumptions = ["non-finite sensor readings are C08's subject; a NaN PID term (two evaluations in one clock reading, or Inf-Inf from "
                   "overflowing gains) is the recorded known finding C06-pid-nan"]
    streams = [Stream("curve", gen_curves, parallel=8), Stream("defs", gen_defs, parallel=8),
               Stream("torn", gen_torn, parallel=4, exact=False, contract=lambda op, a, b: True)]

    def oracle(self, name, ops, go):
        out = []
        # the proved model's answers on the same ops: the reference for PID curves (the clamped PID term scaled to 255 is
        # a function of the whole evaluation history; recomputing it here would only re-implement the model)
        lean = getattr(self, "lean_out", None) or go
        lean_cases = [lc for _, lc in cases(ops, lean)]
        for ci, (cops, cgo) in enumerate(cases(ops, go)):
            clean = lean_cases[ci] if ci < len(lean_cases) else cgo
            cfgs, sens, vals = {}, {}, {}
            malformed = False
            for i, (op, g) in enumerate(zip(cops, cgo)):
                a = kv(op)
                if (op.startswith("cv.eval ") and not malformed and cfgs.get(a.get("id"), {}).get("kind") == "pid" and g.startswith("i")
                        and i < len(clean) and clean[i].startswith("i") and clean[i].split()[0] != g.split()[0]):
                    out.append(viol(f"PID curve {a['id']} = {g.split()[0][1:]}, the clamped PID term scaled to 255 for this evaluation history is "
                                    f"{clean[i].split()[0][1:]} (reference: the proved model on the same operations)", cops, cgo, upto=i,
                                    detail={"kind": "pid", "vs_model": True}))
                    break
                if op.startswith("cv.add"):
                    cfgs[a["id"]] = a
                    if a["kind"] == "function" and (a.get("members", "-") == "-" or a.get("type") not in streams.FN_TYPES or "missing" in a.get("members", "")):
                        malformed = True   # C11's subject (rejected by the validator)
                    if a["kind"] == "linear" and a.get("steps") == "-":
                        malformed = True
                elif op.startswith("cv.sensor"):
                    sens[a["id"]] = a
                elif op.startswith("cv.evalpair"):
                    # two overlapping evaluations of one curve object: each must be the curve's function of the sensor
                    # state, i.e. the value the sequential evaluation just before gave (the case has no PID member)
                    if malformed or a["id"] not in vals:
                        continue
                    want = vals[a["id"]]
                    got = kv(g)
                    wants = {"a": want, "b": want}
                    if "set" in a:
                        # another sensor changed while evaluation a was suspended (a had read it already): b is the curve's
                        # value for the NEW state, which the sequential evaluation right after this op shows
                        nxt = cgo[i + 1] if i + 1 < len(cops) and cops[i + 1].startswith("cv.eval id=" + a["id"] + " ") else ""
                        if not nxt.startswith("i"):
                            continue
                        wants["b"] = int(nxt.split()[0][1:])
                    for side in ("a", "b"):
                        r_ = got.get(side, "")
                        want = wants[side]
                        if r_ != f"i{want}":
                            out.append(viol(f"curve {a['id']} evaluated by two controllers at once: evaluation {side} returned {r_}, "
                                            f"the curve's value for this sensor state is {want}", cops, cgo, upto=i,
                                            detail={"kind": cfgs[a["id"]]["kind"], "concurrent": True}))
                            break
                    else:
                        continue
                    break
                elif op.startswith("cv.eval"):
                    if malformed or not g.startswith("i"):
                        vals.pop(a["id"], None)
                        continue
                    v = int(g.split()[0][1:])
                    c = cfgs.get(a["id"])
                    if c is None:
                        continue
                    vals[a["id"]] = v
                    if name == "torn" and "then=" in cops[i - 1] and i >= 5 and cgo[i - 4].startswith("i") and cgo[i - 2].startswith("i"):
                        # the two evaluations before this one gave the curve's values for the old and for the new reading
                        va, vb = int(cgo[i - 4].split()[0][1:]), int(cgo[i - 2].split()[0][1:])
                        if not (min(va, vb) <= v <= max(va, vb)):
                            out.append(viol(f"curve {a['id']} = {v} while the sensor's average went from one reading to the next in the middle "
                                            f"of the evaluation; the curve's values for the two readings are {va} and {vb}", cops, cgo, upto=i,
                                            detail={"kind": "linear", "torn": True}))
                            break
                    if not (0 <= v <= 255):
                        avg = sens.get(c.get("sensor"), {}).get("avg")
                        nan_in = avg is not None and bits2f(int(avg[1:], 16)) != bits2f(int(avg[1:], 16))
                        out.append(viol(f"curve {a['id']} ({c['kind']}) evaluated to {v}, outside 0..255", cops, cgo, upto=i,
                                        detail={"kind": c["kind"], "nan_input": nan_in, "has_pid": any(x["kind"] == "pid" for x in cfgs.values())}))
                        break
                    if name != "defs":
                        continue
                    if c["kind"] == "linear":
                        avg = bits2f(int(sens[c["sensor"]]["avg"][1:], 16))
                        steps = parse_fmap(c.get("steps"))
                        if steps is None:
                            mn, mx = int(c["min"]), int(c["max"])
                            if avg >= mx * 1000:
                                want = (255, 255)
                            elif avg <= mn * 1000:
                                want = (0, 0)
                            else:
                                exact = Fraction(255) * (Fraction(avg) - 1000 * mn) / (1000 * (mx - mn))
                                want = (int(exact) - 1, int(exact) + 1)
                            if not (want[0] <= v <= want[1]):
                                out.append(viol(f"linear curve {a['id']} = {v}, the clamped interpolation gives {want}", cops, cgo, upto=i))
                                break
                        else:
                            ks = sorted(steps)
                            t = avg / 1000
                            if t <= ks[0]:
                                lo = hi = go_round(steps[ks[0]])
                            elif t >= ks[-1]:
                                lo = hi = go_round(steps[ks[-1]])
                            else:
                                k0 = max(k for k in ks if k <= t)
                                k1 = min(k for k in ks if k > t)
                                if t == k0:
                                    lo = hi = go_round(steps[k0])
                                else:
                                    # the documented function: the straight line through the two neighbouring steps
                                    # (exact rationals; +-1 for the binary64 / binary32 roundings on the way)
                                    y0, y1 = Fraction(steps[k0]), Fraction(steps[k1])
                                    exact = y0 + (Fraction(avg) / 1000 - k0) / (k1 - k0) * (y1 - y0)
                                    # ... and never beyond the two neighbouring speeds - as the code sees them: a speed that is no
                                    # binary32 number (137.49999999999994) is a binary32 number after the cast on the way (137.5)
                                    import struct
                                    f32 = lambda x: struct.unpack("<f", struct.pack("<f", x))[0]
                                    nb = [go_round(steps[k0]), go_round(steps[k1]), go_round(f32(steps[k0])), go_round(f32(steps[k1]))]
                                    lo = max(min(nb), go_round(exact) - 1)
                                    hi = min(max(nb), go_round(exact) + 1)
                            if not (lo <= v <= hi):
                                out.append(viol(f"steps curve {a['id']} = {v} at {t} degrees, expected within [{lo},{hi}]", cops, cgo, upto=i))
                                break
                    elif c["kind"] == "function":
                        ms = c["members"].split(",")
                        if not all(m in vals for m in ms):
                            continue
                        xs = [vals[m] for m in ms]
                        ty = c["type"]
                        want = {"sum": min(255, sum(xs)), "difference": max(0, xs[0] - sum(xs[1:])),
                                "delta": max(xs) - min(xs), "minimum": min(xs), "maximum": max(xs),
                                "average": sum(xs) // len(xs)}[ty]
                        if v != want:
                            out.append(viol(f"function curve {a['id']} ({ty}) over {xs} = {v}, the documented aggregate is {want}", cops, cgo, upto=i))
                            break
        return out

    def classify(self, v):
        d = v.detail or {}
        if "outside 0..255" in v.what and d.get("has_pid") and not d.get("nan_input"):
            return "C06-pid-nan"
        return None

    def nontrivial(self, name, ops, go):
        s = set()
        for cops, cgo in cases(ops, go):
            kinds = frozenset((kv(o).get("kind"), kv(o).get("type"), min(len(kv(o).get("members", "").split(",")), 9))
                              for o in cops if o.startswith("cv.add"))
            res = frozenset(g.split()[0][:1] + ("255" if g.startswith("i255") else "0" if g.startswith("i0 ") else "")
                            for o, g in zip(cops, cgo) if o.startswith("cv.eval"))
            s.add((kinds, res))
        return s


PROP = C06()
