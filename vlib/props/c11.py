"""C11 — a configuration that validates can be run."""
from ..check import Prop, Stream
from .. import streams_config as sc
from .common import kv, cases, viol


def gen_cfg(r, tier):
    ops = sc.gen_config_witnesses() + sc.gen_config_directed()
    ops += sc.gen_config(r, 250 if tier == "quick" else 6000)
    return ops


def gen_graphs(r, tier):
    if tier == "thorough":
        return sc.gen_config_exhaustive_graphs(nodes=4, with_run=False, loops=True)
    return sc.gen_config_exhaustive_graphs(nodes=3, with_run=True, loops=True)


class C11(Prop):
    id = "C11"
    lean_modules = ["Fan2go.Props.C11"]
    rule = ("config: abstract configurations rendered to YAML in the documented spellings and taken through the real path "
            "viper -> LoadConfig -> Validate (file with real permissions): curve graphs up to 8 nodes (DAGs, planted cycles of "
            "every length 1..8, dangling references), six function types + unsupported, 0/1/many members, steps with 0/1/many "
            "entries, duplicate/missing ids, 0..3 backends per entry, hwmon/file/cmd fans, all controlAlgorithm spellings; the "
            "decoded struct's canonical dump is compared with the generator's intent; accepted configurations are instantiated "
            "and every curve evaluated under recover with a watchdog; graphs: ALL digraphs on <= 3 (quick) / <= 4 (thorough) "
            "function-curve nodes. non-trivial = distinct (verdict class, run class)")
    assumptions = ["viper/mapstructure decoding is not modelled; it is validated by comparing the decoded struct's dump with the generator's intent",
                   "looplab/tarjan returns the strongly connected components (its verdict is compared with the model's reachability criterion on every graph)",
                   "undecodable documents end `config validate` in ui.Fatal (a panic, exit status 2) instead of a validation error: outside the property (which is about accepted configurations)"]
    streams = [Stream("config", gen_cfg, parallel=8, timeout=1800), Stream("graphs", gen_graphs, parallel=8, timeout=1800)]

    def oracle(self, name, ops, go):
        out = []
        for cops, cgo in cases(ops, go):
            verdict = None
            for i, (op, g) in enumerate(zip(cops, cgo)):
                if op.startswith("cfg.load"):
                    verdict = kv(g).get("verdict")
                elif op.startswith("cfg.run") and verdict == "ok":
                    run = kv(g).get("run", "")
                    if run.startswith("panic") or run == "hang":
                        out.append(viol(f"a configuration accepted by the validator crashed or hung when its curves were evaluated: {g[:80]}", cops, cgo, upto=i))
        return out

    def nontrivial(self, name, ops, go):
        s = set()
        for op, g in zip(ops, go):
            if op.startswith("cfg.load"):
                s.add(("load", kv(g).get("verdict")))
            elif op.startswith("cfg.run"):
                s.add(("run", kv(g).get("run")))
        return s


PROP = C11()
