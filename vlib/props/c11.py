"""C11 — a configuration that validates can be run."""
from ..check import Prop, Stream
from .. import streams_config as sc
from .common import kv, cases, viol


def gen_nested_order():
    """nested function curves in every listing order (an outer function curve listed BEFORE the function curve nested in it),
    where a sensor is reachable from the fan only THROUGH the nested curve, plus a curve no fan uses: validation accepts
    every order, so every order has to run (seed C11l: start-up registered only the sensors a one-pass scan of `curves:`
    found in use)"""
    import itertools
    ops = []
    base = [{"id": "outer", "function": {"type": "maximum", "curves": ["mid", "leafA"]}},
            {"id": "mid", "function": {"type": "average", "curves": ["inner"]}},
            {"id": "inner", "function": {"type": "sum", "curves": ["leafB"]}},
            {"id": "leafA", "linear": {"sensor": "sa", "min": 30, "max": 70}},
            {"id": "leafB", "linear": {"sensor": "sb", "min": 20, "max": 60}},
            {"id": "spare", "linear": {"sensor": "sc", "min": 10, "max": 50}}]
    for k, perm in enumerate(itertools.permutations(range(5))):
        if k % 6 != 0:
            continue
        curves = [base[i] for i in perm] + [base[5]]
        cfg = {"sensors": [{"id": "sa", "file": True}, {"id": "sb", "file": True}, {"id": "sc", "file": True}], "curves": curves,
               "fans": [{"id": "fan", "file": {"path": "/tmp/verif_x"}, "curve": "outer"}], "mode": "644"}
        ops += sc.case_lines(cfg, run=True, label=f"cfg-nested-order perm={''.join(map(str, perm))}")
    return ops


def gen_cfg(r, tier):
    ops = sc.gen_config_witnesses() + sc.gen_config_directed() + gen_nested_order()
    ops += sc.gen_config(r, 250 if tier == "quick" else 6000)
    return ops


def gen_graphs(r, tier):
    if tier == "thorough":
        return sc.gen_config_exhaustive_graphs(nodes=4, with_run=False, loops=True)
    return sc.gen_config_exhaustive_graphs(nodes=3, with_run=True, loops=True)


class C11(Prop):
    id = "C11"
    lean_modules = ["Fan2go.Props.C11"]
    fact_modules = ["Fan2go.Props.Facts"]
    rule = ("config: abstract configurations rendered to YAML in the documented spellings and taken through the real path "
            "viper -> LoadConfig -> Validate (file with real permissions): curve graphs up to 8 nodes (DAGs, planted cycles of "
            "every length 1..8, dangling references), six function types + unsupported, 0/1/many members, steps with 0/1/many "
            "entries, duplicate/missing ids, 0..3 backends per entry, hwmon/file/cmd fans, all controlAlgorithm spellings; the "
            "decoded struct's canonical dump is compared with the generator's intent; accepted configurations are instantiated "
            "and every curve evaluated under recover with a watchdog; graphs: ALL digraphs on <= 3 (quick) / <= 4 (thorough) "
            "function-curve nodes. non-trivial = distinct (verdict class, run class)")
    assumptions = ["viper/mapstructure decoding is not modelled; it is validated by comparing the decoded struct's dump with the generator's intent",
                   "looplab/tarjan returns the strongly connected components (its verdict is compared with the model's reachability criterion on every graph)",
                   "undecodable documents end `config validate` in ui.Fatal (a panic, exit status 2) instead of a validation error: outside the property (which is about accepted configurations)"]
    streams = [Stream("config", gen_cfg, parallel=8, timeout=1800), Stream("graphs", gen_graphs, parallel=8, timeout=1800)]

    @staticmethod
    def parse_dump(d):
        """sections of the canonical dump of the DECODED configuration: ids, backends per entry, references"""
        def elems(sec, sep):
            return sec.split(sep)[1:]
        secs = d.split("!")
        if len(secs) != 3:
            return None
        S, C, F = secs[0][1:], secs[1][1:], secs[2][1:]
        out = {"sensors": [], "curves": [], "fans": []}
        for e in elems(S, ";"):
            sid, _, items = e.partition(":")
            out["sensors"].append((sid, [x for x in items.split(",") if x]))
        for e in elems(C, ";"):
            cid, _, items = e.partition(":")
            out["curves"].append((cid, [x for x in items.split(",") if x]))
        for e in elems(F, ";"):
            fid, _, items = e.partition(":")
            out["fans"].append((fid, [x for x in items.split(",") if x]))
        return out

    def oracle(self, name, ops, go):
        out = []
        # "conversely ... is accepted": the validation model (the proved `validateConfig`, which accepts exactly the entries
        # assembled from the documented forms with unique ids per section, one backend, resolvable references, no cycle) is
        # the reference: what it accepts must not be rejected
        lean = getattr(self, "lean_out", None) or go
        for k, (op, g) in enumerate(zip(ops, go)):
            if op.startswith("cfg.load") and k < len(lean) and kv(lean[k]).get("verdict") == "ok" and str(kv(g).get("verdict", "")).startswith("err"):
                s0 = max(i for i in range(k + 1) if ops[i].startswith("#case"))
                out.append(viol(f"a configuration assembled from documented forms only (accepted by the validation model) was rejected: "
                                f"{kv(g).get('verdict')} {kv(g).get('ent', '')}", ops[s0:k + 1], go[s0:k + 1]))
                break
        for cops, cgo in cases(ops, go):
            verdict = None
            for i, (op, g) in enumerate(zip(cops, cgo)):
                if op.startswith("cfg.load"):
                    verdict = kv(g).get("verdict")
                    if verdict == "ok":
                        d = self.parse_dump(kv(g).get("dump", ""))
                        bad = None
                        if d:
                            for sec in ("sensors", "curves", "fans"):
                                ids = [x[0] for x in d[sec]]
                                if len(ids) != len(set(ids)):
                                    bad = f"accepted configuration has duplicate {sec[:-1]} ids {ids}"
                            cids = {x[0] for x in d["curves"]}
                            sids = {x[0] for x in d["sensors"]}
                            for fid, items in d["fans"]:
                                backends = [x for x in items if x[0] in "hfc" and x[1:2] == "("]
                                if len(backends) != 1:
                                    bad = f"accepted configuration has fan '{fid}' with {len(backends)} backends"
                                for x in items:
                                    if x.startswith("k(") and x[2:-1] not in cids:
                                        bad = f"accepted configuration has fan '{fid}' whose curve '{x[2:-1]}' does not resolve"
                            for cid, items in d["curves"]:
                                if len(items) != 1:
                                    bad = f"accepted configuration has curve '{cid}' with {len(items)} sub-configurations"
                                for x in items:
                                    if x[:2] in ("L(", "P(") and x[2:-1].split("|")[0] not in sids:
                                        bad = f"accepted configuration has curve '{cid}' whose sensor does not resolve"
                                    if x.startswith("F("):
                                        for m in x[2:-1].split("|")[1].split("/")[1:]:
                                            if m not in cids:
                                                bad = f"accepted configuration has function curve '{cid}' whose member '{m}' does not resolve"
                            for sid, items in d["sensors"]:
                                if len(items) != 1:
                                    bad = f"accepted configuration has sensor '{sid}' with {len(items)} backends"
                        if bad:
                            out.append(viol(bad, cops, cgo, upto=i))
                            break
                elif op.startswith("cfg.run") and verdict == "ok":
                    run = kv(g).get("run", "")
                    if run.startswith("panic") or run == "hang":
                        out.append(viol(f"a configuration accepted by the validator crashed or hung when its curves were evaluated: {g[:80]}", cops, cgo, upto=i))
        return out

    def extra(self, ctx):
        """the real command `fan2go config validate -c <file>` (binary built from the tree) must give the verdict of the
        function the stream exercises: exit 0 + 'Config looks good' iff the loader path accepts"""
        import base64
        import os
        import shutil
        import subprocess
        import tempfile
        from .. import gobuild, run as runmod
        tier, r = ctx["tier"], ctx["rng"]
        try:
            binary = gobuild.build("fan2go")
        except gobuild.BuildError as e:
            return [], {"broken": [f"fan2go build failed: {e}: {e.output[-600:]}"]}
        ops = sc.gen_config_witnesses() + sc.gen_config(r, 25 if tier == "quick" else 300)
        res = runmod.both(ctx["binary"], ops, parallel=4) if ctx.get("binary") else None
        viols, n, classes = [], 0, set()
        base = tempfile.mkdtemp(prefix="c11cli-", dir=os.path.join(gobuild.BUILD, "scratch"))
        try:
            for i, op in enumerate(ops):
                if not op.startswith("cfg.load") or res is None:
                    continue
                a = kv(op)
                verdict = kv(res["go"][i]).get("verdict", "")
                if verdict.startswith("panic"):
                    continue   # undecodable documents: outside the property
                path = os.path.join(base, f"c{i}.yaml")
                y = a["yaml"]
                open(path, "wb").write(base64.b64decode(y + "=" * (-len(y) % 4)))
                os.chmod(path, int(a.get("mode", "644"), 8))
                env = dict(os.environ)
                env.pop("DISPLAY", None)
                p = subprocess.run([binary, "config", "validate", "-c", path, "--no-style"], env=env, stdout=subprocess.PIPE,
                                   stderr=subprocess.STDOUT, text=True, timeout=60)
                n += 1
                cli_ok = p.returncode == 0 and "Config looks good" in p.stdout
                classes.add((verdict.split(":")[0], cli_ok))
                cli_rej = p.returncode != 0 and "Config looks good" not in p.stdout
                if not (cli_ok or cli_rej) or cli_ok != (verdict == "ok"):
                    from ..check import Violation
                    viols.append(Violation(f"`fan2go config validate` says {'accepted' if cli_ok else 'rejected'} (exit {p.returncode}) but the "
                                           f"validator's verdict on the same file is {verdict}", stream="cli",
                                           case_ops=[op], go=[p.stdout[-400:]]))
        finally:
            shutil.rmtree(base, ignore_errors=True)
        return viols, {"evaluations": n, "nontrivial": classes, "traces_validated": n, "cli_runs": n}

    def nontrivial(self, name, ops, go):
        s = set()
        for op, g in zip(ops, go):
            if op.startswith("cfg.load"):
                s.add(("load", kv(g).get("verdict")))
            elif op.startswith("cfg.run"):
                s.add(("run", kv(g).get("run")))
        return s


PROP = C11()
