"""helpers shared by the property definitions"""
from ..check import Violation


def kv(line):
    d = {}
    for t in line.split():
        if "=" in t:
            k, v = t.split("=", 1)
            d[k] = v
        else:
            d.setdefault("_", []).append(t)
    return d


def cases(ops, go):
    """yield (case_ops, case_go) per '#case' block"""
    starts = [i for i, o in enumerate(ops) if o.startswith("#case")]
    for n, s in enumerate(starts):
        e = starts[n + 1] if n + 1 < len(starts) else len(ops)
        yield ops[s:e], go[s:e]


def parse_int_map(tok):
    if tok in ("nil", None):
        return None
    if tok in ("-", ""):
        return {}
    m = {}
    for p in tok.split(","):
        k, v = p.split(":")
        m[int(k)] = int(v)
    return m


def distinct_keys(m):
    """supported inputs: first key of each run of consecutive equal outputs"""
    res = []
    last = None
    for k in sorted(m):
        if last is None or m[k] != last:
            res.append(k)
            last = m[k]
    return res


def nearest_ok(keys, t, r):
    if r not in keys:
        return False
    return all(abs(r - t) <= abs(k - t) for k in keys)


def world_ok(newop):
    """the w.new configuration lies inside the quantifier of C01/C02/C05: limits ordered in 0..255 and a
    non-empty map with outputs in 0..255"""
    a = kv(newop)
    m = parse_int_map(a.get("map", "nil"))
    if not m:
        return False
    if any(v < 0 or v > 255 for v in m.values()):
        return False
    if a.get("kind", "hwmon") == "hwmon":
        lo = int(a.get("minp", a.get("cmin", "0")) or 0) if a.get("ns") == "1" else 0
        hi = int(a.get("maxp", a.get("cmax", "255")))
        if not (0 <= lo <= hi <= 255):
            return False
    return True


def viol(what, case_ops, case_go, upto=None, **kw):
    if upto is not None:
        case_ops, case_go = case_ops[:upto + 1], case_go[:upto + 1]
    return Violation(what, case_ops=list(case_ops), go=list(case_go), **kw)
