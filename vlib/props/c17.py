"""C17 — hwmon entries bind to the device the user named, or fail cleanly."""
from ..check import Prop, Stream
from .. import streams_hwmon
from .common import kv, cases, viol


def gen_hw(r, tier):
    return streams_hwmon.gen_hwmon(r, 250 if tier == "quick" else 6000)


class C17(Prop):
    id = "C17"
    lean_modules = ["Fan2go.Props.C17"]
    rule = ("hwmon: fake trees (1..4 chips, fans on arbitrary channel subsets, temperature inputs on arbitrary indices, permuted "
            "enumeration order, odd feature names) enumerated by the REAL hwmon.GetChips over the gosensors stand-in; selectors: "
            "patterns matching one / several / no chip, index or rpmChannel, explicit or defaulted pwmChannel, existing and missing "
            "devices; real UpdateFanConfigFromHwMonControllers and initializeSensors under recover. non-trivial = distinct "
            "(chips, selector kind, result class)")
    assumptions = ["Go regexp '(?i)'+pattern is trusted; the generator only emits patterns over [A-Za-z0-9-] for which it equals case-insensitive substring search",
                   "the gosensors stand-in's fidelity to libsensors' enumeration is not fan2go code and is trusted"]
    streams = [Stream("hwmon", gen_hw, parallel=8)]

    @staticmethod
    def parse_tree(g):
        """chips of a hw.tree dump: [(platform, {index: input path})]"""
        import re
        chips = []
        for m in re.finditer(r"\[([^\]]*)\]", g):
            parts = m.group(1).split(";")
            if len(parts) < 5:
                continue
            temps = {}
            t = parts[4][len("temps="):] if parts[4].startswith("temps=") else ""
            if t and t != "-":
                for e in t.split(","):
                    k, v = e.split(":", 1)
                    temps[int(k)] = v
            chips.append((parts[1], temps))   # [name;platform;path;fans=..;temps=..]
        return chips

    @staticmethod
    def parse_fans(g):
        """chips of a hw.tree dump: [(platform, {index: rpm channel})] (position among the chip's fans -> channel)"""
        import re
        chips = []
        for m in re.finditer(r"\[([^\]]*)\]", g):
            parts = m.group(1).split(";")
            if len(parts) < 5:
                continue
            fm = {}
            t = parts[3][len("fans="):] if parts[3].startswith("fans=") else ""
            if t and t != "-":
                for e in t.split(","):
                    f = e.split(":")
                    if len(f) >= 2:
                        fm[int(f[0])] = int(f[1])
            chips.append((parts[1], fm))
        return chips

    @staticmethod
    def parse_dirs(g):
        """chips of a hw.tree dump: [(platform, directory)]"""
        import re
        return [(p[1], p[2]) for p in (m.group(1).split(";") for m in re.finditer(r"\[([^\]]*)\]", g)) if len(p) >= 5]

    def oracle(self, name, ops, go):
        out = []
        lean = self.lean_out if self.lean_out is not None and len(self.lean_out) == len(ops) else None
        lean_cases = list(cases(ops, lean)) if lean is not None else None
        for cn, (cops, cgo) in enumerate(cases(ops, go)):
            clean = lean_cases[cn][1] if lean_cases is not None else None
            chips, fan_chips, dirs_of, single, failed = [], [], [], {}, set()
            for i, (op, g) in enumerate(zip(cops, cgo)):
                if op.startswith("hw.tree"):
                    # which devices exist is taken from the MODEL's discovery of the same tree (proved: C17_fan_paths,
                    # C17_sensor_by_index), not from the implementation's own dump: a discovery that drops or renumbers
                    # devices must not define what the entries "name"
                    ref = clean[i] if clean is not None and i < len(clean) and clean[i].startswith("n=") else g
                    chips = self.parse_tree(ref)
                    fan_chips = self.parse_fans(ref)
                    dirs_of = self.parse_dirs(ref)
                    single, failed = {}, set()   # results of the single-entry hw.bindfan ops on THIS tree
                if op.startswith("hw.bindsensor ") and g.startswith("err"):
                    a = kv(op)
                    pat, idx = a.get("platform", ""), a.get("index", "0")
                    allowed = {tm[int(idx)] for (plat, tm) in chips if pat.lower() in plat.lower() and int(idx) in tm}
                    if allowed:
                        out.append(viol(f"sensor entry (platform '{pat}', index {idx}) failed to bind although the tree has {sorted(allowed)}", cops, cgo, upto=i))
                        break
                if op.startswith("hw.bindfan "):
                    a = kv(op)
                    key = (a.get("platform", ""), a.get("index", "0"), a.get("rpm", "0"), a.get("pwm", "0"))
                    if g.startswith("ok"):
                        r = kv(g)
                        single[key] = f"{r['rpm']}|{r['pwm']}|{r['en']}"
                    elif g.startswith("err"):
                        failed.add(key)
                if op.startswith("hw.bindsensor") and g.startswith("ok"):
                    a = kv(op)
                    if op.startswith("hw.bindsensors"):
                        sels = [t.split(":") for t in a.get("sels", "").split(";") if t]
                        got = kv(g).get("inputs", "").split(",")
                    else:
                        sels = [[a.get("platform", ""), a.get("index", "0")]]
                        got = [kv(g).get("input", "")]
                    bad = None
                    for (pat, idx), path in zip(sels, got):
                        allowed = {tm[int(idx)] for (plat, tm) in chips if pat.lower() in plat.lower() and int(idx) in tm}
                        if path not in allowed:
                            bad = f"sensor entry (platform '{pat}', index {idx}) was bound to {path}; devices it names: {sorted(allowed) or 'none'}"
                            break
                    if bad:
                        out.append(viol(bad, cops, cgo, upto=i))
                        break
                if g.startswith("panic"):
                    out.append(viol(f"binding crashed instead of failing with an error: {g}", cops, cgo, upto=i))
                    break
                if op.startswith("hw.bindfans") and g.startswith("ok"):
                    import re
                    sels = [t.split(":") for t in kv(op).get("sels", "").split(";") if t]
                    got = [t for t in kv(g).get("fans", "").split(",") if t]
                    bad = None
                    if len(got) != len(sels):
                        bad = f"{len(sels)} fan entries but {len(got)} fans were created: {g}"
                    for n, ((pat, idx, rpm, pwm), triple) in enumerate(zip(sels, got)):
                        if bad:
                            break
                        paths = triple.split("|")
                        base = paths[0].rsplit("/", 1)[0]
                        mr = re.fullmatch(r"fan(-?\d+)_input", paths[0][len(base) + 1:])
                        # the three paths must lie in ONE chip directory, pwm and enable on one channel
                        if len(paths) != 3 or not mr:
                            bad = f"fan entry {n}: malformed binding {triple}"
                            break
                        mp = re.fullmatch(re.escape(base) + r"/pwm(-?\d+)", paths[1])
                        if not mp or paths[2] != paths[1] + "_enable":
                            bad = f"fan entry {n} (platform '{pat}'): bound paths are not in one chip directory / on one pwm channel: {triple}"
                            break
                        # ... and that directory must belong to a chip the entry's pattern matches
                        dirs = {d for (plat, d) in dirs_of if pat.lower() in plat.lower()}
                        if base not in dirs:
                            bad = f"fan entry {n} (platform '{pat}') was bound to {base}; chip directories it names: {sorted(dirs) or 'none'}"
                            break
                        rpmch, pwmch = int(mr.group(1)), int(mp.group(1))
                        if int(rpm) > 0 and rpmch != int(rpm):
                            bad = f"fan entry {n}: bound rpm channel {rpmch}, selected {rpm}"
                        elif int(pwm) > 0 and pwmch != int(pwm):
                            bad = f"fan entry {n}: explicit pwmChannel {pwm} not honoured ({pwmch})"
                        elif int(pwm) == 0 and pwmch != rpmch:
                            bad = f"fan entry {n}: pwmChannel did not default to the rpm channel ({pwmch} vs {rpmch})"
                    if bad:
                        out.append(viol(bad, cops, cgo, upto=i))
                        break
                    # an entry must get what it gets on its own: compare with the single-entry op of the same selector
                    for (pat, idx, rpm, pwm), triple in zip(sels, got):
                        alone = single.get((pat, idx, rpm, pwm))
                        if alone is not None and alone != triple:
                            out.append(viol(f"fan entry (platform '{pat}', index {idx}, rpm {rpm}, pwm {pwm}) is bound to {triple} inside a multi-entry call but to {alone} on its own", cops, cgo, upto=i))
                            break
                    else:
                        continue
                    break
                if op.startswith("hw.bindfans") and g.startswith("err"):
                    # the call may only fail when the entry it blames has no device on its own
                    sels = [tuple(t.split(":")) for t in kv(op).get("sels", "").split(";") if t]
                    at = kv(g).get("at", "?")
                    if not at.isdigit() or int(at) >= len(sels):
                        out.append(viol(f"initializeFans failed without naming one of its entries: {g}", cops, cgo, upto=i))
                        break
                    if sels[int(at)] in single:
                        out.append(viol(f"initializeFans rejected entry {at} {sels[int(at)]}, which binds to {single[sels[int(at)]]} on its own", cops, cgo, upto=i))
                        break
                    for earlier in sels[:int(at)]:
                        if earlier in failed:
                            out.append(viol(f"initializeFans accepted entry {earlier}, which has no device on its own", cops, cgo, upto=i))
                            break
                    else:
                        continue
                    break
                if op.startswith("hw.bindfan ") and g.startswith("ok"):
                    a, r = kv(op), kv(g)
                    # the three paths must lie in ONE chip directory and use the channels the result names
                    base = r["rpm"].rsplit("/", 1)[0]
                    if r["rpm"] != f"{base}/fan{r['rpmch']}_input" or r["pwm"] != f"{base}/pwm{r['pwmch']}" or r["en"] != f"{base}/pwm{r['pwmch']}_enable":
                        out.append(viol(f"bound paths are inconsistent: {g}", cops, cgo, upto=i))
                        break
                    want_pwm = int(a.get("pwm", "0") or 0)
                    if want_pwm > 0 and int(r["pwmch"]) != want_pwm:
                        out.append(viol("explicit pwmChannel not honoured", cops, cgo, upto=i))
                        break
                    if want_pwm == 0 and r["pwmch"] != r["rpmch"]:
                        out.append(viol("pwmChannel did not default to the rpm channel", cops, cgo, upto=i))
                        break
                    if int(a.get("rpm", "0") or 0) > 0 and int(r["rpmch"]) != int(a["rpm"]):
                        out.append(viol("bound a different rpm channel than selected", cops, cgo, upto=i))
                        break
                    if int(a.get("index", "0") or 0) > 0 and int(r["idx"]) != int(a["index"]):
                        out.append(viol("bound a different index than selected", cops, cgo, upto=i))
                        break
                    # an index names the fan at that position among the chip's fans IN THE REFERENCE DISCOVERY (the model's,
                    # proved: C17_fan_by_index) - not whatever numbering the implementation's own discovery hands out
                    if int(a.get("index", "0") or 0) > 0 and int(a.get("rpm", "0") or 0) == 0:
                        pat, idx = a.get("platform", ""), int(a["index"])
                        allowed = {fm[idx] for (plat, fm) in fan_chips if pat.lower() in plat.lower() and idx in fm}
                        if allowed and int(r["rpmch"]) not in allowed:
                            out.append(viol(f"fan entry (platform '{pat}', index {idx}) was bound to rpm channel {r['rpmch']}; the fan at that "
                                            f"position of a matching chip is on channel {sorted(allowed)}", cops, cgo, upto=i))
                            break
        return out

    def nontrivial(self, name, ops, go):
        s = set()
        for cops, cgo in cases(ops, go):
            nch = 0
            for op, g in zip(cops, cgo):
                if op.startswith("hw.tree"):
                    nch = g.count("[")
                elif op.startswith("hw.bind"):
                    a = kv(op)
                    s.add((nch, op.split()[0], int(a.get("index", "0") or 0) > 0, int(a.get("pwm", "0") or 0) > 0, g.split()[0]))
        return s


PROP = C17()
