"""C12 — the fan receives the nearest value it supports."""
import itertools

from ..check import Prop, Stream, Violation
from .. import streams
from .common import kv, cases, parse_int_map, distinct_keys, nearest_ok, viol


def gen_closest(r, tier):
    ops = ["#case closest"]
    if tier == "thorough":
        universe = [0, 3, 7, 8, 20, 21, 100, 128, 200, 254, 255, 40]
        sets = []
        for n in range(1, 13):
            for c in itertools.combinations(sorted(universe), n):
                sets.append(list(c))
        for ks in sets:
            tok = streams.ints_tok(ks)
            for t in range(-50, 306, 1 if len(ks) <= 3 else 7):
                ops.append(f"util.closest t={t} arr={tok}")
    else:
        universe = [0, 7, 8, 100, 254, 255]
        for n in range(1, 7):
            for c in itertools.combinations(universe, n):
                tok = streams.ints_tok(list(c))
                for t in range(-50, 306):
                    ops.append(f"util.closest t={t} arr={tok}")
    for _ in range(2000 if tier == "quick" else 20000):
        ks = streams.gen_keyset(r)
        t = r.pick([r.range(-50, 305), r.pick(ks), r.pick(ks) + r.range(-2, 2)])
        ops.append(f"util.closest t={t} arr={streams.ints_tok(ks)}")
    ops.append("util.closest t=5 arr=-")
    return ops


def gen_distinct(r, tier):
    ops = ["#case distinct"]
    for _ in range(1500 if tier == "quick" else 20000):
        ops.append(f"util.distinct m={streams.int_map_tok(streams.gen_pwm_map(r))}")
    ops.append("util.distinct m=-")
    return ops


def gen_setpwm(r, tier):
    ops = []
    # several controllers with fans and maps of their own call setPwm at the same time (seed C12h: the digits to be written
    # lived in a pooled buffer that was given back before the write)
    for _ in range(2 if tier == "quick" else 12):
        ops += ["#case parallel", f"w.parallel n={r.pick([16, 24, 48])} rounds={r.pick([150, 300])} seed={r.range(1, 999)}"]
    n = 150 if tier == "quick" else 2000
    for _ in range(n):
        pm = streams.gen_pwm_map(r)
        kind = streams.pick_world_kind(r, base=("hwmon", "file"))
        ops.append("#case setpwm")
        # never-stop fans too, with a minimum anywhere (between two supported inputs, say): the NEAREST supported input is
        # what a request is resolved to (seed C12i: requests above the minimum were redirected upwards)
        ns = r.below(2) if kind == "hwmon" else 0
        mintok = f" minp={r.range(0, 200)} startp=0" if ns else ""
        ops.append(f"w.new kind={kind} ns={ns} win=10 maxp=255{mintok} map={streams.int_map_tok(pm)} loop=direct m=- resp=id pwm={r.range(0,255)} rpm=900 origmode=2 origpwm=0")
        ts = [r.range(-50, 305) for _ in range(20)] + [r.pick(sorted(pm)) for _ in range(5)]
        for t in ts:
            ops.append(f"w.setpwm t={t}")
        # the same request again after the device was changed behind fan2go's back, and after a write that failed: the
        # value must (again) be written - nothing may remember "already set" across a failure or a foreign change (seed C12e)
        for _ in range(r.pick([1, 2, 3])):
            t = r.pick(ts)
            ops.append(f"w.setpwm t={t}")
            if r.chance(0.5):
                ops.append(f"w.dev pwm={r.range(0, 255)}")
            else:
                ops.append(f"w.dev pwmwrite={r.pick(['refused', 'refused', 'ignored'])}")
                ops.append(f"w.setpwm t={t}")
                ops.append("w.dev pwmwrite=applied")
            ops.append(f"w.setpwm t={t}")
        # a single read of the PWM register fails (sporadic EIO, a read racing a rewrite of the file) somewhere inside a
        # setPwm; the device was left at another value before: the request must reach the device all the same (seed C12g:
        # the failed read-back was answered with the request itself and the write skipped as "already there")
        if kind != "cmd":
            ks = sorted(pm)
            fixed = [k for k in ks if pm[k] == k] or ks
            for _ in range(r.pick([1, 2, 3])):
                if r.chance(0.4):
                    # the device is enumerated again (the configured path, a symbolic link, now leads to a fresh directory):
                    # the next request has to reach THAT device (seed C12k: resolved paths cached)
                    ops.append(f"w.dev reprobe=1 pwm={r.range(0, 255)}")
                ops.append(f"w.setpwm t={r.pick(ts)}")
                ops.append(f"w.dev glitch={r.pick([1, 2, 3, 3, 3])}")
                ops.append(f"w.setpwm t={r.pick(fixed) if r.chance(0.7) else r.range(-50, 305)}")
                ops.append("w.dev glitch=0")
        # "for every PWM map": also for a map that REPLACES an earlier one on the same controller (re-detected / re-scaled
        # map: same supported inputs, other outputs; or an unrelated one), with the same requests again (seed C12d)
        for _ in range(r.pick([0, 0, 1, 2])):
            if r.chance(0.6):
                ks = sorted(pm)
                style = r.below(3)
                if style == 0:
                    pm = {k: min(255, (pm[k] * 2) // 3 + 1) if pm[k] else 0 for k in ks}   # re-scaled, same plateaus
                elif style == 1:
                    pm = {k: 255 - pm[k] for k in ks}                                       # inverted
                else:
                    pm = {k: (pm[k] + 7) % 256 for k in ks}
            else:
                pm = streams.gen_pwm_map(r)
            ops.append(f"w.setmap map={streams.int_map_tok(pm)}")
            for t in ts[:12] + [r.range(-50, 305) for _ in range(4)]:
                ops.append(f"w.setpwm t={t}")
    return ops


def closest_contract(op, go_line, lean_line):
    """FindClosest is tied relationally: the implementation may pick either neighbour when equidistant"""
    a = kv(op)
    if not op.startswith("util.closest") or not go_line.startswith("i"):
        return False
    arr = [int(x) for x in a["arr"].split(",")] if a.get("arr", "-") != "-" else []
    try:
        r = int(go_line[1:])
    except ValueError:
        return False
    return nearest_ok(arr, int(a["t"]), r)


class C12(Prop):
    id = "C12"
    lean_modules = ["Fan2go.Props.C12"]
    fact_modules = ["Fan2go.Props.Trans", "Fan2go.Props.Trans2FindClosest", "Fan2go.Props.Trans2Keys", "Fan2go.Props.Trans3A", "Fan2go.Props.Trans3B", "Fan2go.Props.Trans3Init", "Fan2go.Props.Trans3FileIO"]
    rule = ("closest: exhaustive key sets over a small universe x requests -50..305 + random full-size key sets; "
            "distinct: PWM-map shapes (identity, sparse, quantiser, plateau, non-monotone, constant, single); "
            "setpwm: real controller.setPwm on a virtual device (hwmon / file fans) or on real scripts (cmd fans). non-trivial = distinct (|keys|>=2, request strictly "
            "between two keys or outside the range, tie / non-tie) classes")
    assumptions = ["PWM map outputs are in 0..255 (an output of -1 would defeat the run detection: theorem C12_sentinel)",
                   "Go sort.Ints / map iteration are not modelled: the model takes the map sorted by key"]
    streams = [Stream("closest", gen_closest, parallel=8, exact=False, contract=closest_contract),
               Stream("distinct", gen_distinct, parallel=4),
               # oracle-only (the property allows either neighbour on a tie; setPwm's exact behaviour is tied by the
               # ctrl streams of C01/C05)
               Stream("setpwm", gen_setpwm, parallel=8, exact=False, contract=lambda op, a, b: True)]

    def oracle(self, name, ops, go):
        out = []
        if name == "closest":
            for op, g in zip(ops, go):
                if not op.startswith("util.closest"):
                    continue
                a = kv(op)
                arr = [int(x) for x in a["arr"].split(",")] if a.get("arr", "-") != "-" else []
                if not arr:
                    continue
                t = int(a["t"])
                ok = g.startswith("i") and nearest_ok(arr, t, int(g[1:]))
                if ok and t in arr and int(g[1:]) != t:
                    ok = False
                if not ok:
                    out.append(Violation(f"FindClosest({t}, {arr}) returned {g}: not a nearest supported input",
                                         case_ops=["#case closest", op], go=["#case closest", g]))
        elif name == "distinct":
            for op, g in zip(ops, go):
                if not op.startswith("util.distinct"):
                    continue
                m = parse_int_map(kv(op)["m"])
                want = distinct_keys(m)
                got = [int(x) for x in g.split(",")] if g not in ("-", "") else []
                if want != got:
                    out.append(Violation(f"supported inputs of map differ from first-of-run definition: {got} vs {want}",
                                         case_ops=["#case distinct", op], go=["#case distinct", g]))
        elif name == "setpwm":
            for cops, cgo in cases(ops, go):
                if len(cops) >= 2 and cops[1].startswith("w.parallel"):
                    g = kv(cgo[1])
                    if g.get("bad", "0") != "0" or not cgo[1].startswith("ok"):
                        out.append(viol(f"controllers calling setPwm at the same time (own fans, own maps): {g.get('bad')} of {g.get('calls')} calls left "
                                        f"the controller's own register at a value that is not the map's output for the nearest supported input "
                                        f"(first: {g.get('first')})", cops, cgo))
                    continue
                if len(cops) < 2 or not cops[1].startswith("w.new"):
                    continue
                m = parse_int_map(kv(cops[1])["map"])
                keys = distinct_keys(m)
                faulty = False
                for i in range(2, len(cops)):
                    if cops[i].startswith("w.dev") and "pwmwrite" in kv(cops[i]):
                        faulty = kv(cops[i])["pwmwrite"] != "applied"
                    if faulty:
                        continue   # while the device does not take writes nothing can be "written"
                    if cops[i].startswith("w.setmap"):
                        m = parse_int_map(kv(cops[i])["map"])
                        keys = distinct_keys(m)
                    if not cops[i].startswith("w.setpwm"):
                        continue
                    t = int(kv(cops[i])["t"])
                    g = kv(cgo[i])
                    pwm = int(g["pwm"])
                    cands = {m[k] for k in keys if nearest_ok(keys, t, k)}
                    if g.get("res") != "ok" or pwm not in cands:
                        out.append(viol(f"setPwm({t}) left the device at {pwm}, expected one of {sorted(cands)}", cops, cgo, upto=i))
                        break
        return out

    def nontrivial(self, name, ops, go):
        s = set()
        for op in ops:
            if op.startswith("util.closest"):
                a = kv(op)
                if a.get("arr", "-") == "-":
                    continue
                arr = [int(x) for x in a["arr"].split(",")]
                t = int(a["t"])
                if len(arr) >= 2:
                    lo = max([k for k in arr if k <= t], default=None)
                    hi = min([k for k in arr if k >= t], default=None)
                    cls = ("below" if lo is None else "above" if hi is None else
                           "exact" if lo == hi else "tie" if t - lo == hi - t else "between")
                    s.add((len(arr), cls, min(hi - lo if lo is not None and hi is not None else 0, 9)))
            elif op.startswith("util.distinct"):
                m = parse_int_map(kv(op)["m"])
                s.add(("map", min(len(m), 30), len(distinct_keys(m)) == len(m)))
        return s


PROP = C12()
