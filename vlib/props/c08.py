"""C08 — sensor smoothing stays within observed readings, converges, ignores failed reads."""
from ..check import Prop, Stream
from .. import streams
from ..gen import bits2f, fx, any_float_bits, finite_float_bits
from .common import kv, cases, viol


def gen_sensors(r, tier):
    ops = streams.gen_sensors(r, 60 if tier == "quick" else 600, kind=None)
    # hwmon/file only (fast): many more
    for _ in range(300 if tier == "quick" else 6000):
        ops += streams.gen_sensor_case(r, kind=r.pick(["hwmon", "file"]), n=60)
    return ops


def gen_converge(r, tier):
    """constant readings: the distance must shrink geometrically"""
    ops = []
    for _ in range(150 if tier == "quick" else 3000):
        kind = r.pick(["hwmon", "file"])
        win = r.pick([1, 2, 3, 5, 10, 20, 50])
        c = r.range(-20000, 120000)
        a0 = float(r.range(-20000, 120000))
        ops += ["#case converge", f"sn.new kind={kind} win={win} avg={fx(a0)}"]
        for k in range(r.range(5, 80)):
            if r.chance(0.15):
                ops.append("sn.poll read=" + r.pick(["perm", "other", "garbage", "empty", "blank"]))
            else:
                ops.append(f"sn.poll read=ok:{c}")
    return ops


def gen_sma(r, tier):
    ops = ["#case sma"]
    for _ in range(3000 if tier == "quick" else 200000):
        n = r.pick([1, 1, 2, 3, 5, 10, 10, 50, 1000])
        ops.append(f"util.sma old={fx(bits2f(any_float_bits(r)))} n={n} new={fx(bits2f(any_float_bits(r)))}")
    return ops


def gen_slow_first(r, tier):
    """start-up with a sensor whose first read is slow and fails (or answers late) while later reads are quick: the real
    initializeSensors, polls straight after it, then silence (seed C08k: the first reading was applied whenever it arrived -
    over the smoothed value the polls had built in the meantime). Oracle-only; real processes and real time."""
    ops = []
    for _ in range(3 if tier == "quick" else 12):
        first = r.pick(["fail", "fail", "late"])
        ops += ["#case slow-first",
                f"sn.initslow first_ms={r.pick([700, 900, 1200])} first={first} firstvalue={r.range(1000, 90000)} "
                f"value={r.range(20000, 90000)} polls={r.range(1, 8)}"]
    return ops


def is_finite(f):
    return f == f and f not in (float("inf"), float("-inf"))


class C08(Prop):
    id = "C08"
    lean_modules = ["Fan2go.Props.C08"]
    fact_modules = ["Fan2go.Props.Facts", "Fan2go.Props.Trans", "Fan2go.Props.Trans3Leaf", "Fan2go.Props.Trans3Exec"]
    rule = ("sensor: real HwmonSensor / FileSensor / CmdSensor objects + the real updateSensor, window sizes {1,2,3,10,50}, "
            "reading sequences with read faults (missing / unreadable / empty / non-numeric file; for cmd: non-zero exit, "
            "garbage, 'nan', 'inf', out-of-range output) at random places; converge: constant readings; sma: "
            "UpdateSimpleMovingAvg alone on boundary and random bit patterns. non-trivial = distinct (kind, window, fault kinds "
            "seen, initial-average class)")
    assumptions = ["strconv.ParseFloat's verdict on the command output is an input of the model (token pv=), cross-checked against Go on every op",
                   "hull for window 1 and for overflowing differences are recorded known findings (C08-hull-n1, C08-hull-overflow)"]
    streams = [Stream("sensor", gen_sensors, parallel=8, timeout=1800), Stream("converge", gen_converge, parallel=8),
               Stream("sma", gen_sma, parallel=4),
               Stream("slow-first", gen_slow_first, parallel=4, exact=False, contract=lambda op, a, b: True)]

    def oracle(self, name, ops, go):
        out = []
        if name == "sma":
            return out
        for cops, cgo in cases(ops, go):
            if len(cops) >= 2 and cops[1].startswith("sn.initslow"):
                g = kv(cgo[1])
                if "avg1" in g and g.get("avg1") != g.get("avg2"):
                    o = kv(cops[1])
                    out.append(viol(f"the smoothed value changed from {bits2f(int(g['avg1'][1:], 16))} to {bits2f(int(g['avg2'][1:], 16))} while nobody polled "
                                    f"the sensor (its slow first read at start-up, {o.get('first')}, ended in between)", cops, cgo))
                continue
            if len(cops) >= 2 and cops[1].startswith("sn.init"):
                for i in range(1, len(cops)):
                    g = kv(cgo[i])
                    if not cops[i].startswith("sn.init") or "avg" not in g or not g["avg"].startswith("x"):
                        continue
                    v0 = bits2f(int(g["avg"][1:], 16))
                    o = kv(cops[i])
                    if (o.get("exit", "0") != "0" or o.get("pv", "err") == "err") and v0 != 0.0:
                        out.append(viol(f"a failed first read (exit status {o.get('exit')}, output verdict {o.get('pv')}) seeded the smoothed value with {v0}",
                                        [cops[0], cops[i]], [cgo[0], cgo[i]]))
                        break
                    if not is_finite(v0):
                        out.append(viol(f"the smoothed value starts at {v0}: a non-finite first reading poisons it for ever", [cops[0], cops[i]], [cgo[0], cgo[i]]))
                        break
                continue
            if len(cops) < 2 or not cops[1].startswith("sn.new"):
                continue
            a = kv(cops[1])
            win = int(a["win"])
            avg = bits2f(int(a["avg"][1:], 16))
            lo = hi = avg
            for i in range(2, len(cops)):
                op, g = kv(cops[i]), kv(cgo[i])
                new = bits2f(int(g["avg"][1:], 16))
                status = cgo[i].split()[0]
                # which reading did this poll deliver?
                reading = None
                if "read" in op:
                    if op["read"].startswith("ok:"):
                        reading = float(int(op["read"][3:]))
                else:
                    if op.get("exit", "0") == "0" and op.get("start", "1") == "1" and op.get("pv", "err") != "err":
                        v = bits2f(int(op["pv"][4:], 16))
                        if is_finite(v):
                            reading = v
                if reading is None:
                    if status != "err" or not (new == avg or (new != new and avg != avg)):
                        out.append(viol(f"a failed / non-finite read changed the smoothed value {avg} -> {new}", cops, cgo, upto=i))
                        break
                    continue
                lo, hi = min(lo, reading), max(hi, reading)
                if is_finite(avg) and not (lo <= new <= hi):
                    out.append(viol(f"smoothed value {new} left the hull [{lo},{hi}] of the initial value and the readings", cops, cgo, upto=i,
                                    detail={"win": win, "avg": avg, "reading": reading}))
                    break
                if name == "converge" and is_finite(avg):
                    d0, d1 = abs(avg - reading), abs(new - reading)
                    slack = 4 * max(abs(avg), abs(reading), 1.0) * 2.0**-52
                    if d1 > (1 - 1.0 / win) * d0 + slack:
                        out.append(viol(f"distance to the constant reading shrank from {d0} only to {d1} (window {win})", cops, cgo, upto=i))
                        break
                avg = new
        return out

    def classify(self, v):
        d = v.detail or {}
        if "left the hull" in v.what and d.get("win") == 1:
            return "C08-hull-n1"
        if "left the hull" in v.what and abs(d.get("avg", 0) - d.get("reading", 0)) > 1e307:
            return "C08-hull-overflow"
        return None

    def nontrivial(self, name, ops, go):
        s = set()
        for cops, cgo in cases(ops, go):
            if len(cops) < 3 or not cops[1].startswith("sn.new"):
                continue
            a = kv(cops[1])
            faults = frozenset(kv(o).get("read", kv(o).get("pv", ""))[:5] for o in cops[2:])
            s.add((a["kind"], a["win"], faults))
        return s


PROP = C08()
