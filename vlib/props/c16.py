"""C16 — with parallel initialisation disabled, fans are analysed one at a time."""
from ..check import Prop, Stream
from .. import streams_startup as ss
from .common import kv, cases, viol


def gen_seq(r, tier):
    return ss.gen_together(r, 14 if tier == "quick" else 400, 0)


def gen_par(r, tier):
    return ss.gen_together(r, 5 if tier == "quick" else 100, 1)


def together_contract(op, go_line, lean_line):
    """with parallel=1 the overlap flag is nondeterministic; everything else must agree"""
    import re
    strip = lambda l: re.sub(r"overlap=\d", "overlap=?", l)
    return op.startswith("su.together") and strip(go_line) == strip(lean_line)


def gen_cancel(r, tier):
    """concurrent starts of fans that all need analysis, and the stop request (context cancellation) arrives while one is
    being analysed and the others are queued: whatever the queued ones do then, they must not analyse next to it
    (seed C16f: the wait for the turn was abandoned on cancellation, the analysis was not)"""
    ops = []
    for _ in range(8 if tier == "quick" else 150):
        ops.append("#case su parallel=0 cancel")
        # in a third of the cases the controllers are created before the configured value of the option is in force (they
        # exist while it still has its built-in default, true): what counts is the value when the fans are analysed
        # (seed C16k: the option was copied into the controller when it was created)
        ops.append(f"su.open parallel=0 yield_us={r.range(30, 80)}" + (" createpar=1" if r.chance(0.35) else ""))
        n = r.range(2, 4)
        ids = [f"t{i}" for i in range(n)]
        for fid, q in zip(ids, r.shuffle([4, 8, 16, 32])[:n]):
            ops.append(ss._fan_line(fid, "hwmon", False, False, True, r.chance(0.2), q, r.range(5, 90)))
        ops.append(f"su.together fans={','.join(ids)} delays_us={','.join(str(r.range(0, 300)) for _ in ids)} cancel_us={r.pick([2000, 5000, 10000, 20000, 40000])}")
    return ops


class C16(Prop):
    id = "C16"
    lean_modules = ["Fan2go.Props.C16"]
    fact_modules = ["Fan2go.Props.Facts", "Fan2go.Props.Trans3Init", "Fan2go.Props.Trans3RunInit"]
    rule = ("together: 2..4 real controllers on virtual fans that all need analysis, started concurrently with random start delays "
            "(0..3000 us) and differing device behaviour, virtual sleeps yielding 20..60 us of real time; every PWM write carries a "
            "global sequence number; analysis intervals must not intersect when runFanInitializationInParallel=false (and do "
            "intersect in most runs when it is true). non-trivial = distinct (fan count, delays bucket, parallel flag)")
    assumptions = ["sync.Mutex provides mutual exclusion; the programs the interleaving theorem speaks about are regenerated from "
                   "the source's call order (fact_init_locked / fact_map_locked / C16_generated_program_ok)"]
    partial_note = "schedules of the real Go runtime are sampled (dozens of concurrent starts), the LTS theorem covers all interleavings of the extracted programs; scheduler fairness is not modelled"
    streams = [Stream("together-seq", gen_seq, parallel=2, timeout=1800),
               Stream("together-par", gen_par, parallel=2, exact=False, contract=together_contract, timeout=1800),
               # oracle-only: when exactly the cancellation lands is up to the scheduler
               Stream("together-cancel", gen_cancel, parallel=2, exact=False, contract=lambda op, a, b: True, timeout=1800)]

    def oracle(self, name, ops, go):
        out = []
        for cops, cgo in cases(ops, go):
            par = "parallel=1" in cops[0]
            for i, (op, g) in enumerate(zip(cops, cgo)):
                if op.startswith("su.together") and not par and kv(g).get("overlap") == "1":
                    out.append(viol("two fans were in their initial analysis at the same time although parallel initialisation is disabled", cops, cgo, upto=i))
        return out

    def extra(self, ctx):
        return [], {}

    def nontrivial(self, name, ops, go):
        s = set()
        for cops, cgo in cases(ops, go):
            for op, g in zip(cops, cgo):
                if op.startswith("su.together"):
                    a = kv(op)
                    s.add((cops[0], len(a.get("fans", "").split(",")), a.get("delays_us", "")[:8], kv(g).get("overlap")))
        return s


PROP = C16()
