"""C14 — stored fan data round-trips and is isolated per fan and per kind."""
from ..check import Prop, Stream
from .. import streams_persist
from .common import kv, cases, viol


def gen_ps(r, tier):
    return streams_persist.gen_persist(r, 150 if tier == "quick" else 4000)


def gen_crash(r, tier):
    return streams_persist.gen_persist_crash(r, 12 if tier == "quick" else 300)


class C14(Prop):
    id = "C14"
    lean_modules = ["Fan2go.Props.C14"]
    fact_modules = ["Fan2go.Props.Facts"]
    rule = ("persist: random save/load/delete/reopen/putraw sequences (<= 60 ops) over 4 fan ids x 2 kinds on a real bbolt "
            "file (empty maps, negative keys, fractional / 1e300 / subnormal values, NaN/Inf rejected, raw garbage bytes, "
            "wrong-shape JSON); crash: a child process executing a save is SIGKILLed after a random delay and a fresh "
            "process compares raw bucket snapshots. non-trivial = distinct (op-kind set, ids touched, corrupt entry seen)")
    assumptions = ["bbolt's Update is atomic and durable (also under SIGKILL); what is committed is what a later open sees",
                   "encoding/json round-trips map[int]float64 with finite values and map[int]int; Marshal fails exactly on NaN/Inf",
                   "the decode behaviour of raw bytes is an input of the model (token dec=), cross-checked against json.Unmarshal on every op"]
    partial_note = "crash points are sampled (random SIGKILL delays), not enumerated; torn pages, fsync lies and power loss cannot be exhibited"
    streams = [Stream("persist", gen_ps, parallel=8), Stream("crash", gen_crash, parallel=4, timeout=1800)]

    def oracle(self, name, ops, go):
        out = []
        lean = self.lean_out if self.lean_out is not None and len(self.lean_out) == len(ops) else None
        lean_cases = [c[1] for c in cases(ops, lean)] if lean is not None else None
        for cn, (cops, cgo) in enumerate(cases(ops, go)):
            # "returned unchanged by a later load": the content a load returns is compared with the answer of the model,
            # which is proved to be the last saved content (C14_refinement / C14_roundtrip)
            if lean_cases is not None and cn < len(lean_cases):
                cl = lean_cases[cn]
                hit = False
                for i, (op, g) in enumerate(zip(cops, cgo)):
                    if op.startswith("ps.load") and i < len(cl) and cl[i].startswith("ok ") and g.startswith("ok ") and g != cl[i]:
                        out.append(viol(f"a load returned {g[3:120]}, the entry saved last is {cl[i][3:120]}", cops, cgo, upto=i))
                        hit = True
                        break
                if hit:
                    continue
            # The Lean model is proved to refine the obvious finite-map spec (C14_refinement), and the stream is
            # compared exactly, so the model's output IS the reference. The oracle adds the directly observable
            # clauses: crash atomicity, idempotent delete, 'not found' for entries never written in this case.
            written = set()
            present = {}   # key -> True (a valid value is stored) / False (deleted); absent = unknown (raw bytes etc.)
            corrupt = {}   # key -> number of loads since undecodable bytes were stored
            for i, (op, g) in enumerate(zip(cops, cgo)):
                if g.startswith("violation:"):
                    out.append(viol("a save killed by SIGKILL was neither complete nor absent: " + g, cops, cgo, upto=i))
                    break
                if op.startswith("ps.delsave"):
                    r_ = kv(g)
                    if r_.get("bad", "0") != "0" or r_.get("failed", "0") != "0" or not g.startswith("ok"):
                        out.append(viol(f"the deletion of the database's only entry and the save of another fan's entry were waiting for the database "
                                        f"at the same time: {r_.get('bad')} saved entries could not be loaded afterwards although the save reported success "
                                        f"({r_.get('failed')} operations failed)", cops, cgo, upto=i))
                        break
                    continue
                if op.startswith("ps.lookups"):
                    r_ = kv(g)
                    if r_.get("bad", "0") != "0" or r_.get("failed", "0") != "0" or not g.startswith("ok"):
                        out.append(viol(f"several controllers looked their intact stored entries up at their own pace: {r_.get('failed')} loads failed, "
                                        f"{r_.get('bad')} returned something else than what was stored", cops, cgo, upto=i))
                        break
                    continue
                if op.startswith("ps.initsparse"):
                    r_ = kv(g)
                    if r_.get("lost", "0") != "0" or r_.get("failed", "0") != "0" or not g.startswith("ok"):
                        out.append(viol(f"a controller started up (Init) on a database file that is mostly unused pages while other controllers' saves were "
                                        f"waiting for the file: {r_.get('lost')} saves that reported success could not be loaded afterwards "
                                        f"({r_.get('failed')} operations failed)", cops, cgo, upto=i))
                        break
                    continue
                if op.startswith("ps.parallel"):
                    r_ = kv(g)
                    if r_.get("bad", "0") != "0" or r_.get("failed", "0") != "0":
                        out.append(viol(f"saves of different fans' entries in flight at once: {r_.get('bad')} entries came back different from "
                                        f"what was saved (or not at all), {r_.get('failed')} saves failed", cops, cgo, upto=i))
                        break
                    continue
                a = kv(op)
                name_ = op.split()[0] if op else ""
                kind = "rpm" if (name_.endswith("rpm") or a.get("kind") == "rpm") else "map"
                key = (kind, a.get("id"))
                if name_ in ("ps.saverpm", "ps.savemap", "ps.putraw", "ps.crashsave", "ps.delrpm", "ps.delmap"):
                    corrupt.pop(key, None)
                    if name_ == "ps.putraw" and g == "ok" and a.get("dec", "bad").startswith("bad"):
                        corrupt[key] = 0
                if name_ in ("ps.saverpm", "ps.savemap", "ps.putraw", "ps.crashsave"):
                    written.add(key)
                    if name_ in ("ps.saverpm", "ps.savemap") and g == "ok":
                        present[key] = True
                    else:
                        present.pop(key, None)
                    if name_ == "ps.crashsave":
                        for kk in (("rpm", a.get("id")), ("map", a.get("id"))):
                            written.add(kk)
                            present.pop(kk, None)
                elif name_ in ("ps.delrpm", "ps.delmap"):
                    if g != "ok":
                        out.append(viol(f"delete reported {g} (must be idempotent)", cops, cgo, upto=i))
                        break
                    present[key] = False
                elif name_ in ("ps.loadrpm", "ps.loadmap"):
                    if key in corrupt:
                        corrupt[key] += 1
                        if corrupt[key] >= 2 and g != "err:notfound":
                            out.append(viol(f"an undecodable entry was not discarded: load number {corrupt[key]} after it still reports {g[:50]} instead of 'not found'", cops, cgo, upto=i))
                            break
                    if present.get(key) is True and g.startswith("err"):
                        out.append(viol(f"an entry that was saved (and not overwritten or deleted since) is gone: load reported {g}: "
                                        "another fan's / kind's operation changed it", cops, cgo, upto=i))
                        break
                    if present.get(key) is False and not g.startswith("err"):
                        out.append(viol(f"a deleted entry is back: load reported {g[:60]}", cops, cgo, upto=i))
                        break
                    if key not in written and g != "err:notfound" and not g.startswith("err"):
                        out.append(viol(f"load of an entry never written reported {g[:60]}, not 'not found'", cops, cgo, upto=i))
                        break
        return out

    def nontrivial(self, name, ops, go):
        s = set()
        for cops, cgo in cases(ops, go):
            kinds = frozenset(o.split()[0] for o in cops if o and not o.startswith("#"))
            ids = len({kv(o).get("id") for o in cops})
            s.add((kinds, min(ids, 5), any("putraw" in o for o in cops)))
        return s


PROP = C14()
