"""C01 — every PWM value written while regulating stays inside the fan's limits."""
from ..check import Prop, Stream
from .. import streams
from .common import kv, cases, parse_int_map, distinct_keys, nearest_ok, world_ok, viol
from . import ctrl


def gen_rescale(r, tier):
    """the range mapping on its own (controller.calculateTargetPwm with a direct loop on a fresh controller)"""
    ops = []
    pairs = []
    if tier == "thorough":
        for lo in range(0, 256, 3):
            for hi in range(lo, 256, 5):
                pairs.append((lo, hi))
    else:
        for _ in range(60):
            pairs.append(streams.gen_limits(r))
    ident = streams.int_map_tok({i: i for i in range(256)})
    for lo, hi in pairs:
        ops.append("#case rescale")
        ops.append(f"w.new kind=hwmon ns=1 win=10 minp={lo} maxp={hi} startp={lo} avg=x408f400000000000 map={ident} loop=direct m=- resp=id pwm=0 rpm=900 origmode=2 origpwm=0")
        ts = range(0, 256) if tier == "thorough" else [0, 1, 2, 127, 128, 147, 254, 255] + [r.range(0, 255) for _ in range(24)]
        for t in ts:
            ops.append(f"w.calc curve={t} now=1000")
    return ops


class C01(Prop):
    id = "C01"
    lean_modules = ["Fan2go.Props.C01"]
    fact_modules = ["Fan2go.Props.Facts", "Fan2go.Props.Trans", "Fan2go.Props.Trans2FindClosest", "Fan2go.Props.Trans3A", "Fan2go.Props.Trans3B", "Fan2go.Props.Trans3Fan", "Fan2go.Props.Trans3FileFan"]
    rule = ("ctrl: random controller worlds (hwmon/file fans and ~10 % cmd fans driven through real scripts and processes, limits biased to {0,1,2,30,100,254,255}, neverStop on/off, "
            "PWM-map shapes identity/sparse/quantiser/plateau/non-monotone/constant/single, loops direct / direct+limit / "
            "PID default / PID random gains) x event lists (cycles with curve values in -300..600, elapsed time incl. 0, RPM "
            "polls with stall episodes, interference, read/write faults); rescale: limits x curve values on the bare range "
            "mapping. non-trivial = distinct (kind, neverStop, loop kind, map shape size class, event kinds seen, result kinds seen)")
    assumptions = ["configurations inside the quantifier: 0 <= min <= max <= 255, non-empty PWM map with outputs in 0..255",
                   "the control algorithm's output is treated as an arbitrary integer (the proofs rest on the controller's clamp)"]
    streams = [Stream("ctrl", lambda r, tier: ctrl.gen_ctrl(r, tier, malformed=True), parallel=8),
               Stream("ctrl-long", ctrl.gen_long_quiet, parallel=8),
               Stream("rescale", gen_rescale, parallel=8)]

    def oracle(self, name, ops, go):
        out = []
        for cops, cgo in cases(ops, go):
            if len(cops) < 2 or not cops[1].startswith("w.new") or not world_ok(cops[1]):
                continue
            m = parse_int_map(kv(cops[1])["map"])
            keys = distinct_keys(m)
            outputs = {m[k] for k in keys}
            allowed_cache = {}
            for i, op, pre, post in ctrl.walk(cops, cgo):
                if not (op.startswith("w.cycle") or op.startswith("w.calc")):
                    continue
                res = post.get("res", "")
                if res.startswith("panic"):
                    continue  # crash-freedom is C09's subject
                lo = int(pre["min"]) + max(0, int(pre["off"]))   # the raises so far are never negative; the fan minimum itself is the floor
                hi = int(pre["max"])
                if op.startswith("w.calc") and res.startswith("i"):
                    t = int(res[1:])
                elif op.startswith("w.cycle") and res == "ok" and post.get("last", "-") != "-":
                    t = int(post["last"])
                else:
                    t = None
                if t is not None and not (lo <= t <= hi and 0 <= t <= 255):
                    out.append(viol(f"requested PWM {t} outside the fan's limits [{lo},{hi}]", cops, cgo, upto=i))
                    break
                bad = None
                # what may be written in this cycle: the map's output for a supported input that is nearest to SOME request
                # inside the limits in force (either neighbour on a tie)
                allowed = None
                if 0 <= lo <= hi <= 255 and post.get("log", "-") != "-":
                    if (lo, hi) not in allowed_cache:
                        sk = sorted(keys)
                        acc = set()
                        for t2 in range(lo, hi + 1):
                            d = min(abs(k - t2) for k in sk)
                            acc.update(m[k] for k in sk if abs(k - t2) == d)
                        allowed_cache[(lo, hi)] = acc
                    allowed = allowed_cache[(lo, hi)]
                for w in ([] if post.get("log", "-") == "-" else post["log"].split(",")):
                    if w.startswith("pwm="):
                        v = int(w[4:].split(":")[0])
                        if v not in outputs or not (0 <= v <= 255) or (allowed is not None and v not in allowed):
                            bad = v
                if bad is not None:
                    out.append(viol(f"wrote PWM {bad}, which is not the PWM-map output of the supported input nearest to any request inside the limits "
                                    f"[{lo},{hi}] (allowed {sorted(allowed if allowed is not None else outputs)[:12]}...)", cops, cgo, upto=i))
                    break
        return out

    def nontrivial(self, name, ops, go):
        s = set()
        for cops, cgo in cases(ops, go):
            if len(cops) < 3 or not cops[1].startswith("w.new"):
                continue
            a = kv(cops[1])
            m = parse_int_map(a.get("map", "nil")) or {}
            evs = frozenset(o.split()[0] for o in cops[2:])
            ress = frozenset(kv(g).get("res", "-")[:6] for g in cgo[2:])
            s.add((a.get("kind"), a.get("ns"), a.get("loop"), a.get("m", "-") != "-", min(len(m), 40) // 8, evs, ress))
        return s


PROP = C01()
