"""C09 — a failing sensor or fan read/write never crashes the daemon."""
import os
import shutil
import signal
import tempfile
import time

from ..check import Prop, Stream, Violation
from .. import streams, daemon, gobuild
from .common import kv, cases, world_ok, viol
from . import ctrl


def gen_faulty(r, tier):
    """controller worlds with read/write faults switched at random between cycles (single faults, pairs, many)"""
    ops = []
    n = 500 if tier == "quick" else 12000
    for _ in range(n):
        c = streams.gen_world_case(r, n_events=50, faults=True, malformed=False)
        # add a burst of paired faults somewhere
        k = r.range(2, len(c))
        f1, f2 = r.sample(["pwmread", "pwmwrite", "moderead", "modewrite", "rpmread"], 2)
        val = lambda f: r.pick(["perm", "other:-1", "other:0"]) if f.endswith("read") else r.pick(["refused", "ignored"])
        c[k:k] = [f"w.dev {f1}={val(f1)} {f2}={val(f2)}"]
        if r.chance(0.3):
            # the PWM register READS fine but holds a number no PWM value can be (a driver bug, a foreign writer, a cmd fan's
            # script printing nonsense): nothing may use it unchecked (seed C09h: index into a 256-entry table)
            k2 = r.range(2, len(c))
            c[k2:k2] = [f"w.dev pwm={r.pick([-1, 256, 4096, 65535, -300])}"]
        ops += c
    return ops


def gen_glitch(r, tier):
    """controller worlds in which a SINGLE read of the PWM register fails now and then (sporadic EIO, a read racing a rewrite
    of the file): the k-th read from now on, so that the failure falls on the feature probe, on the read behind it, or on a
    read of a later cycle - every operation has to come back (oracle-only: a one-off failure is not a state of the model's
    device; seed C09g: a lock taken for the read was not released on the error path, the next write blocked for ever)"""
    ops = []
    for _ in range(60 if tier == "quick" else 1500):
        c = streams.gen_world_case(r, n_events=30, faults=False, malformed=False, kind=r.pick(["hwmon", "hwmon", "file"]))
        out = []
        for op in c:
            if op.startswith(("w.cycle", "w.setpwm", "w.restore", "w.poll")) and r.chance(0.3):
                out.append(f"w.dev glitch={r.pick([1, 2, 2, 3, 4, 5])}")
            out.append(op)
        ops += out + ["w.dev glitch=0", "w.restore"]
    return ops


def gen_curve_faults(r, tier):
    """well-formed curve tables (every function has >= 1 member, no empty steps, supported types) over sensors whose
    reads fail at random: evaluation must return a value or an error, never panic"""
    ops = []
    for _ in range(300 if tier == "quick" else 8000):
        ops += ["#case cvf", "cv.reset"]
        curves = []
        for i in range(r.range(1, 3)):
            s = f"s{i}"
            k = r.below(3)
            if k == 0:
                ops.append(f"cv.add id=L{i} kind=linear sensor={s} min={r.range(20, 50)} max={r.range(60, 90)} steps=nil")
            elif k == 1:
                ops.append(f"cv.add id=L{i} kind=linear sensor={s} min=0 max=0 steps={streams.float_map_tok(streams.gen_steps(r))}")
            else:
                ops.append(f"cv.add id=L{i} kind=pid sensor={s} sp=x404e000000000000 p=xbfa999999999999a i=xbf747ae147ae147b d=xbf747ae147ae147b")
            curves.append(f"L{i}")
            ops.append(f"cv.sensor id={s} avg=x40e3880000000000 val=x40e3880000000000")
        for i in range(r.pick([0, 1, 2, 3])):
            ms = [r.pick(curves) for _ in range(r.range(1, 4))]
            ops.append(f"cv.add id=F{i} kind=function type={r.pick(streams.FN_TYPES)} members={','.join(ms)}")
            curves.append(f"F{i}")
        now = 1000
        for _ in range(r.range(2, 15)):
            for i in range(3):
                if r.chance(0.4):
                    rd = streams.gen_reading(r, 20, 90)
                    val = "err" if r.chance(0.4) else streams.fx(rd)
                    ops.append(f"cv.sensor id=s{i} avg={streams.fx(rd)} val={val}")
            now += r.pick([1, 200_000_000, 2_000_000_000])
            ops.append(f"cv.eval id={r.pick(curves)} now={now}")
    return ops


class C09(Prop):
    id = "C09"
    lean_modules = ["Fan2go.Props.C09"]
    fact_modules = ["Fan2go.Props.Facts", "Fan2go.Props.Trans2Evaluate", "Fan2go.Props.Trans3A", "Fan2go.Props.Trans3B", "Fan2go.Props.Trans3Fan", "Fan2go.Props.Trans3Leaf", "Fan2go.Props.Trans3FileFan", "Fan2go.Props.Trans3FileIO"]
    rule = ("faulty: real controllers (hwmon / file fans on virtual devices, cmd fans on real scripts and processes) with failing, garbage, refused and silently ignored "
            "reads and writes of the PWM, mode and RPM registers switched on and off between cycles (singles, pairs, many); "
            "curve-faults: linear / PID / nested function curves over sensors whose reads fail; sensor: C08's sensor stream; "
            "daemon: the real binary with files turned into directories / garbage while it regulates. non-trivial = distinct "
            "(kind, loop, fault kinds active at a cycle, result class)")
    assumptions = ["curve tables are those the validator accepts (C11); the curve outcome handed to the controller is a value or an error",
                   "panics inside dependencies (pterm, echo, prometheus) and runtime fatal errors (out of memory, concurrent map access: C20) are outside the model; the daemon runs sample them"]
    partial_note = "process level is sampled: the daemon runs inject a handful of fault shapes at random instants; the model-level theorems quantify over all fault scripts"
    streams = [Stream("faulty", gen_faulty, parallel=8), Stream("curve-faults", gen_curve_faults, parallel=8),
               Stream("glitch", gen_glitch, parallel=8, exact=False, contract=lambda op, a, b: True),
               Stream("sensor", lambda r, tier: streams.gen_sensors(r, 40 if tier == "quick" else 400), parallel=8, timeout=1800)]

    def oracle(self, name, ops, go):
        out = []
        for cops, cgo in cases(ops, go):
            if name == "faulty" and (len(cops) < 2 or not world_ok(cops[1])):
                continue
            for i, (op, g) in enumerate(zip(cops, cgo)):
                if "curve=panic" in op:
                    break   # a crashing curve is C11's subject; the scripted panic is passed through by design
                if "panic:" in g:
                    out.append(viol(f"operation crashed under a read/write fault: {op[:60]} -> {g[:60]}", cops, cgo, upto=i))
                    break
                if op.startswith("sn.monitor") and not g.startswith("res=ok"):
                    out.append(viol(f"the sensor monitor did not survive a sensor outage ({g.split()[0]}): {op[:100]}", cops, cgo, upto=i))
                    break
        return out

    def nontrivial(self, name, ops, go):
        s = set()
        for cops, cgo in cases(ops, go):
            if name == "faulty" and len(cops) > 1:
                a = kv(cops[1])
                active = {}
                for op, g in zip(cops[2:], cgo[2:]):
                    if op.startswith("w.dev"):
                        for k2, v in kv(op).items():
                            if k2.endswith("read") or k2.endswith("write"):
                                active[k2] = v
                    elif op.startswith("w.cycle"):
                        s.add((a.get("kind"), a.get("loop"), frozenset(k2 for k2, v in active.items() if v not in ("ok", "applied")), kv(g).get("res", "")[:4]))
            else:
                s.add((cops[0], frozenset(g[:5] for g in cgo)))
        return s

    def extra(self, ctx):
        tier, r = ctx["tier"], ctx["rng"]
        try:
            binary = gobuild.build("fan2go")
        except gobuild.BuildError as e:
            return [], {"broken": [f"daemon build failed: {e}: {e.output[-800:]}"]}
        n = 6 if tier == "quick" else 80
        viols, samples, classes = [], [], set()
        base_root = os.path.join(gobuild.BUILD, "scratch")
        os.makedirs(base_root, exist_ok=True)
        evals = 0
        for k in range(n):
            base = tempfile.mkdtemp(prefix="c09d-", dir=base_root)
            try:
                nf = r.pick([1, 2])
                curve = r.pick(["linear", "pid", "function"])
                chip, j = daemon.make_tree(base, nfans=nf, orig_mode=2, orig_pwm=120)
                cfg = daemon.make_config(base, chip, nfans=nf, curve=curve, algo=r.pick(["direct", "pid"]))
                d = daemon.Daemon(binary, base, cfg, j)
                began = d.wait_regulating(chip, nf, timeout=25)
                faults = []
                for _ in range(r.pick([1, 2])):
                    time.sleep(r.range(5, 40) / 1000.0)
                    target = r.pick(["temp1_input", "fan1_input", "pwm1", "pwm1_enable"])
                    shape = r.pick(["garbage", "empty", "dir", "missing"])
                    path = os.path.join(chip, target)
                    try:
                        if shape == "garbage":
                            open(path, "w").write("not-a-number\n")
                        elif shape == "empty":
                            open(path, "w").write("")
                        elif shape == "missing":
                            os.remove(path)
                        else:
                            os.remove(path)
                            os.mkdir(path)
                    except OSError:
                        pass
                    faults.append(f"{target}:{shape}")
                time.sleep(0.15)
                alive = d.p.poll() is None
                d.signal(signal.SIGTERM)
                rc = d.wait(25)
                log = d.logtext()
                d.close()
                evals += 1
                kinds = daemon.classify_log(log)
                classes.add((curve, tuple(sorted(faults)), alive))
                rec = {"curve": curve, "fans": nf, "faults": faults, "alive_after_faults": alive, "exit": rc, "log_flags": kinds}
                if len(samples) < 3:
                    samples.append({"stream": "daemon", "run": rec})
                if kinds or rc == "hang" or (isinstance(rc, int) and rc not in (0, 1)):
                    viols.append(Violation(f"daemon crashed or hung under faults {faults}: exit {rc}, log flags {kinds}", stream="daemon",
                                           case_ops=[f"daemon curve={curve} fans={nf} faults={','.join(faults)}"], go=[log[-1500:]], detail=rec))
            finally:
                shutil.rmtree(base, ignore_errors=True)
        return viols, {"evaluations": evals, "nontrivial": classes, "traces_validated": evals, "samples": samples, "daemon_runs": evals}


PROP = C09()
