"""C10 — a stalled never-stop fan is noticed and pushed within a bounded time."""
from ..check import Prop, Stream
from .. import streams
from ..gen import fx
from .common import kv, cases, viol
from . import ctrl


def bound_polls(kind, n):
    """B(n): polls at 0 RPM until the stall must have been noticed (theorem C10_hwmon_notices_within: 16*n for a
    prior average <= 2^15; file/cmd fans: one poll)"""
    return 16 * n + 1 if kind == "hwmon" else 1


def gen_stallwatch(r, tier):
    ops = []
    ncases = 60 if tier == "quick" else 1200
    ident = streams.int_map_tok({i: i for i in range(256)})
    for _ in range(ncases):
        kind = streams.pick_world_kind(r, base=("hwmon", "hwmon", "file"))
        n = r.pick([1, 2, 3, 5, 10, 10, 20, 50]) if tier == "quick" else r.range(1, 50)
        lo, hi = streams.gen_limits(r)
        if r.chance(0.5):
            lo, hi = r.range(0, 200), r.range(201, 255)
        avg0 = r.pick([0.0, 1.0, 300.0, 1000.0, 5000.0, float(r.range(0, 32768))])
        # the register need not read back what fan2go wrote: a driver that quantises written values under a 1:1 map, or a
        # third party (BIOS, another daemon) rewriting the register after every write - the REQUEST stays unchanged, so
        # the stall must still be noticed and pushed (seed C10d)
        mismatch = r.pick(["none", "none", "none", "quant", "interloper"]) if kind != "cmd" else "none"
        resp = "id" if mismatch != "quant" else f"q:{r.pick([2, 5, 16])}"
        # PWM maps with gaps between the supported inputs (sparse user map, limited-resolution fan): the REQUEST is what has
        # to be raised step by step, whatever the map snaps it to (seed C10f)
        pmap = ident
        if mismatch == "none" and r.chance(0.3):
            st5 = {k: k for k in range(0, 256, r.pick([5, 16]))}
            st5[255] = 255
            pmap = r.pick([streams.int_map_tok(st5), streams.int_map_tok({i: (i * 100) // 255 for i in range(256)})])
        toks = [f"kind={kind}", "ns=1", f"win={n}", f"map={pmap}", "loop=direct m=-", f"resp={resp}", "pwm=0", "origmode=2", "origpwm=0"]
        if kind == "hwmon":
            toks += [f"minp={lo}", f"maxp={hi}", f"startp={lo}", f"avg={fx(avg0)}", "mode=2"]
            if r.chance(0.3):
                toks.append(f"cmin={lo}")   # the minimum is CONFIGURED (seed C10k: the raise went into a setter that respects the configuration)
        else:
            toks += [f"rint={int(avg0)}"]
            lo, hi = 0, 255
        rpm0 = int(avg0)
        toks.append(f"rpm={rpm0}")
        case_idx = len(ops)
        ops.append("#case stallwatch")
        ops.append("w.new " + " ".join(toks))
        now = 1000
        curve = r.pick([0, 0, r.range(0, 255)])
        if kind == "hwmon" and r.chance(0.25):
            # the RPM input is missing for a moment when fan2go first looks (the hwmon device is being re-enumerated) and is
            # back afterwards: the fan HAS an RPM sensor, a later stall must be noticed (seed C10h: feature probes cached)
            ops.append("w.dev hasrpm=0")
            now += 200_000_000
            ops.append(f"w.cycle curve={curve} now={now}")
            ops.append("w.dev hasrpm=1")
        # in some cases ANOTHER fan of the daemon is being analysed (the serialisation lock of the start-up analysis is held)
        # from the stall on: regulation of this fan, its stall watch included, goes on all the same (seed C10l: the stall check
        # was skipped while the lock was held)
        initlock = r.chance(0.15)
        # spinning phase
        for _ in range(r.range(1, 4)):
            now += 200_000_000
            ops.append(f"w.cycle curve={curve} now={now}")
            ops.append("w.poll")
        # the fan stalls: the harness plays the device (rpm 0 unless the register exceeds the threshold)
        ops.append("w.dev rpm=0" + (" initlock=1" if initlock else ""))
        if kind == "hwmon" and r.chance(0.2):
            # the driver rejects every write of the control mode from now on (manual mode cannot be re-asserted): the PWM is
            # still writable and the stalled fan still has to be pushed (seed C10j: the cycle gave up before looking at the RPM)
            ops.append("w.dev modewrite=refused")
        if kind == "cmd" and r.chance(0.4):
            # the fan's PWM read-out starts failing as well (its getPwm command exits non-zero): the RPM still has to be
            # polled and the stall noticed (seed C10i: the measurement gave up before reading the RPM)
            ops.append("w.dev pwmread=other:-1")
        budget = bound_polls(kind, n) + 2 * (hi - lo) + 20 + 2 * (hi - lo)
        if kind == "cmd":
            # every poll / cycle is a few real process executions; one poll notices, at most two cycles per raise
            budget = bound_polls(kind, n) + 2 * (hi - lo) + 30
        capped = budget > 1400
        budget = min(budget, 1400)
        if not capped:
            ops[case_idx] = "#case stallwatch full=1"
        foreign = r.range(0, 255)
        # control cycles per RPM poll: the daemon's default rates give 5 (200 ms / 1 s); the cycles between two polls see
        # the average the controller itself wrote after a raise (seed C10g: that made-up value was taken for rotation)
        cpp = r.pick([1, 1, 1, 2, 3, 5]) if kind != "cmd" else r.pick([1, 1, 2])
        for _ in range(budget):
            ops.append("w.poll")
            for _ in range(cpp):
                if mismatch == "interloper":
                    ops.append(f"w.dev pwm={foreign}")
                now += 200_000_000
                ops.append(f"w.cycle curve={curve} now={now}")
        if initlock:
            ops.append("w.dev initlock=0")
    return ops


class C10(Prop):
    id = "C10"
    lean_modules = ["Fan2go.Props.C10"]
    fact_modules = ["Fan2go.Props.Facts", "Fan2go.Props.Trans", "Fan2go.Props.Trans3A", "Fan2go.Props.Trans3B", "Fan2go.Props.Trans3Fan", "Fan2go.Props.Trans3FileFan"]
    rule = ("stallwatch: neverStop hwmon/file/cmd fans (cmd = real scripts and processes), window sizes 1..50, prior RPM averages {0,1,300,1000,5000,random<=32768}, "
            "limits random, constant curve, direct loop; the fan reports 0 RPM from some point on and never recovers; 1..5 control "
            "cycles per RPM poll. non-trivial = distinct (kind, window, prior-average class, limits class)")
    assumptions = ["prior RPM average <= 2^15 (32768 RPM) for the hwmon bound B(n) = 16n polls",
                   "1, 2, 3 or 5 control cycles between consecutive RPM polls (the daemon's default rates give 5)"]
    streams = [Stream("stallwatch", gen_stallwatch, parallel=8)]

    def oracle(self, name, ops, go):
        out = []
        for cops, cgo in cases(ops, go):
            if len(cops) < 2 or not cops[1].startswith("w.new"):
                continue
            a = kv(cops[1])
            kind, n = a["kind"], int(a["win"])
            B = bound_polls(kind, n)
            stalled_at = None
            polls = 0
            first_raise = None
            last_raise_poll = None
            ended = False
            for i, op, pre, post in ctrl.walk(cops, cgo):
                if op.startswith("w.dev") and "rpm=0" in op:
                    stalled_at = i
                    polls = 0
                    continue
                if stalled_at is None:
                    continue
                if op.startswith("w.poll"):
                    polls += 1
                if op.startswith("w.cycle"):
                    res = post.get("res")
                    if res == "err:stalled-at-max":
                        ended = True
                        if int(pre["last"]) < int(pre["max"]):
                            out.append(viol(f"stall reported at {pre['last']} below the maximum {pre['max']}", cops, cgo, upto=i))
                        break
                    if res != "ok":
                        break
                    if int(post["inc"]) > int(pre["inc"]):
                        if int(post["last"]) != int(pre["last"]) + 1:
                            out.append(viol(f"raise moved the request from {pre['last']} to {post['last']} (not +1)", cops, cgo, upto=i))
                            break
                        if first_raise is None:
                            first_raise = polls
                        last_raise_poll = polls
                    if first_raise is None and polls > B + 1:
                        out.append(viol(f"fan at 0 RPM for {polls} polls (window {n}, bound {B}) and the request was not raised", cops, cgo, upto=i))
                        break
                    if first_raise is not None and polls - last_raise_poll > 3 + (B if kind == "hwmon" and n > 1 else 0):
                        out.append(viol(f"raises stopped: {polls - last_raise_poll} polls since the last raise while the fan still reports 0 RPM", cops, cgo, upto=i))
                        break
                    if int(post["off"]) > int(post["max"]) - int(post["min"]):
                        out.append(viol(f"the minimum was raised {post['off']} times, more often than the range {post['min']}..{post['max']} has steps", cops, cgo, upto=i))
                        break
            else:
                if stalled_at is not None and not ended and "full=1" in cops[0]:
                    out.append(viol("the fan reported 0 RPM to the end of a run long enough to reach the maximum, but the stall was never reported", cops, cgo))
        return out

    def nontrivial(self, name, ops, go):
        s = set()
        for cops, cgo in cases(ops, go):
            if len(cops) < 3:
                continue
            a = kv(cops[1])
            s.add((a["kind"], int(a["win"]), a.get("avg", a.get("rint")), int(a.get("minp", 0)) // 64, int(a.get("maxp", 255)) // 64))
        return s


PROP = C10()
