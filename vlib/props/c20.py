"""C20 — concurrent activities are free of data races.

Proof part (lean/Fan2go/Props/C20.lean): lockset soundness on an abstract machine + kernel evaluation of the
conflict computation on the access table that go/accessgen re-extracts from /repo's CURRENT sources
(`pregen`, before `lake build`). The full-strength statement is refuted on the current tree (`C20_refuted`);
`C20_partial` / `C20_known_all_real` tie the regenerated conflict list to the explicit known-findings list.

Process part (`extra`): the race-detector stream (vlib/streams_race.py). It is NOT evidence for the property;
it validates the table (a reported race that is no conflict of the table = the extractor misses accesses =
broken tie) and searches for a failing schedule (races / fatal 'concurrent map' aborts -> findings).
"""
import hashlib
import json
import os

from ..check import Prop, Stream, Violation
from .. import accessgen, gobuild, leanside, streams_race


def tree_digest():
    """digest of the Go sources the table and the race binary are built from (go.mod + every non-test .go file
    under internal/, cmd/ and the module root): extraction, proof and race run must see the SAME tree"""
    h = hashlib.sha1()
    root = gobuild.REPO
    files = [os.path.join(root, f) for f in ("go.mod", "main.go")]
    for top in ("internal", "cmd"):
        for d, _, fs in os.walk(os.path.join(root, top)):
            files += [os.path.join(d, f) for f in fs if f.endswith(".go") and not f.endswith("_test.go")]
    for f in sorted(files):
        try:
            h.update(f.encode() + b"\0" + open(f, "rb").read())
        except OSError:
            pass
    return h.hexdigest()

FAN_OBJS = ("HwMonFan", "FileFan", "CmdFan", "DefaultFanController", "FanControllerStatistics")
CURVE_OBJS = ("LinearSpeedCurve", "PidSpeedCurve", "FunctionSpeedCurve", "PidLoop")
SENSOR_OBJS = ("HwmonSensor", "FileSensor", "CmdSensor")


def known_triples():
    """the hand-maintained known-findings list of Props/C20.lean (what the theorems are stated against)"""
    import re
    path = os.path.join(leanside.LEAN_DIR, "Fan2go", "Props", "C20.lean")
    try:
        src = open(path).read()
    except FileNotFoundError:
        return set()
    m = re.search(r"def knownConflicts[^\n]*:=\s*\[(.*?)\n\]", src, re.S)
    body = m.group(1) if m else ""
    return set(re.findall(r'\("([^"]+)",\s*"([^"]+)",\s*"([^"]+)"\)', body))


def finding_of(key, kindA=None, kindB=None):
    """a race on a (field, kinds) triple that is not in knownConflicts is a NEW violation, whatever the object"""
    if kindA is not None:
        kt = known_triples()
        if (key, kindA, kindB) not in kt and (key, kindB, kindA) not in kt:
            return None
    obj = key.split(".")[0]
    if obj in FAN_OBJS:
        return "C20-fan-state-races"
    if obj in CURVE_OBJS:
        return "C20-curve-state-races"
    if obj in SENSOR_OBJS:
        return "C20-sensor-avg-api-race"
    return None


def gen_wire_groups(r, tier):
    ops = ["#case wire groups"]
    for _ in range(40 if tier == "quick" else 400):
        cas = [r.pick(["none", "none", "direct", "pid:x3fd3333333333333:x3f947ae147ae147b:x3f747ae147ae147b"]) for _ in range(r.range(2, 5))]
        ops.append("wire.group cas=" + ",".join(cas))
    return ops


class C20(Prop):
    id = "C20"
    lean_modules = ["Fan2go.Props.C20"]
    fact_modules = []
    # state that is supposed to be per controller must BE per controller: several fans wired by one call of the real
    # initializeFanControllers get control loops of their own (seed C20h: one default PID loop, hoisted, for all fans)
    streams = [Stream("wiring-groups", gen_wire_groups, parallel=2)]
    rule = ("lockset: two accesses of different (concurrent) activities to the same struct field, one a write, must hold a "
            "common mutex; table re-extracted from the tree by go/accessgen, conflicts computed by the Lean kernel")
    assumptions = [
        "activity roots = sensorMonitor.Run, DefaultFanController.Run (start-up), measureRpm, UpdateFanSpeed/restorePwmEnabled, "
        "the Collect methods of internal/statistics, the func(echo.Context) error of internal/api (enumerated from the code)",
        "concurrency relation of Model/Lockset.lean `concurrentKinds` (per-fan objects are not shared between fans; a "
        "controller's start-up happens before its own control loop / RPM monitor; one monitor per sensor)",
        "a per-fan activity only ever sees its own fan through fans.Fan values",
        "no aliasing between tracked objects; state behind untracked interfaces (control_loop.ControlLoop, persistence) "
        "and package-level variables are outside the table",
    ]
    trusted_extra = [
        "go/accessgen (golang.org/x/tools v0.29.0 go/packages + go/ssa): field-access / lockset extraction and its "
        "reflection model (encoding/json + echo JSON: exported fields, follows interfaces; reprint: all fields, does not "
        "follow nested interfaces; any other conversion to `any`: all fields)",
        "the lockset abstraction itself: no happens-before through channels / goroutine start beyond `concurrentKinds`, "
        "no atomics, not the Go memory model (race-detector stream validates the table on every run)",
    ]
    partial_note = ("full-strength statement refuted (C20_refuted); proved: lockset soundness on the abstract machine and "
                    "'every conflict of the regenerated table is a listed known finding and vice versa'")

    def __init__(self):
        self._data = None
        self._digest = None
        self._pregen_broken = []

    # ---- regenerate the table BEFORE lake build (hook called by check.run_check, see integration notes)
    def pregen(self):
        self._digest = tree_digest()
        broken, data = accessgen.regenerate()
        self._data = data
        if data is not None:
            new, gone = accessgen.diff_known(data)
            if new:
                broken.append("accessgen: conflicts of the current tree that are NOT in knownConflicts (C20_partial will not "
                              "check): " + "; ".join("%s %s x %s" % t for t in new[:12]))
            if gone:
                broken.append("accessgen: knownConflicts entries that are no conflict any more (C20_known_all_real will not "
                              "check; remove them from the list): " + "; ".join("%s %s x %s" % t for t in gone[:12]))
        self._pregen_broken = list(broken)
        return broken

    def classify(self, v):
        d = v.detail or {}
        return d.get("finding")

    def oracle(self, name, ops, go):
        out = []
        for op, g in zip(ops, go):
            if op.startswith("wire.group") and (not g.startswith("ok") or " shared=0" not in g):
                out.append(Violation(f"fans wired together share control-loop state: {op} -> {g}: controllers that run on goroutines of their own "
                                     "call Cycle on ONE loop object without any lock", stream=name, case_ops=["#case wire groups", op],
                                     go=["#case wire groups", g]))
        return out

    def nontrivial(self, name, ops, go):
        return {tuple(sorted(set(o.split("cas=")[1].split(",")))) for o in ops if o.startswith("wire.group")}

    def extra(self, ctx):
        # extraction, proof build and race run must see the same tree; if /repo is edited while this runs
        # (positions of reports and table then disagree) the whole part is repeated, at most twice
        for attempt in range(3):
            vs, stats = self._extra_once(ctx)
            if not stats.pop("tree_changed", False):
                return vs, stats
        stats.setdefault("broken", []).append(
            "the tree kept changing during the run (table extracted from one version, race binary built from another); "
            "race reports could not be validated against the table -- rerun")
        return vs, stats

    def _extra_once(self, ctx):
        tier, seed = ctx["tier"], ctx["seed"]
        broken = []
        stats = {}
        # the table the theorems were built on must be the current tree's: regenerate (idempotent, write-if-changed);
        # when check.py has not called pregen (or the file changed since), rebuild the property module here
        before = None
        try:
            before = open(accessgen.OUT).read()
        except FileNotFoundError:
            pass
        if self._data is None or getattr(self, "_digest", None) != tree_digest():
            broken += self.pregen()   # not yet done, or the tree changed since the table was extracted
        data = self._data
        after = None
        try:
            after = open(accessgen.OUT).read()
        except FileNotFoundError:
            pass
        if before != after:
            with gobuild.build_lock():
                rc, out, _ = leanside.lake_build(self.lean_modules)
            if rc != 0:
                errs = [l for l in out.split("\n") if "error" in l][:6]
                broken.append("lake build of Props/C20 on the regenerated table failed: " + " | ".join(errs))
        if data is None:
            return [], {"broken": broken}
        rows = data["table"]
        stats["access_table"] = {"site_level": len(data["accesses"]), "rows": len(rows), "roots": len(data["roots"]),
                                 "tracked": sorted(data["tracked"]), "conflict_triples": len(data["conflicts"]),
                                 "unresolved": data.get("unresolved") or []}
        # ---- race-detector stream
        nruns, secs = (2, 6.0) if tier == "quick" else (4, 10.0)
        runs = []
        for k in range(nruns):
            try:
                runs.append(streams_race.race_run(seed * 17 + k, secs, tier, data=data))
            except Exception as e:  # a daemon that does not build / start on the current tree
                broken.append(f"race stream run {k} failed: {e}")
        try:
            sc = streams_race.shared_curve_run(seed, tier, data=data)
            if sc.get("ran", 0) < 4:
                broken.append("shared-curve race run did not complete: " + sc.get("log_tail", "")[-300:])
            runs.append(sc)
            stats["shared_curve_run"] = {"reports": sc.get("reports"), "triples": [[e["key"], e["kindA"], e["kindB"], e["n"]] for e in sc.get("pairs", [])]}
        except Exception as e:
            broken.append(f"shared-curve race run failed: {e}")
        if broken or self._pregen_broken:
            # the table has conflicts that are not listed (or the tie broke otherwise): SEARCH for a failing schedule --
            # one more run per curve kind (pid / linear / function curve shared by all fans), so that whichever object the
            # new conflict is on is exercised by several control loops and the API at once
            have = {r.get("curve") for r in runs if not str(r.get("curve", "")).startswith("shared")}
            base_seed = seed * 17 + nruns
            for k in range(3 if tier == "quick" else 6):
                s2 = base_seed + k
                if tier == "quick" and ["pid", "linear", "function"][s2 % 3] in have and len(have) < 3:
                    continue
                try:
                    runs.append(streams_race.race_run(s2, secs, tier, data=data))
                    have.add(runs[-1].get("curve"))
                except Exception as e:
                    broken.append(f"race stream search run failed: {e}")
        tot = streams_race.summarize(runs)
        vs = []
        if self._digest != tree_digest():
            # somebody edited /repo while the daemon was built / run: positions of the reports and of the table differ
            stats["tree_changed"] = True
            tot["unmapped"], tot["not_in_table"] = [], []
        for e in tot["not_in_table"]:
            broken.append("race detector reported a race that is NO conflict of the access table (extractor misses an access): "
                          "%s %s x %s  [%s]" % (e["key"], e["kindA"], e["kindB"], e["functions"]))
            # ... and the report is a schedule on which two goroutines DID touch that field without a common lock: the
            # lockset theorem's verdict for the regenerated table ("these two never conflict": per-object state) is refuted by it
            vs.append(Violation("data race on %s between %s and %s, which the access table takes for accesses to different objects: %s"
                                % (e["key"], e["kindA"], e["kindB"], e["functions"]), stream="race",
                                detail={"kinds": [e["kindA"], e["kindB"]], "n": e["n"], "finding": None}))
        for e in tot["unmapped"]:
            vs.append(Violation("data race outside the tracked state: " + e["functions"], stream="race",
                                detail={"kinds": [e["kindA"], e["kindB"]], "n": e["n"], "finding": None}))
        by_f = {}
        for e in tot["pairs"]:
            by_f.setdefault(finding_of(e["key"], e["kindA"], e["kindB"]), []).append(e)
        for fid, es in sorted(by_f.items(), key=lambda x: str(x[0])):
            vs.append(Violation("data races reported by the race detector on %d (field, kinds) triples, e.g. %s %s x %s: %s"
                                % (len(es), es[0]["key"], es[0]["kindA"], es[0]["kindB"], es[0]["functions"]),
                                stream="race", detail={"finding": fid, "triples": [[e["key"], e["kindA"], e["kindB"], e["n"]] for e in es]}))
        for r in runs:
            if r.get("crashed"):
                vs.append(Violation("daemon aborted under API load: " + "; ".join(r.get("fatal") or ["panic"]), stream="race",
                                    detail={"finding": "C20-fan-state-races" if any("concurrent map" in f for f in r.get("fatal") or [])
                                            else None, "seed": r["seed"], "log_tail": r.get("log_tail", "")[-600:]}))
                break
        stats["race_stream"] = {"runs": len(runs), "seconds_each": secs, "reports": tot["reports"], "requests": tot["requests"],
                                "crashed_seeds": tot["crashed"], "triples_observed": len(tot["pairs"]),
                                "not_in_table": len(tot["not_in_table"]), "unmapped": len(tot["unmapped"])}
        stats["evaluations"] = len(rows) * len(rows) + tot["reports"]
        stats["nontrivial"] = [(e["key"], e["kindA"], e["kindB"]) for e in tot["pairs"]]
        stats["traces_validated"] = sum(e["n"] for e in tot["pairs"])
        stats["samples"] = [{"stream": "race", "ops": ["GET /fan/ /curve/ /sensor/ /metrics x threads, %d fans sharing c1/s1" % (runs[0]["nfans"] if runs else 0)],
                             "impl": [json.dumps(e)[:300] for e in tot["pairs"][:3]]}]
        stats["broken"] = broken
        return vs, stats


PROP = C20()
