"""C19 — external commands cannot hang or crash fan2go."""
from ..check import Prop, Stream
from .. import streams_exec
from .common import kv, cases, viol


def gen_exec(r, tier):
    ops = []
    for _ in range(1 if tier == "quick" else 8):
        ops += streams_exec.gen_exec(r, 52)
        # bare command names, looked up in $PATH, called from several goroutines at once
        ops += ["#case ex barepar"] + [f"ex.barepar names={r.pick([32, 48])} workers={r.pick([6, 8])} rounds=3" for _ in range(3)]
    return ops


def gen_monitor(r, tier):
    """the real sensor monitor over a real command sensor whose command keeps failing for dozens of polls in a row (exits
    non-zero, prints garbage, is not there): the monitor survives and stops when told (seed C19k: a back-off doubled the
    polling interval per failure, the shift overflowed after 40-odd failures and Ticker.Reset panicked)"""
    ops = []
    for _ in range(3 if tier == "quick" else 20):
        ops += ["#case sn monitor", f"sn.monitor win=10 avg=x40d3880000000000 val=x40e3880000000000 good={r.range(0, 3)} "
                f"polls={r.range(60, 110)} rate_us={r.pick([200, 500, 1000])} cmd={r.pick(['fail', 'garbage', 'missing'])}"]
    return ops


class C19(Prop):
    id = "C19"
    lean_modules = ["Fan2go.Props.C19"]
    fact_modules = ["Fan2go.Props.Facts", "Fan2go.Props.Trans3Perm", "Fan2go.Props.Trans3Exec", "Fan2go.Props.Trans3CmdFan"]
    rule = ("exec: the real SafeCmdExecution (and CmdSensor.GetValue / CmdFan.GetPwm/GetRpm/SetPwm on top) on root-owned "
            "scripts for every failure mode: exit 0 / non-zero with and without output, killed by a signal, not executable, bad "
            "executable format, interpreter vanished after the check, sleeping beyond the deadline (shell and exec'ed), "
            "path that does not resolve (dangling link, link loop, through a regular file, over-long name), grandchild holding stdout (released before / after the WaitDelay, never), empty / garbage / 1 MB output; timeouts "
            "200..2000 ms; each call under recover with a watchdog. non-trivial = distinct (behaviour, timeout bucket, result class)")
    assumptions = ["exec.CommandContext kills the direct child at the deadline; with Cmd.WaitDelay set, Output() returns at the latest "
                   "WaitDelay after the deadline or after the child's exit (documented os/exec semantics, sampled by the stream)",
                   "which of EvalSymlinks / Stat fails when the file is swapped under the call is the scheduler's choice: the theorem quantifies over all of them (ev, st), the stream samples a rename race (ex.statrace)"]
    partial_note = "wall-clock behaviour is sampled: process scheduling, pipe buffering and zombie reaping cannot be exhibited by the model"
    streams = [Stream("exec", gen_exec, parallel=4, timeout=1800), Stream("monitor", gen_monitor, parallel=3)]

    def oracle(self, name, ops, go):
        out = []
        for cops, cgo in cases(ops, go):
            for i, (op, g) in enumerate(zip(cops, cgo)):
                if op.startswith("sn.monitor"):
                    if not g.startswith("res=ok"):
                        out.append(viol(f"the sensor monitor did not survive a command sensor that keeps failing ({g.split()[0]}): {op}", [cops[0], op], [cgo[0], g]))
                    continue
                if op.startswith("ex.dangling"):
                    if "panic" in g:
                        out.append(viol(f"external command call panicked on a path that cannot be resolved: {op} -> {g}", [cops[0], op], [cgo[0], g]))
                    elif "run=err" not in g:
                        out.append(viol(f"a command whose path cannot be resolved did not end in an error: {op} -> {g}", [cops[0], op], [cgo[0], g]))
                    continue
                if op.startswith("ex.statrace"):
                    if g.strip() != "panics=0":
                        out.append(viol(f"a call panicked while the executable was being swapped for a symlink loop: {op} -> {g}", [cops[0], op], [cgo[0], g]))
                    continue
                if op.startswith("ex.barepar"):
                    if g.strip() != "ok fails=0 panics=0":
                        out.append(viol(f"commands configured as bare names, called from several goroutines at once: not every call came back with "
                                        f"its command's output: {op} -> {g}", [cops[0], op], [cgo[0], g]))
                    continue
                if op.startswith("ex.busyhold"):
                    r = kv(g)
                    if r.get("run") == "blocked" or r.get("late") == "1" or "panic" in g:
                        out.append(viol(f"an executable that was busy (held open for writing) for longer than the timeout: the call did not "
                                        f"come back with an error within its timeout + margin: {op} -> {g}", [cops[0], op], [cgo[0], g]))
                    elif not str(r.get("after", "")).startswith("ok"):
                        out.append(viol(f"the command did not work again after the writer had gone: {op} -> {g}", [cops[0], op], [cgo[0], g]))
                    continue
                if op.startswith("ex.repeat"):
                    r = kv(g)
                    if r.get("res") == "blocked" or r.get("slow", "0") != "0" or str(r.get("res", "")).startswith("panic"):
                        out.append(viol(f"a command that keeps failing the same way stopped coming back in time after a few polls: {op} -> {g}",
                                        [cops[0], op], [cgo[0], g]))
                    continue
                if op.startswith("ex.userpair"):
                    r = kv(g)
                    for side in ("a", "b"):
                        if r.get(side, "").startswith("panic"):
                            out.append(viol(f"external command call panicked: {op} -> {g}", [cops[0], op], [cgo[0], g]))
                        elif r.get(side) == "blocked" or r.get(side + "within") == "0":
                            out.append(viol(f"a call on a cmd fan did not return within its own timeout + margin while another activity was "
                                            f"using the same fan: {op} -> {g}", [cops[0], op], [cgo[0], g]))
                    continue
                if not (op.startswith("ex.run") or op.startswith("ex.user")):
                    continue
                r = kv(g)
                res = r.get("res", "")
                if res.startswith("panic"):
                    out.append(viol(f"external command call panicked: {op} -> {g}", [cops[0], op], [cgo[0], g]))
                elif res == "blocked" or r.get("within") == "0":
                    out.append(viol(f"external command call did not return within timeout + margin: {op} -> {g}", [cops[0], op], [cgo[0], g]))
                elif not (res.startswith("ok") or res.startswith("err") or res.startswith("v:")):
                    out.append(viol(f"unexpected result: {op} -> {g}", [cops[0], op], [cgo[0], g]))
        return out

    def nontrivial(self, name, ops, go):
        s = set()
        for op, g in zip(ops, go):
            if op.startswith("ex.dangling"):
                s.add((op, g))
            if op.startswith("sn.monitor"):
                s.add(("monitor", kv(op).get("cmd"), int(kv(op).get("polls", 0)) // 20))
            if op.startswith("ex.run") or op.startswith("ex.user"):
                a = kv(op)
                s.add((op.split()[0], a.get("beh"), a.get("kind"), int(a.get("timeout_ms", 0)) // 500, kv(g).get("res", "")[:6]))
        return s


PROP = C19()
