"""Shared pieces of the controller properties (C01 C02 C05 C10): the `ctrl` stream and a replayer of
its implementation-side output."""
from .. import streams
from .common import kv, cases, parse_int_map, distinct_keys, nearest_ok, world_ok, viol


def gen_ctrl(r, tier, n_quick=600, n_thorough=20000, **kw):
    n = n_quick if tier == "quick" else n_thorough
    return streams.gen_world(r, n, **kw)


def gen_long_quiet(r, tier):
    """a neverStop fan that stalls once or a few times early on and then runs for hundreds of cycles without any stall,
    with low and sweeping curve values: limits and the raised minimum must hold for the whole run (seed C01f walked the
    raise back after 100 quiet cycles, and further)"""
    ops = []
    ident = streams.int_map_tok({i: i for i in range(256)})
    for _ in range(8 if tier == "quick" else 120):
        lo = r.range(20, 120)
        hi = r.range(lo + 20, 255)
        ops.append("#case long-quiet")
        ops.append(f"w.new kind=hwmon ns=1 win=1 cmin={lo} minp={lo} maxp={hi} startp={lo} avg=x408f400000000000 map={ident} "
                   f"loop=direct m=- resp=id pwm={lo} rpm=900 origmode=2 origpwm=0")
        now = 1000
        curve = 0
        for ep in range(r.range(1, 2)):           # short stall episodes: one to a few raises each
            ops.append("w.dev rpm=0")
            for _ in range(r.range(2, 6)):
                ops.append("w.poll")
                now += 200_000_000
                ops.append(f"w.cycle curve={curve} now={now}")
            ops.append("w.dev rpm=900")
            for _ in range(12):
                ops.append("w.poll")
        for k in range(700 if tier == "quick" else 2500):   # the long quiet phase
            if k % 97 == 0:
                curve = r.pick([0, 0, 0, r.range(0, 40), r.range(0, 255)])
            now += 200_000_000
            ops.append(f"w.cycle curve={curve} now={now}")
            if k % 5 == 0:
                ops.append("w.poll")
    return ops


class CycleView:
    """one executed w.cycle / w.calc seen from the implementation's output"""
    __slots__ = ("idx", "op", "pre", "post", "res", "log", "requested")

    def __init__(self, idx, op, pre, post):
        self.idx = idx
        self.op = op
        self.pre = pre
        self.post = post
        self.res = post.get("res")
        self.log = [] if post.get("log", "-") == "-" else post["log"].split(",")
        self.requested = None
        if self.res == "ok" and post.get("last", "-") != "-":
            self.requested = int(post["last"])


def walk(cops, cgo):
    """yield (i, op, pre_state_kv, post_state_kv) for every op of a world case"""
    pre = kv(cgo[1]) if len(cgo) > 1 else {}
    for i in range(2, len(cops)):
        post = kv(cgo[i])
        yield i, cops[i], pre, post
        if "pwm" in post:
            pre = post
