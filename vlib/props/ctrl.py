"""Shared pieces of the controller properties (C01 C02 C05 C10): the `ctrl` stream and a replayer of
its implementation-side output."""
from .. import streams
from .common import kv, cases, parse_int_map, distinct_keys, nearest_ok, world_ok, viol


def gen_ctrl(r, tier, n_quick=600, n_thorough=20000, **kw):
    n = n_quick if tier == "quick" else n_thorough
    return streams.gen_world(r, n, **kw)


class CycleView:
    """one executed w.cycle / w.calc seen from the implementation's output"""
    __slots__ = ("idx", "op", "pre", "post", "res", "log", "requested")

    def __init__(self, idx, op, pre, post):
        self.idx = idx
        self.op = op
        self.pre = pre
        self.post = post
        self.res = post.get("res")
        self.log = [] if post.get("log", "-") == "-" else post["log"].split(",")
        self.requested = None
        if self.res == "ok" and post.get("last", "-") != "-":
            self.requested = int(post["last"])


def walk(cops, cgo):
    """yield (i, op, pre_state_kv, post_state_kv) for every op of a world case"""
    pre = kv(cgo[1]) if len(cgo) > 1 else {}
    for i in range(2, len(cops)):
        post = kv(cgo[i])
        yield i, cops[i], pre, post
        if "pwm" in post:
            pre = post
