"""C18 — only root-controlled executables are ever run."""
from ..check import Prop, Stream
from .. import streams_exec
from .common import kv, cases, viol


def allowed(owner, group, mode):
    return owner == 0 and (group == 0 or not (mode & 0o020)) and not (mode & 0o002)


def gen_perm(r, tier):
    return streams_exec.gen_perm(r, 500, exhaustive=(tier == "thorough"))


def gen_twice(r, tier):
    return streams_exec.gen_perm_twice(r, 120 if tier == "quick" else 1500)


def gen_cfg(r, tier):
    return streams_exec.gen_cfg(r, 300, exhaustive=(tier == "thorough"))


class C18(Prop):
    id = "C18"
    lean_modules = ["Fan2go.Props.C18"]
    fact_modules = ["Fan2go.Props.Facts", "Fan2go.Props.Trans3Perm", "Fan2go.Props.Trans3Exec"]
    rule = ("perm: real files on the real filesystem (we run as root; chown to a foreign uid/gid works): {root,other} x "
            "{root,other} x permission modes (all 512 in the thorough tier, a sample biased to g+w / o+w / x bits in quick) x "
            "{direct, symlink}; each is a script dropping a marker file; twice: ownership/mode changed between two executions; "
            "cfg: the configuration-file rule through the real configuration.Validate. non-trivial = distinct (owner, group, "
            "g+w, o+w, executable?, link, verdict)")
    assumptions = ["os.Stat returns the inode's uid/gid/mode; filepath.EvalSymlinks resolves the path (the check judges the resolved file)",
                   "the window between the check and execve, and the ownership of parent directories, are outside the property as stated"]
    streams = [Stream("perm", gen_perm, parallel=4, timeout=1800), Stream("twice", gen_twice, parallel=4),
               Stream("cfg", gen_cfg, parallel=4)]

    def oracle(self, name, ops, go):
        out = []
        for cops, cgo in cases(ops, go):
            for i, (op, g) in enumerate(zip(cops, cgo)):
                a = kv(op)
                r = kv(g)
                if op.startswith("ex.perm"):
                    ok = allowed(int(a["owner"]), int(a["group"]), int(a["mode"], 8))
                    if r.get("marker") == "1" and not ok:
                        out.append(viol(f"executed a file that is not root-controlled: {op}", cops[:2] + [op], cgo[:2] + [g]))
                    if r.get("check") == "ok" and not ok:
                        out.append(viol(f"permission check passed for a file that is not root-controlled: {op}", cops[:2] + [op], cgo[:2] + [g]))
                    if r.get("check") == "err" and ok:
                        out.append(viol(f"permission check rejected a root-controlled file: {op}", cops[:2] + [op], cgo[:2] + [g]))
                    if str(r.get("run", "")).startswith("panic"):
                        out.append(viol(f"the call panicked: {op} -> {g}", cops[:2] + [op], cgo[:2] + [g]))
                elif op.startswith("ex.dangling"):
                    if "marker=1" in g or "check=ok" in g or "run=ok" in g:
                        out.append(viol(f"a path that cannot be resolved passed the check / was executed: {op} -> {g}", cops[:2] + [op], cgo[:2] + [g]))
                    if "panic" in g:
                        out.append(viol(f"the call panicked: {op} -> {g}", cops[:2] + [op], cgo[:2] + [g]))
                elif op.startswith("ex.twice"):
                    ok1 = allowed(int(a["owner"]), int(a["group"]), int(a["mode"], 8))
                    ok2 = allowed(int(a["owner2"]), int(a["group2"]), int(a["mode2"], 8))
                    if (r.get("marker1") == "1" and not ok1) or (r.get("marker2") == "1" and not ok2):
                        out.append(viol(f"a call executed the file although its stat at THAT call was not root-controlled: {op} -> {g}",
                                        cops[:2] + [op], cgo[:2] + [g]))
                elif op.startswith("ex.rel"):
                    if r.get("bad") == "1":
                        out.append(viol(f"a relative executable path was resolved differently for the permission check and for the start: a "
                                        f"world-writable script of a non-root owner was executed: {op} -> {g}", cops[:2] + [op], cgo[:2] + [g]))
                    if str(r.get("run", "")).startswith("panic"):
                        out.append(viol(f"the call panicked: {op} -> {g}", cops[:2] + [op], cgo[:2] + [g]))
                elif op.startswith("ex.mix"):
                    if r.get("marker") == "1" or r.get("accepted", "0") != "0":
                        out.append(viol(f"while other goroutines were checking a root-owned script, a script owned by somebody else passed the check / "
                                        f"was executed: {op} -> {g}", cops[:2] + [op], cgo[:2] + [g]))
                elif op.startswith("ex.queue"):
                    if r.get("marker") == "1" or "ok:9" in g:
                        out.append(viol(f"a call that had to wait for another call on the same executable ran the file that had meanwhile been "
                                        f"replaced by a non-root owner's (the check was not made directly before THIS execution): {op} -> {g}",
                                        cops[:2] + [op], cgo[:2] + [g]))
                    if "panic" in g:
                        out.append(viol(f"the call panicked: {op} -> {g}", cops[:2] + [op], cgo[:2] + [g]))
                elif op.startswith("ex.busy"):
                    if r.get("marker") == "1":
                        out.append(viol(f"a file that had been handed to a non-root owner / made world-writable was executed (it was busy when the "
                                        f"call started and was not checked again before it was run): {op} -> {g}", cops[:2] + [op], cgo[:2] + [g]))
                    if str(r.get("run", "")).startswith("panic"):
                        out.append(viol(f"the call panicked: {op} -> {g}", cops[:2] + [op], cgo[:2] + [g]))
                elif op.startswith("ex.cfg"):
                    ok = allowed(int(a["owner"]), int(a["group"]), int(a["mode"], 8))
                    needs = a.get("cmd", "none") != "none"
                    verdict = g.split()[0] if g else ""
                    if needs and not ok and "ok" in verdict and "err" not in verdict:
                        out.append(viol(f"configuration with command entries accepted although the file is not root-controlled: {op} -> {g}",
                                        cops[:2] + [op], cgo[:2] + [g]))
        return out

    def nontrivial(self, name, ops, go):
        s = set()
        for op, g in zip(ops, go):
            if op.startswith("ex.perm") or op.startswith("ex.cfg"):
                a = kv(op)
                m = int(a["mode"], 8)
                s.add((op.split()[0], a["owner"], a["group"], bool(m & 0o020), bool(m & 0o002), bool(m & 0o111), a.get("link"), a.get("cmd"), g[:30]))
        return s


PROP = C18()
