"""C07 — hotter never means slower."""
import struct

from ..check import Prop, Stream
from .. import streams
from ..gen import bits2f, fx
from .common import kv, cases, parse_int_map, viol

MONO_TYPES = ["sum", "maximum", "minimum", "average"]


def f32_representable(v):
    return struct.unpack("<f", struct.pack("<f", v))[0] == v


def temps_grid(r, lo_c, hi_c):
    """ascending temperatures (milli-degrees) from below lo to above hi on a random 1..100 m-degree grid"""
    t = (lo_c - 2) * 1000
    end = (hi_c + 2) * 1000
    out = []
    span = max(1, end - t)
    coarse = max(1, span // 400)
    while t <= end:
        out.append(t)
        t += r.range(1, 100) if r.chance(0.5) else r.range(1, 100) * coarse
    return out


def gen_sweeps(r, tier):
    """one or two sensors; every step raises one of them or both (none ever falls), so every curve over them must
    be non-decreasing along the case. Leaves get staggered ranges so that one member is still off (0) while another
    is already high - the region in which a wrong minimum / average shows."""
    ops = []
    for _ in range(60 if tier == "quick" else 2500):
        ops += ["#case sweep", "cv.reset"]
        leaves = []
        nsens = r.pick([1, 1, 2])
        span = {f"s{j}": [200, -200] for j in range(nsens)}
        for i in range(r.range(1, 4)):
            sid = f"s{r.below(nsens)}"
            if r.chance(0.5):
                mn = r.range(-10, 80)
                mx = mn + r.range(1, 40)
                if r.chance(0.12):
                    # min above max (the validator accepts it): whatever such a curve is, hotter must not mean slower
                    # (seed C07h: a clamped-ratio rewrite turned it into a falling ramp)
                    mn, mx = mx, mn
                ops.append(f"cv.add id=L{i} kind=linear sensor={sid} min={mn} max={mx} steps=nil")
                lo, hi = min(mn, mx), max(mn, mx)
            else:
                n = r.range(1, 8)
                ks = sorted(set(r.range(10, 95) for _ in range(n)))
                style = r.below(3)
                if style == 0:
                    vals = sorted(float(r.range(0, 255)) for _ in ks)
                elif style == 1:
                    vals = sorted(r.range(0, 510) / 2.0 for _ in ks)
                else:
                    vals = sorted(r.range(0, 2550) / 10.0 for _ in ks)   # not binary32-representable in general
                if r.chance(0.4):
                    vals[0] = 0.0      # off below the first step
                ops.append(f"cv.add id=L{i} kind=linear sensor={sid} min=0 max=0 steps={streams.float_map_tok(dict(zip(ks, vals)))}")
                lo, hi = ks[0], ks[-1]
            span[sid] = [min(span[sid][0], lo), max(span[sid][1], hi)]
            leaves.append(f"L{i}")
        allc = list(leaves)
        for i in range(r.pick([0, 1, 1, 2, 3])):
            ms = [r.pick(allc) for _ in range(r.range(1, 4))]
            ops.append(f"cv.add id=F{i} kind=function type={r.pick(MONO_TYPES)} members={','.join(ms)}")
            allc.append(f"F{i}")
        grids = {}
        for sid, (lo, hi) in span.items():
            if lo > hi:
                lo, hi = 20, 60
            grids[sid] = temps_grid(r, lo, hi)
        pos = {sid: 0 for sid in grids}
        for sid in grids:
            ops.append(f"cv.sensor id={sid} avg={fx(float(grids[sid][0]))} val={fx(float(grids[sid][0]))}")
        while True:
            for c in allc:
                ops.append(f"cv.eval id={c} now=1000")
            movable = [sid for sid in grids if pos[sid] + 1 < len(grids[sid])]
            if not movable:
                break
            for sid in ([r.pick(movable)] if r.chance(0.7) else movable):
                pos[sid] += 1
                t = grids[sid][pos[sid]]
                ops.append(f"cv.sensor id={sid} avg={fx(float(t))} val={fx(float(t))}")
    return ops


def gen_shuffle(r, tier):
    """one sensor whose temperature is visited in RANDOM order (big jumps up and down, returns to earlier values): a curve's
    value is a function of the smoothed temperature, so over the whole case hotter must never mean slower - whatever was
    evaluated in between (seed C07e: a stateful outlier filter inside the curve)"""
    ops = []
    for _ in range(40 if tier == "quick" else 1500):
        ops += ["#case shuffle", "cv.reset"]
        allc = []
        lo_all, hi_all = 200, -200
        for i in range(r.range(1, 3)):
            if r.chance(0.5):
                mn = r.range(-10, 70)
                mx = mn + r.range(5, 50)
                ops.append(f"cv.add id=L{i} kind=linear sensor=s0 min={mn} max={mx} steps=nil")
                lo, hi = mn, mx
            else:
                ks = sorted(set(r.range(10, 95) for _ in range(r.range(2, 7))))
                vals = sorted(float(r.range(0, 255)) for _ in ks)
                ops.append(f"cv.add id=L{i} kind=linear sensor=s0 min=0 max=0 steps={streams.float_map_tok(dict(zip(ks, vals)))}")
                lo, hi = ks[0], ks[-1]
            lo_all, hi_all = min(lo_all, lo), max(hi_all, hi)
            allc.append(f"L{i}")
        for i in range(r.pick([0, 1, 1, 2])):
            ms = [r.pick(allc) for _ in range(r.range(1, 3))]
            ops.append(f"cv.add id=F{i} kind=function type={r.pick(MONO_TYPES)} members={','.join(ms)}")
            allc.append(f"F{i}")
        temps = [r.range((lo_all - 5) * 1000, (hi_all + 5) * 1000) for _ in range(r.range(15, 40))]
        temps += [r.pick(temps) + r.range(-3000, 3000) for _ in range(10)]
        # the clock: standing still in half of the cases (as before); in the others it moves between the temperature changes
        # by nothing, a fraction of the controller tick (200 ms) or more than a tick - a curve's value is a function of the
        # temperature whenever it is asked (seed C07l: member results were reused for half a tick)
        now = 1000
        moving = r.chance(0.5)
        for t in r.shuffle(temps):
            if moving:
                now += r.pick([0, 0, 30_000_000, 60_000_000, 150_000_000, 400_000_000])
            ops.append(f"cv.sensor id=s0 avg={fx(float(t))} val={fx(float(t))}")
            for c in allc:
                ops.append(f"cv.eval id={c} now={now}")
                if c.startswith("F") and r.chance(0.4):
                    # two controllers sharing the curve evaluate it at the same moment (the first suspended inside a
                    # member's sensor read): both results are values of the curve at this temperature
                    ops.append(f"cv.evalpair id={c} gate=s0 n={r.range(1, 3)} now={now}")
    return ops


def gen_sweeps_focus(r, tier):
    """search-only: one function curve over two or three linear leaves with staggered ranges (one member still off while
    another is well up), one sensor each or shared, fine grids around every leaf's lower end"""
    ops = []
    for _ in range(150):
        ops += ["#case sweep", "cv.reset"]
        nl = r.range(2, 3)
        shared = r.chance(0.5)
        mins = []
        for i in range(nl):
            mn = r.range(0, 60)
            mins.append(mn)
            ops.append(f"cv.add id=L{i} kind=linear sensor={'s0' if shared else f's{i}'} min={mn} max={mn + r.range(5, 40)} steps=nil")
        ops.append(f"cv.add id=F0 kind=function type={r.pick(MONO_TYPES)} members={','.join(f'L{i}' for i in range(nl))}")
        ops.append("cv.add id=F1 kind=function type=" + r.pick(MONO_TYPES) + " members=F0,L0")
        sens = ["s0"] if shared else [f"s{i}" for i in range(nl)]
        cur = {sid: (min(mins) - 1) * 1000 for sid in sens}
        if not shared:   # the others start somewhere inside their ranges
            for i, sid in enumerate(sens[1:], 1):
                cur[sid] = (mins[i] + r.range(1, 30)) * 1000
        for sid in sens:
            ops.append(f"cv.sensor id={sid} avg={fx(float(cur[sid]))} val={fx(float(cur[sid]))}")
        for _ in range(r.range(40, 120)):
            for c in ("F0", "F1"):
                ops.append(f"cv.eval id={c} now=1000")
            sid = r.pick(sens)
            cur[sid] += r.range(1, 400)
            ops.append(f"cv.sensor id={sid} avg={fx(float(cur[sid]))} val={fx(float(cur[sid]))}")
    return ops


def gen_requests(r, tier):
    """curve value -> request -> written value with the direct loop, for non-decreasing PWM maps"""
    ops = []
    for _ in range(80 if tier == "quick" else 3000):
        style = r.below(3)
        if style == 0:
            pm = {i: i for i in range(256)}
        elif style == 1:
            q = r.pick([2, 5, 8, 16])
            pm = {i: (i // q) * q for i in range(256)}
        else:
            ks = streams.gen_keyset(r, maxn=30)
            pm = dict(zip(ks, sorted(r.range(0, 255) for _ in ks)))
        lo, hi = streams.gen_limits(r)
        ops.append("#case request")
        now = 1000
        if r.chance(0.35) and lo + 8 < hi:
            # a never-stop fan that has stalled a few times before (its minimum was raised by 1..4 steps) and spins again:
            # from that state too a higher curve value must never lower the request (seed C07g: the raised minimum was
            # dropped again as soon as the mapped target exceeded it)
            ops.append(f"w.new kind=hwmon ns=1 win=10 minp={lo} maxp={hi} startp={lo} avg=x0000000000000000 map={streams.int_map_tok(pm)} "
                       f"loop=direct m=- resp=id pwm=0 rpm=0 origmode=2 origpwm=0")
            for _ in range(r.range(2, 5)):
                now += 200_000_000
                ops.append(f"w.cycle curve=0 now={now}")
                ops.append("w.poll")
            ops.append("w.dev rpm=900")
            for _ in range(r.range(1, 4)):
                ops.append("w.poll")
            ops.append("#ascend")
            cs = sorted(set([0, 1, 2, 3, 255] + [r.range(0, 12) for _ in range(6)] + [r.range(-20, 280) for _ in range(30)]))
            for c in cs:
                now += 200_000_000
                ops.append(f"w.cycle curve={c} now={now}")
                if r.chance(0.5):
                    ops.append("w.poll")
            continue
        ops.append(f"w.new kind=hwmon ns=0 win=10 minp={lo} maxp={hi} startp={lo} avg=x408f400000000000 map={streams.int_map_tok(pm)} "
                   f"loop=direct m=- resp=id pwm=0 rpm=900 origmode=2 origpwm=0")
        cs = sorted(set([0, 255] + [r.range(-20, 280) for _ in range(40)]))
        for c in cs:
            now += 200_000_000
            ops.append(f"w.cycle curve={c} now={now}")
    return ops


def gen_loopmono(r, tier):
    """the direct control algorithm (with and without maxPwmChangePerCycle) from ONE state: for a fixed current value the
    next request is non-decreasing in the curve value (seed C07i: a rate-limited step 'spread evenly' shrank when the
    distance crossed a multiple of the limit)"""
    ops = []
    for _ in range(12 if tier == "quick" else 200):
        m = r.pick(["-", 1, 2, 3, 7, 10, 16, 50, 100, 255])
        ops += ["#case loopmono", f"loop.new loop=direct m={m}"]
        for cur in [r.range(0, 255) for _ in range(4)]:
            ops.append(f"#current {cur}")
            for t in range(0, 256, 1 if tier != "quick" else r.pick([1, 1, 2])):
                ops.append(f"loop.cycle target={t} current={cur} now=1000")
    return ops


class C07(Prop):
    id = "C07"
    lean_modules = ["Fan2go.Props.C07"]
    fact_modules = ["Fan2go.Props.Trans", "Fan2go.Props.Trans2Interp", "Fan2go.Props.Trans2Evaluate", "Fan2go.Props.Trans2FindClosest", "Fan2go.Props.Trans3Leaf"]
    rule = ("sweep: linear curves (min<max; non-decreasing step sets with integer, half-integer and one-decimal speeds) and "
            "sum/maximum/minimum/average function curves nested over them over one or two sensors, each raised along its own ascending grid of 1..100 "
            "m-degree spanning below-min to above-max; request: ascending curve values through the real controller with the "
            "direct loop and non-decreasing PWM maps. non-trivial = distinct (curve shapes, function types, grid length bucket)")
    assumptions = ["step speeds that are not binary32-representable fall into the recorded known finding C07-float32-hop "
                   "(the float32 cast in the interpolation can lift a value over x.5 just below a knot)"]
    streams = [Stream("sweep", gen_sweeps, parallel=8), Stream("shuffle", gen_shuffle, parallel=8),
               Stream("pairdrop", lambda r, tier: streams.gen_pairdrop(r, 30 if tier == "quick" else 1500), parallel=8),
               Stream("request", gen_requests, parallel=8), Stream("loopmono", gen_loopmono, parallel=8)]

    def search_streams(self):
        return [(self.streams[0], gen_sweeps_focus)]

    def oracle(self, name, ops, go):
        out = []
        for cops, cgo in cases(ops, go):
            if name == "loopmono":
                prev = None
                for i, (op, g) in enumerate(zip(cops, cgo)):
                    if op.startswith("#current"):
                        prev = None
                    if not op.startswith("loop.cycle"):
                        continue
                    try:
                        v = int(g.split()[0][1:]) if g.startswith("i") else int(kv(g).get("out", g))
                    except ValueError:
                        continue
                    if prev is not None and v < prev[1]:
                        out.append(viol(f"control algorithm, same current value: target {prev[0]} gives {prev[1]}, the higher target {kv(op)['target']} gives {v}",
                                        cops, cgo, upto=i))
                        break
                    prev = (kv(op)["target"], v)
                continue
            if name == "request":
                last_t, last_w = None, None
                start = next((k for k, o in enumerate(cops) if o.startswith("#ascend")), 1) + 1
                for i in range(start, len(cops)):
                    if not cops[i].startswith("w.cycle"):
                        continue
                    g = kv(cgo[i])
                    if g.get("res") != "ok":
                        break
                    t, w = int(g["last"]), int(g["pwm"])
                    if last_t is not None and (t < last_t or w < last_w):
                        out.append(viol(f"a higher curve value lowered the request/written PWM: ({last_t},{last_w}) -> ({t},{w})", cops, cgo, upto=i))
                        break
                    last_t, last_w = t, w
                continue
            if name == "pairdrop":
                # a curve's value is a function of the temperatures it read: the suspended evaluation must give what the
                # sequential evaluation just before it gave, the other one what the sequential evaluation just after gives
                for i, (op, g) in enumerate(zip(cops, cgo)):
                    if not op.startswith("cv.evalpair") or i == 0 or i + 1 >= len(cops):
                        continue
                    before, after, got = cgo[i - 1].split()[0], cgo[i + 1].split()[0], kv(g)
                    if before.startswith("i") and got.get("a") != before:
                        out.append(viol(f"curve {kv(op)['id']} gave {before} for these temperatures, but {got.get('a')} when a second controller "
                                        "evaluated it at the same moment after another sensor had changed", cops, cgo, upto=i + 1))
                        break
                    if after.startswith("i") and got.get("b") != after:
                        out.append(viol(f"curve {kv(op)['id']}: the overlapping evaluation gave {got.get('b')}, the curve's value for that state is {after}",
                                        cops, cgo, upto=i + 1))
                        break
                continue
            if name == "shuffle":
                seen, temp, bad = {}, None, False
                for i, (op, g) in enumerate(zip(cops, cgo)):
                    if op.startswith("cv.sensor"):
                        temp = bits2f(int(kv(op)["avg"][1:], 16))
                    elif op.startswith("cv.eval") and temp is not None and (g.startswith("i") or op.startswith("cv.evalpair")):
                        cid = kv(op)["id"]
                        if op.startswith("cv.evalpair"):
                            vs_ = [int(x[1:]) for x in (kv(g).get("a", ""), kv(g).get("b", "")) if x.startswith("i")]
                        else:
                            vs_ = [int(g.split()[0][1:])]
                        for v in vs_:
                          for (t2, v2) in seen.get(cid, []):
                            if (t2 < temp and v2 > v) or (t2 > temp and v2 < v) or (t2 == temp and v2 != v):
                                out.append(viol(f"curve {cid}: {v2} at {t2 / 1000} degrees but {v} at {temp / 1000} degrees (evaluated in this order "
                                                "within one run): hotter means slower", cops, cgo, upto=i))
                                bad = True
                                break
                          if bad:
                            break
                          seen.setdefault(cid, []).append((temp, v))
                        if bad:
                            break
                continue
            last = {}
            rep32 = True
            for i, (op, g) in enumerate(zip(cops, cgo)):
                if op.startswith("cv.add"):
                    a = kv(op)
                    if a["kind"] == "linear" and a.get("steps", "nil") not in ("nil", "-"):
                        for p in a["steps"].split(","):
                            if not f32_representable(bits2f(int(p.split(":")[1][1:], 16))):
                                rep32 = False
                if op.startswith("cv.eval") and g.startswith("i"):
                    cid = kv(op)["id"]
                    v = int(g.split()[0][1:])
                    if cid in last and v < last[cid]:
                        out.append(viol(f"curve {cid} dropped from {last[cid]} to {v} although the temperature rose", cops, cgo, upto=i,
                                        detail={"rep32": rep32}))
                        break
                    last[cid] = v
        return out

    def classify(self, v):
        d = v.detail or {}
        if "dropped" in v.what and d.get("rep32") is False:
            return "C07-float32-hop"
        return None

    def nontrivial(self, name, ops, go):
        s = set()
        for cops, cgo in cases(ops, go):
            shapes = frozenset((kv(o).get("kind"), kv(o).get("type"), kv(o).get("steps", "nil") == "nil") for o in cops if o.startswith("cv.add"))
            s.add((cops[0], shapes, min(len(cops) // 50, 10), kv(cops[1]).get("minp") if len(cops) > 1 else None))
        return s


PROP = C07()
