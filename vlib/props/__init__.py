"""Registry of the per-property check definitions."""
import importlib

_MODULES = ["c01", "c02", "c03", "c04", "c05", "c06", "c07", "c08", "c09", "c10",
            "c11", "c12", "c13", "c14", "c15", "c16", "c17", "c18", "c19", "c20"]


def get(pid):
    name = pid.lower()
    if name not in _MODULES:
        return None
    try:
        m = importlib.import_module("vlib.props." + name)
    except ModuleNotFoundError:
        return None
    return m.PROP
