"""C03 — stopping regulation hands the fan back or leaves it at full speed."""
import os
import shutil
import signal
import tempfile
import time

from ..check import Prop, Stream, Violation
from .. import streams, daemon, gobuild
from .. import streams_lifecycle as sl
from .common import kv, cases, viol

READS = ["ok", "other:-1", "other:0"]
WRITES = ["applied", "refused", "ignored"]


def gen_restore(r, tier):
    """sequential restore logic under faults: exhaustive over original mode x mode-write outcome x read-back
    outcome x first PWM write outcome x control-mode support (the final full-speed write, if attempted, applies)"""
    ops = []
    ident = "0:0,80:80,255:255"
    for kind in ("hwmon", "file", "cmd"):
        for hasmode in ((1, 0) if kind == "hwmon" else (0,)):
            for origmode in (-1, 0, 1, 2, 3, 5):
                for mw in WRITES:
                    for mr in READS:
                        for origpwm in (0, 80, 255):
                            cur = r.range(0, 254)
                            ops.append("#case restore")
                            toks = [f"kind={kind}", "ns=0", "win=10", f"map={ident}", "loop=direct m=-", "resp=id",
                                    f"pwm={cur}", "rpm=900", f"origmode={origmode}", f"origpwm={origpwm}",
                                    f"modewrite={mw}", f"moderead={mr}", f"hasmode={hasmode}", "mode=1"]
                            if kind == "hwmon":
                                toks += ["maxp=255", "avg=x408f400000000000"]
                            ops.append("w.new " + " ".join(toks))
                            if r.chance(0.5):
                                ops.append(f"w.cycle curve={r.range(0,255)} now=1000")
                                if kind != "cmd" and r.chance(0.4):
                                    # the device is enumerated again while fan2go runs (the configured path is a symbolic link,
                                    # as /sys/class/hwmon/hwmonN is): the hand-back has to reach the device the path leads to
                                    # NOW (seed C03k: write targets resolved once and remembered)
                                    ops.append("w.dev reprobe=1")
                            ops.append("w.restore")
    n = 200 if tier == "quick" else 5000
    for _ in range(n):  # random worlds incl. failing PWM writes (outside the hypothesis: must still correspond)
        ops += ["#case restore-any", streams.gen_world_new(r)]
        for _ in range(r.range(0, 3)):
            f = r.pick(["pwmwrite", "modewrite", "moderead"])
            v = r.pick(["ok", "perm", "other:-1"]) if f.endswith("read") else r.pick(WRITES)
            ops.append(f"w.dev {f}={v}")
        if r.chance(0.3):
            ops.append(f"w.cycle curve={r.range(0,255)} now=1000")
            ops.append("w.dev reprobe=1")
        ops.append("w.restore")
    return ops


def lifecycle_contract(op, go_line, lean_line):
    """`stop=idle<k>` cancels 3 ms of REAL time after the k-th evaluation (tick 40 ms): on a loaded machine the controller
    may get one more cycle in before the cancellation lands. More evaluations than the model's k are allowed there;
    everything else on the line must agree."""
    import re
    if not (op.startswith("lc.run") and "stop=idle" in op):
        return False
    eg, el = re.search(r"evals=(\d+)", go_line), re.search(r"evals=(\d+)", lean_line)
    strip = lambda l: re.sub(r"evals=\d+", "evals=?", l)
    return bool(eg and el and int(eg.group(1)) >= int(el.group(1)) and strip(go_line) == strip(lean_line))


def gen_failed_start(r, tier):
    """start-up errors after the fan was touched (hwmon fan without RPM input) must leave it restored"""
    ops = []
    for sp in ([60] if tier == "quick" else [0, 1, 60, 200]):
        ops += ["#case failed-start", "su.open parallel=1", f"su.fan fan=f1 kind=hwmon hasrpm=0 startpwm={sp}",
                "su.start fan=f1", "su.dev fan=f1"]
    # cancellation in the window between "start-up took the fan over" (PWM sweep because no map is stored) and the
    # first regulation cycle: the controller must still restore the fan
    for sp in ([60] if tier == "quick" else [1, 60, 120, 254]):
        for kind in ("hwmon",):
            ops += ["#case cancel-window", "su.open parallel=1", f"su.fan fan=f1 kind={kind} startpwm={sp}",
                    "su.start fan=f1", "su.delmap fan=f1", "su.startcancel fan=f1"]
    return ops


def gen_lifecycle(r, tier):
    return sl.gen_lifecycle(r, 104 if tier == "quick" else 936)


class C03(Prop):
    id = "C03"
    lean_modules = ["Fan2go.Props.C03"]
    fact_modules = ["Fan2go.Props.Facts", "Fan2go.Props.Trans3A", "Fan2go.Props.Trans3B", "Fan2go.Props.Trans3Fan"]
    rule = ("restore: exhaustive {hwmon with/without pwm_enable, file, cmd (real scripts)} x original mode {-1,0,1,2,3,5} x mode write "
            "{applied,refused,ignored} x read-back {ok, unreadable(-1), garbage(0)} x original PWM {0,80,255}, plus random "
            "worlds with arbitrary write faults; failed-start: start-up error after the initialisation sequence; daemon: the "
            "real binary on a fake hwmon tree, SIGTERM/SIGINT once or in bursts at offsets spread over start-up, analysis, "
            "ticking and restoring, and a controller failing at start-up while another fan is mid-analysis. non-trivial = "
            "distinct (stream, fault combination | signal count x phase bucket)")
    assumptions = ["the final SetPwm(255), if attempted, takes effect (no implementation could do better when every write is lost)",
                   "pwm_enable read-back is not a permission error (the code knowingly 'continues assuming it worked') and does not fail with a value equal to the requested mode",
                   "ui.ErrorAndNotify terminates (DISPLAY unset in all runs)",
                   "oklog/run.Group, os/signal and context semantics as documented (lifecycle LTS in Model/Lifecycle.lean is hand-written; tied by the regenerated facts fact_daemon_shape / fact_run_restores and by the daemon runs)"]
    partial_note = ("schedules of the real runtime are sampled, not enumerated: the lifecycle theorems quantify over all schedules of the "
                    "LTS; signal delivery latency, preemption inside a single file write and SIGKILL are not exhibited by the model")
    streams = [Stream("restore", gen_restore, parallel=8),
               # oracle-only: the su.* model belongs to C15; here only the device registers left behind matter
               Stream("failed-start", gen_failed_start, parallel=1, exact=False, contract=lambda op, a, b: True),
               # the real Run(ctx) cancelled at every phase boundary vs the single-controller slice of Model/Lifecycle.lean
               Stream("lifecycle", gen_lifecycle, parallel=2, timeout=1800, exact=False, contract=lifecycle_contract)]

    def oracle(self, name, ops, go):
        out = []
        if name == "lifecycle":
            for cops, cgo in cases(ops, go):
                for i, (op, line) in enumerate(zip(cops, cgo)):
                    if not op.startswith("lc.run"):
                        continue
                    g = kv(line)
                    if line.startswith("panic") or g.get("ret", "").startswith("panic"):
                        out.append(viol(f"Run(ctx) panicked ({line.split()[0]}) when its context was cancelled at {kv(op).get('stop')}", cops, cgo, upto=i))
                    elif g.get("ret") == "hang":
                        out.append(viol(f"Run(ctx) did not return after its context was cancelled at {g.get('at')}", cops, cgo, upto=i))
                    elif g.get("touched") == "1" and g.get("restored") != "1":
                        out.append(viol(f"controller cancelled at {g.get('at')} returned ({g.get('ret')}) with the fan touched and not restored: mode {g.get('mode')} PWM {g.get('pwm')}", cops, cgo, upto=i))
            return out
        if name == "failed-start":
            for cops, cgo in cases(ops, go):
                g = kv(cgo[-1])
                if cops[0].startswith("#case cancel-window"):
                    if g.get("swept") == "1" and not (int(g["mode"]) == 2 or int(g["pwm"]) == 255):
                        out.append(viol(f"controller cancelled after taking the fan over but before its first cycle left it in mode {g['mode']} at PWM {g['pwm']}", cops, cgo))
                    continue
                res = kv(cgo[-2]).get("res")
                if res == "err" and not (int(g["mode"]) == 2 or int(g["pwm"]) == 255):
                    out.append(viol(f"start-up failed and left the fan in mode {g['mode']} at PWM {g['pwm']}", cops, cgo))
            return out
        for cops, cgo in cases(ops, go):
            if not cops[0].startswith("#case restore") or cops[0].startswith("#case restore-any"):
                continue
            a = kv(cops[1])
            g = kv(cgo[-1])
            hasmode = a["kind"] == "hwmon" and a.get("hasmode", "1") == "1"
            orig = int(a["origmode"])
            # hypothesis of C03_restore: read-back ok, or failing with a value different from the requested mode
            mr = a.get("moderead", "ok")
            if mr.startswith("other:") and int(mr.split(":")[1]) == orig:
                continue
            ok = (hasmode and orig != 1 and int(g["mode"]) == orig) or int(g["pwm"]) == 255
            if not ok:
                out.append(viol(f"restore left the fan in mode {g['mode']} at PWM {g['pwm']} (original mode {orig})", cops, cgo))
        return out

    def nontrivial(self, name, ops, go):
        if name == "lifecycle":
            return {("lc",) + tuple(c) for c in sl.coverage(ops, go)}
        s = set()
        for cops, cgo in cases(ops, go):
            if len(cops) > 1 and cops[1].startswith("w.new"):
                a = kv(cops[1])
                s.add((a.get("kind"), a.get("hasmode"), a.get("origmode"), a.get("modewrite"), a.get("moderead"), a.get("pwmwrite")))
        return s

    def extra(self, ctx):
        """process-level: signals against the real daemon"""
        tier, r = ctx["tier"], ctx["rng"]
        try:
            binary = gobuild.build("fan2go")
        except gobuild.BuildError as e:
            return [], {"broken": [f"daemon build failed: {e}: {e.output[-800:]}"]}
        n = 10 if tier == "quick" else 120
        viols, samples, classes = [], [], set()
        evals = 0
        base_root = os.path.join(gobuild.BUILD, "scratch")
        os.makedirs(base_root, exist_ok=True)
        for k in range(n):
            base = tempfile.mkdtemp(prefix="c03d-", dir=base_root)
            try:
                nf = r.pick([1, 2, 3])
                orig_mode = r.pick([2, 2, 0, 1, 3])
                orig_pwm = r.range(1, 254)
                scenario = r.pick(["term1", "burst", "burst", "int", "early", "mixed", "failing-peer"])
                chip, j = daemon.make_tree(base, nfans=nf, orig_mode=orig_mode, orig_pwm=orig_pwm)
                if scenario == "failing-peer" and nf >= 2:
                    os.remove(os.path.join(chip, f"pwm{nf}"))
                    os.mkdir(os.path.join(chip, f"pwm{nf}"))
                # file and cmd fans have no control mode to hand back: they must end at full speed (255)
                n_file, n_cmd = (r.below(2), r.below(2)) if scenario in ("term1", "burst", "int", "mixed") else (0, 0)
                cfg = daemon.make_config(base, chip, nfans=nf, curve=r.pick(["linear", "pid", "function"]),
                                         algo=r.pick(["direct", "pid"]), never_stop=r.chance(0.3), file_fans=n_file, cmd_fans=n_cmd)
                d = daemon.Daemon(binary, base, cfg, j)
                began = True
                nsig = 0
                if scenario == "failing-peer" and nf >= 2:
                    rc = d.wait(25)
                elif scenario == "early":
                    time.sleep(r.range(0, 30) / 1000.0)
                    began = "Starting controller loop" in d.logtext()
                    nsig = r.range(1, 5)
                    for _ in range(nsig):
                        d.signal(signal.SIGTERM)
                        time.sleep(r.range(0, 300) / 1e6)
                    rc = d.wait(25)
                else:
                    began = d.wait_regulating(chip, nf, timeout=25)
                    time.sleep(r.range(0, 40) / 1000.0)
                    nsig = {"term1": 1, "int": 1}.get(scenario, r.range(2, 40))
                    for s_i in range(nsig):
                        sig = signal.SIGINT if scenario == "int" or (scenario == "mixed" and s_i % 2) else signal.SIGTERM
                        d.signal(sig)
                        time.sleep(r.pick([0, 20, 50, 200, 1000]) / 1e6)
                    rc = d.wait(25)
                log = d.logtext()
                d.close()
                evals += 1
                kinds = daemon.classify_log(log)
                fans_state = []
                bad = []
                for i in range(1, nf + 1):
                    if scenario == "failing-peer" and i == nf:
                        continue
                    ok, pwm, mode = daemon.restored(chip, i, orig_mode)
                    untouched = (pwm == orig_pwm and mode == orig_mode)
                    fans_state.append({"fan": i, "pwm": pwm, "mode": mode})
                    if not ok and not untouched:
                        bad.append(f"fan{i}: mode {mode} pwm {pwm} (original mode {orig_mode}, pwm {orig_pwm})")
                if began:
                    for kind_, cnt in (("filefan", n_file), ("cmdfan", n_cmd)):
                        for i in range(1, cnt + 1):
                            reg = os.path.join(base, f"{kind_}{i}" + ("_pwm" if kind_ == "cmdfan" else ""))
                            v = daemon.read_int(reg)
                            fans_state.append({"fan": f"{kind_}{i}", "pwm": v})
                            if v != 255 and v != 90:   # 90 = never touched
                                bad.append(f"{kind_}{i}: left at pwm {v} (no control mode to hand back: must be 255)")
                classes.add((scenario, nf, orig_mode, min(nsig, 3), n_file, n_cmd))
                rec = {"scenario": scenario, "fans": nf, "orig_mode": orig_mode, "signals": nsig, "exit": rc,
                       "state": fans_state, "log_flags": kinds}
                if len(samples) < 3:
                    samples.append({"stream": "daemon", "run": rec})
                # a signal that arrives before signal.Notify is registered kills the process by default action:
                # acceptable only while no fan has been touched
                killed_early = isinstance(rc, int) and rc < 0 and not bad
                if kinds or rc == "hang" or (isinstance(rc, int) and rc not in (0, 1) and not killed_early) or bad:
                    viols.append(Violation(f"daemon {scenario}: exit {rc}, log flags {kinds}, not restored: {bad}", stream="daemon",
                                           case_ops=[f"daemon scenario={scenario} fans={nf} orig_mode={orig_mode} orig_pwm={orig_pwm} signals={nsig}"],
                                           go=[log[-1500:]], detail=rec))
            finally:
                shutil.rmtree(base, ignore_errors=True)
        return viols, {"evaluations": evals, "nontrivial": classes, "traces_validated": evals, "samples": samples,
                       "daemon_runs": evals}


PROP = C03()
