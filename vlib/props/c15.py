"""C15 — stored characterisation is reused; fans are analysed once."""
from ..check import Prop, Stream
from .. import streams_startup as ss
from .common import kv, cases, viol


def gen_su(r, tier):
    return ss.gen_startup(r, 120 if tier == "quick" else 3000)


class C15(Prop):
    id = "C15"
    lean_modules = ["Fan2go.Props.C15"]
    fact_modules = ["Fan2go.Props.Facts"]
    rule = ("startup: the REAL DefaultFanController.Run on fans over virtual devices with a real bbolt file in virtual time, stopped "
            "right after the first regulation cycle; sequences of start / reset / init (<= 6) over {hwmon, file} x configured "
            "pwmMap on/off x configured min+max on/off x RPM input on/off; every PWM write before the first regulation cycle is "
            "classified (255->0 staircase = sweep, ascending staircase = RPM-curve measurement). non-trivial = distinct (fan "
            "declaration, op sequence shape)")
    assumptions = ["the bodies of `fan2go fan reset` / `fan init` are re-stated in the harness; their call sequences are regenerated facts (fact_cli_bodies)",
                   "database operations succeed (C14's subject)"]
    streams = [Stream("startup", gen_su, parallel=8)]

    def oracle(self, name, ops, go):
        out = []
        for cops, cgo in cases(ops, go):
            decl = {}
            fresh = {}   # fan -> True when its stored data were discarded (or never created)
            for i, (op, g) in enumerate(zip(cops, cgo)):
                a = kv(op)
                f = a.get("fan")
                if op.startswith("su.fan"):
                    decl[f] = a
                    fresh[f] = True
                elif op.startswith("su.reset"):
                    fresh[f] = True
                elif op.startswith("su.init"):
                    r = kv(g)
                    fresh[f] = not (r.get("res") == "ok" and r.get("rpm") == "1" and r.get("map") == "1")
                elif op.startswith("su.start"):
                    r = kv(g)
                    d = decl.get(f, {})
                    if d.get("cfgmap") == "1" and r.get("sweep") == "1":
                        out.append(viol("a fan with a configured pwmMap was swept", cops, cgo, upto=i))
                        break
                    if not fresh.get(f, True) and (r.get("sweep") == "1" or r.get("measure") == "1"):
                        out.append(viol("start-up repeated the analysis although the fan's data were stored", cops, cgo, upto=i))
                        break
                    if fresh.get(f, True) and d.get("minmax") == "1" and d.get("kind", "hwmon") == "hwmon" and r.get("measure") == "1":
                        out.append(viol("a fan with configured minPwm and maxPwm was put through the RPM-curve measurement", cops, cgo, upto=i,
                                        detail={"minmax_first_start": True}))
                        # known finding: keep scanning this case for other violations
                    if r.get("res") == "ok":
                        # the fan has been started (analysed if necessary): until the user discards the data, no later
                        # start may analyse it again -- whether or not the implementation stored what it measured
                        fresh[f] = False
        return out

    def classify(self, v):
        if (v.detail or {}).get("minmax_first_start"):
            return "C15-minmax-not-skipped"
        return None

    def nontrivial(self, name, ops, go):
        s = set()
        for cops, cgo in cases(ops, go):
            decls = frozenset((kv(o).get("kind"), kv(o).get("cfgmap"), kv(o).get("minmax"), kv(o).get("hasrpm")) for o in cops if o.startswith("su.fan"))
            seq = tuple(o.split()[0] for o in cops if o.startswith("su.") and not o.startswith("su.fan") and not o.startswith("su.open"))
            s.add((decls, seq))
        return s


PROP = C15()
