"""C15 — stored characterisation is reused; fans are analysed once."""
from ..check import Prop, Stream
from .. import streams_startup as ss
from .common import kv, cases, viol


def gen_su(r, tier):
    return ss.gen_startup(r, 120 if tier == "quick" else 3000)


def gen_su_data(r, tier):
    return ss.gen_startup_data(r, 150 if tier == "quick" else 3000)


def gen_restart_together(r, tier):
    """several fans sharing ONE database file, analysed once, then restarted together again and again (what a daemon
    restart does: all controllers look their stored data up at the same moment) - no restart may analyse (seed C15d:
    a database handle shared between controllers was closed under a concurrent look-up)"""
    ops = []
    for _ in range(8 if tier == "quick" else 120):
        par = r.below(2)
        ops.append(f"#case su parallel={par} restart-together")
        ops.append(f"su.open parallel={par} yield_us={r.range(20, 60)}")
        n = r.range(3, 6)
        ids = [f"t{i}" for i in range(n)]
        for fid in ids:
            ops.append(ss._fan_line(fid, r.pick(["hwmon", "hwmon", "file"]), r.chance(0.15), r.chance(0.3), True, r.chance(0.2),
                                    r.pick([8, 16, 32]), r.range(5, 90)))
        ops.append(f"su.together fans={','.join(ids)} delays_us={','.join('0' for _ in ids)}")
        for _ in range(r.range(8, 16) if tier == "quick" else r.range(40, 120)):
            ops.append(f"su.together fans={','.join(r.shuffle(ids))} delays_us={','.join(str(r.pick([0, 0, r.range(0, 150)])) for _ in ids)}")
        # the first step of those restarts in isolation, many times: concurrent look-ups of the stored entries
        # (two at a time: the database is then opened and closed again and again instead of staying open throughout)
        for _ in range(3):
            ops.append(f"su.lookups fans={','.join(r.shuffle(ids)[:2])} rounds=1 ms={500 if tier == 'quick' else 3000}")
    return ops


def gen_config_toggle(r, tier):
    """an analysed fan is started once WITH a pwmMap override in the configuration and then again without it: the measured
    data stored under its id are still there and are reused (exact stream; seed C15i: adopting the override deleted the
    stored measured map as a presumed left-over copy)"""
    ops = []
    for _ in range(6 if tier == "quick" else 100):
        p = r.below(2)
        base = f"kind=hwmon minmax={r.below(2)} hasrpm=1 ns={r.below(2)} quant={r.pick([0, 2, 8])} spinat={r.range(5, 90)}"
        ops += [f"#case su toggle parallel={p}", f"su.open parallel={p} yield_us=0",
                f"su.fan fan=f1 {base} cfgmap=0 mapstyle=identity", "su.start fan=f1", "su.data fan=f1",
                f"su.fan fan=f1 {base} cfgmap=1 mapstyle={r.pick(['identity', 'plateau', 'shifted'])}", "su.start fan=f1",
                f"su.fan fan=f1 {base} cfgmap=0 mapstyle=identity", "su.start fan=f1", "su.data fan=f1"]
    # ... and a fan that is taken out of the configuration for one start of the OTHER fans and then put back (seed C15j: the
    # start-up "cleaned up" the stored entries of fans the configuration did not list)
    for _ in range(4 if tier == "quick" else 60):
        p = r.below(2)
        fa = f"kind=hwmon minmax=0 hasrpm=1 ns=0 quant={r.pick([0, 2])} spinat={r.range(5, 90)} cfgmap=0 mapstyle=identity"
        fb = f"kind=hwmon minmax=0 hasrpm=1 ns={r.below(2)} quant={r.pick([0, 4])} spinat={r.range(5, 90)} cfgmap=0 mapstyle=identity"
        ops += [f"#case su toggle parallel={p}", f"su.open parallel={p} yield_us=0",
                f"su.fan fan=fa {fa}", f"su.fan fan=fb {fb}", "su.start fan=fa", "su.start fan=fb", "su.data fan=fb",
                "su.drop fan=fb", "su.start fan=fa",
                f"su.fan fan=fb {fb}", "su.start fan=fb", "su.data fan=fb"]
    return ops


def gen_rival_run(r, tier):
    """an analysed fan regulates for a dozen cycles while something else moves its PWM register after every write (every
    cycle reads back a value the map does not predict), is stopped and started again: the stored characterisation is still
    there and nothing is measured again (seed C15l: ten mismatches in a row made the running daemon delete the stored map as
    "outdated")"""
    ops = []
    for _ in range(6 if tier == "quick" else 80):
        p = r.below(2)
        base = (f"kind=hwmon cfgmap=0 minmax={r.below(2)} hasrpm=1 ns={r.below(2)} quant={r.pick([0, 2, 8])} spinat={r.range(5, 90)} "
                f"mapstyle=identity")
        ops += [f"#case su rival parallel={p}", f"su.open parallel={p} yield_us=0",
                f"su.fan fan=f1 {base}", "su.start fan=f1", "su.data fan=f1",
                f"su.fan fan=f1 {base} cycles={r.range(11, 16)} rival=1", "su.start fan=f1", "su.data fan=f1",
                f"su.fan fan=f1 {base}", "su.start fan=f1", "su.data fan=f1"]
    return ops


def rival_contract(op, go_line, lean_line):
    """the device registers after a run with a rival writer are the rival's business; everything stored must agree"""
    import re
    strip = lambda l: re.sub(r" reg=\S+", "", l)
    return op.startswith("su.data") and strip(go_line) == strip(lean_line)


def gen_cancelled_start(r, tier):
    """an analysed fan is started again and the start is cancelled (SIGTERM, a failing peer) a few milliseconds in - during
    the start-up wait, the look-ups, or the first cycles; the start after that must find everything stored as it was
    (oracle-only; seed C15h: the aborted start "cleaned up" the stored PWM map of a fan whose curve it had not loaded yet)"""
    ops = []
    for _ in range(8 if tier == "quick" else 150):
        p = r.below(2)
        ops += [f"#case su parallel={p}", f"su.open parallel={p} yield_us=0",
                f"su.fan fan=f1 kind=hwmon cfgmap=0 minmax={r.below(2)} hasrpm=1 ns={r.below(2)} quant={r.pick([0, 2, 8])} spinat={r.range(5, 90)} mapstyle=identity",
                "su.start fan=f1"]
        for _ in range(r.range(1, 3)):
            ops.append(f"su.together fans=f1 delays_us=0 cancel_us={r.pick([500, 2000, 8000, 20000, 60000])}")
            ops.append("su.start fan=f1")
            ops.append("su.data fan=f1")
    return ops


class C15(Prop):
    id = "C15"
    lean_modules = ["Fan2go.Props.C15", "Fan2go.Props.C15b"]
    fact_modules = ["Fan2go.Props.Facts", "Fan2go.Props.Trans3Init", "Fan2go.Props.Trans3RunInit"]
    rule = ("startup: the REAL DefaultFanController.Run on fans over virtual devices with a real bbolt file in virtual time, stopped "
            "right after the first regulation cycle; sequences of start / reset / init (<= 6) over {hwmon, file} x configured "
            "pwmMap on/off x configured min+max on/off x RPM input on/off; every PWM write before the first regulation cycle is "
            "classified (255->0 staircase = sweep, ascending staircase = RPM-curve measurement). startup-data: the same runs "
            "followed by su.data (stored PWM map, stored RPM curve, limits a fresh fan derives from it, device registers; exact "
            "comparison with the data-carrying model Model/Analysis.lean) over quantisers 0/2/3/4/8/16/32, spin thresholds, "
            "configured map styles, fans without RPM input / PWM read support, poked registers, re-declarations; su.settle = "
            "the real waitForFanToSettle on scripted RPM inputs. non-trivial = distinct (fan declaration, op sequence shape)")
    assumptions = ["the bodies of `fan2go fan reset` / `fan init` are re-stated in the harness; their call sequences are regenerated facts (fact_cli_bodies)",
                   "database operations succeed (C14's subject)"]
    streams = [Stream("startup", gen_su, parallel=8), Stream("startup-data", gen_su_data, parallel=8),
               Stream("config-toggle", gen_config_toggle, parallel=8), Stream("rival-run", gen_rival_run, parallel=8, exact=False, contract=rival_contract),
               Stream("cancelled-start", gen_cancelled_start, parallel=8, exact=False, contract=lambda op, a, b: True),
               # oracle-only (real goroutines, real bbolt file locks): restarts of several fans at once
               Stream("restart-together", gen_restart_together, parallel=2, exact=False, contract=lambda op, a, b: True, timeout=1800)]

    def oracle(self, name, ops, go):
        out = []
        if name == "restart-together":
            for cops, cgo in cases(ops, go):
                started = False
                for i, (op, g) in enumerate(zip(cops, cgo)):
                    if op.startswith("su.lookups") and started and kv(g).get("failed", "0") != "0":
                        out.append(viol(f"{kv(g)['failed']} look-ups of stored RPM curves / PWM maps failed while the fans' controllers looked "
                                        "them up at the same moment: start-up answers a failed look-up with the analysis", cops, cgo, upto=i))
                        break
                    if not op.startswith("su.together"):
                        continue
                    r = kv(g)
                    ok = all(x == "ok" for x in r.get("res", "").split(","))
                    if started and (r.get("analysed") != "0" or not ok):
                        out.append(viol(f"restart of fans whose data are stored: {r.get('analysed')} of them were analysed again "
                                        f"(results {r.get('res')})", cops, cgo, upto=i))
                        break
                    if not ok:
                        break
                    started = True
            return out
        if name == "rival-run":
            import re
            strip = lambda l: re.sub(r" reg=\S+", "", l)
            for cops, cgo in cases(ops, go):
                starts = [i for i, o in enumerate(cops) if o.startswith("su.start")]
                datas = [i for i, o in enumerate(cops) if o.startswith("su.data")]
                if len(starts) != 3 or len(datas) != 3 or kv(cgo[starts[0]]).get("res") != "ok":
                    continue
                for k in (1, 2):
                    st = kv(cgo[starts[k]])
                    if st.get("sweep") == "1" or st.get("measure") == "1" or st.get("res") != "ok":
                        out.append(viol("a fan that had been analysed was analysed again after a run in which something else kept moving its PWM "
                                        "register (nobody discarded its stored data)", cops, cgo, upto=starts[k]))
                        break
                    if strip(cgo[datas[k]]) != strip(cgo[datas[0]]):
                        out.append(viol("the stored PWM map / RPM curve of an analysed fan changed during a run in which something else kept moving "
                                        "its PWM register", cops, cgo, upto=datas[k]))
                        break
            return out
        if name == "config-toggle":
            for cops, cgo in cases(ops, go):
                starts = [i for i, o in enumerate(cops) if o.startswith("su.start")]
                if any(o.startswith("su.drop") for o in cops):
                    datas = [i for i, o in enumerate(cops) if o.startswith("su.data")]
                    if len(starts) == 4 and len(datas) == 2 and kv(cgo[starts[1]]).get("res") == "ok":
                        last = kv(cgo[starts[3]])
                        if last.get("sweep") == "1" or last.get("measure") == "1" or last.get("res") != "ok":
                            out.append(viol("a fan that had been analysed was analysed again after it had been out of the configuration for one start "
                                            "of the other fans (nobody discarded its stored data)", cops, cgo, upto=starts[3]))
                        elif cgo[datas[0]] != cgo[datas[1]]:
                            out.append(viol("the stored PWM map / RPM curve of an analysed fan changed while it was out of the configuration", cops, cgo))
                    continue
                if len(starts) == 3 and kv(cgo[starts[0]]).get("res") == "ok":
                    last = kv(cgo[starts[2]])
                    if last.get("sweep") == "1" or last.get("measure") == "1" or last.get("res") != "ok":
                        out.append(viol("a fan that had been analysed was analysed again after one start with a configured pwmMap in between "
                                        "(nobody discarded its stored data)", cops, cgo, upto=starts[2]))
                    elif cgo[starts[0] + 1] != cgo[-1]:
                        out.append(viol("the stored PWM map / RPM curve of an analysed fan changed after one start with a configured pwmMap in between",
                                        cops, cgo))
            return out
        for cops, cgo in cases(ops, go):
            decl = {}
            fresh = {}   # fan -> True when its stored data were discarded (or never created)
            kept = {}    # fan -> (map, rpm) tokens of su.data seen since the fan stopped being fresh
            for i, (op, g) in enumerate(zip(cops, cgo)):
                a = kv(op)
                f = a.get("fan")
                if op.startswith("su.fan"):
                    decl[f] = a
                    fresh[f] = True
                    kept.pop(f, None)
                elif op.startswith("su.reset") or op.startswith("su.delmap"):
                    fresh[f] = True
                    kept.pop(f, None)
                elif op.startswith("su.data"):
                    # "stored characterisation is reused": once a start has succeeded, the two stored entries stay what
                    # they are until the user discards them
                    r = kv(g)
                    cur = (r.get("map"), r.get("rpm"))
                    if not fresh.get(f, True):
                        if f in kept and kept[f] != cur:
                            out.append(viol("the stored PWM map / RPM curve of an analysed fan changed without the user discarding it", cops, cgo, upto=i))
                            break
                        kept[f] = cur
                elif op.startswith("su.init"):
                    r = kv(g)
                    kept.pop(f, None)
                    fresh[f] = not (r.get("res") == "ok" and r.get("rpm") == "1" and r.get("map") == "1")
                elif op.startswith("su.start"):
                    r = kv(g)
                    d = decl.get(f, {})
                    if d.get("cfgmap") == "1" and r.get("sweep") == "1":
                        out.append(viol("a fan with a configured pwmMap was swept", cops, cgo, upto=i))
                        break
                    if not fresh.get(f, True) and (r.get("sweep") == "1" or r.get("measure") == "1"):
                        out.append(viol("start-up repeated the analysis although the fan's data were stored", cops, cgo, upto=i))
                        break
                    if fresh.get(f, True) and d.get("minmax") == "1" and d.get("kind", "hwmon") == "hwmon" and r.get("measure") == "1":
                        out.append(viol("a fan with configured minPwm and maxPwm was put through the RPM-curve measurement", cops, cgo, upto=i,
                                        detail={"minmax_first_start": True}))
                        # known finding: keep scanning this case for other violations
                    if r.get("res") == "ok":
                        # the fan has been started (analysed if necessary): until the user discards the data, no later
                        # start may analyse it again -- whether or not the implementation stored what it measured
                        fresh[f] = False
        return out

    def extra(self, ctx):
        """process level: the real daemon binary and the real CLI commands `fan reset` / `fan init` on a fake hwmon tree:
        start, restart (no analysis), reset, start (analysis again), restart, init, start (no analysis)"""
        import os
        import shutil
        import signal
        import subprocess
        import tempfile
        import time
        from .. import gobuild, daemon
        from ..check import Violation
        try:
            binary = gobuild.build("fan2go")
        except gobuild.BuildError as e:
            return [], {"broken": [f"fan2go build failed: {e}: {e.output[-600:]}"]}
        viols, runs, classes = [], 0, set()
        for rep in range(1 if ctx["tier"] == "quick" else 6):
            base = tempfile.mkdtemp(prefix="c15d-", dir=os.path.join(gobuild.BUILD, "scratch"))
            try:
                chip, j = daemon.make_tree(base, nfans=1, orig_mode=2, orig_pwm=100)
                cfg = daemon.make_config(base, chip, nfans=1, curve=ctx["rng"].pick(["linear", "pid"]))

                def start():
                    d = daemon.Daemon(binary, base, cfg, j)
                    d.wait_regulating(chip, 1, timeout=25)
                    time.sleep(0.03)
                    d.signal(signal.SIGTERM)
                    rc = d.wait(25)
                    log = d.logtext()
                    d.close()
                    return rc, any(m in log for m in ("initialization sequence", "Computing pwm map", "Measuring RPM curve"))

                def cli(*args):
                    env = dict(os.environ)
                    env.pop("DISPLAY", None)
                    env.update({"VERIF_GOSENSORS_JSON": j, "VERIF_VIRTUAL_CLOCK": "1"})
                    p = subprocess.run([binary, *args, "-c", cfg, "--no-style"], env=env, stdout=subprocess.PIPE,
                                       stderr=subprocess.STDOUT, text=True, timeout=180, cwd=base)
                    return p.returncode

                script = [("start", True), ("start", False), ("reset", None), ("start", True), ("start", False),
                          ("init", None), ("start", False)]
                trace = []
                for step, want in script:
                    if step == "start":
                        rc, analysed = start()
                        trace.append(f"start rc={rc} analysed={int(analysed)}")
                        runs += 1
                        classes.add((step, want, analysed))
                        if rc != 0 or analysed != want:
                            viols.append(Violation(
                                ("start-up repeated the fan analysis although its data are stored" if analysed and not want else
                                 "start-up did not analyse a fan without stored data" if want and not analysed else f"daemon exit {rc}")
                                + " (process level: " + "; ".join(trace) + ")", stream="daemon", case_ops=trace[:], go=[]))
                            break
                    else:
                        rc = cli("fan", "--id", "f1", step)
                        trace.append(f"fan {step} rc={rc}")
                        if rc != 0:
                            viols.append(Violation(f"`fan2go fan {step}` failed (exit {rc})", stream="daemon", case_ops=trace[:], go=[]))
                            break
            finally:
                shutil.rmtree(base, ignore_errors=True)
        return viols, {"evaluations": runs, "nontrivial": classes, "traces_validated": runs, "daemon_starts": runs,
                       "samples": [{"stream": "daemon", "ops": ["start", "start", "fan reset", "start", "start", "fan init", "start"]}]}

    def classify(self, v):
        if (v.detail or {}).get("minmax_first_start"):
            return "C15-minmax-not-skipped"
        return None

    def nontrivial(self, name, ops, go):
        s = set()
        for cops, cgo in cases(ops, go):
            decls = frozenset((kv(o).get("kind"), kv(o).get("cfgmap"), kv(o).get("minmax"), kv(o).get("hasrpm")) for o in cops if o.startswith("su.fan"))
            seq = tuple(o.split()[0] for o in cops if o.startswith("su.") and not o.startswith("su.fan") and not o.startswith("su.open"))
            s.add((decls, seq))
        return s


PROP = C15()
