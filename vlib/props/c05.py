"""C05 — external interference with a fan is undone within one control cycle."""
from ..check import Prop, Stream
from .. import streams
from .common import kv, cases, parse_int_map, distinct_keys, nearest_ok, world_ok, viol
from . import ctrl


def readsback_map(r):
    """PWM maps under which the fan reads back what was written, with a matching device response"""
    k = r.below(4)
    if k == 3:
        # a limited-range map (the fan's electronics take 0..top only): the register holds what was written, which is BELOW
        # the requested input - also below a never-stop fan's minimum, which is a quantity of the input side (seed C05i: a
        # "safety net" in the fan backend raised register values to the minimum)
        top = r.pick([100, 120, 180])
        ks = sorted(set([0, 255] + [r.range(1, 254) for _ in range(r.pick([3, 6, 30]))]))
        return {x: (x * top) // 255 for x in ks}, "id"
    if k == 0:
        return {i: i for i in range(256)}, "id"
    if k == 1:
        ks = streams.gen_keyset(r)
        return {x: x for x in ks}, "id"
    q = r.pick([2, 5, 8, 16, 32])
    return {i: (i // q) * q for i in range(256)}, f"q:{q}"


def gen_interfere(r, tier):
    ops = []
    ncases = 200 if tier == "quick" else 3000
    for _ in range(ncases):
        pm, resp = readsback_map(r)
        kind = streams.pick_world_kind(r, base=("hwmon", "hwmon", "file"))
        lo, hi = streams.gen_limits(r)
        ns = r.below(2)
        toks = [f"kind={kind}", f"ns={ns}", "win=10", f"map={streams.int_map_tok(pm)}", streams.loop_tok(r),
                f"resp={resp}", f"pwm={r.range(0,255)}", "rpm=900", "origmode=2", "origpwm=0"]
        if kind == "hwmon":
            toks += [f"minp={lo}", f"maxp={hi}", f"startp={lo}", "avg=x408f400000000000", f"mode={r.pick([1,2])}"]
        else:
            toks += ["rint=900"]
        # "at any time": also after a phase in which the control-mode attribute was absent and / or the PWM register
        # unreadable when fan2go first looked (driver re-probing after resume); the attributes then appear and the
        # property's device contract holds from there on (seed C05d: feature probes cached for ever)
        outage = []
        if kind == "hwmon" and r.chance(0.3):
            k0 = r.below(10)
            if k0 < 4:
                outage.append(("hasmode=0", "hasmode=1"))
            elif k0 < 7:
                # a driver that, for a while, does not take mode writes (manual mode "stuck", the fallback to mode 0 may
                # or may not appear to work, depending on the mode the firmware left): seed C05e remembered that for ever
                outage.append((f"mode={r.pick([0, 0, 2, 3])} modewrite={r.pick(['ignored', 'ignored', 'refused'])}", "modewrite=applied"))
            if r.chance(0.6) or not outage:
                outage.append((f"pwmread={r.pick(['perm', 'other:-1', 'other:0'])}", "pwmread=ok"))
        ops.append("#case interfere" + (" outage=1" if outage else ""))
        ops.append("w.new " + " ".join(toks))
        now = r.range(1, 10**12)
        curve = r.range(0, 255)
        if outage:
            ops.append("w.dev " + " ".join(o[0] for o in outage))
            for _ in range(r.range(0, 3)):
                now += 200_000_000
                ops.append(f"w.cycle curve={curve} now={now}")
                if r.chance(0.5):
                    ops.append("w.poll")
            ops.append("w.dev " + " ".join(o[1] for o in outage))
            ops.append("#healed")
        ncyc = r.range(2, 30 if kind != "cmd" else 12)   # cmd fans: every cycle is a few real process executions
        at = r.range(0, ncyc - 1)
        # the value fan2go itself would write for the curve's two ends (direct loop): a third party may set exactly that
        def would_write(cv):
            tgt = (hi if cv == 255 else (lo if ns else 0)) if kind == "hwmon" else cv
            ks = distinct_keys(pm)
            best = min(ks, key=lambda k: (abs(k - tgt), k))
            return pm[best]
        blind_at = r.range(2, ncyc - 1) if (kind != "cmd" and not outage and ncyc > 3 and r.chance(0.2)) else -1
        for c in range(ncyc):
            if c == blind_at:
                # a cycle that cannot SEE the register (every read of the PWM attribute fails: an EC answering EIO after resume)
                # while something else has just changed it and writes work: the cycle writes its value all the same, so the
                # fan is where the target dictates afterwards (seed C05k: the write was skipped when the value remembered from
                # the last successful read was the requested one). Judged: the register and the mode; not the counter.
                ops.append("#blind")
                ops.append(f"w.dev pwmread=perm pwm={r.range(0, 255)}")
                now += 200_000_000
                ops.append(f"w.cycle curve={curve} now={now}")
                ops.append("w.dev pwmread=ok")
                ops.append("#unblind")
                continue
            if c == at or r.chance(0.1):
                t = []
                if kind != "cmd" and r.chance(0.12):
                    # a register value no PWM can be (a foreign writer, a driver bug), while fan2go's target is the matching END
                    # of the range: the value is foreign all the same and has to be replaced (seed C05j: readings were clamped to
                    # 0..255 before anybody compared them)
                    curve = r.pick([0, 255])
                    t.append(f"pwm={r.pick([300, 1000, 256]) if curve == 255 else r.pick([-20, -1, -300])}")
                elif r.chance(0.25):
                    # the third party anticipates fan2go: it sets the register to the very value the next cycle is going to
                    # request (the curve jumps to an end of its range at the same moment). The cycle then finds nothing to
                    # write - and everything it remembers must still be as after a write of its own (seed C05h: the
                    # request was only recorded when something was written; every later cycle blamed a third party)
                    curve = r.pick([0, 255])
                    t.append(f"pwm={would_write(curve)}")
                elif r.chance(0.7):
                    t.append(f"pwm={r.range(0, 255)}")
                if kind == "hwmon" and r.chance(0.7):
                    t.append(f"mode={r.pick([0, 2, 3])}")
                # the interference may come with a re-enumeration of the device (resume, driver re-probe): the configured
                # path, a symbolic link as /sys/class/hwmon/hwmonN is, then leads to a new directory (seed C05g: resolved
                # paths cached for ever, writes went to the old directory)
                rp = " reprobe=1" if kind != "cmd" and r.chance(0.25) else ""
                ops.append("w.dev " + " ".join(t or [f"pwm={r.range(0,255)}"]) + rp)
            if r.chance(0.3):
                curve = r.pick([0, 255, r.range(0, 255)])
            now += r.pick([50_000_000, 200_000_000, 2_000_000_000])
            ops.append(f"w.cycle curve={curve} now={now}")
            if r.chance(0.3):
                ops.append("w.poll")
    return ops


def gen_interfere_busy(r, tier):
    """as `interfere`, but some control cycles fall into an RPM measurement of the same controller that is still waiting
    for a slow RPM read (`w.cyclebusy`): the interference must be undone by THAT cycle all the same (seed C05f: the cycle was
    skipped when the measurement held a lock). Oracle-only: how the measurement's own bookkeeping interleaves is not compared."""
    ops = []
    for _ in range(60 if tier == "quick" else 1500):
        pm, resp = readsback_map(r)
        lo, hi = streams.gen_limits(r)
        toks = ["kind=hwmon", f"ns={r.below(2)}", "win=10", f"map={streams.int_map_tok(pm)}", streams.loop_tok(r),
                f"resp={resp}", f"pwm={r.range(0,255)}", "rpm=900", "origmode=2", "origpwm=0",
                f"minp={lo}", f"maxp={hi}", f"startp={lo}", "avg=x408f400000000000", f"mode={r.pick([1,2])}"]
        ops.append("#case interfere busy=1")
        ops.append("w.new " + " ".join(toks))
        now = r.range(1, 10**12)
        curve = r.range(0, 255)
        for c in range(r.range(3, 12)):
            if r.chance(0.5):
                t = []
                if r.chance(0.7):
                    t.append(f"pwm={r.range(0, 255)}")
                if r.chance(0.7):
                    t.append(f"mode={r.pick([0, 2, 3])}")
                ops.append("w.dev " + " ".join(t or [f"pwm={r.range(0,255)}"]))
            now += 200_000_000
            ops.append(f"w.{'cyclebusy' if r.chance(0.6) else 'cycle'} curve={curve} now={now}")
    return ops


class C05(Prop):
    id = "C05"
    lean_modules = ["Fan2go.Props.C05"]
    fact_modules = ["Fan2go.Props.Facts", "Fan2go.Props.Trans2Keys", "Fan2go.Props.Trans3A", "Fan2go.Props.Trans3B", "Fan2go.Props.Trans3Fan", "Fan2go.Props.Trans3FileFan", "Fan2go.Props.Trans3FileIO"]
    rule = ("interfere: controller worlds (hwmon / file / cmd fans, cmd = real scripts and processes) whose PWM map reads back (identity, sparse identity, idempotent quantiser with a "
            "matching device) x every loop x curve trajectories, with an external change of mode in {0,2,3} and/or PWM 0..255 "
            "before a random cycle index (plus random extra ones). non-trivial = distinct (kind, map shape, loop, interference "
            "kind, cycle index bucket)")
    assumptions = ["device contract of the property: reads and writes succeed, the fan reads back what was written for map outputs"]
    streams = [Stream("interfere", gen_interfere, parallel=8),
               Stream("interfere-busy", gen_interfere_busy, parallel=8, exact=False, contract=lambda op, a, b: True)]

    def oracle(self, name, ops, go):
        out = []
        # the proved model's answers on the same operations: the reference for WHICH request the current target dictates when the
        # control algorithm steps from its previous request (limited step, PID): a request is a function of the controller's
        # own history, never of what a third party left in the register
        lean = getattr(self, "lean_out", None) if name == "interfere" else None
        lean_cases = [lc for _, lc in cases(ops, lean)] if lean else []
        for ci, (cops, cgo) in enumerate(cases(ops, go)):
            clean = lean_cases[ci] if ci < len(lean_cases) else None
            if len(cops) < 2 or not cops[1].startswith("w.new"):
                continue
            a = kv(cops[1])
            m = parse_int_map(a["map"])
            keys = distinct_keys(m)
            hwmon = a.get("kind") == "hwmon"
            left = None  # the register value fan2go's last cycle left behind
            healed_at = next((k for k, o in enumerate(cops) if o.startswith("#healed")), -1)
            hasmode = a.get("hasmode", "1") == "1"
            for i, op, pre, post in ctrl.walk(cops, cgo):
                if op.startswith("w.dev") and "hasmode" in kv(op):
                    hasmode = kv(op)["hasmode"] == "1"
                if not op.startswith("w.cycle"):   # w.cycle and w.cyclebusy
                    continue
                if i < healed_at:
                    # outage phase (outside the device contract): nothing is judged; a cycle that got as far as writing
                    # leaves its value behind
                    if post.get("res") == "ok":
                        left = int(post["pwm"])
                    else:
                        left = None
                    continue
                blind = any(cops[k].startswith("#blind") for k in range(max(0, i - 2), i))
                if post.get("res") != "ok":
                    break
                if post.get("last", "-") == "-":
                    out.append(viol("a control cycle returned without requesting anything (the fan was not taken over, no PWM written)", cops, cgo, upto=i))
                    break
                t = int(post["last"])
                if clean is not None and i < len(clean) and kv(clean[i]).get("res") == "ok" and not blind:
                    lt = kv(clean[i]).get("last", "-")
                    if lt.lstrip("-").isdigit() and int(lt) != t:
                        out.append(viol(f"the cycle requested {t}; the current target dictates {lt} (the control algorithm steps from fan2go's own previous "
                                        f"request; reference: the proved model on the same operations)", cops, cgo, upto=i))
                        break
                cands = {m[k] for k in keys if nearest_ok(keys, t, k)}
                if int(post["pwm"]) not in cands:
                    out.append(viol(f"after the cycle the PWM register shows {post['pwm']}, the target {t} dictates {sorted(cands)}", cops, cgo, upto=i))
                    break
                if hwmon and hasmode and int(post["mode"]) != 1:
                    out.append(viol(f"after the cycle the fan is in mode {post['mode']}, not manual", cops, cgo, upto=i))
                    break
                dcnt = int(post["cnt"]) - int(pre["cnt"])
                want = 1 if (left is not None and int(pre["pwm"]) != left) else 0
                if dcnt != want and not blind:
                    out.append(viol(f"third-party counter changed by {dcnt}, expected {want} (register before the cycle {pre['pwm']}, left by fan2go {left})", cops, cgo, upto=i))
                    break
                left = int(post["pwm"])
        return out

    def nontrivial(self, name, ops, go):
        s = set()
        for cops, cgo in cases(ops, go):
            if len(cops) < 3:
                continue
            a = kv(cops[1])
            devs = [k for k, o in enumerate(cops) if o.startswith("w.dev")]
            kinds = frozenset(("pwm" in kv(cops[k]), "mode" in kv(cops[k])) for k in devs)
            s.add((a.get("kind"), a.get("resp"), a.get("loop"), a.get("m", "-") != "-", kinds, min(devs[0] if devs else 0, 40) // 5))
        return s


PROP = C05()
