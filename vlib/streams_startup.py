"""Op-file generators for the `su` stream (C15 / C16: the REAL `DefaultFanController.Run`,
`RunInitializationSequence`, `fan reset`, `fan init` on virtual devices with a real bbolt file, against
the decision model Fan2go/Model/Startup.lean).

Each case: `#case su parallel=<p>`, `su.open parallel=<p> yield_us=<n>`, `su.fan ...` declarations, ops.
With parallel=1 the `overlap=` field of `su.together` depends on the Go scheduler; `filter_diffs`
drops diffs that differ in that field only (the case header carries the flag for that purpose)."""
import re

KINDS = ["hwmon", "file"]
QUANTS = [0, 0, 0, 2, 3, 4, 8, 16, 32]   # <= 32: the swept map keeps >= 8 distinct targets, so the
                                         # measurement staircase is recognisable (>= 4 ascending writes)


def _fan_line(fid, kind, cfgmap, minmax, hasrpm, ns, quant, spinat):
    # mapstyle only matters to the Go side (which configured map is used); the model's verdict is the same for every
    # configured map: used as is, never swept
    # (non-identity maps only on a device that reads back exactly what is written, else the user's map lies)
    style = ["identity", "plateau", "shifted"][spinat % 3] if quant <= 1 else "identity"
    return (f"su.fan fan={fid} kind={kind} cfgmap={int(cfgmap)} minmax={int(minmax)} hasrpm={int(hasrpm)} "
            f"ns={int(ns)} quant={quant} spinat={spinat} mapstyle={style}")


def _rand_fan(r, fid, kind=None, hasrpm=None, cfgmap=None):
    kind = kind if kind is not None else r.pick(KINDS)
    cfgmap = cfgmap if cfgmap is not None else r.chance(0.35)
    hasrpm = hasrpm if hasrpm is not None else r.chance(0.75)
    return _fan_line(fid, kind, cfgmap, r.chance(0.4), hasrpm, r.chance(0.3), r.pick(QUANTS), r.range(5, 90))


def gen_startup(r, ncases):
    """sequences of start / reset / init of total length <= 6 over one or two fans drawn from
    {hwmon, file} x cfgmap x minmax x hasrpm (a hwmon fan without RPM input makes `Run` fail: included)"""
    ops = []
    combos = [(k, c, m, h) for k in KINDS for c in (0, 1) for m in (0, 1) for h in (0, 1)]
    for ci in range(ncases):
        p = r.below(2)
        ops.append(f"#case su parallel={p}")
        ops.append(f"su.open parallel={p} yield_us=0")
        nf = 1 if r.chance(0.7) else 2
        ids = ["fa", "fb"][:nf]
        for j, fid in enumerate(ids):
            if j == 0:
                # walk through all 16 combinations systematically, the rest is random
                k, c, m, h = combos[ci % len(combos)]
                ops.append(_fan_line(fid, k, c, m, h, r.chance(0.3), r.pick(QUANTS), r.range(5, 90)))
            else:
                ops.append(_rand_fan(r, fid))
        n = r.range(1, 6)
        style = r.below(4)
        for i in range(n):
            fid = r.pick(ids)
            if style == 0:      # mostly restarts
                w = r.pick(["start"] * 6 + ["reset", "init"])
            elif style == 1:    # discard-heavy
                w = r.pick(["start", "start", "reset", "init"])
            elif style == 2:    # begins with a CLI command
                w = r.pick(["reset", "init"]) if i == 0 else r.pick(["start", "start", "start", "reset", "init"])
            else:
                w = r.pick(["start", "reset", "init"])
            ops.append(f"su.{w} fan={fid}")
    # restarts while something else holds the database file lock for a second or two (real time)
    for _ in range(2 if ncases < 1000 else 12):
        ops.append("#case su parallel=1 dblock")
        ops.append("su.open parallel=1 yield_us=0")
        ops.append(_fan_line("fa", "hwmon", 0, 0, 1, r.chance(0.3), r.pick([8, 16, 32]), r.range(5, 90)))
        ops.append("su.start fan=fa")
        ops.append(f"su.start fan=fa hold_ms={r.range(1300, 2600)}")
        ops.append("su.start fan=fa")
    return ops


DATA_QUANTS = [0, 0, 2, 3, 4, 8, 16, 32, 64, 100, 128, 200, 255, 256, 300]   # >= 128: two distinct targets; > 255: ONE (one-point curve)
_STYLE_OUTPUTS = {"identity": [0, 64, 128, 192, 255], "plateau": [0, 64, 128, 255], "shifted": [10, 70, 130, 190, 250]}


def _fan_line_data(r, fid, kind=None):
    """a fan declaration for the data stream: every quantiser with every configured map style (a map whose outputs
    the device does not read back makes the measurement skip those points, possibly all of them), with and without
    RPM input, occasionally without PWM read support, with a configured start PWM, or a fan that never rotates"""
    kind = kind if kind is not None else r.pick(KINDS)
    cfgmap = r.chance(0.35)
    style = r.pick(["identity", "plateau", "shifted"])
    quant = r.pick(DATA_QUANTS)
    spinat = r.range(5, 90) if not r.chance(0.06) else r.pick([0, 1, 255, 256, 300])
    line = (f"su.fan fan={fid} kind={kind} cfgmap={int(cfgmap)} minmax={int(r.chance(0.3))} hasrpm={int(r.chance(0.8))} "
            f"ns={int(r.chance(0.4))} quant={quant} spinat={spinat} mapstyle={style}")
    if r.chance(0.15):
        line += " pwmread=0"
    if r.chance(0.2):
        line += f" startpwm={r.pick([0, 1, 30, 64, 100, 128, 200, 254, 255])}"
    return line, (style if cfgmap else None), quant


def gen_startup_data(r, ncases):
    """what the analysis COMPUTES: sequences of start / init / reset / delmap / re-declaration over one or two fans, each
    followed by `su.data` (stored PWM map, stored RPM curve, limits derived from it, device registers); `su.poke` puts
    the device registers into a chosen state before an operation (outputs of the map in use included: the "nothing to
    do" shortcut of setPwm); `su.settle` runs waitForFanToSettle on a scripted RPM input"""
    ops = []
    for ci in range(ncases):
        p = r.below(2)
        ops.append(f"#case su parallel={p}")
        ops.append(f"su.open parallel={p} yield_us=0")
        nf = 1 if r.chance(0.7) else 2
        ids = ["fa", "fb"][:nf]
        info = {}
        for j, fid in enumerate(ids):
            line, style, quant = _fan_line_data(r, fid, KINDS[(ci + j) % 2] if j == 0 else None)
            info[fid] = (style, quant)
            ops.append(line)
        if r.chance(0.3):
            ops.append(f"su.data fan={ids[0]}")
        n = r.range(1, 5)
        for i in range(n):
            fid = r.pick(ids)
            style, quant = info[fid]
            if r.chance(0.5):
                pool = [0, 1, 100, 128, 255, r.range(0, 255), r.range(0, 255)]
                if style:
                    pool += _STYLE_OUTPUTS[style] * 2
                if quant > 1:
                    pool += [quant, 3 * quant, (255 // quant) * quant]
                poke = f"su.poke fan={fid} pwm={r.pick(pool)}"
                if r.chance(0.2):
                    poke += f" mode={r.pick([0, 1, 2, 5])}"
                ops.append(poke)
            w = r.pick(["start"] * 5 + ["init"] * 3 + ["reset", "delmap", "redeclare"])
            if w == "redeclare":
                line, style, quant = _fan_line_data(r, fid)
                info[fid] = (style, quant)
                ops.append(line)
            else:
                ops.append(f"su.{w} fan={fid}")
            ops.append(f"su.data fan={fid}")
        if r.chance(0.25):
            # waitForFanToSettle: stable, drifting, failing reads, odd thresholds (0 and negative included)
            thr = r.pick([20.0, 20.0, 10.0, 1.0, 0.5, 100.0, 0.0, -1.0, 19.5, 1e300])
            k = r.below(4)
            if k == 0:
                rpms = [str(r.pick([0, 5, 19, 20, 21, 500, 2550]))]
            elif k == 1:
                base = r.range(0, 2000)
                rpms = [str(max(0, base + r.range(-40, 40))) for _ in range(r.range(1, 14))]
            elif k == 2:
                rpms = [r.pick(["e", "e", str(r.range(0, 900))]) for _ in range(r.range(1, 8))] + [str(r.range(0, 900))]
            else:
                rpms = [str(r.range(0, 3000)) for _ in range(r.range(1, 25))]
            if r.chance(0.05):
                rpms.append("e")     # unreadable for ever: never settles
            ops.append(f"su.settle fan={ids[0]} thr={_fbits(thr)} rpms={','.join(rpms)} limit=60")
    return ops


def _fbits(x):
    import struct
    return "x%016x" % struct.unpack("<Q", struct.pack("<d", float(x)))[0]


def gen_together(r, ncases, parallel):
    """2..4 hwmon fans that all need analysis, started concurrently with random delays (C16)"""
    ops = []
    for _ in range(ncases):
        ops.append(f"#case su parallel={int(parallel)}")
        # createpar=1: the controllers are created before the configured value of the option is in force (seed C16k)
        ops.append(f"su.open parallel={int(parallel)} yield_us={r.range(20, 60)}" + (" createpar=1" if (not parallel and r.chance(0.35)) else ""))
        n = r.range(2, 4)
        ids = [f"t{i}" for i in range(n)]
        quants = r.shuffle([0, 2, 4, 8, 16, 32])[:n]
        # mixed fan kinds: in a third of the cases one of the fans is a FILE fan (its PWM is readable, so it really sweeps): its
        # sweep takes turns with the hwmon fans' analyses like any other (seed C16l: one lock per fan kind)
        filefan = ids[r.below(n)] if r.chance(0.35) else None
        for fid, q in zip(ids, quants):
            if fid == filefan:
                ops.append(_fan_line(fid, "file", False, False, r.chance(0.5), False, r.pick([0, 2, 8]), r.range(5, 90)))
                continue
            # some fans take long to settle (the RPM keeps moving for dozens of polls after a PWM change): their analysis is
            # long, and the others still have to wait for it (seed C16e: a time-out released the lock, not the fan)
            drift = r.pick([0, 0, 0, 30, 45]) if q >= 8 else 0
            ops.append(_fan_line(fid, "hwmon", r.chance(0.15), r.chance(0.3), True, r.chance(0.2), q, r.range(5, 90)) + (f" drift={drift}" if drift else ""))
        order = r.shuffle(ids)
        delays = ",".join(str(r.range(0, 3000)) for _ in order)
        if r.chance(0.3):
            # one more controller, whose data are stored, dies on its start-up path (its fan's driver panics when the
            # stored curve is attached) while the others are being analysed / wait for their turn: whatever is done about
            # the fault, the others' turns stay exclusive (seed C16g: a "safe" release of the start-up lock by the dying
            # controller released the lock somebody else was holding)
            ops.append(f"su.fan fan=tp kind=hwmon cfgmap=1 panicattach_us={r.range(2000, 25000)}")
            ops.append("su.putrpm fan=tp data=0:x0000000000000000,100:x408f400000000000,255:x40a3880000000000")
            order = order + ["tp"]
            delays += ",0"
        if r.chance(0.25):
            # one more fan whose stored RPM curve is present but EMPTY (an interrupted earlier run): its start fails (or
            # whatever it does instead) without ever analysing next to the others (seed C16i: it was re-measured outside
            # the lock)
            ops.append(f"su.fan fan=te kind=hwmon cfgmap=0 minmax=0 hasrpm=1 ns=0 quant=0 spinat={r.range(5, 90)} mapstyle=identity")
            ops.append("su.putrpm fan=te data=-")
            order = ["te"] + order
            delays = "0," + delays
        ops.append(f"su.together fans={','.join(order)} delays_us={delays}")
        k = r.below(6)
        if k == 5 and n >= 2:
            # some fans are analysed from scratch again while others only lost their PWM map (RPM curve kept): the map-only
            # sweep of the latter takes turns with the full analyses of the former, too (seed C16h: two different locks)
            for j, fid in enumerate(r.shuffle(ids)):
                ops.append(f"su.reset fan={fid}" if j % 2 == 0 else f"su.delmap fan={fid}")
            ops.append(f"su.together fans={','.join(r.shuffle(ids))} delays_us={','.join(str(r.range(0, 1500)) for _ in ids)}")
        elif k == 4:
            # the stored PWM map of some fans is lost (RPM curve kept): only the map is computed again, still one at a time
            for fid in ids:
                if r.chance(0.7):
                    ops.append(f"su.delmap fan={fid}")
            ops.append(f"su.together fans={','.join(r.shuffle(ids))} delays_us={','.join(str(r.range(0, 2000)) for _ in ids)}")
        elif k == 0:
            # restart of all: nothing to analyse any more
            ops.append(f"su.together fans={','.join(r.shuffle(ids))} delays_us={','.join(str(r.range(0, 500)) for _ in ids)}")
        elif k in (2, 3) and n >= 2:
            # one fan has to be analysed again while the others, whose data are stored, start next to it and suffer a
            # transient failure of a REPEATED look-up of their stored map (a concurrent `fan reset`, a briefly locked
            # database): whatever they do about it, they must not analyse while the first fan's analysis is running
            ops.append(f"su.reset fan={ids[0]}")
            for fid in ids[1:]:
                ops.append(f"su.flaky fan={fid} at={r.pick([2, 2, 3])}")
            ops.append(f"su.together fans={','.join(ids)} delays_us={','.join(['0'] + [str(r.range(200, 3000)) for _ in ids[1:]])}")
        elif k == 1:
            # discard some, restart all: only those are analysed
            for fid in ids:
                if r.chance(0.6):
                    ops.append(f"su.reset fan={fid}")
            ops.append(f"su.together fans={','.join(r.shuffle(ids))} delays_us={','.join(str(r.range(0, 2000)) for _ in ids)}")
    return ops


_OVERLAP = re.compile(r" overlap=[01]$")


def case_parallel_flags(ops):
    """for every line index the `parallel=` flag of the enclosing `#case su` header (None outside)"""
    flags, cur = [], None
    for l in ops:
        if l.startswith("#case"):
            m = re.search(r"parallel=([01])", l)
            cur = int(m.group(1)) if m else None
        flags.append(cur)
    return flags


def filter_diffs(ops, diffs):
    """drop diffs of `su.together` lines in parallel=1 cases that differ in the overlap field only"""
    flags = case_parallel_flags(ops)
    out = []
    for (i, op, a, b) in diffs:
        if op.startswith("su.together") and flags[i] == 1 and _OVERLAP.sub("", a) == _OVERLAP.sub("", b):
            continue
        out.append((i, op, a, b))
    return out


def overlap_stats(ops, go_lines):
    """(number of su.together lines, number reporting overlap=1) per parallel flag, from the harness output"""
    flags = case_parallel_flags(ops)
    st = {0: [0, 0], 1: [0, 0]}
    for i, op in enumerate(ops):
        if op.startswith("su.together") and i < len(go_lines) and flags[i] in st:
            st[flags[i]][0] += 1
            if go_lines[i].endswith("overlap=1"):
                st[flags[i]][1] += 1
    return st
