"""Op-file generators, one per correspondence stream. Each returns a list of op lines;
a line starting with '#case' starts a new independent case."""
from .gen import Rng, fx, bx, any_float_bits, finite_float_bits, f2bits, bits2f

F64_OPS2 = ["add", "sub", "mul", "div", "lt", "le", "eq", "min", "max"]
F64_OPS1 = ["toint", "round", "ceil", "tof32", "neg", "abs"]


def gen_f64(r, n):
    ops = ["#case f64"]
    for _ in range(n):
        k = r.below(10)
        if k < 6:
            ops.append(f"f64 op={r.pick(F64_OPS2)} a={bx(any_float_bits(r))} b={bx(any_float_bits(r))}")
        elif k < 9:
            ops.append(f"f64 op={r.pick(F64_OPS1)} a={bx(any_float_bits(r))}")
        else:
            v = r.pick([r.range(-300, 600), r.range(-2**62, 2**62), r.range(2**53 - 3, 2**53 + 3), r.range(-10**6, 10**6)])
            ops.append(f"f64 op=ofint n={v}")
    return ops


def int_map_tok(m):
    if m is None:
        return "nil"
    if not m:
        return "-"
    return ",".join(f"{k}:{v}" for k, v in sorted(m.items()))


def float_map_tok(m):
    if m is None:
        return "nil"
    if not m:
        return "-"
    return ",".join(f"{k}:{fx(v) if isinstance(v, float) else bx(v)}" for k, v in sorted(m.items()))


def ints_tok(a):
    return ",".join(str(x) for x in a) if a else "-"


def gen_keyset(r, universe_max=255, maxn=40):
    style = r.below(5)
    if style == 0:
        n = 1
    elif style == 1:
        n = r.range(2, 4)
    elif style == 2:
        n = r.range(2, maxn)
    elif style == 3:
        return list(range(0, universe_max + 1))
    else:
        n = r.range(2, 12)
    return sorted(set(r.range(0, universe_max) for _ in range(n)))


def gen_pwm_map(r):
    """PWM map shapes: identity, sparse user map, quantiser, plateau, non-monotone, constant, single"""
    style = r.below(8)
    if style == 0:
        return {i: i for i in range(256)}
    if style == 1:
        ks = gen_keyset(r)
        return {k: k for k in ks}
    if style == 2:
        q = r.pick([2, 3, 5, 8, 16, 32, 51, 64, 85])
        return {i: (i // q) * q for i in range(256)}
    if style == 3:  # plateaus
        ks = gen_keyset(r, maxn=30)
        vals = sorted(r.range(0, 255) for _ in ks)
        return dict(zip(ks, vals))
    if style == 4:  # non-monotone
        ks = gen_keyset(r, maxn=30)
        return {k: r.range(0, 255) for k in ks}
    if style == 5:
        ks = gen_keyset(r, maxn=20)
        c = r.range(0, 255)
        return {k: c for k in ks}
    if style == 6:
        return {r.range(0, 255): r.range(0, 255)}
    # 100-ish entry map 0..100 → scaled
    return {i: min(255, int(i * 2.55)) for i in range(0, 101)}


def gen_steps(r, fractional=True):
    n = r.pick([1, 1, 2, 2, 3, 4, 5, 8, 12])
    style = r.below(4)
    if style == 0:
        ks = sorted(set(r.range(20, 90) for _ in range(n)))
    elif style == 1:
        ks = sorted(set(r.range(-40, 130) for _ in range(n)))
    elif style == 2:
        ks = sorted(set(r.pick([-10**9, -1000, -1, 0, 1, 50, 51, 1000, 10**9, 2**40]) for _ in range(n)))
    else:
        base = r.range(0, 80)
        ks = [base + i for i in range(n)]
    nondecr = r.chance(0.6)
    vals = []
    for _ in ks:
        if fractional and r.chance(0.3):
            v = r.range(0, 2550) / 10.0
        elif fractional and r.chance(0.1):
            v = bits2f(f2bits(r.range(0, 254) + 0.5) - r.range(0, 2))
        else:
            v = float(r.range(0, 255))
        vals.append(v)
    if nondecr:
        vals.sort()
    return dict(zip(ks, vals))


def gen_util(r, n):
    ops = ["#case util"]
    for _ in range(n):
        k = r.below(8)
        if k == 0:
            ops.append(f"util.coerce v={bx(any_float_bits(r))} lo={bx(any_float_bits(r))} hi={bx(any_float_bits(r))}")
        elif k == 1:
            a = r.range(-50, 200)
            b = a + r.range(0, 100)
            t = r.pick([float(r.range(a - 5, b + 5)), r.range(a * 1000, b * 1000 + 1) / 1000.0, bits2f(any_float_bits(r))])
            ops.append(f"util.ratio t={fx(t)} a={fx(float(a))} b={fx(float(b))}")
        elif k == 2:
            nn = r.pick([1, 1, 2, 3, 5, 10, 10, 50, 1000])
            ops.append(f"util.sma old={bx(any_float_bits(r))} n={nn} new={bx(any_float_bits(r))}")
        elif k == 3:
            steps = gen_steps(r)
            ks = sorted(steps)
            inp = r.pick([float(r.pick(ks)), float(r.pick(ks)) + r.range(-1500, 1500) / 1000.0,
                          r.range(ks[0] * 1000 - 3000, ks[-1] * 1000 + 3000) / 1000.0 if abs(ks[0]) < 10**6 and abs(ks[-1]) < 10**6 else 0.5,
                          bits2f(any_float_bits(r))])
            ops.append(f"util.interp steps={float_map_tok(steps)} in={fx(inp)}")
        elif k == 4:
            ks = gen_keyset(r)
            t = r.pick([r.range(-50, 305), r.pick(ks), r.pick(ks) + r.range(-2, 2)])
            ops.append(f"util.closest t={t} arr={ints_tok(ks)}")
        elif k == 5:
            ops.append(f"util.distinct m={int_map_tok(gen_pwm_map(r))}")
        elif k == 6:
            ops.append(f"util.closest t={r.range(-5, 5)} arr=-")
        else:
            ops.append(f"util.interp steps=- in={fx(1.0)}")
    return ops


def gen_pidloop(r, ncases, steps=30):
    ops = []
    for _ in range(ncases):
        ops.append("#case pid")
        style = r.below(4)
        if style == 0:
            p, i, d = 0.3, 0.02, 0.005
        elif style == 1:
            p, i, d = [r.range(-1000, 1000) / 100.0 for _ in range(3)]
        elif style == 2:
            p, i, d = [bits2f(finite_float_bits(r)) for _ in range(3)]
        else:
            p, i, d = -0.05, -0.005, -0.005
        ops.append(f"pid.new p={fx(p)} i={fx(i)} d={fx(d)}")
        now = r.range(1, 10**15)
        for _ in range(r.range(1, steps)):
            now += r.pick([0, 1, 50_000_000, 200_000_000, 200_000_123, 2_000_000_000, 3 * 3600 * 10**9, r.range(0, 10**10)])
            tgt = r.pick([float(r.range(0, 255)), bits2f(any_float_bits(r))])
            meas = r.pick([float(r.range(0, 255)), r.range(0, 100000) / 1000.0, bits2f(any_float_bits(r))])
            ops.append(f"pid.loop target={fx(tgt)} measured={fx(meas)} now={now}")
    return ops


def loop_tok(r, kind=None):
    kind = kind or r.pick(["direct", "directm", "pid", "pidrand"])
    if kind == "direct":
        return "loop=direct m=-"
    if kind == "directm":
        m = r.pick([1, 2, 3, 5, 10, 50, 254, 255, r.range(1, 255)])
        return f"loop=direct m={m}"
    if kind == "pid":
        return f"loop=pid p={fx(0.3)} i={fx(0.02)} d={fx(0.005)}"
    p, i, d = [r.pick([r.range(-500, 500) / 100.0, bits2f(finite_float_bits(r))]) for _ in range(3)]
    return f"loop=pid p={fx(p)} i={fx(i)} d={fx(d)}"


def gen_loop(r, ncases, steps=40):
    ops = []
    for _ in range(ncases):
        ops.append("#case loop")
        ops.append("loop.new " + loop_tok(r))
        now = r.range(1, 10**15)
        cur = r.range(0, 255)
        for _ in range(r.range(1, steps)):
            now += r.pick([0, 1, 50_000_000, 200_000_000, 2_000_000_000, 3 * 3600 * 10**9])
            tgt = r.pick([r.range(0, 255), r.range(-300, 600), 0, 255])
            if r.chance(0.2):
                cur = r.range(-10, 300)
            ops.append(f"loop.cycle target={tgt} current={cur} now={now}")
    return ops
