"""Op-file generators, one per correspondence stream. Each returns a list of op lines;
a line starting with '#case' starts a new independent case."""
from .gen import Rng, fx, bx, any_float_bits, finite_float_bits, f2bits, bits2f

F64_OPS2 = ["add", "sub", "mul", "div", "lt", "le", "eq", "min", "max"]
F64_OPS1 = ["toint", "round", "ceil", "tof32", "neg", "abs"]


def gen_f64(r, n):
    ops = ["#case f64"]
    for _ in range(n):
        k = r.below(10)
        if k < 6:
            ops.append(f"f64 op={r.pick(F64_OPS2)} a={bx(any_float_bits(r))} b={bx(any_float_bits(r))}")
        elif k < 9:
            ops.append(f"f64 op={r.pick(F64_OPS1)} a={bx(any_float_bits(r))}")
        else:
            v = r.pick([r.range(-300, 600), r.range(-2**62, 2**62), r.range(2**53 - 3, 2**53 + 3), r.range(-10**6, 10**6)])
            ops.append(f"f64 op=ofint n={v}")
    return ops


def int_map_tok(m):
    if m is None:
        return "nil"
    if not m:
        return "-"
    return ",".join(f"{k}:{v}" for k, v in sorted(m.items()))


def float_map_tok(m):
    if m is None:
        return "nil"
    if not m:
        return "-"
    return ",".join(f"{k}:{fx(v) if isinstance(v, float) else bx(v)}" for k, v in sorted(m.items()))


def ints_tok(a):
    return ",".join(str(x) for x in a) if a else "-"


def gen_keyset(r, universe_max=255, maxn=40):
    style = r.below(5)
    if style == 0:
        n = 1
    elif style == 1:
        n = r.range(2, 4)
    elif style == 2:
        n = r.range(2, maxn)
    elif style == 3:
        return list(range(0, universe_max + 1))
    else:
        n = r.range(2, 12)
    return sorted(set(r.range(0, universe_max) for _ in range(n)))


def gen_pwm_map(r):
    """PWM map shapes: identity, sparse user map, quantiser, plateau, non-monotone, constant, single"""
    style = r.below(8)
    if style == 0:
        return {i: i for i in range(256)}
    if style == 1:
        ks = gen_keyset(r)
        return {k: k for k in ks}
    if style == 2:
        q = r.pick([2, 3, 5, 8, 16, 32, 51, 64, 85])
        return {i: (i // q) * q for i in range(256)}
    if style == 3:  # plateaus
        ks = gen_keyset(r, maxn=30)
        vals = sorted(r.range(0, 255) for _ in ks)
        return dict(zip(ks, vals))
    if style == 4:  # non-monotone
        ks = gen_keyset(r, maxn=30)
        return {k: r.range(0, 255) for k in ks}
    if style == 5:
        ks = gen_keyset(r, maxn=20)
        c = r.range(0, 255)
        return {k: c for k in ks}
    if style == 6:
        return {r.range(0, 255): r.range(0, 255)}
    # 100-ish entry map 0..100 → scaled
    return {i: min(255, int(i * 2.55)) for i in range(0, 101)}


def gen_steps(r, fractional=True):
    n = r.pick([1, 1, 2, 2, 3, 4, 5, 8, 12])
    style = r.below(4)
    if style == 0:
        ks = sorted(set(r.range(20, 90) for _ in range(n)))
    elif style == 1:
        ks = sorted(set(r.range(-40, 130) for _ in range(n)))
    elif style == 2:
        ks = sorted(set(r.pick([-10**9, -1000, -1, 0, 1, 50, 51, 1000, 10**9, 2**40]) for _ in range(n)))
    else:
        base = r.range(0, 80)
        ks = [base + i for i in range(n)]
    nondecr = r.chance(0.6)
    vals = []
    for _ in ks:
        if fractional and r.chance(0.3):
            v = r.range(0, 2550) / 10.0
        elif fractional and r.chance(0.1):
            v = bits2f(f2bits(r.range(0, 254) + 0.5) - r.range(0, 2))
        else:
            v = float(r.range(0, 255))
        vals.append(v)
    if nondecr:
        vals.sort()
    return dict(zip(ks, vals))


def gen_util(r, n):
    ops = ["#case util"]
    for _ in range(n):
        k = r.below(8)
        if k == 0:
            ops.append(f"util.coerce v={bx(any_float_bits(r))} lo={bx(any_float_bits(r))} hi={bx(any_float_bits(r))}")
        elif k == 1:
            a = r.range(-50, 200)
            b = a + r.range(0, 100)
            t = r.pick([float(r.range(a - 5, b + 5)), r.range(a * 1000, b * 1000 + 1) / 1000.0, bits2f(any_float_bits(r))])
            ops.append(f"util.ratio t={fx(t)} a={fx(float(a))} b={fx(float(b))}")
        elif k == 2:
            nn = r.pick([1, 1, 2, 3, 5, 10, 10, 50, 1000])
            ops.append(f"util.sma old={bx(any_float_bits(r))} n={nn} new={bx(any_float_bits(r))}")
        elif k == 3:
            steps = gen_steps(r)
            ks = sorted(steps)
            inp = r.pick([float(r.pick(ks)), float(r.pick(ks)) + r.range(-1500, 1500) / 1000.0,
                          r.range(ks[0] * 1000 - 3000, ks[-1] * 1000 + 3000) / 1000.0 if abs(ks[0]) < 10**6 and abs(ks[-1]) < 10**6 else 0.5,
                          bits2f(any_float_bits(r))])
            ops.append(f"util.interp steps={float_map_tok(steps)} in={fx(inp)}")
        elif k == 4:
            ks = gen_keyset(r)
            t = r.pick([r.range(-50, 305), r.pick(ks), r.pick(ks) + r.range(-2, 2)])
            ops.append(f"util.closest t={t} arr={ints_tok(ks)}")
        elif k == 5:
            ops.append(f"util.distinct m={int_map_tok(gen_pwm_map(r))}")
        elif k == 6:
            ops.append(f"util.closest t={r.range(-5, 5)} arr=-")
        else:
            ops.append(f"util.interp steps=- in={fx(1.0)}")
    return ops


def gen_pidloop(r, ncases, steps=30):
    ops = []
    for _ in range(ncases):
        ops.append("#case pid")
        style = r.below(4)
        if style == 0:
            p, i, d = 0.3, 0.02, 0.005
        elif style == 1:
            p, i, d = [r.range(-1000, 1000) / 100.0 for _ in range(3)]
        elif style == 2:
            p, i, d = [bits2f(finite_float_bits(r)) for _ in range(3)]
        else:
            p, i, d = -0.05, -0.005, -0.005
        ops.append(f"pid.new p={fx(p)} i={fx(i)} d={fx(d)}")
        now = r.range(1, 10**15)
        for _ in range(r.range(1, steps)):
            now += r.pick([0, 1, 50_000_000, 200_000_000, 200_000_123, 2_000_000_000, 3 * 3600 * 10**9, r.range(0, 10**10)])
            tgt = r.pick([float(r.range(0, 255)), bits2f(any_float_bits(r))])
            meas = r.pick([float(r.range(0, 255)), r.range(0, 100000) / 1000.0, bits2f(any_float_bits(r))])
            ops.append(f"pid.loop target={fx(tgt)} measured={fx(meas)} now={now}")
    return ops


def loop_tok(r, kind=None):
    kind = kind or r.pick(["direct", "directm", "pid", "pidrand"])
    if kind == "direct":
        return "loop=direct m=-"
    if kind == "directm":
        m = r.pick([1, 2, 3, 5, 10, 50, 254, 255, r.range(1, 255)])
        return f"loop=direct m={m}"
    if kind == "pid":
        return "loop=piddefault"
    p, i, d = [r.pick([r.range(-500, 500) / 100.0, bits2f(finite_float_bits(r))]) for _ in range(3)]
    return f"loop=pid p={fx(p)} i={fx(i)} d={fx(d)}"


def gen_loop(r, ncases, steps=40):
    ops = []
    for _ in range(ncases):
        ops.append("#case loop")
        ops.append("loop.new " + loop_tok(r))
        now = r.range(1, 10**15)
        cur = r.range(0, 255)
        for _ in range(r.range(1, steps)):
            now += r.pick([0, 1, 50_000_000, 200_000_000, 2_000_000_000, 3 * 3600 * 10**9])
            tgt = r.pick([r.range(0, 255), r.range(-300, 600), 0, 255])
            if r.chance(0.2):
                cur = r.range(-10, 300)
            ops.append(f"loop.cycle target={tgt} current={cur} now={now}")
    return ops


# ---------------------------------------------------------------- curves

FN_TYPES = ["sum", "difference", "average", "delta", "minimum", "maximum"]


def gen_reading(r, lo_c=None, hi_c=None):
    """a sensor reading in milli-degrees (float): boundaries ±1 m°, negatives, 0, huge, subnormal"""
    k = r.below(10)
    if lo_c is not None and k < 6:
        c = r.pick([lo_c, hi_c, r.range(min(lo_c, hi_c) - 2, max(lo_c, hi_c) + 2)])
        return float(c * 1000 + r.pick([-1, 0, 1, r.range(-1500, 1500)]))
    if k == 6:
        return bits2f(finite_float_bits(r))
    if k == 7:
        return r.pick([0.0, -1.0, 1e300, -1e300, 5e-324, 2.5])
    if k == 8:
        return r.range(-50000, 150000) + r.pick([0.0, 0.5, 0.25])
    return float(r.range(-50000, 150000))


def gen_curve_case(r, nan_ok=False, max_members=8, depth=4):
    """one case: sensors, a DAG of curves, then evaluations. Returns op lines."""
    ops = ["#case cv", "cv.reset"]
    nsens = r.range(1, 3)
    sens = [f"s{i}" for i in range(nsens)]
    leaves = []
    curves = []
    info = {}
    # leaf curves
    nleaf = r.range(1, 4)
    for i in range(nleaf):
        cid = f"L{i}"
        s = r.pick(sens)
        kind = r.pick(["minmax", "minmax", "steps", "steps", "pid"])
        if kind == "minmax":
            mn = r.range(-20, 90)
            mx = mn + r.pick([r.range(1, 60), 1, r.range(-5, 0)])
            ops.append(f"cv.add id={cid} kind=linear sensor={s} min={mn} max={mx} steps=nil")
            info[cid] = ("minmax", s, mn, mx)
        elif kind == "steps":
            steps = gen_steps(r)
            if r.chance(0.03):
                steps = {}
            ops.append(f"cv.add id={cid} kind=linear sensor={s} min=0 max=0 steps={float_map_tok(steps)}")
            ks = sorted(steps) or [0]
            info[cid] = ("steps", s, ks[0], ks[-1])
        else:
            style = r.below(3)
            if style == 0:
                p, i_, d = -0.05, -0.005, -0.005
            elif style == 1:
                p, i_, d = [r.range(-200, 200) / 100.0 for _ in range(3)]
            else:
                p, i_, d = [bits2f(finite_float_bits(r)) for _ in range(3)]
            sp = float(r.range(30, 80))
            ops.append(f"cv.add id={cid} kind=pid sensor={s} sp={fx(sp)} p={fx(p)} i={fx(i_)} d={fx(d)}")
            info[cid] = ("pid", s, 30, 80)
        leaves.append(cid)
        curves.append(cid)
    # function curves (DAG: members only among earlier curves)
    nfn = r.pick([0, 1, 1, 2, 3, 4])
    for i in range(nfn):
        cid = f"F{i}"
        nm = r.pick([0, 1, 1, 2, 2, 3, 4, max_members])
        members = [r.pick(curves) for _ in range(nm)]
        if r.chance(0.03):
            members.append("missing")
        ty = r.pick(FN_TYPES) if not r.chance(0.02) else "bogus"
        ops.append(f"cv.add id={cid} kind=function type={ty} members={','.join(members) if members else '-'}")
        curves.append(cid)
    now = r.range(1, 10**15)
    # overlapping evaluations only for well-formed cases whose curves are pure functions of the sensor state
    pair_ok = not any(v[0] == "pid" for v in info.values()) and all("missing" not in o and "bogus" not in o and "members=-" not in o
                                                                      and "steps=-" not in o for o in ops)
    for _ in range(r.range(1, 12)):
        for s in sens:
            # choose a leaf using this sensor to bias readings to its boundaries
            cands = [v for v in info.values() if v[1] == s]
            lo, hi = (None, None)
            if cands:
                c = r.pick(cands)
                lo, hi = c[2], c[3]
            avg = gen_reading(r, lo, hi)
            val = gen_reading(r, lo, hi)
            vtok = fx(val) if not r.chance(0.08) else "err"
            if nan_ok and r.chance(0.05):
                avg = float("nan")
            ops.append(f"cv.sensor id={s} avg={fx(avg)} val={vtok}")
        now += r.pick([0, 1, 200_000_000, 2_000_000_000, r.range(0, 10**10)])
        cid = r.pick(curves)
        ops.append(f"cv.eval id={cid} now={now}")
        if pair_ok and r.chance(0.5):
            # the same curve object evaluated by two controllers at once (the first suspended in the n-th sensor read)
            ops.append(f"cv.evalpair id={cid} gate={r.pick(sens)} n={r.range(1, 4)} now={now}")
    return ops


def gen_pairdrop(r, ncases):
    """a function curve over a member on sensor s0 FOLLOWED by a member on sensor s1, evaluated by two controllers at once:
    the first evaluation is suspended in its read of s1, s0 changes (drops or rises by a lot), the second evaluation runs,
    the first resumes. The first must return the curve's value for the state it read, the second for the new one."""
    ops = []
    for _ in range(ncases):
        ops += ["#case cv pairdrop", "cv.reset"]
        mn0, mn1 = r.range(10, 50), r.range(10, 50)
        ops.append(f"cv.add id=L0 kind=linear sensor=s0 min={mn0} max={mn0 + r.range(10, 40)} steps=nil")
        ops.append(f"cv.add id=L1 kind=linear sensor=s1 min={mn1} max={mn1 + r.range(10, 40)} steps=nil")
        ty = r.pick(["sum", "maximum", "minimum", "average"])
        ops.append(f"cv.add id=F0 kind=function type={ty} members=L0,L1")
        ops.append("cv.add id=F1 kind=function type=" + r.pick(["sum", "maximum", "average"]) + " members=F0,L1")
        t1 = float(r.range(5, 95) * 1000)
        for _ in range(r.range(2, 6)):
            t0a, t0b = float(r.range(5, 95) * 1000), float(r.range(5, 95) * 1000)
            ops.append(f"cv.sensor id=s0 avg={fx(t0a)} val={fx(t0a)}")
            ops.append(f"cv.sensor id=s1 avg={fx(t1)} val={fx(t1)}")
            fid = r.pick(["F0", "F0", "F1"])
            ops.append(f"cv.eval id={fid} now=1000")
            ops.append(f"cv.evalpair id={fid} gate=s1 n=1 set=s0:{fx(t0b)} now=1000")
            ops.append(f"cv.eval id={fid} now=1000")
    return ops


def gen_curves(r, ncases, **kw):
    ops = gen_pairdrop(r, max(4, ncases // 40))
    for _ in range(ncases):
        ops += gen_curve_case(r, **kw)
    return ops


# ---------------------------------------------------------------- fans (limits)

def opt_tok(v):
    return "-" if v is None else str(v)


def gen_rpm_data(r):
    style = r.below(7)
    if style == 0:
        return None
    if style == 1:
        return {}
    nk = r.pick([1, 2, 3, 6, 12, 40])
    ks = sorted(set(r.range(0, 255) for _ in range(nk)))
    vals = {0: lambda: 0.0, 1: lambda: float(r.range(0, 3000)),
            2: lambda: r.pick([0.0, 0.5, 1.0, 300.0, 300.9, 1200.0]),
            3: lambda: r.range(0, 30000) / 10.0}
    if style == 2:
        return {k: 0.0 for k in ks}
    if style == 3:  # increasing with plateau
        vs = sorted(r.pick([0, 0, 300, 600, 900, 1200, 1200, 1200]) for _ in ks)
        return dict(zip(ks, [float(v) for v in vs]))
    if style == 4:
        return {k: vals[r.below(4)]() for k in ks}
    if style == 5:
        return {k: r.pick([-5.0, -0.5, 0.0, 0.9, 1.0, 2.5]) for k in ks}
    return {k: bits2f(any_float_bits(r)) for k in ks}


def gen_fans(r, ncases):
    ops = []
    for _ in range(ncases):
        ops.append("#case fan")
        kind = r.pick(["hwmon", "hwmon", "hwmon", "file", "cmd"])
        # the ends of the range are configured values like any other (seed C13l: a configured limit equal to the getter's
        # fallback - min 0, start 255, max 255 - was dropped as a "no-op override", so measurements replaced it)
        lim = lambda: r.pick([None, None, None, r.range(0, 255), r.range(0, 255), 0, 255])
        ops.append(f"fan.new kind={kind} ns={r.below(2)} cmin={opt_tok(lim())} cstart={opt_tok(lim())} cmax={opt_tok(lim())}")
        for _ in range(r.range(1, 5)):
            k = r.below(5)
            if k < 3:
                ops.append(f"fan.attach data={float_map_tok(gen_rpm_data(r))}")
            elif k == 3:
                ops.append(f"fan.set which={r.pick(['min', 'start', 'max'])} v={r.range(0, 255)} force={r.below(2)}")
            else:
                ops.append("fan.get")
        if r.chance(0.5):
            # a restart of fan2go: the measured curve goes through the database and is attached to a new fan object
            ops.append("fan.restart")
    return ops


# ---------------------------------------------------------------- world (controller)

def resp_tok(r, pwm_map):
    """device response consistent with a PWM map: reading back what was written for map outputs"""
    k = r.below(3)
    if k == 0:
        return "id"
    if k == 1:
        return "q:" + str(r.pick([2, 5, 8, 16]))
    return "id"


def gen_limits(r):
    bias = [0, 1, 2, 30, 100, 254, 255]
    a = r.pick(bias + [r.range(0, 255)])
    b = r.pick(bias + [r.range(0, 255)])
    return min(a, b), max(a, b)


# share of `w` worlds whose fan is a real fans.CmdFan (real scripts, real processes: ~2 ms per exec,
# several execs per op) when the caller does not fix the kind
CMD_SHARE = 0.1
# event lists of cmd worlds are cut to this length (each event costs a few process executions)
CMD_MAX_EVENTS = 16


def pick_world_kind(r, cmd_share=None, base=("hwmon", "hwmon", "hwmon", "file")):
    """fan kind of a `w` world: `cmd` with probability cmd_share (default CMD_SHARE), else one of `base`"""
    cmd_share = CMD_SHARE if cmd_share is None else cmd_share
    if cmd_share > 0 and r.chance(cmd_share):
        return "cmd"
    return r.pick(list(base))


def gen_world_new(r, kind=None, ns=None, loop=None, malformed=False, cmd_share=None):
    kind = kind or pick_world_kind(r, cmd_share)
    ns = r.below(2) if ns is None else ns
    lo, hi = gen_limits(r)
    cfgmin = r.chance(0.4)
    pm = gen_pwm_map(r)
    if malformed and r.chance(0.3):
        pm = r.pick([None, {}])
    toks = [f"kind={kind}", f"ns={ns}", f"win={r.pick([1, 2, 3, 10, 10, 50])}"]
    if kind == "hwmon":
        if cfgmin:
            toks.append(f"cmin={lo}")
        toks.append(f"minp={lo}")
        if r.chance(0.3):
            toks.append(f"cmax={hi}")
        toks.append(f"maxp={hi}")
        # the start PWM normally lies inside the limits, but nothing forces it to (configured limits win over a measured
        # start PWM; an unknown start PWM reads as 255): seed C01e used it as a write value
        toks.append(f"startp={r.range(lo, hi) if r.chance(0.7) else r.range(0, 255)}")
        toks.append(f"avg={fx(r.pick([0.0, 1.0, 300.0, 1000.0, 5000.0]))}")
        toks.append(f"hasmode={0 if r.chance(0.15) else 1}")
        toks.append(f"hasrpm={0 if r.chance(0.1) else 1}")
        toks.append(f"mode={r.pick([0, 1, 2, 2, 3, 5])}")
    else:
        toks.append(f"rint={r.pick([0, 0, 1, 300, 1000])}")
        toks.append(f"hasrpm={0 if r.chance(0.2) else 1}")
    toks.append("map=" + int_map_tok(pm))
    toks.append(loop or loop_tok(r))
    rt = resp_tok(r, pm)
    toks.append("resp=" + rt)
    toks.append(f"pwm={r.range(0, 255)}")
    toks.append(f"rpm={r.pick([0, 0, 500, 1200])}")
    toks.append(f"origmode={r.pick([-1, 0, 1, 2, 2, 3, 5])}")
    toks.append(f"origpwm={r.range(0, 255)}")
    if r.chance(0.2):
        toks.append(f"last={r.range(0, 255)}")
    return "w.new " + " ".join(toks)


def gen_world_case(r, n_events=40, faults=True, malformed=False, kind=None, ns=None, loop=None, stall_bias=0.5,
                   cmd_share=None, cmd_max_events=None):
    kind = kind or pick_world_kind(r, cmd_share)
    if kind == "cmd":
        n_events = min(n_events, CMD_MAX_EVENTS if cmd_max_events is None else cmd_max_events)
    ops = ["#case w", gen_world_new(r, kind=kind, ns=ns, loop=loop, malformed=malformed)]
    now = r.range(1, 10**15)
    curve = r.range(0, 255)
    stall = False
    for _ in range(r.range(1, n_events)):
        k = r.below(100)
        if k < 50:
            now += r.pick([0, 1, 50_000_000, 200_000_000, 200_000_000, 2_000_000_000, 3 * 3600 * 10**9])
            if r.chance(0.3):
                curve = r.pick([0, 255, r.range(0, 255), r.range(-300, 600)])
            ctok = str(curve)
            if faults and r.chance(0.03):
                ctok = r.pick(["err", "panic"])
            ops.append(f"w.cycle curve={ctok} now={now}")
        elif k < 75:
            ops.append("w.poll")
        elif k < 83:
            # RPM script: stall episodes
            if r.chance(stall_bias):
                stall = not stall
            ops.append(f"w.dev rpm={0 if stall else r.pick([300, 800, 1500])}")
        elif k < 90:
            # interference
            t = []
            if r.chance(0.6):
                t.append(f"pwm={r.range(0, 255)}")
            if r.chance(0.6):
                t.append(f"mode={r.pick([0, 2, 3])}")
            ops.append("w.dev " + " ".join(t or ["pwm=0"]))
        elif k < 97 and faults:
            f = r.pick(["pwmread", "pwmwrite", "moderead", "modewrite", "rpmread"])
            if f.endswith("read"):
                v = r.pick(["ok", "ok", "perm", "other:-1", "other:0"])
            else:
                v = r.pick(["applied", "applied", "refused", "ignored"])
            ops.append(f"w.dev {f}={v}")
        elif k < 99:
            ops.append(f"w.setpwm t={r.range(-10, 270)}")
        else:
            ops.append("w.restore")
    if r.chance(0.5):
        ops.append("w.restore")
    return ops


def gen_world(r, ncases, **kw):
    ops = []
    for _ in range(ncases):
        ops += gen_world_case(r, **kw)
    return ops


# ---------------------------------------------------------------- sensors (C08)
import base64

# (command output, expected Go strconv.ParseFloat outcome after strings.Trim(out, "\n"))
CMD_OUTPUTS = [
    ("42000", 42000.0), ("42000\n", 42000.0), ("\n\n42.5\n", 42.5), ("-5000", -5000.0), ("0", 0.0),
    ("1e300", 1e300), ("4.9e-324", 5e-324), ("55123.75", 55123.75), ("+70000", 70000.0),
    ("nan", float("nan")), ("NaN", float("nan")), ("inf", float("inf")), ("-inf", float("-inf")),
    ("+Inf", float("inf")), ("Infinity", float("inf")),
    ("1e999", None), ("-1e999", None), ("garbage", None), ("", None), (" 42", None), ("42 ", None),
    ("42\n43", None), ("12,5", None), ("\n", None),
]


def gen_sensor_case(r, kind=None, n=40, fault_rate=0.2):
    kind = kind or r.pick(["hwmon", "file", "cmd"])
    win = r.pick([1, 1, 2, 3, 10, 10, 50])
    avg0 = r.pick([0.0, 40000.0, float(r.range(-20000, 110000)), bits2f(finite_float_bits(r))])
    ops = ["#case sn", f"sn.new kind={kind} win={win} avg={fx(avg0)}"]
    base = r.range(20000, 90000)
    now = r.range(1, 10**15)
    for _ in range(r.range(1, n)):
        # polls come at the polling rate (200 ms), now and then after a long gap (blocked read, outage, suspend)
        now += 200_000_000 * (1 if not r.chance(0.12) else r.pick([2, 3, 11, 60, r.range(2, 5000)]))
        if kind == "cmd":
            if r.chance(fault_rate):
                if r.chance(0.3):
                    # the command fails AFTER printing something that reads like a number (`echo 0; exit 1`)
                    out, pv = r.pick(CMD_OUTPUTS[:9])
                    code = r.pick([1, 3])
                else:
                    out, pv = r.pick(CMD_OUTPUTS[9:])
                    code = r.pick([0, 0, 0, 1, 3])
            else:
                out, pv = r.pick(CMD_OUTPUTS[:9])
                code = 0
            ptok = "err" if pv is None else "ok:" + fx(pv)
            start = "" if not r.chance(0.06) else " start=0"   # the command cannot be started (exec bits lost)
            ops.append(f"sn.poll out={base64.b64encode(out.encode()).decode() or '='} exit={code} pv={ptok} now={now}{start}")
        else:
            if r.chance(fault_rate):
                ops.append("sn.poll read=" + r.pick(["perm", "other", "garbage", "empty", "blank"]) + f" now={now}")
            else:
                v = r.pick([base + r.range(-3000, 3000), base, r.range(-50000, 150000), r.range(-2**62, 2**62), 0])
                # now and then the read hangs for longer than any time-out and completes late (seed C08h: the late result
                # was handed to the NEXT poll)
                ops.append(f"sn.poll read=ok:{v} now={now}" + (" slow=1" if r.chance(0.04) else ""))
    return ops


def gen_sensors(r, ncases, **kw):
    ops = []
    # the real sensor monitor (its own loop and ticker) through outages of very different lengths
    for polls in [5, 40, 90, r.range(10, 150)][: (2 if ncases < 50 else 4)] + [120]:
        good = r.range(0, 4)
        ops += ["#case sn monitor", f"sn.monitor win={r.pick([1, 2, 10])} avg={fx(float(r.range(20000, 90000)))} "
                f"val={fx(float(r.range(20000, 90000)))} good={good} polls={polls} rate_us={r.pick([200, 500])}"]
    # start-up: the real initializeSensors seeds the moving average from the first read (also a failing / non-finite one)
    ops.append("#case sn init")
    for out, pv in CMD_OUTPUTS:
        code = 0 if r.chance(0.85) else r.pick([1, 3])
        ptok = "err" if pv is None else "ok:" + fx(pv)
        ops.append(f"sn.init out={base64.b64encode(out.encode()).decode() or '='} exit={code} pv={ptok}")
    for _ in range(ncases):
        ops += gen_sensor_case(r, **kw)
    return ops


# ---------------------------------------------------------------- wiring (which control algorithm a configuration selects)

def gen_wiring(r, ncases):
    ops = ["#case wire"]
    for _ in range(ncases):
        k = r.below(7)
        g = lambda: ":".join(fx(r.pick([0.3, 0.02, 0.005, r.range(-300, 300) / 100.0])) for _ in range(3))
        if k == 0:
            ca = "none"
        elif k == 1:
            ca = "direct"
        elif k == 2:
            ca = f"directm:{r.pick([1, 2, 10, 50, 255])}"
        elif k == 3:
            ca = "pid:" + g()
        elif k == 4:
            ca = "legacy:" + g()
        elif k == 5:
            ca = "both:" + g()
        else:
            ca = "pid:" + ":".join(fx(v) for v in (0.3, 0.02, 0.005))
        now = r.range(1, 10**12)
        cur = r.range(0, 255)
        seq = []
        for _ in range(r.range(2, 8)):
            now += r.pick([50_000_000, 200_000_000, 2_000_000_000])
            t = r.pick([0, 255, r.range(0, 255)])
            seq.append(f"{t}:{cur}:{now}")
            if r.chance(0.5):
                cur = r.range(0, 255)
        ops.append(f"wire.loop ca={ca} seq={';'.join(seq)}")
    return ops
