"""Op-file generators for stream `ex` (C18 permission gate, C19 external commands).
The harness side needs root (chown to a foreign uid/gid) and really starts processes:
perm ops cost ~1 ms each, exec ops up to timeout + 200 ms (timeout + 3 s if a call ever blocks again)."""
from .gen import Rng

OWNERS = [0, 1234]
GROUPS = [0, 4321]

# permission bits the code looks at (g+w, o+w) and the bits deciding whether root can start the file (x bits)
INTERESTING = [0o020, 0o002, 0o022, 0o100, 0o010, 0o001, 0o111, 0o200]


def perm_op(owner, group, mode, link):
    return f"ex.perm owner={owner} group={group} mode={mode:03o} link={link}"


def gen_mode(r):
    k = r.below(6)
    if k == 0:
        return r.below(512)
    if k == 1:
        return r.pick([0o755, 0o775, 0o757, 0o777, 0o700, 0o750, 0o644, 0o664, 0o666, 0o600, 0o000, 0o555, 0o511])
    if k == 2:  # one interesting bit set on / cleared from a common base
        base = r.pick([0o755, 0o700, 0o644, 0o000, 0o777])
        bit = r.pick(INTERESTING)
        return (base | bit) if r.chance(0.5) else (base & ~bit & 0o777)
    if k == 3:  # no x bit at all: passes the check (if root-owned) but cannot be started (-> run=err)
        return r.below(512) & ~0o111
    if k == 4:  # exactly the write bits vary
        return 0o555 | (r.below(2) * 0o020) | (r.below(2) * 0o002) | (r.below(2) * 0o200)
    return r.below(512) & ~0o022  # never group/other writable: only the owner decides


DANGLING_KINDS = ["nothing", "loop", "notdir", "toolong", "linktolong"]


def dangling_op(r):
    """a path that cannot be resolved at all (symlink to nothing / symlink loop / through a regular file / over-long name)"""
    return f"ex.dangling kind={r.pick(DANGLING_KINDS)}"


def gen_perm(r, n, exhaustive=False):
    """exhaustive=True: all {root,other} x {root,other} x 512 modes x {direct,symlink} = 4096 ops
    (n is ignored); else n seeded samples biased to the bits 0o020 / 0o002 / x bits."""
    ops = ["#case ex perm", "ex.reset"]
    if exhaustive:
        for owner in OWNERS:
            for group in GROUPS:
                for mode in range(512):
                    for link in (0, 1):
                        ops.append(perm_op(owner, group, mode, link))
    else:
        for _ in range(n):
            owner = 0 if r.chance(0.7) else 1234
            group = 0 if r.chance(0.5) else 4321
            ops.append(perm_op(owner, group, gen_mode(r), r.below(2)))
            if r.chance(0.04):
                ops.append(dangling_op(r))
    ops.append("ex.count")
    return ops


def gen_perm_twice(r, n):
    """chown/chmod between two executions of the same path; each judged by the stat at its own call."""
    ops = ["#case ex twice", "ex.reset"]
    for _ in range(n):
        o1 = 0 if r.chance(0.7) else 1234
        g1 = 0 if r.chance(0.5) else 4321
        m1 = gen_mode(r)
        k = r.below(5)
        o2, g2, m2 = o1, g1, m1
        if k == 0:
            o2 = 1234 if o1 == 0 else 0          # chown only
        elif k == 1:
            m2 = m1 ^ r.pick([0o020, 0o002, 0o022])  # flip a write bit
        elif k == 2:
            g2 = 4321 if g1 == 0 else 0          # chgrp only
        elif k == 3:
            o2, g2, m2 = (0 if r.chance(0.7) else 1234), (0 if r.chance(0.5) else 4321), gen_mode(r)
        # k == 4: nothing changes
        ops.append(f"ex.twice owner={o1} group={g1} mode={m1:03o} owner2={o2} group2={g2} mode2={m2:03o} link={r.below(2)}")
    # the executable is busy (held open by a writer) when the call starts, and is given away while the call is under way
    for _ in range(max(2, n // 60)):
        ops.append(f"ex.busy how={r.pick(['chown', 'chmod'])} after_ms={r.range(10, 120)}")
    # checks of different files at the same time: a root-owned script and somebody else's (seed C18i: one shared stat buffer)
    ops.append(f"ex.mix n={r.pick([6, 8, 12])} ms={r.pick([200, 300])}")
    # two overlapping calls on one executable; the file is replaced by a non-root owner's while both are under way
    for _ in range(max(2, n // 80)):
        ops.append(f"ex.queue slow_ms={r.pick([500, 600, 700])} gap_ms={r.range(20, 80)} swap_ms={r.range(100, 200)}")
    # relative paths with a directory component (resolved against fan2go's working directory, for the check AND the start)
    for path in ["bin/probe.sh", "./bin/probe.sh", "bin/../bin/probe.sh"]:
        ops.append(f"ex.rel path={path}")
    # ... and through a symlinked directory followed by `..` (the kernel follows the link first)
    # ... and a file directly in the working directory, with a namesake of another owner in $PATH (seed C18h: the path was
    # cleaned to the bare name before the start, so the namesake ran)
    for path in ["./top.sh", "bin/../top.sh", "./lnk.sh", "top.sh"]:   # the last one is a bare name: $PATH decides
        ops.append(f"ex.rel path={path} variant=cwdfile")
    ops.append("ex.rel path=top.sh variant=relpath")
    ops.append("ex.rel path=rel variant=blank")
    ops.append("ex.rel path=abs variant=blank")
    ops.append("ex.rel path=current/../bin/probe.sh variant=bad")
    ops.append("ex.rel path=current/../bin/probe.sh variant=good")
    ops.append("ex.count")
    return ops


def gen_cfg(r, n, exhaustive=False):
    """configuration-file rule: the same test on the config file iff it declares a cmd sensor / fan"""
    ops = ["#case ex cfg"]
    kinds = ["none", "sensor", "fan", "both", "sensor-unused", "sensor-second", "fan-second"]
    if exhaustive:
        for kind in kinds:
            for owner in OWNERS:
                for group in GROUPS:
                    for mode in range(512):
                        ops.append(f"ex.cfg owner={owner} group={group} mode={mode:03o} cmd={kind} link={mode & 1}")
    else:
        for _ in range(n):
            owner = 0 if r.chance(0.6) else 1234
            group = 0 if r.chance(0.5) else 4321
            ops.append(f"ex.cfg owner={owner} group={group} mode={gen_mode(r):03o} cmd={r.pick(kinds)} link={r.below(2)}")
    return ops


FAST_BEHS = ["exit0", "exit3", "exit3out", "killed", "notexec", "badformat", "vanish", "empty", "garbage", "huge",
             # cannot be started, and any attempt to look INTO the file to say why must not hang either (seed C19h)
             "shebangself", "shebangpair", "fifo"]
# behaviours that blocked the call before cmd.WaitDelay was set; now bounded by timeout + 200 ms
HOLD_BEHS = ["sleep", "execsleep", "grandchild"]
TIMEOUTS = [200, 500, 1000, 2000]
SHORT_TIMEOUTS = [200, 300, 400, 500, 600]
USER_KINDS = ["sensor", "fanpwm", "fanrpm", "fanset"]


def hold_op(r, timeout=None):
    """One op of a formerly blocking behaviour, timeouts 200..600 ms. For `grandchild` the holder's
    time is either absent (30 s), well below cmdWaitDelay = 200 ms (text returned) or well above it
    (exec.ErrWaitDelay) - never near the boundary, which is a race on the real clock."""
    t = timeout or r.pick(SHORT_TIMEOUTS)
    b = r.pick(HOLD_BEHS)
    if b != "grandchild":
        return f"ex.run beh={b} timeout_ms={t}"
    k = r.below(4)
    if k == 0:
        return f"ex.run beh=grandchild timeout_ms={t}"
    if k == 1:
        return f"ex.run beh=grandchild timeout_ms={t} hold_ms={r.range(20, 110)}"
    if k == 2:  # released after WaitDelay but before the deadline (for the longer timeouts): still an error
        return f"ex.run beh=grandchild timeout_ms={t} hold_ms={r.range(330, max(340, t - 50))}"
    return f"ex.run beh=grandchild timeout_ms={t} hold_ms={t + r.range(300, 1500)}"  # after the deadline


def gen_exec(r, n):
    """all behaviours x a few timeouts; about n ops (n >= 36 covers every behaviour and caller once).
    No op costs more than timeout + 200 ms since cmd.WaitDelay is set (a regression shows up as
    `res=blocked` after timeout + 3 s)."""
    ops = ["#case ex run"]
    body = []
    for b in FAST_BEHS:
        body.append(f"ex.run beh={b} timeout_ms={r.pick(TIMEOUTS)}")
    body.append(f"ex.run beh=execsleep timeout_ms={r.pick(SHORT_TIMEOUTS)}")
    body.append(f"ex.run beh=sleep timeout_ms={r.pick(SHORT_TIMEOUTS)}")
    body.append(f"ex.run beh=grandchild timeout_ms={r.pick(SHORT_TIMEOUTS)}")
    t = r.pick([300, 500])
    body.append(f"ex.run beh=grandchild timeout_ms={t} hold_ms={t + r.range(800, 1500)}")   # release after the deadline
    body.append(f"ex.run beh=grandchild timeout_ms={r.pick([1000, 2000])} hold_ms={r.range(400, 900)}")  # before it, past WaitDelay
    body.append(f"ex.run beh=grandchild timeout_ms={r.pick(SHORT_TIMEOUTS)} hold_ms={r.range(20, 110)}")  # quick release
    for kind in DANGLING_KINDS:      # "cannot be started at all": the path does not even resolve
        body.append(f"ex.dangling kind={kind}")
    body.append("ex.statrace checks=3000 runs=30")   # "vanished / swapped between check and start"
    body.append("ex.run beh=exit0 timeout_ms=0")
    body.append("ex.run beh=notexec timeout_ms=0")
    for kind in USER_KINDS:
        body.append(f"ex.user kind={kind} beh={r.pick(['exit0', 'exit0', 'garbage', 'empty'])}")
        body.append(f"ex.user kind={kind} beh={r.pick(['notexec', 'badformat', 'vanish'])}")
        body.append(f"ex.user kind={kind} beh={r.pick(['exit3', 'exit3out', 'killed'])}")
    # two activities on one cmd fan at once, the first stuck in a command that ignores its deadline
    body.append(f"ex.userpair beh={r.pick(['sleep', 'execsleep'])} first={r.pick(['fanpwm', 'fanrpm', 'fanset'])} "
                f"second={r.pick(['fanpwm', 'fanrpm', 'fanset', 'rpmavg'])} gap_ms={r.range(50, 400)}")
    body.append(f"ex.userpair beh={r.pick(['sleep', 'execsleep'])} first={r.pick(['fanpwm', 'fanrpm'])} second=rpmavg gap_ms={r.range(50, 400)}")
    # the executable is held open by a writer for longer than the call's timeout: an error in time, no endless retrying
    t = r.pick([200, 300, 500])
    body.append(f"ex.busyhold timeout_ms={t} hold_ms={t + r.range(900, 1600)}")
    # the same failing command polled for > 5 s (a dead sensor command under the monitor)
    body.append(f"ex.repeat beh={r.pick(['exit3', 'exit3out', 'notexec'])} n=13 gap_ms=450")
    # a cmd fan is handed ANY int (restorePwmEnabled writes back what getPwm printed at start-up)
    for v in [-1, 256, r.pick([1020, 65535, -300, 2**31])]:
        body.append(f"ex.user kind=fanset beh=exit0 v={v}")
    while len(body) < n:
        k = r.below(10)
        if k < 5:
            body.append(f"ex.run beh={r.pick(FAST_BEHS)} timeout_ms={r.pick(TIMEOUTS)}")
        elif k < 9:
            body.append(hold_op(r))
        else:
            body.append(f"ex.user kind={r.pick(USER_KINDS)} beh={r.pick(FAST_BEHS)}")
    return ops + (body[:n] if 0 < n < len(body) else body)
