//go:build verif

package main

import (
	"os"
	"path/filepath"

	"github.com/markusressel/fan2go/internal/persistence"
	"fmt"

	"github.com/markusressel/fan2go/internal/configuration"
	"github.com/markusressel/fan2go/internal/fans"
)

var curFan fans.Fan

func optTok(p *int) string {
	if p == nil {
		return "-"
	}
	return fmt.Sprintf("%d", *p)
}

func fanState(f fans.Fan) string {
	s := fmt.Sprintf("min=%d start=%d max=%d", f.GetMinPwm(), f.GetStartPwm(), f.GetMaxPwm())
	if h, ok := f.(*fans.HwMonFan); ok {
		s += fmt.Sprintf(" minp=%s startp=%s maxp=%s", optTok(h.MinPwm), optTok(h.StartPwm), optTok(h.MaxPwm))
	} else {
		s += " minp=- startp=- maxp=-"
	}
	return s
}

func newFanFromKV(a kv, dir string) fans.Fan {
	cfg := configuration.FanConfig{
		ID:        a.str("id", "fan"),
		NeverStop: a.bool("ns", false),
		MinPwm:    a.optInt("cmin"),
		StartPwm:  a.optInt("cstart"),
		MaxPwm:    a.optInt("cmax"),
		Curve:     a.str("curve", "curve"),
	}
	switch a.str("kind", "hwmon") {
	case "hwmon":
		cfg.HwMon = &configuration.HwMonFanConfig{Platform: "fake", Index: 1, RpmChannel: 1, PwmChannel: 1,
			SysfsPath: dir, RpmInputPath: dir + "/fan1_input", PwmPath: dir + "/pwm1", PwmEnablePath: dir + "/pwm1_enable"}
	case "file":
		rp := dir + "/fan1_input"
		if !a.bool("hasrpm", true) {
			rp = ""
		}
		cfg.File = &configuration.FileFanConfig{Path: dir + "/pwm1", RpmPath: rp}
	case "cmd":
		cfg.Cmd = cmdFanConfig(a, dir)
	}
	f, err := fans.NewFan(cfg)
	if err != nil {
		panic(err)
	}
	return f
}

func init() {
	register("fan", func(op string, a kv) string {
		switch op {
		case "fan.new":
			curFan = newFanFromKV(a, "/nonexistent-verif")
			return fanState(curFan)
		case "fan.attach":
			m, ok := parseFloatMap(a.str("data", "nil"))
			var err error
			if ok {
				err = curFan.AttachFanRpmCurveData(&m)
			} else {
				err = curFan.AttachFanRpmCurveData(nil)
			}
			r := "ok"
			if err != nil {
				r = "err"
			}
			return r + " " + fanState(curFan)
		case "fan.restart":
			// what a restart of fan2go does with the measured curve: the fan's curve data are saved (real persistence, a
			// fresh bbolt file), a NEW fan object of the same configuration is created, the curve is loaded and attached.
			// The limits of the new object must be those the measured curve yields.
			h, isHw := curFan.(*fans.HwMonFan)
			if !isHw || h.FanCurveData == nil {
				return "skip " + fanState(curFan)
			}
			dir, err := os.MkdirTemp("", "verif-fanrestart-")
			if err != nil {
				panic(err)
			}
			defer os.RemoveAll(dir)
			p := persistence.NewPersistence(filepath.Join(dir, "fan2go.db"))
			if err := p.Init(); err != nil {
				return "err:init"
			}
			if err := p.SaveFanPwmData(curFan); err != nil {
				return "err:save " + fanState(curFan)
			}
			cfg := h.Config
			nf, err := fans.NewFan(cfg)
			if err != nil {
				return "err:newfan"
			}
			data, err := p.LoadFanPwmData(nf)
			if err != nil {
				return "err:load " + fanState(curFan)
			}
			if err := nf.AttachFanRpmCurveData(&data); err != nil {
				return "err:attach " + fanState(nf)
			}
			curFan = nf
			return "ok " + fanState(curFan)
		case "fan.set":
			v, force := a.int("v", 0), a.bool("force", false)
			switch a.str("which", "min") {
			case "min":
				curFan.SetMinPwm(v, force)
			case "start":
				curFan.SetStartPwm(v, force)
			case "max":
				curFan.SetMaxPwm(v, force)
			}
			return fanState(curFan)
		case "fan.get":
			return fanState(curFan)
		}
		return "bad-op"
	})
}
