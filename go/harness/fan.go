//go:build verif

package main

import (
	"fmt"

	"github.com/markusressel/fan2go/internal/configuration"
	"github.com/markusressel/fan2go/internal/fans"
)

var curFan fans.Fan

func optTok(p *int) string {
	if p == nil {
		return "-"
	}
	return fmt.Sprintf("%d", *p)
}

func fanState(f fans.Fan) string {
	s := fmt.Sprintf("min=%d start=%d max=%d", f.GetMinPwm(), f.GetStartPwm(), f.GetMaxPwm())
	if h, ok := f.(*fans.HwMonFan); ok {
		s += fmt.Sprintf(" minp=%s startp=%s maxp=%s", optTok(h.MinPwm), optTok(h.StartPwm), optTok(h.MaxPwm))
	} else {
		s += " minp=- startp=- maxp=-"
	}
	return s
}

func newFanFromKV(a kv, dir string) fans.Fan {
	cfg := configuration.FanConfig{
		ID:        a.str("id", "fan"),
		NeverStop: a.bool("ns", false),
		MinPwm:    a.optInt("cmin"),
		StartPwm:  a.optInt("cstart"),
		MaxPwm:    a.optInt("cmax"),
		Curve:     a.str("curve", "curve"),
	}
	switch a.str("kind", "hwmon") {
	case "hwmon":
		cfg.HwMon = &configuration.HwMonFanConfig{Platform: "fake", Index: 1, RpmChannel: 1, PwmChannel: 1,
			SysfsPath: dir, RpmInputPath: dir + "/fan1_input", PwmPath: dir + "/pwm1", PwmEnablePath: dir + "/pwm1_enable"}
	case "file":
		rp := dir + "/fan1_input"
		if !a.bool("hasrpm", true) {
			rp = ""
		}
		cfg.File = &configuration.FileFanConfig{Path: dir + "/pwm1", RpmPath: rp}
	case "cmd":
		cfg.Cmd = cmdFanConfig(a, dir)
	}
	f, err := fans.NewFan(cfg)
	if err != nil {
		panic(err)
	}
	return f
}

func init() {
	register("fan", func(op string, a kv) string {
		switch op {
		case "fan.new":
			curFan = newFanFromKV(a, "/nonexistent-verif")
			return fanState(curFan)
		case "fan.attach":
			m, ok := parseFloatMap(a.str("data", "nil"))
			var err error
			if ok {
				err = curFan.AttachFanRpmCurveData(&m)
			} else {
				err = curFan.AttachFanRpmCurveData(nil)
			}
			r := "ok"
			if err != nil {
				r = "err"
			}
			return r + " " + fanState(curFan)
		case "fan.set":
			v, force := a.int("v", 0), a.bool("force", false)
			switch a.str("which", "min") {
			case "min":
				curFan.SetMinPwm(v, force)
			case "start":
				curFan.SetStartPwm(v, force)
			case "max":
				curFan.SetMaxPwm(v, force)
			}
			return fanState(curFan)
		case "fan.get":
			return fanState(curFan)
		}
		return "bad-op"
	})
}
