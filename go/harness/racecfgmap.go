//go:build verif

// rc.cfgmap rounds=<r>: a fan with a user-defined PWM map (the controller's map then IS the configuration's map object)
// goes through the REAL controller start-up (`Run`) and its first control cycles while the REAL REST handlers
// (`GET /fan/`, `GET /fan/<id>/`, served in-process) encode the fan, configuration included. For the harness built with
// -race: on a correct tree every access to that map is a read.
package main

import (
	"context"
	"fmt"
	"net/http/httptest"
	"os"
	"path/filepath"
	"sync"
	"time"

	"github.com/markusressel/fan2go/internal/api"
	"github.com/markusressel/fan2go/internal/configuration"
	"github.com/markusressel/fan2go/internal/control_loop"
	"github.com/markusressel/fan2go/internal/controller"
	"github.com/markusressel/fan2go/internal/curves"
	"github.com/markusressel/fan2go/internal/fans"
	"github.com/markusressel/fan2go/internal/persistence"
	"github.com/markusressel/fan2go/internal/sensors"
	"github.com/markusressel/fan2go/internal/verifhook"
)

func rcCfgMap(a kv) string {
	rounds := a.int("rounds", 6)
	dir, err := os.MkdirTemp("", "verifrcm")
	if err != nil {
		panic(err)
	}
	defer os.RemoveAll(dir)
	rest := api.CreateRestService()
	verifhook.SetClock(1_000_000_000) // the start-up waits of Run pass at once
	defer verifhook.RealClock()
	configuration.CurrentConfig.TempSensorPollingRate = 200 * time.Millisecond
	for r := 0; r < rounds; r++ {
		rcCounter++
		p := fmt.Sprintf("rcm%d_", rcCounter)
		sfile := filepath.Join(dir, p+"temp")
		_ = os.WriteFile(sfile, []byte("55000\n"), 0o644)
		s, err := sensors.NewSensor(configuration.SensorConfig{ID: p + "s", File: &configuration.FileSensorConfig{Path: sfile}})
		if err != nil {
			panic(err)
		}
		s.SetMovingAvg(55000)
		sensors.RegisterSensor(s)
		c, err := curves.NewSpeedCurve(configuration.CurveConfig{ID: p + "c", Linear: &configuration.LinearCurveConfig{Sensor: p + "s", Min: 30, Max: 80}})
		if err != nil {
			panic(err)
		}
		curves.RegisterSpeedCurve(c)
		pf := filepath.Join(dir, p+"pwm")
		_ = os.WriteFile(pf, []byte("100\n"), 0o644)
		pm := map[int]int{0: 0, 64: 60, 128: 120, 192: 180, 255: 255}
		f, err := fans.NewFan(configuration.FanConfig{ID: p + "f", Curve: p + "c", PwmMap: &pm, File: &configuration.FileFanConfig{Path: pf}})
		if err != nil {
			panic(err)
		}
		fans.RegisterFan(f)
		ctl := controller.NewFanController(persistence.NewPersistence(filepath.Join(dir, p+"db")), f, control_loop.NewDirectControlLoop(nil), 2*time.Millisecond)
		ctx, cancel := context.WithCancel(context.Background())
		stop, done := make(chan struct{}), make(chan struct{})
		var wg sync.WaitGroup
		for i := 0; i < 2; i++ {
			wg.Add(1)
			go func(i int) {
				defer wg.Done()
				defer func() { _ = recover() }()
				url := "/fan/"
				if i == 1 {
					url = "/fan/" + p + "f/"
				}
				for {
					select {
					case <-stop:
						return
					default:
					}
					rest.ServeHTTP(httptest.NewRecorder(), httptest.NewRequest("GET", url, nil))
					time.Sleep(150 * time.Microsecond)
				}
			}(i)
		}
		go func() {
			defer close(done)
			defer func() { _ = recover() }()
			_ = ctl.Run(ctx)
		}()
		time.Sleep(60 * time.Millisecond)
		cancel()
		select {
		case <-done:
		case <-time.After(20 * time.Second):
		}
		close(stop)
		wg.Wait()
	}
	return fmt.Sprintf("ok rounds=%d", rounds)
}
