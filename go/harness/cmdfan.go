//go:build verif

// kind=cmd of the `w` stream: the REAL fans.CmdFan (driven through the real util.SafeCmdExecution:
// real root-owned shell scripts, real child processes) under the real DefaultFanController.
//
// Per world a directory with three scripts (root-owned, 0755)
//
//	getpwm.sh            prints the PWM register            (CmdFanConfig.GetPwm)
//	setpwm.sh <args>     writes the PWM register            (CmdFanConfig.SetPwm, args carry %pwm%)
//	getrpm.sh            prints the RPM register            (CmdFanConfig.GetRpm, nil when hasrpm=0)
//
// and the state they work on: `pwm`, `rpm` (one integer each), `ctl` (shell assignments: the fault
// switches and the response quantiser of verifhook.Device, rewritten by the harness on every w.new /
// w.dev) and `log` (one line per setpwm.sh run: "pwm=<v>" or "pwm=<v>:refused").
//
// The harness keeps a shadow verifhook.Device: w.dev -> files (cmdPush), files -> w.dev after every
// op (cmdPull), so that the printed device state (`pwm= mode= ...`) comes from the state files.
//
//	PwmRead/RpmRead  ok        print the register in one of several spellings ParseFloat truncates to it
//	                 perm      print the (valid) register, then exit 1        -> output discarded, error
//	                 other:-1  no output (exit 0) / newlines only / exit 3 / script without exec bits (cannot be started) -> error
//	                 other:0   unparsable text (exit 0)                       -> error
//	PwmWrite         applied   register := Resp(v), exit 0
//	                 refused   exit 1 (2 every other time), register unchanged
//	                 ignored   exit 0, register unchanged
package main

import (
	"fmt"
	"os"
	"strconv"
	"strings"

	"github.com/markusressel/fan2go/internal/configuration"
	"github.com/markusressel/fan2go/internal/verifhook"
)

const cmdGetScript = `#!/bin/sh
# usage: get.sh <pwm|rpm>   (installed as getpwm.sh / getrpm.sh with the register name baked in)
D=${0%/*}
. "$D/ctl"
R=@REG@
if [ "$R" = pwm ]; then M=$PWMREAD; F=$PWMFMT; else M=$RPMREAD; F=$RPMFMT; fi
case "$M" in
ok)
	read v < "$D/$R"
	printf "$F\n" "$v"
	;;
fail)
	read v < "$D/$R"
	printf '%s\n' "$v"
	echo "injected failure" >&2
	exit 1
	;;
empty) exit 0 ;;
blank) printf '\n\n' ;;
exit3) exit 3 ;;
garbage) printf '%s' "$GARBAGE" ;;
*) exit 9 ;;
esac
`

const cmdSetScript = `#!/bin/sh
D=${0%/*}
. "$D/ctl"
v=
for a in "$@"; do
	case "$a" in
	--value=*) v=${a#--value=} ;;
	--) ;;
	*) v=$a ;;
	esac
done
case "$PWMWRITE" in
refused)
	echo "pwm=$v:refused" >> "$D/log"
	echo "injected refusal" >&2
	exit $REFUSECODE
	;;
ignored)
	echo "pwm=$v" >> "$D/log"
	exit 0
	;;
esac
w=$v
if [ "$RESPQ" -gt 0 ]; then
	d=$(( v / RESPQ ))
	if [ $(( v % RESPQ )) -ne 0 ] && [ "$v" -lt 0 ]; then d=$(( d - 1 )); fi
	w=$(( d * RESPQ ))
fi
for p in $RESPT; do
	if [ "${p%%:*}" = "$v" ]; then w=${p#*:}; fi
done
echo "$w" > "$D/pwm"
echo "pwm=$v" >> "$D/log"
`

// spellings of an integer register value v that strconv.ParseFloat accepts and int() truncates back to v
var cmdOkFormats = []string{"%s", "%s.0", "%s.9", "%s.5", "%se0", "%s.000001"}

// outputs for which ParseFloat (after strings.Trim(out, "\n")) returns an error
var cmdGarbageShapes = []string{"garbage\n", " 42\n", "42 \n", "4x\n", "0x1F\n", "1e999\n", "12,5\n", "42\n43\n", "--5\n", ".\n", "\t\n"}

// the two argument styles of setPwm (both carry the %pwm% placeholder)
var cmdSetArgStyles = [][]string{{"%pwm%"}, {"--", "--value=%pwm%"}}

type cmdWorld struct {
	dir     string
	conf    *configuration.CmdFanConfig
	getRpm  *configuration.ExecConfig
	respTok string
	counter int
}

var cmdCounter int

func cmdMustWrite(path, content string, mode os.FileMode) {
	if err := os.WriteFile(path, []byte(content), mode); err != nil {
		panic(err)
	}
	if err := os.Chmod(path, mode); err != nil {
		panic(err)
	}
	if err := os.Chown(path, 0, 0); err != nil {
		// util.SafeCmdExecution only runs root-owned files: the harness must run as root (as for stream `ex`)
		panic("cmd world: cannot make " + path + " root-owned: " + err.Error())
	}
}

// cmdFanConfig builds the CmdFanConfig of a world in `dir` (scripts are installed as a side effect).
// A non-existing `dir` (stream `fan`: limits only) yields the empty configuration.
func cmdFanConfig(a kv, dir string) *configuration.CmdFanConfig {
	if st, err := os.Stat(dir); err != nil || !st.IsDir() {
		return &configuration.CmdFanConfig{}
	}
	_ = os.Chmod(dir, 0o755)
	cmdCounter++
	cmdMustWrite(dir+"/getpwm.sh", strings.ReplaceAll(cmdGetScript, "@REG@", "pwm"), 0o755)
	cmdMustWrite(dir+"/getrpm.sh", strings.ReplaceAll(cmdGetScript, "@REG@", "rpm"), 0o755)
	cmdMustWrite(dir+"/setpwm.sh", cmdSetScript, 0o755)
	cmdMustWrite(dir+"/log", "", 0o644)
	c := &configuration.CmdFanConfig{
		GetPwm: &configuration.ExecConfig{Exec: dir + "/getpwm.sh", Args: []string{}},
		SetPwm: &configuration.ExecConfig{Exec: dir + "/setpwm.sh", Args: cmdSetArgStyles[cmdCounter%len(cmdSetArgStyles)]},
		GetRpm: &configuration.ExecConfig{Exec: dir + "/getrpm.sh", Args: []string{}},
	}
	return c
}

func cmdReadModeTok(m verifhook.ReadMode, n int) string {
	switch m {
	case verifhook.ReadOk:
		return "ok"
	case verifhook.ReadErrPerm:
		return "fail"
	case verifhook.ReadErrOther, verifhook.ReadEmpty:
		return []string{"empty", "blank", "exit3", "noexec"}[n%4]
	case verifhook.ReadGarbage:
		return "garbage"
	}
	return "exit3"
}

func shQuote(s string) string {
	return "'" + strings.ReplaceAll(s, "'", `'\''`) + "'"
}

// cmdPush writes the shadow device into the state and control files.
func (w *world) cmdPush() {
	c := w.cmd
	d := w.dev
	c.counter++
	n := c.counter + cmdCounter
	q, table := 0, ""
	switch {
	case strings.HasPrefix(c.respTok, "q:"):
		q, _ = strconv.Atoi(c.respTok[2:])
	case strings.HasPrefix(c.respTok, "t:"):
		table = strings.ReplaceAll(strings.ReplaceAll(c.respTok[2:], ";", " "), ",", " ")
	}
	wm := "applied"
	switch d.PwmWrite {
	case verifhook.WriteRefused:
		wm = "refused"
	case verifhook.WriteIgnored:
		wm = "ignored"
	}
	ctl := fmt.Sprintf("PWMREAD=%s\nRPMREAD=%s\nPWMWRITE=%s\nREFUSECODE=%d\nPWMFMT=%s\nRPMFMT=%s\nRESPQ=%d\nRESPT=%s\nGARBAGE=%s\n",
		cmdReadModeTok(d.PwmRead, n), cmdReadModeTok(d.RpmRead, n+1), wm, 1+n%2,
		shQuote(cmdOkFormats[n%len(cmdOkFormats)]), shQuote(cmdOkFormats[(n/2)%len(cmdOkFormats)]),
		q, shQuote(table), shQuote(cmdGarbageShapes[n%len(cmdGarbageShapes)]))
	cmdMustWrite(c.dir+"/ctl", ctl, 0o644)
	// "noexec": the script passes the permission check (root-owned, not writable by group/others) but cannot be started
	for _, sc := range [][2]string{{"getpwm.sh", cmdReadModeTok(d.PwmRead, n)}, {"getrpm.sh", cmdReadModeTok(d.RpmRead, n+1)}} {
		mode := os.FileMode(0o755)
		if sc[1] == "noexec" {
			mode = 0o644
		}
		_ = os.Chmod(c.dir+"/"+sc[0], mode)
	}
	cmdMustWrite(c.dir+"/pwm", strconv.Itoa(d.Pwm)+"\n", 0o644)
	cmdMustWrite(c.dir+"/rpm", strconv.Itoa(d.Rpm)+"\n", 0o644)
}

// cmdPull reads the PWM register and the write log back from the files into the shadow device.
func (w *world) cmdPull() {
	c := w.cmd
	b, err := os.ReadFile(c.dir + "/pwm")
	if err != nil {
		panic(err)
	}
	v, err := strconv.Atoi(strings.TrimSpace(string(b)))
	if err != nil {
		panic("cmd world: pwm state file holds " + strconv.Quote(string(b)))
	}
	w.dev.Pwm = v
	l, err := os.ReadFile(c.dir + "/log")
	if err != nil {
		panic(err)
	}
	if len(l) > 0 {
		for _, e := range strings.Split(strings.TrimSpace(string(l)), "\n") {
			w.dev.Log = append(w.dev.Log, e)
		}
		if err := os.Truncate(c.dir+"/log", 0); err != nil {
			panic(err)
		}
	}
}

// newCmdWorld attaches the script directory of a freshly created CmdFan to the world.
func (w *world) newCmdWorld(conf *configuration.CmdFanConfig) {
	w.cmd = &cmdWorld{dir: w.dir, conf: conf, getRpm: conf.GetRpm, respTok: "id"}
}

// cmdApplyDev is applyDev's tail for cmd worlds: the switches that are not plain Device fields.
func (w *world) cmdApplyDev(a kv) {
	c := w.cmd
	if v, ok := a["resp"]; ok {
		c.respTok = v
	}
	if v, ok := a["hasrpm"]; ok {
		if v == "1" {
			c.conf.GetRpm = c.getRpm
		} else {
			c.conf.GetRpm = nil
		}
	}
	w.cmdPush()
}
