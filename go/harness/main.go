//go:build verif

// Command verifharness is compiled INTO the fan2go module at check time (go build -overlay):
// it interprets an operation file line by line against the real fan2go code and writes one
// result line per operation. The Lean driver interprets the same file against the model.
package main

import (
	"bufio"
	"fmt"
	"math"
	"os"
	"runtime"
	"sort"
	"strconv"
	"strings"
	"time"

	"github.com/pterm/pterm"
)

type kv map[string]string

func parseKV(toks []string) kv {
	m := kv{}
	for _, t := range toks {
		i := strings.IndexByte(t, '=')
		if i < 0 {
			m[t] = ""
			continue
		}
		m[t[:i]] = t[i+1:]
	}
	return m
}

func (m kv) str(k, def string) string {
	if v, ok := m[k]; ok {
		return v
	}
	return def
}

func (m kv) int(k string, def int) int {
	v, ok := m[k]
	if !ok || v == "-" {
		return def
	}
	n, err := strconv.Atoi(v)
	if err != nil {
		panic("bad int for " + k + ": " + v)
	}
	return n
}

func (m kv) optInt(k string) *int {
	v, ok := m[k]
	if !ok || v == "-" {
		return nil
	}
	n, err := strconv.Atoi(v)
	if err != nil {
		panic("bad int for " + k + ": " + v)
	}
	return &n
}

func (m kv) bool(k string, def bool) bool {
	v, ok := m[k]
	if !ok {
		return def
	}
	return v == "1" || v == "true"
}

func (m kv) f64(k string, def float64) float64 {
	v, ok := m[k]
	if !ok {
		return def
	}
	return parseF(v)
}

// floats cross the protocol as 'x' + 16 hex digits of their bit pattern
func parseF(s string) float64 {
	if !strings.HasPrefix(s, "x") {
		panic("bad float token: " + s)
	}
	b, err := strconv.ParseUint(s[1:], 16, 64)
	if err != nil {
		panic("bad float token: " + s)
	}
	return math.Float64frombits(b)
}

func fmtF(f float64) string {
	if math.IsNaN(f) {
		return "x7ff8000000000001"
	}
	if f == 0 {
		return "x0000000000000000"
	}
	return fmt.Sprintf("x%016x", math.Float64bits(f))
}

func parseInts(s string) []int {
	if s == "-" || s == "" {
		return []int{}
	}
	var r []int
	for _, p := range strings.Split(s, ",") {
		n, err := strconv.Atoi(p)
		if err != nil {
			panic("bad int list: " + s)
		}
		r = append(r, n)
	}
	return r
}

func fmtInts(a []int) string {
	if len(a) == 0 {
		return "-"
	}
	p := make([]string, len(a))
	for i, v := range a {
		p[i] = strconv.Itoa(v)
	}
	return strings.Join(p, ",")
}

// "k:v,k:v" ; "-" = empty map ; "nil" = nil map
func parseIntMap(s string) (map[int]int, bool) {
	if s == "nil" {
		return nil, false
	}
	m := map[int]int{}
	if s == "-" || s == "" {
		return m, true
	}
	for _, p := range strings.Split(s, ",") {
		kvp := strings.SplitN(p, ":", 2)
		k, e1 := strconv.Atoi(kvp[0])
		v, e2 := strconv.Atoi(kvp[1])
		if e1 != nil || e2 != nil {
			panic("bad int map: " + s)
		}
		m[k] = v
	}
	return m, true
}

func parseFloatMap(s string) (map[int]float64, bool) {
	if s == "nil" {
		return nil, false
	}
	m := map[int]float64{}
	if s == "-" || s == "" {
		return m, true
	}
	for _, p := range strings.Split(s, ",") {
		kvp := strings.SplitN(p, ":", 2)
		k, e1 := strconv.Atoi(kvp[0])
		if e1 != nil {
			panic("bad float map: " + s)
		}
		m[k] = parseF(kvp[1])
	}
	return m, true
}

func fmtFloatMap(m map[int]float64) string {
	if m == nil {
		return "nil"
	}
	if len(m) == 0 {
		return "-"
	}
	keys := make([]int, 0, len(m))
	for k := range m {
		keys = append(keys, k)
	}
	sort.Ints(keys)
	p := make([]string, len(keys))
	for i, k := range keys {
		p[i] = fmt.Sprintf("%d:%s", k, fmtF(m[k]))
	}
	return strings.Join(p, ",")
}

func fmtIntMap(m map[int]int) string {
	if m == nil {
		return "nil"
	}
	if len(m) == 0 {
		return "-"
	}
	keys := make([]int, 0, len(m))
	for k := range m {
		keys = append(keys, k)
	}
	sort.Ints(keys)
	p := make([]string, len(keys))
	for i, k := range keys {
		p[i] = fmt.Sprintf("%d:%d", k, m[k])
	}
	return strings.Join(p, ",")
}

// panicClass maps a recovered value to the small enum shared with the model.
func panicClass(r interface{}) string {
	if re, ok := r.(runtime.Error); ok {
		msg := re.Error()
		switch {
		case strings.Contains(msg, "index out of range"), strings.Contains(msg, "slice bounds"):
			return "index"
		case strings.Contains(msg, "divide by zero"):
			return "divzero"
		case strings.Contains(msg, "nil pointer"), strings.Contains(msg, "invalid memory address"):
			return "nil"
		case strings.Contains(msg, "interface conversion"):
			return "typeassert"
		case strings.Contains(msg, "closed channel"):
			return "closedchan"
		case strings.Contains(msg, "nil map"):
			return "nilmap"
		}
		return "runtime"
	}
	return "fatal"
}

type handler func(op string, a kv) string

var handlers = map[string]handler{}

func register(prefix string, h handler) { handlers[prefix] = h }

func dispatch(line string) (out string) {
	defer func() {
		if r := recover(); r != nil {
			out = "panic:" + panicClass(r)
			if os.Getenv("VERIF_DEBUG") != "" {
				fmt.Fprintf(os.Stderr, "panic in %q: %v\n", line, r)
			}
		}
	}()
	toks := strings.Fields(line)
	if len(toks) == 0 {
		return ""
	}
	op := toks[0]
	prefix := op
	if i := strings.IndexByte(op, '.'); i >= 0 {
		prefix = op[:i]
	}
	h, ok := handlers[prefix]
	if !ok {
		return "bad-op"
	}
	return h(op, parseKV(toks[1:]))
}

func main() {
	if len(os.Args) < 3 {
		fmt.Fprintln(os.Stderr, "usage: verifharness <ops-file> <out-file>")
		os.Exit(2)
	}
	_ = os.Unsetenv("DISPLAY")
	pterm.DisableOutput()
	in, err := os.Open(os.Args[1])
	if err != nil {
		fmt.Fprintln(os.Stderr, err)
		os.Exit(2)
	}
	defer in.Close()
	outF, err := os.Create(os.Args[2])
	if err != nil {
		fmt.Fprintln(os.Stderr, err)
		os.Exit(2)
	}
	w := bufio.NewWriterSize(outF, 1<<16)
	sc := bufio.NewScanner(in)
	sc.Buffer(make([]byte, 1<<20), 1<<26)
	// watchdog: an op that does not come back (a deadlock in the code under test, an endless loop) is reported as `hang`
	// instead of blocking the whole stream; the rest of its case is skipped, and after three hangs everything is
	opTimeout := 90 * time.Second
	if v, err := strconv.Atoi(os.Getenv("VERIF_OP_TIMEOUT_S")); err == nil && v > 0 {
		opTimeout = time.Duration(v) * time.Second
	}
	hungCase, hangs := false, 0
	for sc.Scan() {
		line := sc.Text()
		if strings.HasPrefix(line, "#") || strings.TrimSpace(line) == "" {
			if strings.HasPrefix(line, "#case") {
				hungCase = false
			}
			fmt.Fprintln(w, line)
			continue
		}
		if hungCase || hangs >= 3 {
			fmt.Fprintln(w, "skipped-after-hang")
			continue
		}
		done := make(chan string, 1)
		go func(l string) { done <- dispatch(l) }(line)
		select {
		case out := <-done:
			fmt.Fprintln(w, out)
		case <-time.After(opTimeout):
			fmt.Fprintln(w, "hang:watchdog")
			hungCase = true
			hangs++
		}
		w.Flush()
	}
	w.Flush()
	outF.Close()
	cleanupAll()
}

var cleanups []func()

func cleanupAll() {
	for _, f := range cleanups {
		f()
	}
}
