//go:build verif

package main

// Stream `cfg` (property C11): YAML text -> real loader -> real validator -> real curve
// instantiation and evaluation.
//
//   cfg.load yaml=<base64 YAML> mode=<octal, default 644> [spec=<ignored>]
//       -> verdict=<ok|err:<class>|panic:fatal> ent=<[id]|-> dump=<canonical dump of CurrentConfig>
//   cfg.run  vals=<v0,v1,v2> now=<ns>
//       -> run=<ok|panic:<class>|err|hang|skipped> at=<round.curveIdx|-> out=<values>
//
// The `spec=` token is for the Lean driver only (it cannot parse YAML); the harness's `dump=` of
// the DECODED struct must equal the driver's dump of the spec.

import (
	"encoding/base64"
	"fmt"
	"os"
	"path/filepath"
	"sort"
	"strconv"
	"strings"
	"time"

	"github.com/markusressel/fan2go/internal"
	"github.com/markusressel/fan2go/internal/configuration"
	"github.com/markusressel/fan2go/internal/curves"
	"github.com/markusressel/fan2go/internal/sensors"
	"github.com/markusressel/fan2go/internal/verifhook"
	"github.com/prometheus/client_golang/prometheus"
	"github.com/spf13/viper"
)

var cfgDir = ""
var cfgLastOk = false
var cfgSeq = 0

func cfgTmpDir() string {
	if cfgDir == "" {
		d, err := os.MkdirTemp("", "verif-cfg-")
		if err != nil {
			panic(err)
		}
		cfgDir = d
		cleanups = append(cleanups, func() { os.RemoveAll(d) })
	}
	return cfgDir
}

// ---- canonical dump (same grammar as lean/Driver/ConfigStream.lean) ----

func cfgList(n int, sep string, elems []string) string {
	s := strconv.Itoa(n)
	for _, e := range elems {
		s += sep + e
	}
	return s
}

func cfgDumpSensor(s configuration.SensorConfig) string {
	var items []string
	if s.HwMon != nil {
		items = append(items, fmt.Sprintf("h(%d)", s.HwMon.Index))
	}
	if s.File != nil {
		items = append(items, "f")
	}
	if s.Cmd != nil {
		items = append(items, "c")
	}
	return s.ID + ":" + strings.Join(items, ",")
}

func cfgDumpSteps(m map[int]float64) string {
	if m == nil {
		return "nil"
	}
	keys := make([]int, 0, len(m))
	for k := range m {
		keys = append(keys, k)
	}
	sort.Ints(keys)
	el := make([]string, len(keys))
	for i, k := range keys {
		el[i] = fmt.Sprintf("%d>%s", k, fmtF(m[k]))
	}
	return cfgList(len(keys), "/", el)
}

func cfgDumpCurve(c configuration.CurveConfig) string {
	var items []string
	if c.Linear != nil {
		l := c.Linear
		items = append(items, fmt.Sprintf("L(%s|%d|%d|%s)", l.Sensor, l.Min, l.Max, cfgDumpSteps(l.Steps)))
	}
	if c.PID != nil {
		p := c.PID
		items = append(items, fmt.Sprintf("P(%s|%s|%s|%s|%s)", p.Sensor, fmtF(p.SetPoint), fmtF(p.P), fmtF(p.I), fmtF(p.D)))
	}
	if c.Function != nil {
		f := c.Function
		items = append(items, fmt.Sprintf("F(%s|%s)", f.Type, cfgList(len(f.Curves), "/", f.Curves)))
	}
	return c.ID + ":" + strings.Join(items, ",")
}

func cfgDumpExec(e *configuration.ExecConfig) string {
	if e == nil {
		return "nil"
	}
	if len(e.Exec) <= 0 {
		return "e"
	}
	return "n"
}

func cfgDumpFan(f configuration.FanConfig) string {
	items := []string{"k(" + f.Curve + ")"}
	if ca := f.ControlAlgorithm; ca != nil {
		d, p := "nil", "nil"
		if ca.Direct != nil {
			if ca.Direct.MaxPwmChangePerCycle == nil {
				d = "m-"
			} else {
				d = "m" + strconv.Itoa(*ca.Direct.MaxPwmChangePerCycle)
			}
		}
		if ca.Pid != nil {
			p = fmtF(ca.Pid.P) + "/" + fmtF(ca.Pid.I) + "/" + fmtF(ca.Pid.D)
		}
		items = append(items, "a("+d+"|"+p+")")
	}
	if h := f.HwMon; h != nil {
		items = append(items, fmt.Sprintf("h(%d|%d|%d)", h.Index, h.RpmChannel, h.PwmChannel))
	}
	if f.File != nil {
		if len(f.File.Path) <= 0 {
			items = append(items, "f(e)")
		} else {
			items = append(items, "f(n)")
		}
	}
	if c := f.Cmd; c != nil {
		items = append(items, "c("+cfgDumpExec(c.SetPwm)+"|"+cfgDumpExec(c.GetPwm)+")")
	}
	return f.ID + ":" + strings.Join(items, ",")
}

// cfgDump prints a canonical one-token dump; blanks inside ids are shown as '~' so that the line protocol
// (space-separated tokens) survives ids with surrounding whitespace
func cfgDump(c *configuration.Configuration) string {
	return strings.ReplaceAll(cfgDumpRaw(c), " ", "~")
}

func cfgDumpRaw(c *configuration.Configuration) string {
	ss := make([]string, len(c.Sensors))
	for i, s := range c.Sensors {
		ss[i] = cfgDumpSensor(s)
	}
	cs := make([]string, len(c.Curves))
	for i, s := range c.Curves {
		cs[i] = cfgDumpCurve(s)
	}
	fs := make([]string, len(c.Fans))
	for i, s := range c.Fans {
		fs[i] = cfgDumpFan(s)
	}
	return "S" + cfgList(len(ss), ";", ss) + "!C" + cfgList(len(cs), ";", cs) + "!F" + cfgList(len(fs), ";", fs)
}

// ---- error classes: one per `VErr` constructor of lean/Fan2go/Model/Config.lean ----

var cfgErrClasses = []struct{ prefix, sub, class string }{
	{"duplicate sensor id detected", "", "dupSensor"},
	{"sensor ", "only one sensor type can be used", "sensorMultiBackend"},
	{"sensor ", "sub-configuration for sensor is missing", "sensorNoBackend"},
	{"sensor ", "invalid index, must be >= 1", "sensorBadIndex"},
	{"duplicate curve id detected", "", "dupCurve"},
	{"curve ", "only one curve type can be used", "curveMultiBackend"},
	{"curve ", "sub-configuration for curve is missing", "curveNoBackend"},
	{"curve ", "unsupported function type", "curveBadFnType"},
	{"curve ", "function curves must reference at least one curve", "curveNoMembers"},
	{"curve ", "a curve cannot reference itself", "curveSelfRef"},
	{"curve ", "no curve definition with id", "curveNoCurve"},
	{"curve ", "missing sensorId", "curveNoSensorId"},
	{"curve ", "no sensor definition with id", "curveNoSensor"},
	{"curve ", "steps must contain at least one entry", "curveEmptySteps"},
	{"curve ", "all PID constants are zero", "curvePidZero"},
	{"you have created a curve dependency cycle", "", "curveCycle"},
	{"duplicate fan id detected", "", "dupFan"},
	{"fan ", "only one fan type can be used", "fanMultiBackend"},
	{"fan ", "sub-configuration for fan is missing", "fanNoBackend"},
	{"fan ", "missing curve definition in configuration entry", "fanNoCurveId"},
	{"fan ", "no curve definition with id", "fanNoCurve"},
	{"fan ", "controlAlgorithm must be one of", "fanEmptyAlgo"},
	{"fan ", "invalid maxPwmChangePerCycle", "fanBadMaxPwmChange"},
	{"fan ", "all PID constants are zero", "fanPidZero"},
	{"fan ", "must have one of index or rpmChannel", "fanIndexXorRpm"},
	{"fan ", "invalid index, must be >= 1", "fanBadIndex"},
	{"fan ", "invalid rpmChannel", "fanBadRpmChannel"},
	{"fan ", "invalid pwmChannel", "fanBadPwmChannel"},
	{"fan ", "no file path provided", "fanNoPath"},
	{"fan ", "missing setPwm configuration", "fanNoSetPwm"},
	{"fan ", "setPwm executable is missing", "fanSetPwmNoExec"},
	{"fan ", "missing getPwm configuration", "fanNoGetPwm"},
	{"fan ", "getPwm executable is missing", "fanGetPwmNoExec"},
	{"config file ", "has invalid permissions", "configPerm"},
}

// cfgClassify returns (class, entity). The entity is the id the message is about ("-" if none).
func cfgClassify(msg string) (string, string) {
	for _, c := range cfgErrClasses {
		if !strings.HasPrefix(msg, c.prefix) {
			continue
		}
		if c.sub != "" && !strings.Contains(msg, c.sub) {
			continue
		}
		ent := "-"
		switch {
		case strings.HasPrefix(c.prefix, "duplicate "):
			ent = "[" + strings.TrimPrefix(msg, c.prefix+": ") + "]"
		case c.prefix == "sensor " || c.prefix == "curve " || c.prefix == "fan ":
			rest := msg[len(c.prefix):]
			if i := strings.Index(rest, ": "); i >= 0 {
				ent = "[" + rest[:i] + "]"
			}
		}
		return c.class, ent
	}
	return "unknown", "-"
}

func cfgLoad(a kv) (out string) {
	cfgLastOk = false
	raw, err := base64.StdEncoding.DecodeString(a.str("yaml", ""))
	if err != nil {
		panic("bad base64 yaml")
	}
	mode, err := strconv.ParseUint(a.str("mode", "644"), 8, 32)
	if err != nil {
		panic("bad mode")
	}
	cfgSeq++
	dir := filepath.Join(cfgTmpDir(), strconv.Itoa(cfgSeq))
	if err := os.MkdirAll(dir, 0o755); err != nil {
		panic(err)
	}
	defer os.RemoveAll(dir)
	path := filepath.Join(dir, "fan2go.yaml")
	if err := os.WriteFile(path, raw, 0o600); err != nil {
		panic(err)
	}
	if err := os.Chown(path, 0, 0); err != nil {
		panic(err)
	}
	if err := os.Chmod(path, os.FileMode(mode)); err != nil {
		panic(err)
	}

	// the loader path of `fan2go config validate` (cmd/config/validate.go)
	verdict, ent := "", "-"
	func() {
		defer func() {
			if r := recover(); r != nil {
				verdict = "panic:" + panicClass(r)
				if os.Getenv("VERIF_DEBUG") != "" {
					fmt.Fprintf(os.Stderr, "cfg.load panic: %v\n", r)
				}
			}
		}()
		viper.Reset()
		configuration.InitConfig(path)
		if err := viper.ReadInConfig(); err != nil {
			verdict = "err:read"
			return
		}
		configuration.LoadConfig()
		if err := configuration.Validate(path); err != nil {
			cls, e := cfgClassify(err.Error())
			verdict, ent = "err:"+cls, e
			if os.Getenv("VERIF_DEBUG") != "" {
				fmt.Fprintf(os.Stderr, "cfg.load: %v\n", err)
			}
			return
		}
		verdict = "ok"
	}()
	if strings.HasPrefix(verdict, "panic:") || verdict == "err:read" {
		return "verdict=" + verdict + " ent=- dump=-"
	}
	cfgLastOk = verdict == "ok"
	return "verdict=" + verdict + " ent=" + ent + " dump=" + cfgDump(&configuration.CurrentConfig)
}

// cfgRun instantiates every sensor entry as a real FileSensor on a temp file (whatever its kind),
// every curve with the real NewSpeedCurve + RegisterSpeedCurve, and evaluates every curve once
// per round. Only ever called for a configuration the validator accepted (a cyclic table would
// overflow the stack, which is not recoverable).
func cfgRun(a kv) string {
	if !cfgLastOk {
		return "run=skipped at=- out=-"
	}
	cfg := configuration.CurrentConfig
	vals := parseInts(a.str("vals", "30000,55000,90000"))
	now := int64(a.int("now", 1000000000))
	cfgSeq++
	dir := filepath.Join(cfgTmpDir(), strconv.Itoa(cfgSeq))
	if err := os.MkdirAll(dir, 0o755); err != nil {
		panic(err)
	}
	defer os.RemoveAll(dir)

	// the sensors: every configured sensor becomes a FILE sensor over a file of this case (no hwmon chips, no commands
	// here) and is created, read once, seeded and registered by the REAL initializeSensors, as at daemon start-up
	type sens struct {
		s    sensors.Sensor
		path string
	}
	var ss []sens
	var fileCfgs []configuration.SensorConfig
	for j, sc := range cfg.Sensors {
		p := filepath.Join(dir, "sensor"+strconv.Itoa(j))
		if err := os.WriteFile(p, []byte("30000\n"), 0o644); err != nil {
			panic(err)
		}
		fileCfgs = append(fileCfgs, configuration.SensorConfig{ID: sc.ID, File: &configuration.FileSensorConfig{Path: p}})
		ss = append(ss, sens{nil, p})
	}
	if res := func() (res string) {
		savedSensors := configuration.CurrentConfig.Sensors
		configuration.CurrentConfig.Sensors = fileCfgs
		savedReg := prometheus.DefaultRegisterer
		prometheus.DefaultRegisterer = prometheus.NewRegistry()
		defer func() {
			configuration.CurrentConfig.Sensors = savedSensors
			prometheus.DefaultRegisterer = savedReg
			if r := recover(); r != nil {
				res = "run=panic:" + panicClass(r) + " at=sensors out=-"
			}
		}()
		if err := internal.VerifInitializeSensors(nil); err != nil {
			return "run=err:sensors at=- out=-"
		}
		return ""
	}(); res != "" {
		return res
	}
	for j := range ss {
		// what the registry holds for this id NOW (an object left over from an earlier case does not count)
		if s, ok := sensors.GetSensor(fileCfgs[j].ID); ok && s.GetConfig().File != nil && s.GetConfig().File.Path == ss[j].path {
			ss[j].s = s
		}
	}
	var cs []curves.SpeedCurve
	for _, cc := range cfg.Curves {
		c, err := curves.NewSpeedCurve(cc)
		if err != nil {
			return "run=err:instantiate at=- out=-"
		}
		curves.RegisterSpeedCurve(c)
		cs = append(cs, c)
	}

	defer verifhook.RealClock()
	var outs []int
	for k, v := range vals {
		verifhook.SetClock(now + int64(k)*1000000000)
		for j, s := range ss {
			x := v + 1500*j
			if err := os.WriteFile(s.path, []byte(strconv.Itoa(x)+"\n"), 0o644); err != nil {
				panic(err)
			}
			if s.s != nil {
				s.s.SetMovingAvg(float64(x))
			}
		}
		for i, c := range cs {
			type res struct {
				v   int
				err error
				pan string
			}
			ch := make(chan res, 1)
			go func() {
				defer func() {
					if r := recover(); r != nil {
						ch <- res{pan: panicClass(r)}
					}
				}()
				v, err := c.Evaluate()
				ch <- res{v: v, err: err}
			}()
			at := fmt.Sprintf("%d.%d", k, i)
			select {
			case r := <-ch:
				if r.pan != "" {
					return "run=panic:" + r.pan + " at=" + at + " out=" + fmtInts(outs)
				}
				if r.err != nil {
					return "run=err at=" + at + " out=" + fmtInts(outs)
				}
				outs = append(outs, r.v)
			case <-time.After(2 * time.Second):
				return "run=hang at=" + at + " out=" + fmtInts(outs)
			}
		}
	}
	if !a.bool("fail", false) {
		return "run=ok at=- out=" + fmtInts(outs)
	}
	// one more round in which EVERY sensor read fails (the file holds text that is no number; the moving averages keep
	// their last values): an evaluation may fail, it must not crash. Per curve: its value, or `e` for an error.
	k := len(vals)
	verifhook.SetClock(now + int64(k)*1000000000)
	for _, s := range ss {
		if err := os.WriteFile(s.path, []byte("N/A\n"), 0o644); err != nil {
			panic(err)
		}
	}
	var ftoks []string
	for i, c := range cs {
		type res struct {
			v   int
			err error
			pan string
		}
		ch := make(chan res, 1)
		go func() {
			defer func() {
				if r := recover(); r != nil {
					ch <- res{pan: panicClass(r)}
				}
			}()
			v, err := c.Evaluate()
			ch <- res{v: v, err: err}
		}()
		at := fmt.Sprintf("%d.%d", k, i)
		select {
		case r := <-ch:
			if r.pan != "" {
				return "run=panic:" + r.pan + " at=" + at + " out=" + fmtInts(outs)
			}
			if r.err != nil {
				ftoks = append(ftoks, "e")
			} else {
				ftoks = append(ftoks, strconv.Itoa(r.v))
			}
		case <-time.After(2 * time.Second):
			return "run=hang at=" + at + " out=" + fmtInts(outs)
		}
	}
	if len(ftoks) == 0 {
		ftoks = []string{"-"}
	}
	return "run=ok at=- out=" + fmtInts(outs) + " fail=" + strings.Join(ftoks, ",")
}

func init() {
	register("cfg", func(op string, a kv) string {
		switch op {
		case "cfg.load":
			return cfgLoad(a)
		case "cfg.run":
			return cfgRun(a)
		}
		return "bad-op"
	})
}
