//go:build verif

package main

import (
	"context"
	"errors"
	"fmt"
	"os"
	"runtime"
	"strconv"
	"strings"
	"sync"
	"sync/atomic"
	"time"

	"github.com/markusressel/fan2go/internal/configuration"
	"github.com/markusressel/fan2go/internal/control_loop"
	"github.com/markusressel/fan2go/internal/controller"
	"github.com/markusressel/fan2go/internal/curves"
	"github.com/markusressel/fan2go/internal/fans"
	"github.com/markusressel/fan2go/internal/persistence"
	"github.com/markusressel/fan2go/internal/verifhook"
)

// Life-cycle stream `lc` (C03 part ii): drives the REAL per-controller life cycle
// `DefaultFanController.Run(ctx)` on a virtual device, with a real bbolt file, in virtual time, through
// every phase boundary, cancels the context (= what the daemon's interrupt function does) at a scripted
// stop point, waits for `Run` to return and reports what is left behind. The Lean driver
// (Driver/LifecycleStream.lean) prints the same line from the single-controller slice of
// Model/Lifecycle.lean.
//
// Stop points are recognised with the hooks only (nothing in fan2go is instrumented beyond the virtual
// clock and the virtual device files):
//   startupWait  the first virtual sleep (2 s + 2·TempSensorPollingRate)
//   midSweep     the 100th write of a 255, 254, … staircase (computePwmMapAutomatically)
//   afterSweep   the first PWM write after the staircase has reached 0 (the start-PWM write)
//   midMeasure   the 2nd FanResponseDelay sleep (= inside the 3rd point of the RPM-curve measurement)
//   headStart    a 1 s sleep on a goroutine other than the one that called Run (the control-loop actor's
//                head start; the 1 s settle polls of the measurement run on Run's own goroutine)
//   cycle<k>     inside the k-th curve evaluation
//   idle<k>      3 ms (a fraction of the 40 ms tick period) after the k-th curve evaluation: the controller sits in its select
//   never        no cancellation until the controller has stopped by itself: err=curve (the scripted curve
//                fails at evaluation after+1) or err=stall (never-stop fan, RPM drops to 0 at evaluation
//                after+1 while the request is at the maximum)
// With db=bad every database operation of the run fails, which takes `Run` through its error returns: a file fan
// returns before touching anything (`SaveFanPwmData`), a hwmon fan is swept and measured, cannot save, restores
// and returns the error (`RunInitializationSequence` failed / second `LoadFanPwmData` failed).
// A stop point that is not on the path of the declared fan falls back to cycle1. The result line ends with
// at=<where the cancellation was actually delivered> (none = `Run` returned before any cancellation).

const (
	lcTick          = 40 * time.Millisecond
	lcResponseDelay = 3 // seconds (configuration.FanResponseDelay): distinguishable from every other sleep
)

type lcFan struct {
	su       *suFan
	hwmon    bool
	origMode int
	origPwm  int
}

var (
	lcFans map[string]*lcFan
	lcDb   string
)

type lcRun struct {
	f       *lcFan
	fan     fans.Fan
	stop    string // startupWait | midSweep | afterSweep | midMeasure | headStart | cycle | idle | never
	k       int64
	errKind string
	after   int64

	cancel    context.CancelFunc
	cancelled int32
	at        atomic.Value
	runGid    int64

	writes int64
	evals  int64
	// touched only inside the device's OnWrite (serialised by the hook's lock)
	sweepLen  int
	lastV     int
	sawZero   bool
	afterDone bool
	frozen    int32
	// touched only inside the SleepHook (start-up sleeps are sequential)
	sleeps int64
	delays int64

	idleCh   chan struct{}
	failCh   chan struct{}
	idleOnce sync.Once
	failOnce sync.Once
}

// where: the point at which the cancellation is delivered (reported as at=…)
func (r *lcRun) doCancel(where string) {
	if atomic.CompareAndSwapInt32(&r.cancelled, 0, 1) {
		r.at.Store(where)
		r.cancel() // non-blocking: closes ctx.Done()
	}
}

func lcGid() int64 {
	var buf [64]byte
	n := runtime.Stack(buf[:], false)
	s := strings.TrimPrefix(string(buf[:n]), "goroutine ")
	if i := strings.IndexByte(s, ' '); i > 0 {
		id, _ := strconv.ParseInt(s[:i], 10, 64)
		return id
	}
	return -1
}

func (r *lcRun) preTicking() bool {
	switch r.stop {
	case "startupWait", "midSweep", "afterSweep", "midMeasure", "headStart":
		return true
	}
	return false
}

// the device's write hook (called with the hook's lock held: must not call back into verifhook)
func (r *lcRun) onWrite(e string) {
	atomic.AddInt64(&r.writes, 1)
	if atomic.LoadInt32(&r.frozen) != 0 {
		r.f.su.dev.Rpm = 0
	}
	if !strings.HasPrefix(e, "pwm=") {
		return
	}
	v, err := strconv.Atoi(strings.SplitN(e[4:], ":", 2)[0])
	if err != nil {
		return
	}
	if r.sawZero && !r.afterDone {
		// first PWM write after the staircase reached 0
		r.afterDone = true
		if r.stop == "afterSweep" {
			r.doCancel("afterSweep")
		}
	}
	if v == 255 {
		r.sweepLen, r.lastV = 1, 255
	} else if r.sweepLen > 0 && v == r.lastV-1 {
		r.sweepLen++
		r.lastV = v
		if r.sweepLen == 100 && r.stop == "midSweep" {
			r.doCancel("midSweep")
		}
		if v == 0 && r.sweepLen == 256 {
			r.sawZero, r.afterDone = true, false
		}
	} else {
		r.sweepLen = 0
	}
}

func (r *lcRun) onSleep(d time.Duration) {
	n := atomic.AddInt64(&r.sleeps, 1)
	switch {
	case n == 1 && r.stop == "startupWait":
		r.doCancel("startupWait")
	case d == lcResponseDelay*time.Second:
		if atomic.AddInt64(&r.delays, 1) == 2 && r.stop == "midMeasure" {
			r.doCancel("midMeasure")
		}
	case d == time.Second && r.stop == "headStart" && lcGid() != atomic.LoadInt64(&r.runGid):
		r.doCancel("headStart")
	}
}

type lcCurve struct {
	id string
	r  *lcRun
}

func (c *lcCurve) GetId() string     { return c.id }
func (c *lcCurve) CurrentValue() int { return 128 }

func lcWait(cond func() bool) {
	for i := 0; i < 4000 && !cond(); i++ {
		time.Sleep(500 * time.Microsecond)
	}
}

func (c *lcCurve) Evaluate() (int, error) {
	r := c.r
	n := atomic.AddInt64(&r.evals, 1)
	if n == 1 && r.preTicking() {
		r.doCancel("cycle1") // the stop point is not on this fan's path: behave like cycle1
	}
	if r.stop == "cycle" && n == r.k {
		r.doCancel(fmt.Sprintf("cycle%d", r.k))
	}
	if r.stop == "idle" && n == r.k {
		r.idleOnce.Do(func() { close(r.idleCh) })
	}
	switch r.errKind {
	case "curve":
		if n == r.after+1 {
			r.failOnce.Do(func() { close(r.failCh) })
			return 0, errors.New("scripted curve error")
		}
	case "stall":
		if n <= r.after {
			// the RPM monitor has seen the fan turning: no premature stall
			lcWait(func() bool { return r.fan.GetRpmAvg() >= 1 })
		} else if n == r.after+1 {
			atomic.StoreInt32(&r.frozen, 1)
			r.f.su.dev.Rpm = 0
			lcWait(func() bool { return r.fan.GetRpmAvg() < 1 })
			r.failOnce.Do(func() { close(r.failCh) })
		}
		return 255, nil
	}
	return 128, nil
}

func lcParseStop(s string) (kind string, k int64) {
	for _, p := range []string{"cycle", "idle"} {
		if strings.HasPrefix(s, p) {
			n, err := strconv.Atoi(s[len(p):])
			if err != nil || n < 1 {
				n = 1
			}
			return p, int64(n)
		}
	}
	return s, 0
}

func lcRestored(f *lcFan) bool {
	d := f.su.dev
	return (f.hwmon && f.origMode != 1 && d.Mode == f.origMode) || d.Pwm == 255
}

func lcDoRun(f *lcFan, a kv) string {
	r := &lcRun{f: f, idleCh: make(chan struct{}), failCh: make(chan struct{})}
	r.stop, r.k = lcParseStop(a.str("stop", "cycle1"))
	r.errKind = a.str("err", "")
	r.after = int64(a.int("after", 1))
	if r.stop == "never" && r.errKind != "curve" && r.errKind != "stall" {
		return "bad-op"
	}
	if r.stop != "never" {
		r.errKind = ""
	}
	if r.errKind == "stall" && r.after < 1 {
		r.after = 1
	}
	if r.after < 0 {
		r.after = 0
	}
	// the fan as fan2go finds it
	f.su.dev.Mode, f.su.dev.Pwm = f.origMode, f.origPwm
	f.su.dev.Rpm = 0
	if f.origPwm >= f.su.spinAt {
		f.su.dev.Rpm = 10 * f.origPwm
	}
	prev := f.su.dev.OnWrite
	f.su.dev.OnWrite = func(e string) {
		if prev != nil {
			prev(e)
		}
		r.onWrite(e)
	}
	defer func() { f.su.dev.OnWrite = prev }()
	verifhook.SleepHook = r.onSleep
	defer func() { verifhook.SleepHook = nil }()

	r.fan = f.su.newFan()
	curves.RegisterSpeedCurve(&lcCurve{id: f.su.cfg.Curve, r: r})
	db := lcDb
	if a.str("db", "ok") == "bad" {
		// every database operation fails (the parent of the path is a regular file): `Run` takes its error returns
		db = suDir + "/notadir/fan2go.db"
	}
	p := persistence.NewPersistence(db)
	c := controller.NewFanController(p, r.fan, control_loop.NewDirectControlLoop(nil), lcTick)
	ctx, cancel := context.WithCancel(context.Background())
	r.cancel = cancel
	defer cancel()

	errCh := make(chan error, 1)
	go func() {
		atomic.StoreInt64(&r.runGid, lcGid())
		defer func() {
			if x := recover(); x != nil {
				errCh <- fmt.Errorf("panic:%s", panicClass(x))
			}
		}()
		errCh <- c.Run(ctx)
	}()

	var err error
	timeout := time.After(40 * time.Second)
	idleCh, failCh := r.idleCh, r.failCh
	done := false
	hang := false
	for !done {
		select {
		case err = <-errCh:
			done = true
		case <-idleCh:
			idleCh = nil
			time.Sleep(3 * time.Millisecond) // the k-th cycle has returned; the controller waits in its select
			r.doCancel(fmt.Sprintf("idle%d", r.k))
		case <-failCh:
			failCh = nil
			// the controller stops by itself (restorePwmEnabled, actor returns); with an RPM monitor actor
			// `Run` only returns once the context is cancelled
			time.Sleep(10 * time.Millisecond)
			r.doCancel("never")
		case <-timeout:
			r.doCancel("timeout")
			hang = true
			select {
			case err = <-errCh:
			case <-time.After(5 * time.Second):
			}
			done = true
		}
	}
	ret := "nil"
	switch {
	case hang:
		ret = "hang"
	case err != nil && strings.HasPrefix(err.Error(), "panic:"):
		ret = err.Error()
	case err != nil:
		ret = "err"
	}
	at, _ := r.at.Load().(string)
	if at == "" {
		at = "none" // `Run` returned before any cancellation
	}
	if r.stop == "never" && !hang {
		at = "never" // no scripted interruption (the context is only cancelled to let a stopped controller's `Run` return)
	}
	return fmt.Sprintf("ret=%s touched=%s restored=%s mode=%d pwm=%d evals=%d at=%s", ret,
		b01(atomic.LoadInt64(&r.writes) > 0), b01(lcRestored(f)), f.su.dev.Mode, f.su.dev.Pwm, atomic.LoadInt64(&r.evals), at)
}

func init() {
	register("lc", func(op string, a kv) string {
		switch op {
		case "lc.open":
			if suDir != "" {
				verifhook.UnbindAll()
				os.RemoveAll(suDir)
			}
			d, err := os.MkdirTemp("", "veriflifecycle")
			if err != nil {
				panic(err)
			}
			suDir = d // suNewFan puts the fan's files below suDir
			cleanups = append(cleanups, func() { os.RemoveAll(d) })
			lcDb = d + "/fan2go.db"
			_ = os.WriteFile(d+"/notadir", []byte("x"), 0644)
			suDb = lcDb
			suFans = map[string]*suFan{}
			lcFans = map[string]*lcFan{}
			suEvents = nil
			_ = os.Unsetenv("DISPLAY")
			configuration.CurrentConfig.RunFanInitializationInParallel = true
			configuration.CurrentConfig.RpmPollingRate = 2 * time.Millisecond
			configuration.CurrentConfig.RpmRollingWindowSize = 1
			configuration.CurrentConfig.TempSensorPollingRate = 200 * time.Millisecond
			configuration.CurrentConfig.MaxRpmDiffForSettledFan = 20
			configuration.CurrentConfig.FanResponseDelay = lcResponseDelay
			verifhook.SetClock(1_000_000_000)
			verifhook.SleepHook = nil
			return "ok"
		case "lc.fan":
			if lcFans == nil {
				return "bad-op"
			}
			su := suNewFan(a)
			su.dev.Log = nil
			f := &lcFan{su: su, hwmon: su.kind == "hwmon", origMode: a.int("origmode", 2), origPwm: a.int("origpwm", 100)}
			su.dev.Mode, su.dev.Pwm = f.origMode, f.origPwm
			lcFans[su.id] = f
			// pre-populate the database through the real persistence
			p := persistence.NewPersistence(lcDb)
			if err := p.Init(); err != nil {
				return "err"
			}
			stored := a.str("stored", "none")
			if stored == "rpm" || stored == "both" {
				fan := su.newFan()
				if f.hwmon {
					data := map[int]float64{}
					for v := 0; v <= 255; v++ {
						if v >= su.spinAt {
							data[v] = float64(10 * v)
						} else {
							data[v] = 0
						}
					}
					if err := fan.AttachFanRpmCurveData(&data); err != nil {
						return "err"
					}
				}
				if err := p.SaveFanPwmData(fan); err != nil {
					return "err"
				}
			}
			if stored == "both" {
				m := map[int]int{}
				for v := 0; v <= 255; v++ {
					m[v] = v
				}
				if err := p.SaveFanPwmMap(su.id, m); err != nil {
					return "err"
				}
			}
			return "ok"
		case "lc.run":
			f := lcFans[a.str("fan", "f1")]
			if f == nil {
				return "bad-op"
			}
			return lcDoRun(f, a)
		case "lc.stored":
			f := lcFans[a.str("fan", "f1")]
			if f == nil {
				return "bad-op"
			}
			p := persistence.NewPersistence(lcDb)
			_, e1 := p.LoadFanPwmData(f.su.newFan())
			_, e2 := p.LoadFanPwmMap(f.su.id)
			return fmt.Sprintf("rpm=%s map=%s", b01(e1 == nil), b01(e2 == nil))
		}
		return "bad-op"
	})
}
