//go:build verif

package main

import (
	"fmt"
	"strconv"
	"strings"

	"github.com/markusressel/fan2go/internal"
	"github.com/markusressel/fan2go/internal/configuration"
	"github.com/markusressel/fan2go/internal/controller"
	"github.com/markusressel/fan2go/internal/curves"
	"github.com/markusressel/fan2go/internal/fans"
	"github.com/markusressel/fan2go/internal/verifhook"
	"github.com/prometheus/client_golang/prometheus"
)

// Wiring stream (C04, C01): which control algorithm the REAL internal.initializeFanControllers creates for a fan
// configuration (controlAlgorithm absent / direct / direct with limit / pid / the deprecated controlLoop block),
// observed through the behaviour of the created loop on a few Cycle calls in virtual time.
//
//	wire.loop ca=<none|direct|directm:<m>|pid:<p>:<i>:<d>|legacy:<p>:<i>:<d>> seq=<target>:<current>:<now>;...
//	    -> ok out=<r1>,<r2>,...

var wireCounter int

// wireCfg builds the fan configuration for a control-algorithm spelling
func wireCfg(id, cid, ca string) configuration.FanConfig {
	cfg := configuration.FanConfig{ID: id, Curve: cid, File: &configuration.FileFanConfig{Path: "/nonexistent-verif/pwm-" + id}}
	parts := strings.Split(ca, ":")
	switch parts[0] {
	case "direct":
		cfg.ControlAlgorithm = &configuration.ControlAlgorithmConfig{Direct: &configuration.DirectControlAlgorithmConfig{}}
	case "pid":
		cfg.ControlAlgorithm = &configuration.ControlAlgorithmConfig{Pid: &configuration.PidControlAlgorithmConfig{
			P: parseF(parts[1]), I: parseF(parts[2]), D: parseF(parts[3])}}
	}
	return cfg
}

// wire.group cas=<ca>,<ca>,...: SEVERAL fans wired by one call of the real initializeFanControllers: every controller
// has to get control-loop state of its own (a PID loop carries an integral, the previous error and a timestamp)
//
//	-> ok n=<controllers> shared=<number of pairs of controllers holding the SAME loop object>
func wireGroup(a kv) string {
	m := map[configuration.FanConfig]fans.Fan{}
	for i, ca := range strings.Split(a.str("cas", "none,none"), ",") {
		wireCounter++
		id := fmt.Sprintf("wirefan%d_%d", wireCounter, i)
		cid := fmt.Sprintf("wirecurve%d_%d", wireCounter, i)
		cfg := wireCfg(id, cid, ca)
		fan, err := fans.NewFan(cfg)
		if err != nil {
			return "err"
		}
		curves.RegisterSpeedCurve(&scriptCurve{id: cid})
		m[cfg] = fan
	}
	savedReg := prometheus.DefaultRegisterer
	prometheus.DefaultRegisterer = prometheus.NewRegistry()
	defer func() { prometheus.DefaultRegisterer = savedReg }()
	ctls, err := internal.VerifInitializeFanControllers(nil, m)
	if err != nil {
		return "err"
	}
	var loops []interface{ Cycle(int, int) int }
	for _, c := range ctls {
		loops = append(loops, c.(*controller.VerifController).VerifControlLoop())
	}
	shared := 0
	for i := range loops {
		for j := i + 1; j < len(loops); j++ {
			if loops[i] != nil && loops[i] == loops[j] {
				shared++
			}
		}
	}
	return fmt.Sprintf("ok n=%d shared=%d", len(loops), shared)
}

func init() {
	register("wire", func(op string, a kv) string {
		if op == "wire.group" {
			return wireGroup(a)
		}
		if op != "wire.loop" {
			return "bad-op"
		}
		wireCounter++
		id := fmt.Sprintf("wirefan%d", wireCounter)
		cid := fmt.Sprintf("wirecurve%d", wireCounter)
		cfg := configuration.FanConfig{ID: id, Curve: cid, File: &configuration.FileFanConfig{Path: "/nonexistent-verif/pwm"}}
		parts := strings.Split(a.str("ca", "none"), ":")
		switch parts[0] {
		case "none":
		case "direct":
			cfg.ControlAlgorithm = &configuration.ControlAlgorithmConfig{Direct: &configuration.DirectControlAlgorithmConfig{}}
		case "directm":
			m, _ := strconv.Atoi(parts[1])
			cfg.ControlAlgorithm = &configuration.ControlAlgorithmConfig{Direct: &configuration.DirectControlAlgorithmConfig{MaxPwmChangePerCycle: &m}}
		case "pid":
			cfg.ControlAlgorithm = &configuration.ControlAlgorithmConfig{Pid: &configuration.PidControlAlgorithmConfig{
				P: parseF(parts[1]), I: parseF(parts[2]), D: parseF(parts[3])}}
		case "legacy":
			cfg.ControlLoop = &configuration.ControlLoopConfig{P: parseF(parts[1]), I: parseF(parts[2]), D: parseF(parts[3])} //nolint:all
		case "both": // deprecated block AND controlAlgorithm: the deprecated one wins in the code
			cfg.ControlLoop = &configuration.ControlLoopConfig{P: parseF(parts[1]), I: parseF(parts[2]), D: parseF(parts[3])} //nolint:all
			cfg.ControlAlgorithm = &configuration.ControlAlgorithmConfig{Direct: &configuration.DirectControlAlgorithmConfig{}}
		}
		fan, err := fans.NewFan(cfg)
		if err != nil {
			return "err"
		}
		curves.RegisterSpeedCurve(&scriptCurve{id: cid})
		savedReg := prometheus.DefaultRegisterer
		prometheus.DefaultRegisterer = prometheus.NewRegistry()
		defer func() { prometheus.DefaultRegisterer = savedReg }()
		ctls, err := internal.VerifInitializeFanControllers(nil, map[configuration.FanConfig]fans.Fan{cfg: fan})
		if err != nil || len(ctls) != 1 {
			return "err"
		}
		var loop interface{ Cycle(int, int) int }
		for _, c := range ctls {
			loop = c.(*controller.VerifController).VerifControlLoop()
		}
		if loop == nil {
			return "ok out=nil-loop"
		}
		var outs []string
		for _, st := range strings.Split(a.str("seq", ""), ";") {
			if st == "" {
				continue
			}
			f := strings.Split(st, ":")
			t, _ := strconv.Atoi(f[0])
			c, _ := strconv.Atoi(f[1])
			now, _ := strconv.ParseInt(f[2], 10, 64)
			verifhook.SetClock(now)
			outs = append(outs, strconv.Itoa(loop.Cycle(t, c)))
		}
		return "ok out=" + strings.Join(outs, ",")
	})
}
