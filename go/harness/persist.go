//go:build verif

package main

// Stream "ps": internal/persistence against a real bbolt file (C14).
//
//	ps.open                                  fresh temp db file + persistence.NewPersistence(path) + Init()
//	ps.reopen                                a new Persistence value on the same file
//	ps.saverpm id=<id> data=<k:xbits,...>    SaveFanPwmData   (data=nil: pointer to a nil map, data=nilptr: nil pointer)
//	ps.loadrpm id=<id>                       LoadFanPwmData
//	ps.delrpm  id=<id>                       DeleteFanPwmData
//	ps.savemap id=<id> m=<k:v,...>           SaveFanPwmMap    (m=nil: nil map)
//	ps.loadmap id=<id>                       LoadFanPwmMap
//	ps.delmap  id=<id>                       DeleteFanPwmMap
//	ps.putraw  kind=rpm|map id=<id> hex=<bytes> [dec=...]
//	                                         raw bytes written with bbolt directly (hex=- : empty value);
//	                                         dec= is the model's input (what json.Unmarshal does with the
//	                                         bytes) and is ignored here
//	ps.crashsave ...                         see persist_crash.go
//
// Output: `ok` | `err:notfound` (errors.Is(err, os.ErrNotExist)) | `err`; loads print `ok <map>`.

import (
	"encoding/hex"
	"errors"
	"fmt"
	"os"
	"path/filepath"
	"runtime"
	"sync"
	"sync/atomic"
	"time"

	"github.com/markusressel/fan2go/internal/configuration"
	"github.com/markusressel/fan2go/internal/fans"
	"github.com/markusressel/fan2go/internal/persistence"
	bolt "go.etcd.io/bbolt"
)

type psState struct {
	dir  string
	path string
	p    persistence.Persistence
}

var curPs *psState

// psExtra: further `ps.*` operations registered by other files of this package (persist_crash.go).
var psExtra = map[string]func(a kv) string{}

func psErr(err error) string {
	switch {
	case err == nil:
		return "ok"
	case errors.Is(err, os.ErrNotExist):
		return "err:notfound"
	}
	return "err"
}

func psClose() {
	if curPs != nil {
		_ = os.RemoveAll(curPs.dir)
		curPs = nil
	}
}

func psOpen() string {
	psClose()
	dir, err := os.MkdirTemp("", "verif-ps-")
	if err != nil {
		return "err"
	}
	// the db lives in a directory that does not exist yet: Init() has to create it
	path := filepath.Join(dir, "state", "fan2go.db")
	curPs = &psState{dir: dir, path: path, p: persistence.NewPersistence(path)}
	return psErr(curPs.p.Init())
}

// psFan builds the fan handed to Save/Load/DeleteFanPwmData: only GetId() and
// GetFanRpmCurveData() are used by the persistence code.
func psFan(id string, data *map[int]float64) fans.Fan {
	return &fans.HwMonFan{Config: configuration.FanConfig{ID: id}, FanCurveData: data}
}

func psBucket(kind string) string {
	switch kind {
	case "rpm":
		return persistence.BucketFans
	case "map":
		return persistence.BucketFanPwmMap
	}
	panic("bad kind " + kind)
}

// psPutRaw stores arbitrary bytes under the fan id, bypassing fan2go.
func psPutRaw(path, kind, id string, val []byte) error {
	db, err := bolt.Open(path, 0600, nil)
	if err != nil {
		return err
	}
	defer func() { _ = db.Close() }()
	return db.Update(func(tx *bolt.Tx) error {
		b, err := tx.CreateBucketIfNotExists([]byte(psBucket(kind)))
		if err != nil {
			return err
		}
		return b.Put([]byte(id), val)
	})
}

// psParallel: `n` saves of different fans' RPM curves and PWM maps in flight at once (queued behind the database file
// lock, which the harness holds until all of them are waiting), then every entry is loaded and compared with what was
// saved. Ids `par<i>` are used by nothing else.
func psParallel(a kv) string {
	n, seed := a.int("n", 8), a.int("seed", 1)
	if p := a.int("procs", 0); p > 0 {
		old := runtime.GOMAXPROCS(p)
		defer runtime.GOMAXPROCS(old)
	}
	mkData := func(i int) map[int]float64 {
		m := map[int]float64{}
		for k := 0; k < 2+(i*7+seed)%9; k++ {
			m[(k*37+i*11+seed)%256] = float64((i+1)*100 + k*13 + seed)
		}
		return m
	}
	mkMap := func(i int) map[int]int {
		m := map[int]int{}
		for k := 0; k < 1+(i*5+seed)%12; k++ {
			m[(k*29+i*3)%256] = (k*17 + i*31 + seed) % 256
		}
		return m
	}
	db, err := bolt.Open(curPs.path, 0600, nil) // hold the file lock: the saves queue up behind it
	if err != nil {
		return "err"
	}
	var wg sync.WaitGroup
	var failed int64
	for i := 0; i < n; i++ {
		wg.Add(2)
		go func(i int) {
			defer wg.Done()
			d := mkData(i)
			if err := persistence.NewPersistence(curPs.path).SaveFanPwmData(psFan(fmt.Sprintf("par%d", i), &d)); err != nil {
				atomic.AddInt64(&failed, 1)
			}
		}(i)
		go func(i int) {
			defer wg.Done()
			if err := persistence.NewPersistence(curPs.path).SaveFanPwmMap(fmt.Sprintf("par%d", i), mkMap(i)); err != nil {
				atomic.AddInt64(&failed, 1)
			}
		}(i)
	}
	time.Sleep(time.Duration(a.int("hold_ms", 30)) * time.Millisecond)
	_ = db.Close()
	wg.Wait()
	bad := 0
	for i := 0; i < n; i++ {
		id := fmt.Sprintf("par%d", i)
		d, err := curPs.p.LoadFanPwmData(psFan(id, nil))
		if err != nil || fmtFloatMap(d) != fmtFloatMap(mkData(i)) {
			bad++
		}
		m, err := curPs.p.LoadFanPwmMap(id)
		if err != nil || fmtIntMap(m) != fmtIntMap(mkMap(i)) {
			bad++
		}
	}
	return fmt.Sprintf("ok failed=%d bad=%d", atomic.LoadInt64(&failed), bad)
}

// psDelSave: the database holds ONE entry; its deletion and the save of ANOTHER fan's entry are both waiting for the
// database file (held by a third handle) and run one after the other in whatever order the lock is handed on. The save
// reported success, so the entry must be loadable afterwards. `trials` rounds; the database must be empty when the op
// starts (the generator only uses it directly after ps.open) and is empty again when it ends.
func psDelSave(a kv) string {
	trials, seed := a.int("trials", 8), a.int("seed", 1)
	bad, failed := 0, 0
	for t := 0; t < trials; t++ {
		ida, idb := fmt.Sprintf("dsA%d", t), fmt.Sprintf("dsB%d", t)
		da := map[int]float64{10: float64(100 + t + seed)}
		dbv := map[int]float64{20 + t%50: float64(200 + t + seed), 200: 3000}
		if err := curPs.p.SaveFanPwmData(psFan(ida, &da)); err != nil {
			return "err"
		}
		db, err := bolt.Open(curPs.path, 0600, nil)
		if err != nil {
			return "err"
		}
		var wg sync.WaitGroup
		var e1, e2 error
		wg.Add(2)
		first := func() { defer wg.Done(); e1 = persistence.NewPersistence(curPs.path).DeleteFanPwmData(psFan(ida, nil)) }
		second := func() { defer wg.Done(); e2 = persistence.NewPersistence(curPs.path).SaveFanPwmData(psFan(idb, &dbv)) }
		if (t+seed)%2 == 0 {
			go first()
			time.Sleep(3 * time.Millisecond)
			go second()
		} else {
			go second()
			time.Sleep(3 * time.Millisecond)
			go first()
		}
		time.Sleep(time.Duration(a.int("hold_ms", 25)) * time.Millisecond)
		_ = db.Close()
		wg.Wait()
		if e1 != nil || e2 != nil {
			failed++
		}
		got, err := persistence.NewPersistence(curPs.path).LoadFanPwmData(psFan(idb, nil))
		if e2 == nil && (err != nil || fmtFloatMap(got) != fmtFloatMap(dbv)) {
			bad++
		}
		_ = persistence.NewPersistence(curPs.path).DeleteFanPwmData(psFan(idb, nil))
		_ = persistence.NewPersistence(curPs.path).DeleteFanPwmData(psFan(ida, nil))
	}
	return fmt.Sprintf("ok failed=%d bad=%d", failed, bad)
}

// psInitBusy: a controller starting up calls Init() while another handle (a controller that is loading or saving, a
// `fan2go fan ...` command) holds the database file for `hold_ms`. Init must leave the stored entries alone.
func psInitBusy(a kv) string {
	db, err := bolt.Open(curPs.path, 0600, nil)
	if err != nil {
		return "err"
	}
	done := make(chan error, 1)
	go func() {
		defer func() {
			if r := recover(); r != nil {
				done <- fmt.Errorf("panic: %v", r)
			}
		}()
		done <- persistence.NewPersistence(curPs.path).Init()
	}()
	time.Sleep(time.Duration(a.int("hold_ms", 200)) * time.Millisecond)
	_ = db.Close()
	select {
	case err = <-done:
	case <-time.After(20 * time.Second):
		return "hang"
	}
	return psErr(err)
}

// psInitSparse: the database file is mostly unused pages (many fans were saved and deleted again); a controller starts up
// (Init) while another handle holds the file, and other controllers' saves queue up behind the same lock. Whatever Init
// does with such a file, every save that reported success is there for the next load (seed C14k: Init compacted the file
// into a copy and renamed it over the database - writers that had opened the old file committed into the unlinked one).
func psInitSparse(a kv) string {
	rounds, savers := a.int("rounds", 2), a.int("savers", 4)
	failed, lost := 0, 0
	for t := 0; t < rounds; t++ {
		big := map[int]float64{}
		for k := 0; k < 256; k++ {
			big[k] = float64(1000 + k)
		}
		n := a.int("n", 24)
		for i := 0; i < n; i++ {
			if err := curPs.p.SaveFanPwmData(psFan(fmt.Sprintf("spx%d", i), &big)); err != nil {
				return "err"
			}
		}
		for i := 0; i < n; i++ {
			_ = curPs.p.DeleteFanPwmData(psFan(fmt.Sprintf("spx%d", i), nil))
		}
		db, err := bolt.Open(curPs.path, 0600, nil)
		if err != nil {
			return "err"
		}
		var wg sync.WaitGroup
		errs := make([]error, savers+1)
		wg.Add(1)
		go func() {
			defer wg.Done()
			defer func() {
				if r := recover(); r != nil {
					errs[savers] = fmt.Errorf("panic: %v", r)
				}
			}()
			errs[savers] = persistence.NewPersistence(curPs.path).Init()
		}()
		time.Sleep(5 * time.Millisecond)
		for i := 0; i < savers; i++ {
			wg.Add(1)
			go func(i int) {
				defer wg.Done()
				errs[i] = persistence.NewPersistence(curPs.path).SaveFanPwmMap(fmt.Sprintf("sps%d", i), map[int]int{0: t, 255: 200 + i})
			}(i)
			time.Sleep(7 * time.Millisecond)
		}
		time.Sleep(time.Duration(a.int("hold_ms", 60)) * time.Millisecond)
		_ = db.Close()
		wg.Wait()
		for i := 0; i <= savers; i++ {
			if errs[i] != nil {
				failed++
			}
		}
		for i := 0; i < savers; i++ {
			id := fmt.Sprintf("sps%d", i)
			got, err := persistence.NewPersistence(curPs.path).LoadFanPwmMap(id)
			if errs[i] == nil && (err != nil || got[0] != t || got[255] != 200+i) {
				lost++
			}
			_ = persistence.NewPersistence(curPs.path).DeleteFanPwmMap(id)
		}
	}
	return fmt.Sprintf("ok failed=%d lost=%d", failed, lost)
}

// psLookups: several controllers of one daemon look their stored entries up again and again, each at its own pace (jittered
// pauses), for `ms` milliseconds: every load of an intact stored entry returns that entry (seed C14l: a reference-counted
// shared database handle was closed by its last user while the next one was taking it).
func psLookups(a kv) string {
	workers, ms, seed := a.int("workers", 6), a.int("ms", 1200), a.int("seed", 1)
	want := map[string]map[int]int{}
	for i := 0; i < workers; i++ {
		id := fmt.Sprintf("lk%d", i)
		want[id] = map[int]int{0: seed, 255: 100 + i}
		if err := curPs.p.SaveFanPwmMap(id, want[id]); err != nil {
			return "err"
		}
	}
	deadline := time.Now().Add(time.Duration(ms) * time.Millisecond)
	var wg sync.WaitGroup
	var failed, bad, loads int64
	for w := 0; w < workers; w++ {
		wg.Add(1)
		go func(w int) {
			defer wg.Done()
			id := fmt.Sprintf("lk%d", w)
			x := uint32(seed*977 + w*131 + 7)
			for time.Now().Before(deadline) {
				got, err := persistence.NewPersistence(curPs.path).LoadFanPwmMap(id)
				atomic.AddInt64(&loads, 1)
				if err != nil {
					atomic.AddInt64(&failed, 1)
				} else if got[0] != want[id][0] || got[255] != want[id][255] {
					atomic.AddInt64(&bad, 1)
				}
				x = x*1664525 + 1013904223
				time.Sleep(time.Duration(x>>22) * time.Microsecond * time.Duration(1+w%3) / 3) // 0 .. ~1 ms, a pace of its own
			}
		}(w)
	}
	wg.Wait()
	for id := range want {
		_ = curPs.p.DeleteFanPwmMap(id)
	}
	return fmt.Sprintf("ok failed=%d bad=%d", failed, bad)
}

func init() {
	cleanups = append(cleanups, psClose)
	register("ps", func(op string, a kv) string {
		if op == "ps.open" {
			return psOpen()
		}
		if curPs == nil {
			return "bad-op"
		}
		id := a.str("id", "")
		switch op {
		case "ps.parallel":
			return psParallel(a)
		case "ps.initbusy":
			return psInitBusy(a)
		case "ps.delsave":
			return psDelSave(a)
		case "ps.lookups":
			return psLookups(a)
		case "ps.initsparse":
			return psInitSparse(a)
		case "ps.reopen":
			curPs.p = persistence.NewPersistence(curPs.path)
			return "ok"
		case "ps.saverpm":
			var ptr *map[int]float64
			if d := a.str("data", "-"); d != "nilptr" {
				m, _ := parseFloatMap(d) // "nil" gives a nil map
				ptr = &m
			}
			return psErr(curPs.p.SaveFanPwmData(psFan(id, ptr)))
		case "ps.loadrpm":
			m, err := curPs.p.LoadFanPwmData(psFan(id, nil))
			if err != nil {
				return psErr(err)
			}
			return "ok " + fmtFloatMap(m)
		case "ps.delrpm":
			return psErr(curPs.p.DeleteFanPwmData(psFan(id, nil)))
		case "ps.savemap":
			m, _ := parseIntMap(a.str("m", "-"))
			return psErr(curPs.p.SaveFanPwmMap(id, m))
		case "ps.loadmap":
			m, err := curPs.p.LoadFanPwmMap(id)
			if err != nil {
				return psErr(err)
			}
			return "ok " + fmtIntMap(m)
		case "ps.delmap":
			return psErr(curPs.p.DeleteFanPwmMap(id))
		case "ps.putraw":
			val := []byte{}
			if h := a.str("hex", "-"); h != "-" {
				var err error
				if val, err = hex.DecodeString(h); err != nil {
					panic("bad hex " + h)
				}
			}
			return psErr(psPutRaw(curPs.path, a.str("kind", "rpm"), id, val))
		}
		if h, ok := psExtra[op]; ok {
			return h(a)
		}
		return "bad-op"
	})
}
