//go:build verif

package main

import (
	"math"
	"strconv"

	"github.com/markusressel/fan2go/internal/control_loop"
	"github.com/markusressel/fan2go/internal/util"
	"github.com/markusressel/fan2go/internal/verifhook"
)

var (
	curPid  *util.PidLoop
	curLoop control_loop.ControlLoop
)

func b2s(b bool) string {
	if b {
		return "b1"
	}
	return "b0"
}

func init() {
	register("f64", func(op string, a kv) string {
		x, y := a.f64("a", 0), a.f64("b", 0)
		switch a.str("op", "") {
		case "add":
			return fmtF(x + y)
		case "sub":
			return fmtF(x - y)
		case "mul":
			return fmtF(x * y)
		case "div":
			return fmtF(x / y)
		case "lt":
			return b2s(x < y)
		case "le":
			return b2s(x <= y)
		case "eq":
			return b2s(x == y)
		case "toint":
			return "i" + strconv.Itoa(int(x))
		case "round":
			return fmtF(math.Round(x))
		case "ceil":
			return fmtF(math.Ceil(x))
		case "tof32":
			return fmtF(float64(float32(x)))
		case "ofint":
			return fmtF(float64(a.int("n", 0)))
		case "min":
			return fmtF(math.Min(x, y))
		case "max":
			return fmtF(math.Max(x, y))
		case "neg":
			return fmtF(-x)
		case "abs":
			return fmtF(math.Abs(x))
		}
		return "bad-op"
	})
	register("util", func(op string, a kv) string {
		switch op {
		case "util.coerce":
			return fmtF(util.Coerce(a.f64("v", 0), a.f64("lo", 0), a.f64("hi", 0)))
		case "util.ratio":
			return fmtF(util.Ratio(a.f64("t", 0), a.f64("a", 0), a.f64("b", 0)))
		case "util.sma":
			return fmtF(util.UpdateSimpleMovingAvg(a.f64("old", 0), a.int("n", 1), a.f64("new", 0)))
		case "util.interp":
			m, _ := parseFloatMap(a.str("steps", "-"))
			return fmtF(util.CalculateInterpolatedCurveValue(m, util.InterpolationTypeLinear, a.f64("in", 0)))
		case "util.closest":
			return "i" + strconv.Itoa(util.FindClosest(a.int("t", 0), parseInts(a.str("arr", "-"))))
		case "util.distinct":
			m, _ := parseIntMap(a.str("m", "-"))
			return fmtInts(util.ExtractKeysWithDistinctValues(m))
		}
		return "bad-op"
	})
	register("pid", func(op string, a kv) string {
		switch op {
		case "pid.new":
			curPid = util.NewPidLoop(a.f64("p", 0), a.f64("i", 0), a.f64("d", 0))
			return "ok"
		case "pid.loop":
			verifhook.SetClock(int64(a.int("now", 0)))
			out := curPid.Loop(a.f64("target", 0), a.f64("measured", 0))
			e, i, _ := curPid.VerifState()
			return fmtF(out) + " err=" + fmtF(e) + " int=" + fmtF(i)
		}
		return "bad-op"
	})
	register("loop", func(op string, a kv) string {
		switch op {
		case "loop.new":
			curLoop = newLoop(a)
			return "ok"
		case "loop.cycle":
			verifhook.SetClock(int64(a.int("now", 0)))
			return "i" + strconv.Itoa(curLoop.Cycle(a.int("target", 0), a.int("current", 0)))
		}
		return "bad-op"
	})
}

// loop=direct m=<int|-> | loop=pid p= i= d=
func newLoop(a kv) control_loop.ControlLoop {
	switch a.str("loop", "direct") {
	case "piddefault": // the gains fan2go uses when the configuration names no control algorithm
		return control_loop.NewPidControlLoop(control_loop.DefaultPidConfig.P, control_loop.DefaultPidConfig.I, control_loop.DefaultPidConfig.D)
	case "pid":
		return control_loop.NewPidControlLoop(a.f64("p", 0), a.f64("i", 0), a.f64("d", 0))
	default:
		return control_loop.NewDirectControlLoop(a.optInt("m"))
	}
}
