//go:build verif

package main

import (
	"errors"
	"strconv"
	"strings"
	"sync"
	"time"

	"github.com/markusressel/fan2go/internal/configuration"
	"github.com/markusressel/fan2go/internal/curves"
	"github.com/markusressel/fan2go/internal/sensors"
	"github.com/markusressel/fan2go/internal/verifhook"
)

// mockSensor implements sensors.Sensor; the harness sets what curves see.
type mockSensor struct {
	id     string
	avg    float64
	value  float64
	valErr error
	// gate: the gateAt-th GetMovingAvg call after arming blocks until released (forces one evaluation of a curve to
	// be suspended in the middle of its member loop while another one runs: op cv.evalpair)
	gmu     sync.Mutex
	gateAt  int
	gateCnt int
	blocked chan struct{}
	release chan struct{}
	// then: the sensor monitor stores this reading right after the next GetMovingAvg call (`cv.sensor ... then=`)
	then *float64
}

func (s *mockSensor) arm(n int) {
	s.gmu.Lock()
	s.gateAt, s.gateCnt = n, 0
	s.blocked, s.release = make(chan struct{}), make(chan struct{})
	s.gmu.Unlock()
}

func (s *mockSensor) GetId() string { return s.id }
func (s *mockSensor) GetConfig() configuration.SensorConfig {
	return configuration.SensorConfig{ID: s.id}
}
func (s *mockSensor) GetValue() (float64, error) { return s.value, s.valErr }
func (s *mockSensor) GetMovingAvg() float64 {
	s.gmu.Lock()
	hit := false
	if s.gateAt > 0 {
		s.gateCnt++
		if s.gateCnt == s.gateAt {
			hit = true
			s.gateAt = 0
		}
	}
	bl, rel := s.blocked, s.release
	s.gmu.Unlock()
	if hit {
		close(bl)
		<-rel
	}
	s.gmu.Lock()
	v := s.avg
	if s.then != nil {
		s.avg, s.then = *s.then, nil
	}
	s.gmu.Unlock()
	return v
}
func (s *mockSensor) SetMovingAvg(avg float64) { s.avg = avg }

var cvCounter = 0
var cvPrefix = ""

// ids are namespaced per case so that the global registries never leak between cases
func cvId(id string) string { return cvPrefix + id }

func init() {
	register("cv", func(op string, a kv) string {
		switch op {
		case "cv.reset":
			cvCounter++
			cvPrefix = "c" + strconv.Itoa(cvCounter) + "_"
			// the daemon's default controller tick: evaluations of one curve come far closer together than that when several
			// fans (or function curves) share it - a curve's value is a function of the sensor state all the same
			configuration.CurrentConfig.ControllerAdjustmentTickRate = 200 * time.Millisecond
			return "ok"
		case "cv.sensor":
			s := &mockSensor{id: cvId(a.str("id", "s")), avg: a.f64("avg", 0)}
			if v := a.str("val", "err"); v == "err" {
				s.valErr = errors.New("sensor read failed")
			} else {
				s.value = parseF(v)
			}
			if t := a.str("then", ""); t != "" {
				v := parseF(t)
				s.then = &v
			}
			sensors.RegisterSensor(s)
			return "ok"
		case "cv.add":
			cfg := configuration.CurveConfig{ID: cvId(a.str("id", "c"))}
			switch a.str("kind", "linear") {
			case "linear":
				lc := &configuration.LinearCurveConfig{Sensor: cvId(a.str("sensor", "s")), Min: a.int("min", 0), Max: a.int("max", 0)}
				if st := a.str("steps", "nil"); st != "nil" {
					m, _ := parseFloatMap(st)
					lc.Steps = m
				}
				cfg.Linear = lc
			case "pid":
				cfg.PID = &configuration.PidCurveConfig{Sensor: cvId(a.str("sensor", "s")), SetPoint: a.f64("sp", 0),
					P: a.f64("p", 0), I: a.f64("i", 0), D: a.f64("d", 0)}
			case "function":
				var members []string
				if ms := a.str("members", "-"); ms != "-" {
					for _, m := range strings.Split(ms, ",") {
						members = append(members, cvId(m))
					}
				}
				cfg.Function = &configuration.FunctionCurveConfig{Type: a.str("type", "sum"), Curves: members}
			}
			c, err := curves.NewSpeedCurve(cfg)
			if err != nil {
				return "err"
			}
			curves.RegisterSpeedCurve(c)
			return "ok"
		case "cv.evalpair":
			// two evaluations of the SAME curve object, the first one suspended inside a sensor read of one of its
			// (transitive) members while the second runs to completion: what two fan controllers sharing a curve do
			verifhook.SetClock(int64(a.int("now", 0)))
			c, ok := curves.GetSpeedCurve(cvId(a.str("id", "c")))
			if !ok {
				return "panic:nil"
			}
			sn, ok := sensors.GetSensor(cvId(a.str("gate", "s")))
			ms, isMock := sn.(*mockSensor)
			if !ok || !isMock {
				return "panic:nil"
			}
			ms.arm(a.int("n", 1))
			run := func() string {
				res := ""
				func() {
					defer func() {
						if r := recover(); r != nil {
							res = "panic:" + panicClass(r)
						}
					}()
					v, err := c.Evaluate()
					if err != nil {
						res = "err"
					} else {
						res = "i" + strconv.Itoa(v)
					}
				}()
				return res
			}
			aDone := make(chan string, 1)
			go func() { aDone <- run() }()
			ra, rb := "", ""
			select {
			case <-ms.blocked: // A is suspended in the middle
			case ra = <-aDone: // A never reached the gate
			case <-time.After(5 * time.Second):
			}
			ms.gmu.Lock()
			ms.gateAt = 0 // B never blocks
			ms.gmu.Unlock()
			// set=<sensor>:<avg>: while A is suspended, another sensor's smoothed value changes (A has read it already)
			if st := a.str("set", "-"); st != "-" {
				if parts := strings.SplitN(st, ":", 2); len(parts) == 2 {
					if o, ok := sensors.GetSensor(cvId(parts[0])); ok {
						if om, ok := o.(*mockSensor); ok {
							om.avg = parseF(parts[1])
						}
					}
				}
			}
			bDone := make(chan string, 1)
			go func() { bDone <- run() }()
			select {
			case rb = <-bDone:
			case <-time.After(2 * time.Second): // B waits for something A holds: let A go on
			}
			ms.gmu.Lock()
			ms.gateAt = 0
			ms.gmu.Unlock()
			select {
			case <-ms.release:
			default:
				close(ms.release)
			}
			if ra == "" {
				select {
				case ra = <-aDone:
				case <-time.After(5 * time.Second):
					ra = "hang"
				}
			}
			if rb == "" {
				select {
				case rb = <-bDone:
				case <-time.After(5 * time.Second):
					rb = "hang"
				}
			}
			return "a=" + ra + " b=" + rb
		case "cv.eval":
			verifhook.SetClock(int64(a.int("now", 0)))
			c, ok := curves.GetSpeedCurve(cvId(a.str("id", "c")))
			if !ok {
				return "panic:nil"
			}
			v, err := c.Evaluate()
			if err != nil {
				return "err val=" + strconv.Itoa(c.CurrentValue())
			}
			return "i" + strconv.Itoa(v) + " val=" + strconv.Itoa(c.CurrentValue())
		}
		return "bad-op"
	})
}
