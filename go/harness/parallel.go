//go:build verif

// w.parallel n=<controllers> rounds=<r> seed=<s>: several real controllers, each with its OWN fan (hwmon / file, virtual
// registers) and its OWN PWM map, call the real setPwm at the same time. After every call the controller's own register
// must hold the map's output for the nearest supported input of THAT request (reference computed here, independently).
// Nothing is shared between the controllers - except whatever the helper functions on the way to the file share.
//
//	-> ok calls=<n*r> bad=<number of calls after which the register held something else> first=<description|->
package main

import (
	"fmt"
	"os"
	"sort"
	"sync"
	"time"

	"github.com/markusressel/fan2go/internal/controller"
	"github.com/markusressel/fan2go/internal/verifhook"
)

// supported inputs (first key of each run of equal outputs) and the outputs a request may legally produce
func parRefOutputs(pm map[int]int, t int) map[int]bool {
	keys := make([]int, 0, len(pm))
	for k := range pm {
		keys = append(keys, k)
	}
	sort.Ints(keys)
	var sup []int
	last, have := 0, false
	for _, k := range keys {
		if !have || pm[k] != last {
			sup = append(sup, k)
		}
		last, have = pm[k], true
	}
	best := -1
	for _, k := range sup {
		d := k - t
		if d < 0 {
			d = -d
		}
		if best < 0 || d < best {
			best = d
		}
	}
	out := map[int]bool{}
	for _, k := range sup {
		d := k - t
		if d < 0 {
			d = -d
		}
		if d == best {
			out[pm[k]] = true
		}
	}
	return out
}

func wParallel(a kv) string {
	n, rounds, seed := a.int("n", 16), a.int("rounds", 200), a.int("seed", 1)
	base, err := os.MkdirTemp("", "verifpar")
	if err != nil {
		panic(err)
	}
	defer os.RemoveAll(base)
	type unit struct {
		dev *verifhook.Device
		ctl *controller.VerifController
		pm  map[int]int
		dir string
	}
	us := make([]*unit, n)
	for i := range us {
		dir := fmt.Sprintf("%s/p%d", base, i)
		_ = os.MkdirAll(dir, 0755)
		u := &unit{dev: &verifhook.Device{Mode: 1, Pwm: 7}, dir: dir, pm: map[int]int{}}
		u.dev.LogOff = true
		touch(dir+"/pwm1", true)
		touch(dir+"/pwm1_enable", true)
		for _, r := range worldRegs {
			verifhook.Bind(dir+"/"+r.name, u.dev, r.reg)
		}
		// a map of this controller's own: a quantiser with its own step and offset (outputs differ between controllers)
		q := 2 + (i*7+seed)%23
		for k := 0; k < 256; k++ {
			v := (k/q)*q + (i+seed)%q
			if v > 255 {
				v = 255
			}
			u.pm[k] = v
		}
		kind := "hwmon"
		if i%3 == 2 {
			kind = "file"
		}
		fan := newFanFromKV(kv{"kind": kind, "id": fmt.Sprintf("par%d", i), "hasrpm": "0"}, dir)
		u.ctl = controller.VerifNew(nil, fan, &scriptCurve{id: "curve"}, newLoop(kv{"loop": "direct", "m": "-"}), 200*time.Millisecond, u.pm, true)
		us[i] = u
	}
	defer func() {
		for _, u := range us {
			for _, r := range worldRegs {
				verifhook.Unbind(u.dir + "/" + r.name)
			}
		}
	}()
	var mu sync.Mutex
	bad, first := 0, "-"
	start := make(chan struct{})
	var wg sync.WaitGroup
	for i, u := range us {
		wg.Add(1)
		go func(i int, u *unit) {
			defer wg.Done()
			defer func() { _ = recover() }()
			<-start
			x := uint32(seed*7919 + i*104729 + 1)
			for k := 0; k < rounds; k++ {
				x = x*1664525 + 1013904223
				t := int(x>>8)%356 - 50
				err := u.ctl.VerifSetPwm(t)
				got := u.dev.Pwm
				if err != nil || !parRefOutputs(u.pm, t)[got] {
					mu.Lock()
					bad++
					if first == "-" {
						first = fmt.Sprintf("controller%d:request=%d:register=%d:err=%v", i, t, got, err != nil)
					}
					mu.Unlock()
				}
			}
		}(i, u)
	}
	close(start)
	wg.Wait()
	return fmt.Sprintf("ok calls=%d bad=%d first=%s", n*rounds, bad, first)
}
