//go:build verif

package main

// Stream "hw": hwmon discovery and binding (property C17).
//
//	hw.tree spec=<chip>;<chip>;...        ("-" = no chip)
//	    chip = <prefix|->|<busType>|<busNr>|<addr>|<path>|<feat>,<feat>,...   ("-" = no feature)
//	    feat = <F|T|O><flags>:<name>   F = fan, T = temp, O = other (in) feature type;
//	           flags bit 1: has the input sub-feature of its own type (named <name>_input),
//	                 bit 2: min/max sub-features are listed BEFORE the input sub-feature,
//	                 bit 4: additionally carries an input sub-feature of the WRONG type
//	    sets gosensors.Fake, runs the real hwmon.GetChips() and dumps the result.
//	hw.bindfan platform=<pat> index=<n> rpm=<n> pwm=<n>
//	    real hwmon.UpdateFanConfigFromHwMonControllers(chips, &cfg)
//	hw.bindsensor platform=<pat> index=<n>
//	    real internal.initializeSensors(chips) with exactly one hwmon sensor entry configured
//	hw.bindsensors sels=<platform>:<index>;...
//	    real internal.initializeSensors(chips) with several hwmon sensor entries configured
//	    -> ok inputs=<p1>,<p2>,... | err at=<position of the entry the error names>
//	hw.bindfans sels=<platform>:<index>:<rpm>:<pwm>;...
//	    real internal.initializeFans(chips) with several hwmon fan entries configured
//	    -> ok fans=<rpmpath>|<pwmpath>|<enablepath>,... | err at=<position of the entry the error names>
//
// Chip paths are taken verbatim from the spec and need not exist (all file reads of GetChips /
// the first sensor read then fail softly), which keeps the output deterministic.

import (
	"fmt"
	"os"
	"sort"
	"strconv"
	"strings"

	"github.com/markusressel/fan2go/internal"
	"github.com/markusressel/fan2go/internal/configuration"
	"github.com/markusressel/fan2go/internal/fans"
	"github.com/markusressel/fan2go/internal/hwmon"
	"github.com/markusressel/fan2go/internal/sensors"
	"github.com/md14454/gosensors"
	"github.com/prometheus/client_golang/prometheus"
)

var hwChips []*hwmon.HwMonController
var hwSensorCounter int
var hwFanCounter int

func hwAtoi(s string) int {
	n, err := strconv.Atoi(s)
	if err != nil {
		panic("hw: bad int " + s)
	}
	return n
}

func hwParseFeature(tok string) gosensors.Feature {
	i := strings.IndexByte(tok, ':')
	if i < 2 {
		panic("hw: bad feature " + tok)
	}
	kind, flags, name := tok[0], hwAtoi(tok[1:i]), tok[i+1:]
	f := gosensors.Feature{Name: name}
	var inT, minT, maxT, wrongT gosensors.SubFeatureType
	switch kind {
	case 'F':
		f.Type = gosensors.FeatureTypeFan
		inT, minT, maxT = gosensors.SubFeatureTypeFanInput, gosensors.SubFeatureTypeFanMin, gosensors.SubFeatureTypeFanMax
		wrongT = gosensors.SubFeatureTypeTempInput
	case 'T':
		f.Type = gosensors.FeatureTypeTemp
		inT, minT, maxT = gosensors.SubFeatureTypeTempInput, gosensors.SubFeatureTypeTempMin, gosensors.SubFeatureTypeTempMax
		wrongT = gosensors.SubFeatureTypeFanInput
	case 'O':
		f.Type = gosensors.FeatureTypeIn
		inT, minT, maxT = gosensors.SubFeatureTypeInInput, gosensors.SubFeatureTypeUnknown, gosensors.SubFeatureTypeUnknown
		wrongT = gosensors.SubFeatureTypeFanInput
	default:
		panic("hw: bad feature kind " + tok)
	}
	var subs []gosensors.SubFeature
	if flags&4 != 0 {
		subs = append(subs, gosensors.SubFeature{Name: name + "_wrong", Type: wrongT, Value: 7})
	}
	if flags&2 != 0 {
		subs = append(subs,
			gosensors.SubFeature{Name: name + "_min", Type: minT, Value: 10},
			gosensors.SubFeature{Name: name + "_max", Type: maxT, Value: 200})
	}
	if flags&1 != 0 {
		// current readings of every magnitude (unconnected diodes report -128 or 255 degrees, a stopped fan 0 RPM):
		// discovery must not depend on them
		readings := []float64{1000, -128, 0, 41.5, 255, 65535, -273.15, 199.9}
		var h uint32
		for _, c := range name {
			h = h*31 + uint32(c)
		}
		subs = append(subs, gosensors.SubFeature{Name: name + "_input", Type: inT, Value: readings[int(h%uint32(len(readings)))]})
	}
	f.SubFeatures = subs
	return f
}

func hwParseTree(spec string) []gosensors.Chip {
	chips := []gosensors.Chip{}
	if spec == "-" || spec == "" {
		return chips
	}
	for _, cs := range strings.Split(spec, ";") {
		p := strings.Split(cs, "|")
		if len(p) != 6 {
			panic("hw: bad chip " + cs)
		}
		c := gosensors.Chip{Path: p[4]}
		if strings.HasPrefix(p[4], "@R") {
			c.Path = hwRealDir(p[4])
		}
		if p[0] != "-" {
			c.Prefix = p[0]
		}
		c.Bus.Type = int16(hwAtoi(p[1]))
		c.Bus.Nr = int16(hwAtoi(p[2]))
		c.Addr = int32(hwAtoi(p[3]))
		if p[5] != "-" && p[5] != "" {
			for i, ft := range strings.Split(p[5], ",") {
				f := hwParseFeature(ft)
				f.Number = int32(i)
				c.Features = append(c.Features, f)
			}
		}
		chips = append(chips, c)
	}
	return chips
}

func hwDump(chips []*hwmon.HwMonController) string {
	var sb strings.Builder
	fmt.Fprintf(&sb, "n=%d", len(chips))
	for _, c := range chips {
		var fs []string
		for _, f := range c.Fans {
			h := f.Config.HwMon
			if f.Index != h.Index {
				panic("hw: HwMonFan.Index differs from its config index")
			}
			fs = append(fs, fmt.Sprintf("%d:%d:%d", h.Index, h.RpmChannel, h.PwmChannel))
		}
		keys := make([]int, 0, len(c.Sensors))
		for k := range c.Sensors {
			keys = append(keys, k)
		}
		sort.Ints(keys)
		var ts []string
		for _, k := range keys {
			ts = append(ts, fmt.Sprintf("%d:%s", k, c.Sensors[k].Input))
		}
		fstr, tstr := "-", "-"
		if len(fs) > 0 {
			fstr = strings.Join(fs, ",")
		}
		if len(ts) > 0 {
			tstr = strings.Join(ts, ",")
		}
		fmt.Fprintf(&sb, " [%s;%s;%s;fans=%s;temps=%s]", c.Name, c.Platform, c.Path, fstr, tstr)
	}
	return sb.String()
}

func hwHandler(op string, a kv) string {
	switch op {
	case "hw.tree":
		gosensors.Fake = hwParseTree(a.str("spec", "-"))
		hwChips = hwmon.GetChips()
		return hwDump(hwChips)
	case "hw.bindfan":
		cfg := configuration.FanConfig{
			ID: "fan",
			HwMon: &configuration.HwMonFanConfig{
				Platform:   a.str("platform", ""),
				Index:      a.int("index", 0),
				RpmChannel: a.int("rpm", 0),
				PwmChannel: a.int("pwm", 0),
			},
		}
		err := hwmon.UpdateFanConfigFromHwMonControllers(hwChips, &cfg)
		if err != nil {
			return "err"
		}
		h := cfg.HwMon
		return fmt.Sprintf("ok rpm=%s pwm=%s en=%s idx=%d rpmch=%d pwmch=%d",
			h.RpmInputPath, h.PwmPath, h.PwmEnablePath, h.Index, h.RpmChannel, h.PwmChannel)
	case "hw.bindsensor":
		hwSensorCounter++
		id := fmt.Sprintf("hwsensor%d", hwSensorCounter)
		saved := configuration.CurrentConfig.Sensors
		defer func() { configuration.CurrentConfig.Sensors = saved }()
		configuration.CurrentConfig.Sensors = []configuration.SensorConfig{{
			ID: id,
			HwMon: &configuration.HwMonSensorConfig{
				Platform: a.str("platform", ""),
				Index:    a.int("index", 0),
			},
		}}
		// initializeSensors registers a prometheus collector at its end; MustRegister panics on
		// the second registration of the same descriptors, so every call gets a fresh registry.
		savedReg := prometheus.DefaultRegisterer
		prometheus.DefaultRegisterer = prometheus.NewRegistry()
		defer func() { prometheus.DefaultRegisterer = savedReg }()
		// a panic propagates to dispatch(), which prints panic:<class>
		err := internal.VerifInitializeSensors(hwChips)
		if err != nil {
			return "err"
		}
		s, ok := sensors.GetSensor(id)
		if !ok {
			return "ok input=<unregistered>"
		}
		return "ok input=" + s.(*sensors.HwmonSensor).Input
	case "hw.bindsensors":
		// several hwmon sensor entries in ONE initializeSensors call: sels=<platform>:<index>;<platform>:<index>...
		// (each entry must be bound on its own merits: nothing may leak from one entry to the next)
		saved := configuration.CurrentConfig.Sensors
		defer func() { configuration.CurrentConfig.Sensors = saved }()
		var cfgs []configuration.SensorConfig
		var ids []string
		for _, t := range strings.Split(a.str("sels", ""), ";") {
			if t == "" {
				continue
			}
			kvp := strings.SplitN(t, ":", 2)
			hwSensorCounter++
			id := fmt.Sprintf("hwsensor%d", hwSensorCounter)
			ids = append(ids, id)
			cfgs = append(cfgs, configuration.SensorConfig{ID: id,
				HwMon: &configuration.HwMonSensorConfig{Platform: kvp[0], Index: hwAtoi(kvp[1])}})
		}
		configuration.CurrentConfig.Sensors = cfgs
		savedReg := prometheus.DefaultRegisterer
		prometheus.DefaultRegisterer = prometheus.NewRegistry()
		defer func() { prometheus.DefaultRegisterer = savedReg }()
		err := internal.VerifInitializeSensors(hwChips)
		if err != nil {
			// the error names the entry: report its position
			for i, id := range ids {
				if strings.Contains(err.Error(), id+".") || strings.HasSuffix(err.Error(), id) || strings.Contains(err.Error(), id+" ") {
					return fmt.Sprintf("err at=%d", i)
				}
			}
			return "err at=?"
		}
		var ins []string
		for _, id := range ids {
			sn, ok := sensors.GetSensor(id)
			if !ok {
				ins = append(ins, "<unregistered>")
			} else {
				ins = append(ins, sn.(*sensors.HwmonSensor).Input)
			}
		}
		return "ok inputs=" + strings.Join(ins, ",")
	case "hw.bindfans":
		// several hwmon fan entries in ONE initializeFans call: sels=<platform>:<index>:<rpm>:<pwm>;...
		// (the loop works on a copy of each entry; the first entry that cannot be bound aborts the call)
		saved := configuration.CurrentConfig.Fans
		defer func() { configuration.CurrentConfig.Fans = saved }()
		var cfgs []configuration.FanConfig
		var ids []string
		for _, t := range strings.Split(a.str("sels", ""), ";") {
			if t == "" {
				continue
			}
			p := strings.Split(t, ":")
			if len(p) != 4 {
				panic("hw: bad fan selector " + t)
			}
			// ids are unique over the whole run: fans.RegisterFan keeps a global registry
			hwFanCounter++
			id := fmt.Sprintf("hwfan%d", hwFanCounter)
			ids = append(ids, id)
			cfgs = append(cfgs, configuration.FanConfig{ID: id,
				HwMon: &configuration.HwMonFanConfig{Platform: p[0], Index: hwAtoi(p[1]), RpmChannel: hwAtoi(p[2]), PwmChannel: hwAtoi(p[3])}})
		}
		configuration.CurrentConfig.Fans = cfgs
		// initializeFans registers a prometheus collector at its end (see hw.bindsensor)
		savedReg := prometheus.DefaultRegisterer
		prometheus.DefaultRegisterer = prometheus.NewRegistry()
		defer func() { prometheus.DefaultRegisterer = savedReg }()
		result, err := internal.VerifInitializeFans(hwChips)
		if err != nil {
			// the error prints the rejected entry with %+v ("&{ID:<id> ..."): report its position
			for i, id := range ids {
				if strings.Contains(err.Error(), "ID:"+id+" ") {
					return fmt.Sprintf("err at=%d", i)
				}
			}
			return "err at=?"
		}
		if len(result) != len(ids) {
			return fmt.Sprintf("ok fans=<%d fans for %d entries>", len(result), len(ids))
		}
		byID := map[string]*configuration.HwMonFanConfig{}
		for cfg, f := range result {
			hf, isHw := f.(*fans.HwMonFan)
			if !isHw || hf.Config.HwMon == nil || cfg.ID != hf.Config.ID {
				return "ok fans=<not a hwmon fan>"
			}
			byID[cfg.ID] = hf.Config.HwMon
		}
		var out []string
		for _, id := range ids {
			h, ok := byID[id]
			if !ok {
				out = append(out, "<missing>")
				continue
			}
			out = append(out, h.RpmInputPath+"|"+h.PwmPath+"|"+h.PwmEnablePath)
		}
		return "ok fans=" + strings.Join(out, ",")
	}
	return "bad-op"
}

// chips whose path in the spec is `@R<k>` live in a REAL directory (created on demand) whose files `hw.files` creates:
// whatever the binding code looks up in the file system, it finds a real sysfs-like directory there. Outputs name the
// directory by its token again.
var hwRealBase string

func hwRealDir(tok string) string {
	if hwRealBase == "" {
		d, err := os.MkdirTemp("", "verifhwreal")
		if err != nil {
			panic(err)
		}
		hwRealBase = d + "/R"
		cleanups = append(cleanups, func() { os.RemoveAll(d) })
	}
	dir := hwRealBase + tok[2:]
	_ = os.MkdirAll(dir, 0755)
	return dir
}

func init() {
	register("hw", func(op string, a kv) string {
		if op == "hw.files" {
			dir := hwRealDir(a.str("chip", "@R0"))
			ents, _ := os.ReadDir(dir)
			for _, e := range ents {
				_ = os.Remove(dir + "/" + e.Name())
			}
			for _, f := range strings.Split(a.str("files", ""), "+") {
				if f != "" {
					_ = os.WriteFile(dir+"/"+f, []byte("1\n"), 0644)
				}
			}
			return "ok"
		}
		out := hwHandler(op, a)
		if hwRealBase != "" {
			out = strings.ReplaceAll(out, hwRealBase, "@R")
		}
		return out
	})
}
