//go:build verif

// Stream "ex": the REAL util.CheckFilePermissionsForExecution / util.SafeCmdExecution /
// configuration.Validate / CmdSensor / CmdFan against real files and real child processes
// (properties C18 and C19). The harness must run as root (chown to foreign uid/gid).
//
//	ex.perm  owner=<uid> group=<gid> mode=<octal> link=<0|1>
//	    -> check=<ok|err> run=<ok:<text>|err|panic:<class>> marker=<0|1>
//	ex.twice owner= group= mode= owner2= group2= mode2= link=
//	    -> run1=.. marker1=.. run2=.. marker2=..       (chown/chmod between two executions)
//	ex.dangling [kind=<nothing|loop|notdir|toolong|linktolong>]
//	    -> check=err run=err marker=0                  (a path that cannot be resolved: EvalSymlinks fails with
//	                                                    ENOENT / ELOOP / ENOTDIR / ENAMETOOLONG)
//	ex.statrace [checks=<n> runs=<m>]
//	    -> panics=<0|1>                                (file swapped for a symlink loop while the check / call run)
//	ex.cfg   owner= group= mode= cmd=<none|sensor|fan|both|sensor-unused|sensor-second|fan-second> link=
//	    -> validate=<ok|err>                           (config-file rule of validateConfig)
//	ex.run   beh=<..> timeout_ms=<n> [hold_ms=<n|->]
//	    -> res=<ok:<len>:<first 20 bytes hex>|err|panic:<class>|blocked> within=<0|1>
//	       (blocked = no return by timeout + 3 s; within = returned by timeout + 500 ms)
//	ex.reset / ex.count
//	    -> ok / executed=<n> not=<m>                   (how many calls left / did not leave the marker)
//	ex.user  kind=<sensor|fanpwm|fanrpm|fanset> beh=<..>
//	    -> res=<v:<float token>|ok|err|panic:<class>>  (the callers in sensors/cmd.go, fans/cmd.go; timeout 2 s)
//
// Every child process inherits the environment variable VERIF_EXEC_MARK=<unique>; left-over
// processes (sleeping grandchildren) are found by that mark in /proc/<pid>/environ and killed
// after each op and at the end.
package main

import (
	"encoding/hex"
	"fmt"
	"os"
	"path/filepath"
	"strconv"
	"strings"
	"sync"
	"sync/atomic"
	"syscall"
	"time"

	"github.com/markusressel/fan2go/internal/configuration"
	"github.com/markusressel/fan2go/internal/fans"
	"github.com/markusressel/fan2go/internal/sensors"
	"github.com/markusressel/fan2go/internal/util"
)

var (
	execBase    string
	execCounter int
	execMark    string
	// calls after which the command's side-effect marker existed / did not exist
	execExecuted, execNotExecuted int
)

func exCountMarker(m bool) bool {
	if m {
		execExecuted++
	} else {
		execNotExecuted++
	}
	return m
}

func execCaseDir() string {
	if execBase == "" {
		d, err := os.MkdirTemp("", "verifexec")
		if err != nil {
			panic(err)
		}
		_ = os.Chmod(d, 0o755)
		execBase = d
		execMark = fmt.Sprintf("vx%d_%d", os.Getpid(), time.Now().UnixNano())
		_ = os.Setenv("VERIF_EXEC_MARK", execMark)
		cleanups = append(cleanups, func() {
			exKillMarked()
			os.RemoveAll(d)
		})
	}
	execCounter++
	d := filepath.Join(execBase, strconv.Itoa(execCounter))
	if err := os.Mkdir(d, 0o755); err != nil {
		panic(err)
	}
	return d
}

// exKillMarked kills every process (other than the harness) whose environment carries the mark.
func exKillMarked() int {
	if execMark == "" {
		return 0
	}
	needle := "VERIF_EXEC_MARK=" + execMark
	self := os.Getpid()
	ents, err := os.ReadDir("/proc")
	if err != nil {
		return 0
	}
	n := 0
	for _, e := range ents {
		pid, err := strconv.Atoi(e.Name())
		if err != nil || pid == self {
			continue
		}
		env, err := os.ReadFile("/proc/" + e.Name() + "/environ")
		if err != nil {
			continue
		}
		for _, kvp := range strings.Split(string(env), "\x00") {
			if kvp == needle {
				_ = syscall.Kill(pid, syscall.SIGKILL)
				n++
				break
			}
		}
	}
	return n
}

func exParseOctal(s string) os.FileMode {
	v, err := strconv.ParseUint(s, 8, 32)
	if err != nil {
		panic("bad octal mode " + s)
	}
	return os.FileMode(v)
}

func exSetStat(path string, owner, group int, mode os.FileMode) {
	if err := os.Chown(path, owner, group); err != nil {
		panic(err)
	}
	if err := os.Chmod(path, mode); err != nil {
		panic(err)
	}
}

func exExists(p string) bool {
	_, err := os.Lstat(p)
	return err == nil
}

// exRunSafe calls the real SafeCmdExecution on this goroutine under recover.
func exRunSafe(path string, args []string, timeout time.Duration) (res string) {
	defer func() {
		if r := recover(); r != nil {
			res = "panic:" + panicClass(r)
		}
	}()
	out, err := util.SafeCmdExecution(path, args, timeout)
	if err != nil {
		return "err"
	}
	return "ok:" + out
}

func exMarkerScript(dir string) (script, marker string) {
	script = filepath.Join(dir, "cmd")
	marker = filepath.Join(dir, "marker")
	body := "#!/bin/sh\necho x >> " + marker + "\necho 7\n"
	if err := os.WriteFile(script, []byte(body), 0o700); err != nil {
		panic(err)
	}
	return
}

func exB01(b bool) string {
	if b {
		return "1"
	}
	return "0"
}

func exPerm(a kv) string {
	dir := execCaseDir()
	defer os.RemoveAll(dir)
	script, marker := exMarkerScript(dir)
	exSetStat(script, a.int("owner", 0), a.int("group", 0), exParseOctal(a.str("mode", "755")))
	path := script
	if a.bool("link", false) {
		path = filepath.Join(dir, "lnk")
		if err := os.Symlink(script, path); err != nil {
			panic(err)
		}
	}
	check := "ok"
	if ok, err := util.CheckFilePermissionsForExecution(path); err != nil || !ok {
		check = "err"
	}
	run := exRunSafe(path, nil, 2*time.Second)
	return fmt.Sprintf("check=%s run=%s marker=%s", check, run, exB01(exCountMarker(exExists(marker))))
}

func exTwice(a kv) string {
	dir := execCaseDir()
	defer os.RemoveAll(dir)
	script, marker := exMarkerScript(dir)
	path := script
	if a.bool("link", false) {
		path = filepath.Join(dir, "lnk")
		if err := os.Symlink(script, path); err != nil {
			panic(err)
		}
	}
	exSetStat(script, a.int("owner", 0), a.int("group", 0), exParseOctal(a.str("mode", "755")))
	run1 := exRunSafe(path, nil, 2*time.Second)
	m1 := exCountMarker(exExists(marker))
	_ = os.Remove(marker)
	exSetStat(script, a.int("owner2", 0), a.int("group2", 0), exParseOctal(a.str("mode2", "755")))
	run2 := exRunSafe(path, nil, 2*time.Second)
	m2 := exCountMarker(exExists(marker))
	return fmt.Sprintf("run1=%s marker1=%s run2=%s marker2=%s", run1, exB01(m1), run2, exB01(m2))
}

// exBusy: the executable passes the check but cannot be started right now because a writer holds it open (ETXTBSY);
// while the call is under way the file is handed to a non-root owner (or made world-writable) and the writer goes away.
// Whatever the call does about the busy file, a file that is no longer root-controlled must never be executed.
func exBusy(a kv) string {
	dir := execCaseDir()
	defer os.RemoveAll(dir)
	script, marker := exMarkerScript(dir)
	exSetStat(script, 0, 0, 0o755)
	w, err := os.OpenFile(script, os.O_WRONLY, 0)
	if err != nil {
		panic(err)
	}
	done := make(chan string, 1)
	go func() { done <- exRunSafe(script, nil, 2*time.Second) }()
	time.Sleep(time.Duration(a.int("after_ms", 40)) * time.Millisecond)
	if a.str("how", "chown") == "chown" {
		exSetStat(script, 1000, 1000, 0o755)
	} else {
		exSetStat(script, 0, 0, 0o757)
	}
	_ = w.Close()
	var run string
	select {
	case run = <-done:
	case <-time.After(8 * time.Second):
		run = "blocked"
	}
	if strings.HasPrefix(run, "ok:") {
		run = "ok"
	}
	time.Sleep(20 * time.Millisecond)
	return fmt.Sprintf("run=%s marker=%s", run, exB01(exCountMarker(exExists(marker))))
}

// exBusyHold: the (root-owned, safe) executable is held open for writing for LONGER than the call's timeout (a hung
// package manager, an editor, a `cp` onto the script): every start attempt fails with ETXTBSY. The call has to come back
// with an error within its timeout + margin, and the command has to work again once the writer is gone.
func exBusyHold(a kv) string {
	dir := execCaseDir()
	defer os.RemoveAll(dir)
	script, marker := exMarkerScript(dir)
	exSetStat(script, 0, 0, 0o755)
	timeout := time.Duration(a.int("timeout_ms", 300)) * time.Millisecond
	w, err := os.OpenFile(script, os.O_WRONLY, 0)
	if err != nil {
		panic(err)
	}
	closed := make(chan struct{})
	go func() {
		time.Sleep(time.Duration(a.int("hold_ms", 1500)) * time.Millisecond)
		_ = w.Close()
		close(closed)
	}()
	done := make(chan string, 1)
	t0 := time.Now()
	go func() { done <- exRunSafe(script, nil, timeout) }()
	var run string
	late := false
	select {
	case run = <-done:
		late = time.Since(t0) > timeout+600*time.Millisecond
	case <-time.After(timeout + 5*time.Second):
		run, late = "blocked", true
	}
	<-closed
	if run == "blocked" {
		select {
		case <-done:
		case <-time.After(3 * time.Second):
		}
	}
	time.Sleep(20 * time.Millisecond)
	_ = os.Remove(marker)
	after := exRunSafe(script, nil, 2*time.Second)
	return fmt.Sprintf("run=%s late=%s after=%s", run, exB01(late), after)
}

// exQueue: two calls on the SAME executable overlap (a sensor command that is still running when the next poll, or
// another user of the same script, comes); while both are under way the file is replaced (rename) by one a non-root user
// owns. Each call may only ever run a file that was root-controlled when THAT call checked it directly before starting it:
// the replacement must never be executed.
func exQueue(a kv) string {
	dir := execCaseDir()
	defer os.RemoveAll(dir)
	script := filepath.Join(dir, "cmd")
	marker := filepath.Join(dir, "marker")
	slow := a.int("slow_ms", 400)
	body := fmt.Sprintf("#!/bin/sh\nsleep %d.%03d\necho 7\n", slow/1000, slow%1000)
	if err := os.WriteFile(script, []byte(body), 0o700); err != nil {
		panic(err)
	}
	exSetStat(script, 0, 0, 0o755)
	evil := filepath.Join(dir, "cmd.new")
	if err := os.WriteFile(evil, []byte("#!/bin/sh\necho x >> "+marker+"\necho 9\n"), 0o700); err != nil {
		panic(err)
	}
	exSetStat(evil, 1000, 1000, 0o755)
	da, db := make(chan string, 1), make(chan string, 1)
	go func() { da <- exRunSafe(script, nil, 3*time.Second) }()
	time.Sleep(time.Duration(a.int("gap_ms", 60)) * time.Millisecond)
	go func() { db <- exRunSafe(script, nil, 3*time.Second) }()
	time.Sleep(time.Duration(a.int("swap_ms", 60)) * time.Millisecond)
	_ = os.Rename(evil, script)
	get := func(c chan string) string {
		select {
		case r := <-c:
			return r
		case <-time.After(10 * time.Second):
			return "blocked"
		}
	}
	ra, rb := get(da), get(db)
	time.Sleep(20 * time.Millisecond)
	return fmt.Sprintf("a=%s b=%s marker=%s", ra, rb, exB01(exCountMarker(exExists(marker))))
}

// exMix: permission checks of DIFFERENT files at the same time (two cmd sensors polled from their own goroutines, the RPM
// monitor and the controller of a cmd fan): several goroutines check / run a root-owned script while others call
// SafeCmdExecution on a script owned by somebody else. Each check judges ITS file: the foreign script never runs.
func exMix(a kv) string {
	dir := execCaseDir()
	defer os.RemoveAll(dir)
	good := filepath.Join(dir, "good.sh")
	if err := os.WriteFile(good, []byte("#!/bin/sh\necho 7\n"), 0o700); err != nil {
		panic(err)
	}
	exSetStat(good, 0, 0, 0o755)
	evil := filepath.Join(dir, "evil.sh")
	marker := filepath.Join(dir, "marker")
	if err := os.WriteFile(evil, []byte("#!/bin/sh\necho x >> "+marker+"\necho 9\n"), 0o700); err != nil {
		panic(err)
	}
	exSetStat(evil, 1000, 1000, 0o755)
	n := a.int("n", 8)
	deadline := time.Now().Add(time.Duration(a.int("ms", 300)) * time.Millisecond)
	var wg sync.WaitGroup
	var accepted int64
	for i := 0; i < n; i++ {
		wg.Add(1)
		go func(i int) {
			defer wg.Done()
			defer func() { _ = recover() }()
			for time.Now().Before(deadline) {
				if i%2 == 0 {
					if i%4 == 0 {
						_ = exRunSafe(good, nil, 2*time.Second)
					} else {
						_, _ = util.CheckFilePermissionsForExecution(good)
					}
				} else if r := exRunSafe(evil, nil, 2*time.Second); r != "err" {
					atomic.AddInt64(&accepted, 1)
				}
			}
		}(i)
	}
	wg.Wait()
	time.Sleep(20 * time.Millisecond)
	return fmt.Sprintf("ok accepted=%d marker=%s", atomic.LoadInt64(&accepted), exB01(exCountMarker(exExists(marker))))
}

// exRel: the configured executable is a RELATIVE path with a directory component. The file the permission check looks at
// and the file that is started must be the same one: next to the checked (root-owned) script sits a world-writable script
// of another owner at the place the relative path denotes when it is resolved against another directory.
func exRel(a kv) string {
	dir := execCaseDir()
	defer os.RemoveAll(dir)
	wd, _ := os.Getwd()
	defer func() { _ = os.Chdir(wd) }()
	mk := func(rel, marker string, uid int, mode os.FileMode) {
		p := filepath.Join(dir, rel)
		_ = os.MkdirAll(filepath.Dir(p), 0o755)
		body := "#!/bin/sh\necho x >> " + filepath.Join(dir, marker) + "\necho 7\n"
		if err := os.WriteFile(p, []byte(body), mode); err != nil {
			panic(err)
		}
		exSetStat(p, uid, uid, mode)
	}
	mk("bin/probe.sh", "good", 0, 0o755)
	for _, other := range []string{"bin/bin/probe.sh", "probe.sh", "bin/bin/bin/probe.sh"} {
		mk(other, "bad", 1000, 0o777)
	}
	// `current` is a symlink into another tree: `current/../bin/probe.sh` is, for the kernel, elsewhere/bin/probe.sh
	// (follow the link, THEN go up) - lexically collapsing `current/..` first would name bin/probe.sh instead
	if strings.Contains(a.str("path", ""), "current/..") {
		mk("elsewhere/rel/x", "unused", 0, 0o755)
		_ = os.Symlink(filepath.Join(dir, "elsewhere", "rel"), filepath.Join(dir, "current"))
		if a.str("variant", "bad") == "bad" {
			mk("elsewhere/bin/probe.sh", "bad", 1000, 0o777)
		} else {
			mk("elsewhere/bin/probe.sh", "good2", 0, 0o755)
		}
	}
	if a.str("variant", "") == "cwdfile" {
		// the configured path names a file directly in the working directory (`./top.sh`, `bin/../top.sh`, a relative link to
		// it); a file of the same name, owned by somebody else, sits in a directory of $PATH: a relative path WITH a slash
		// is never looked up there - neither by the check nor by the start
		mk("top.sh", "good", 0, 0o755)
		_ = os.Symlink("top.sh", filepath.Join(dir, "lnk.sh"))
		mk("pathdir/top.sh", "bad", 1000, 0o777)
		mk("pathdir/lnk.sh", "bad", 1000, 0o777)
		oldPath := os.Getenv("PATH")
		_ = os.Setenv("PATH", filepath.Join(dir, "pathdir")+":"+oldPath)
		defer func() { _ = os.Setenv("PATH", oldPath) }()
	}
	if a.str("variant", "") == "relpath" {
		// a bare name, a root-owned file of that name in the working directory, and a RELATIVE entry in $PATH (`pathdir`)
		// that holds a namesake of another owner: os/exec finds `pathdir/top.sh` and refuses to run it (exec.ErrDot); the
		// file that was checked is the only one that may ever run (seed C18l: the ErrDot refusal was cleared)
		mk("top.sh", "good", 0, 0o755)
		mk("pathdir/top.sh", "bad", 1000, 0o777)
		oldPath := os.Getenv("PATH")
		_ = os.Setenv("PATH", "pathdir:"+oldPath)
		defer func() { _ = os.Setenv("PATH", oldPath) }()
	}
	path := a.str("path", "bin/probe.sh")
	if a.str("variant", "") == "blank" {
		// a root-owned script WITHOUT an interpreter line (the kernel refuses it: exec format error) whose path has a blank
		// in it; a file named like the part before the blank belongs to somebody else. Whatever the call does about the
		// refused start, that other file is never what runs (seed C18k: the path was handed to `/bin/sh -c` unquoted)
		p := filepath.Join(dir, "fan tools", "probe.sh")
		_ = os.MkdirAll(filepath.Dir(p), 0o755)
		if err := os.WriteFile(p, []byte("echo x >> "+filepath.Join(dir, "good")+"\necho 7\n"), 0o755); err != nil {
			panic(err)
		}
		exSetStat(p, 0, 0, 0o755)
		mk("fan", "bad", 1000, 0o777)
		path = "./fan tools/probe.sh"
		if a.str("path", "") == "abs" {
			path = p
		}
	}
	if err := os.Chdir(dir); err != nil {
		panic(err)
	}
	run := exRunSafe(path, nil, 2*time.Second)
	time.Sleep(10 * time.Millisecond)
	good := exExists(filepath.Join(dir, "good")) || exExists(filepath.Join(dir, "good2"))
	return fmt.Sprintf("run=%s good=%s bad=%s", run, exB01(exCountMarker(good)), exB01(exExists(filepath.Join(dir, "bad"))))
}

// exBarePar: several goroutines (a cmd sensor's monitor, cmd fans' controllers, the RPM monitors) call commands that are
// configured as BARE names, found through $PATH, at the same time; some names are called for the first time while others
// are under way. Every call comes back with its script's output (seed C19l: look-up results cached in an unguarded map).
func exBarePar(a kv) string {
	dir := execCaseDir()
	defer os.RemoveAll(dir)
	names, workers, rounds := a.int("names", 48), a.int("workers", 8), a.int("rounds", 3)
	bin := filepath.Join(dir, "pbin")
	_ = os.MkdirAll(bin, 0o755)
	for i := 0; i < names; i++ {
		p := filepath.Join(bin, fmt.Sprintf("vcmd%d-%d", execCounter, i))
		if err := os.WriteFile(p, []byte("#!/bin/sh\necho 7\n"), 0o755); err != nil {
			panic(err)
		}
		exSetStat(p, 0, 0, 0o755)
	}
	oldPath := os.Getenv("PATH")
	_ = os.Setenv("PATH", bin+":"+oldPath)
	defer func() { _ = os.Setenv("PATH", oldPath) }()
	var wg sync.WaitGroup
	var fails, panics int64
	for w := 0; w < workers; w++ {
		wg.Add(1)
		go func(w int) {
			defer wg.Done()
			for k := 0; k < rounds*names/workers; k++ {
				i := (w*7 + k*workers + k/3) % names
				r := exRunSafe(fmt.Sprintf("vcmd%d-%d", execCounter, i), nil, 5*time.Second)
				if strings.HasPrefix(r, "panic") {
					atomic.AddInt64(&panics, 1)
				} else if !strings.HasPrefix(r, "ok:7") {
					atomic.AddInt64(&fails, 1)
				}
			}
		}(w)
	}
	wg.Wait()
	return fmt.Sprintf("ok fails=%d panics=%d", fails, panics)
}

func exDangling(a kv) string {
	dir := execCaseDir()
	defer os.RemoveAll(dir)
	path := filepath.Join(dir, "lnk")
	switch a.str("kind", "nothing") {
	case "loop": // symlink loop: ELOOP from EvalSymlinks and from Stat
		if err := os.Symlink(path, path); err != nil {
			panic(err)
		}
	case "notdir": // a path THROUGH a regular file: ENOTDIR
		script, _ := exMarkerScript(dir)
		path = filepath.Join(script, "cmd")
	case "toolong": // a name longer than NAME_MAX: ENAMETOOLONG
		path = filepath.Join(dir, strings.Repeat("n", 300))
	case "linktolong": // a symlink whose target name is longer than NAME_MAX
		if err := os.Symlink(filepath.Join(dir, strings.Repeat("n", 300)), path); err != nil {
			panic(err)
		}
	default: // symlink to nothing: ENOENT
		if err := os.Symlink(filepath.Join(dir, "nothing"), path); err != nil {
			panic(err)
		}
	}
	check := func() (res string) {
		defer func() {
			if r := recover(); r != nil {
				res = "panic:" + panicClass(r)
			}
		}()
		if ok, err := util.CheckFilePermissionsForExecution(path); err != nil || !ok {
			return "err"
		}
		return "ok"
	}()
	run := exRunSafe(path, nil, 2*time.Second)
	exCountMarker(false)
	return fmt.Sprintf("check=%s run=%s marker=0", check, run)
}

// exStatRace: the executable is swapped (atomically, by rename) between a root-owned script and a symlink loop while
// the check / the call run: os.Stat then fails with ELOOP although EvalSymlinks just succeeded (or the other way round).
// Whatever the interleaving, every call must return; the answer is the number of calls that panicked, capped at 1.
func exStatRace(a kv) string {
	dir := execCaseDir()
	defer os.RemoveAll(dir)
	path := filepath.Join(dir, "cmd")
	good := filepath.Join(dir, "good")
	stop := make(chan struct{})
	done := make(chan struct{})
	go func() {
		defer close(done)
		for {
			select {
			case <-stop:
				return
			default:
			}
			_ = os.WriteFile(good, []byte("#!/bin/sh\necho 7\n"), 0o755)
			_ = os.Rename(good, path)
			tmp := filepath.Join(dir, "l")
			_ = os.Symlink(path, tmp)
			_ = os.Rename(tmp, path) // `cmd` now points to itself
		}
	}()
	panics := 0
	checkOnce := func() {
		defer func() {
			if r := recover(); r != nil {
				panics++
			}
		}()
		_, _ = util.CheckFilePermissionsForExecution(path)
	}
	for i := 0; i < a.int("checks", 4000); i++ {
		checkOnce()
	}
	for i := 0; i < a.int("runs", 40); i++ {
		if strings.HasPrefix(exRunSafe(path, nil, 2*time.Second), "panic") {
			panics++
		}
	}
	close(stop)
	<-done
	if panics > 0 {
		panics = 1
	}
	return fmt.Sprintf("panics=%d", panics)
}

func exCfg(a kv) string {
	dir := execCaseDir()
	defer os.RemoveAll(dir)
	cfgFile := filepath.Join(dir, "fan2go.yaml")
	if err := os.WriteFile(cfgFile, []byte("# stand-in; the parsed configuration is injected\n"), 0o600); err != nil {
		panic(err)
	}
	exSetStat(cfgFile, a.int("owner", 0), a.int("group", 0), exParseOctal(a.str("mode", "644")))
	path := cfgFile
	if a.bool("link", false) {
		path = filepath.Join(dir, "lnk.yaml")
		if err := os.Symlink(cfgFile, path); err != nil {
			panic(err)
		}
	}
	saved := configuration.CurrentConfig
	defer func() { configuration.CurrentConfig = saved }()
	kind := a.str("cmd", "none")
	// kinds: none | sensor | fan | both (the only sensor / fan is a command one) |
	//   sensor-unused (a command sensor that no curve references, beside the file sensor in use) |
	//   sensor-second / fan-second (the command entry is the second of two, the first is a file entry)
	fileSensor := func(id string) configuration.SensorConfig {
		return configuration.SensorConfig{ID: id, File: &configuration.FileSensorConfig{Path: "/dev/null"}}
	}
	cmdSensor := func(id string) configuration.SensorConfig {
		return configuration.SensorConfig{ID: id, Cmd: &configuration.CmdSensorConfig{Exec: "/bin/true"}}
	}
	fileFan := func(id string) configuration.FanConfig {
		return configuration.FanConfig{ID: id, Curve: "c", File: &configuration.FileFanConfig{Path: "/dev/null"}}
	}
	cmdFan := func(id string) configuration.FanConfig {
		return configuration.FanConfig{ID: id, Curve: "c", Cmd: &configuration.CmdFanConfig{
			SetPwm: &configuration.ExecConfig{Exec: "/bin/true"},
			GetPwm: &configuration.ExecConfig{Exec: "/bin/true"},
		}}
	}
	sensorList := []configuration.SensorConfig{fileSensor("s")}
	fanList := []configuration.FanConfig{fileFan("f")}
	switch kind {
	case "sensor":
		sensorList = []configuration.SensorConfig{cmdSensor("s")}
	case "fan":
		fanList = []configuration.FanConfig{cmdFan("f")}
	case "both":
		sensorList = []configuration.SensorConfig{cmdSensor("s")}
		fanList = []configuration.FanConfig{cmdFan("f")}
	case "sensor-unused":
		sensorList = []configuration.SensorConfig{fileSensor("s"), cmdSensor("unused")}
	case "sensor-second":
		sensorList = []configuration.SensorConfig{fileSensor("s0"), cmdSensor("s")}
	case "fan-second":
		fanList = []configuration.FanConfig{fileFan("f"), cmdFan("f2")}
	}
	configuration.CurrentConfig = configuration.Configuration{
		Sensors: sensorList,
		Curves: []configuration.CurveConfig{{ID: "c", Linear: &configuration.LinearCurveConfig{
			Sensor: "s", Min: 40, Max: 80}}},
		Fans: fanList,
	}
	if err := configuration.Validate(path); err != nil {
		return "validate=err"
	}
	return "validate=ok"
}

// exBehaviourScript writes the command for one behaviour; returns its path.
func exBehaviourScript(dir, beh string, holdMs int) string {
	script := filepath.Join(dir, "cmd")
	mode := os.FileMode(0o755)
	var body []byte
	sh := func(s string) []byte { return []byte("#!/bin/sh\n" + s + "\n") }
	switch beh {
	case "exit0":
		body = sh("echo 42")
	case "exit3":
		body = sh("exit 3")
	case "exit3out":
		body = sh("echo 55\necho oops >&2\nexit 3")
	case "killed":
		body = sh("echo 5\nkill -9 $$")
	case "notexec":
		body = sh("echo 42")
		mode = 0o644
	case "badformat":
		body = []byte{0x00, 0x01, 0x02, 0x7e, 0x45, 0x4c, 0x46, 0xff, 0xfe, 0x13, 0x37, 0x00, 0x99, 0x0a, 0x0d, 0x1b}
	case "vanish":
		// ENOENT from execve although the file itself exists: the interpreter does not.
		body = []byte("#!/nonexistent-verif/interp\necho 42\n")
	case "shebangself":
		// a script whose interpreter is the script itself: the kernel refuses it at once (ELOOP)
		body = []byte("#!" + script + "\necho 42\n")
	case "shebangpair":
		// two wrappers naming each other as their interpreter
		other := filepath.Join(dir, "cmd2")
		if err := os.WriteFile(other, []byte("#!"+script+"\necho 42\n"), 0o700); err != nil {
			panic(err)
		}
		exSetStat(other, 0, 0, 0o755)
		body = []byte("#!" + other + "\necho 42\n")
	case "fifo":
		// the configured executable is a named pipe (root-owned, 0755): it passes the ownership test and cannot be started;
		// opening it for reading would block for ever
		if err := syscall.Mkfifo(script, 0o755); err != nil {
			panic(err)
		}
		exSetStat(script, 0, 0, 0o755)
		return script
	case "sleep":
		body = sh("sleep 30")
	case "execsleep":
		body = sh("exec sleep 30")
	case "grandchild":
		secs := "30"
		if holdMs >= 0 {
			secs = fmt.Sprintf("%d.%03d", holdMs/1000, holdMs%1000)
		}
		body = sh("(sleep " + secs + " &)\necho hi")
	case "empty":
		body = sh("exit 0")
	case "garbage":
		body = sh(`printf '\n\n abc\n\nx y\t\n\n'`)
	case "huge":
		body = sh(`head -c 1048576 /dev/zero | tr '\000' 'a'`)
	default:
		panic("bad beh " + beh)
	}
	if err := os.WriteFile(script, body, 0o700); err != nil {
		panic(err)
	}
	exSetStat(script, 0, 0, mode)
	return script
}

func exRun(a kv) string {
	dir := execCaseDir()
	defer os.RemoveAll(dir)
	defer exKillMarked()
	timeoutMs := a.int("timeout_ms", 2000)
	script := exBehaviourScript(dir, a.str("beh", "exit0"), a.int("hold_ms", -1))
	timeout := time.Duration(timeoutMs) * time.Millisecond

	done := make(chan string, 1)
	t0 := time.Now()
	go func() { done <- exRunSafe(script, nil, timeout) }()
	var res string
	var elapsed time.Duration
	select {
	case res = <-done:
		elapsed = time.Since(t0)
	case <-time.After(timeout + 3*time.Second):
		res = "blocked"
		elapsed = time.Since(t0)
		exKillMarked()
		select { // releasing the pipe lets the call return; do not leave the goroutine behind
		case <-done:
		case <-time.After(5 * time.Second):
		}
	}
	within := elapsed <= timeout+500*time.Millisecond
	if strings.HasPrefix(res, "ok:") {
		out := res[3:]
		first := out
		if len(first) > 20 {
			first = first[:20]
		}
		res = fmt.Sprintf("ok:%d:%s", len(out), hex.EncodeToString([]byte(first)))
	}
	if os.Getenv("VERIF_DEBUG") != "" {
		fmt.Fprintf(os.Stderr, "ex.run %v: %s after %v\n", a, res, elapsed)
	}
	return fmt.Sprintf("res=%s within=%s", res, exB01(within))
}

func exUser(a kv) (res string) {
	dir := execCaseDir()
	defer os.RemoveAll(dir)
	defer exKillMarked()
	script := exBehaviourScript(dir, a.str("beh", "exit0"), -1)
	defer func() {
		if r := recover(); r != nil {
			res = "res=panic:" + panicClass(r)
		}
	}()
	ec := &configuration.ExecConfig{Exec: script}
	fan := &fans.CmdFan{Config: configuration.FanConfig{ID: "f", Cmd: &configuration.CmdFanConfig{
		SetPwm: ec, GetPwm: ec, GetRpm: ec}}}
	switch a.str("kind", "sensor") {
	case "sensor":
		s := &sensors.CmdSensor{Config: configuration.SensorConfig{ID: "s",
			Cmd: &configuration.CmdSensorConfig{Exec: script}}}
		v, err := s.GetValue()
		if err != nil {
			return "res=err"
		}
		return "res=v:" + fmtF(v)
	case "fanpwm":
		v, err := fan.GetPwm()
		if err != nil {
			return "res=err"
		}
		return "res=v:" + fmtF(float64(v))
	case "fanrpm":
		v, err := fan.GetRpm()
		if err != nil {
			return "res=err"
		}
		return "res=v:" + fmtF(float64(v))
	case "fanset":
		// any int may arrive here: the controller hands back what getPwm printed at start-up (restorePwmEnabled)
		if err := fan.SetPwm(a.int("v", 100)); err != nil {
			return "res=err"
		}
		return "res=ok"
	}
	return "bad-op"
}

// exUserPair: two activities use the SAME cmd fan at once (a statistics scrape / REST request during a control cycle):
// the first call runs a command that ignores its deadline; `gap_ms` later a second call is made from another goroutine.
// Each call has to come back within ITS OWN timeout + margin, whatever the other one is doing.
func exUserPair(a kv) (res string) {
	dir := execCaseDir()
	defer os.RemoveAll(dir)
	defer exKillMarked()
	script := exBehaviourScript(dir, a.str("beh", "sleep"), -1)
	ec := &configuration.ExecConfig{Exec: script}
	fan := &fans.CmdFan{Config: configuration.FanConfig{ID: "f", Cmd: &configuration.CmdFanConfig{
		SetPwm: ec, GetPwm: ec, GetRpm: ec}}}
	call := func(kind string) (r string) {
		defer func() {
			if p := recover(); p != nil {
				r = "panic:" + panicClass(p)
			}
		}()
		var err error
		switch kind {
		case "fanpwm":
			_, err = fan.GetPwm()
		case "fanrpm":
			_, err = fan.GetRpm()
		case "fanset":
			err = fan.SetPwm(100)
		case "rpmavg":
			_ = fan.GetRpmAvg()
		}
		if err != nil {
			return "err"
		}
		return "ok"
	}
	type out struct {
		r  string
		el time.Duration
	}
	ca, cb := make(chan out, 1), make(chan out, 1)
	go func() { t := time.Now(); r := call(a.str("first", "fanpwm")); ca <- out{r, time.Since(t)} }()
	time.Sleep(time.Duration(a.int("gap_ms", 100)) * time.Millisecond)
	go func() { t := time.Now(); r := call(a.str("second", "fanrpm")); cb <- out{r, time.Since(t)} }()
	get := func(c chan out) out {
		select {
		case o := <-c:
			return o
		case <-time.After(9 * time.Second):
			return out{"blocked", 9 * time.Second}
		}
	}
	oa, ob := get(ca), get(cb)
	bound := 2000*time.Millisecond + 500*time.Millisecond
	return fmt.Sprintf("a=%s awithin=%s b=%s bwithin=%s", oa.r, exB01(oa.el <= bound), ob.r, exB01(ob.el <= bound))
}

// exRepeat: the SAME failing command polled again and again for longer than any "log each message once per N seconds"
// window: every single call must keep coming back within its bound (what a sensor monitor does with a dead command)
func exRepeat(a kv) string {
	dir := execCaseDir()
	defer os.RemoveAll(dir)
	defer exKillMarked()
	script := exBehaviourScript(dir, a.str("beh", "exit3"), -1)
	n, gap := a.int("n", 14), time.Duration(a.int("gap_ms", 450))*time.Millisecond
	slow, res := 0, ""
	for i := 0; i < n; i++ {
		done := make(chan string, 1)
		t0 := time.Now()
		go func() { done <- exRunSafe(script, nil, 2*time.Second) }()
		select {
		case r := <-done:
			if time.Since(t0) > 2500*time.Millisecond {
				slow++
			}
			if strings.HasPrefix(r, "ok:") {
				r = "ok"
			}
			res = r
		case <-time.After(6 * time.Second):
			return fmt.Sprintf("res=blocked at=%d slow=%d", i, slow)
		}
		time.Sleep(gap)
	}
	return fmt.Sprintf("res=%s at=%d slow=%d", res, n, slow)
}

func init() {
	register("ex", func(op string, a kv) string {
		if os.Geteuid() != 0 {
			return "need-root"
		}
		switch op {
		case "ex.perm":
			return exPerm(a)
		case "ex.twice":
			return exTwice(a)
		case "ex.dangling":
			return exDangling(a)
		case "ex.cfg":
			return exCfg(a)
		case "ex.statrace":
			return exStatRace(a)
		case "ex.run":
			return exRun(a)
		case "ex.barepar":
			return exBarePar(a)
		case "ex.mix":
			return exMix(a)
		case "ex.busyhold":
			return exBusyHold(a)
		case "ex.queue":
			return exQueue(a)
		case "ex.busy":
			return exBusy(a)
		case "ex.rel":
			return exRel(a)
		case "ex.user":
			return exUser(a)
		case "ex.userpair":
			return exUserPair(a)
		case "ex.repeat":
			return exRepeat(a)
		case "ex.reset":
			execExecuted, execNotExecuted = 0, 0
			return "ok"
		case "ex.count":
			return fmt.Sprintf("executed=%d not=%d", execExecuted, execNotExecuted)
		}
		return "bad-op"
	})
}
