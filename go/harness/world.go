//go:build verif

package main

import (
	"errors"
	"fmt"
	"os"
	"strconv"
	"strings"
	"time"

	"github.com/markusressel/fan2go/internal/configuration"
	"github.com/markusressel/fan2go/internal/controller"
	"github.com/markusressel/fan2go/internal/fans"
	"github.com/markusressel/fan2go/internal/verifhook"
)

// scriptCurve implements curves.SpeedCurve; the harness scripts each evaluation.
type scriptCurve struct {
	id    string
	next  string // "<int>" | "err" | "panic"
	value int
}

func (c *scriptCurve) GetId() string { return c.id }
func (c *scriptCurve) Evaluate() (int, error) {
	switch c.next {
	case "err":
		return c.value, errors.New("scripted curve error")
	case "panic":
		var m map[int]int
		m[0] = 1 // nil map write: a runtime panic
		return 0, nil
	}
	v, err := strconv.Atoi(c.next)
	if err != nil {
		panic("bad scripted curve value " + c.next)
	}
	c.value = v
	return v, nil
}
func (c *scriptCurve) CurrentValue() int { return c.value }

type world struct {
	dir string
	// hwmon / file fans: `dir` is a symbolic link (as /sys/class/hwmon/hwmonN is) to the real device directory `real`;
	// a re-enumeration of the device (`w.dev ... reprobe=1`) re-points it to a fresh directory
	real  string
	gen   int
	old   []string // real directories of earlier enumerations
	fan   fans.Fan
	dev   *verifhook.Device
	ctl   *controller.VerifController
	curve *scriptCurve
	kind  string
	cmd   *cmdWorld // kind=cmd: the script directory behind the real CmdFan (cmdfan.go)
}

var curWorld *world
var worldDirBase string
var worldCounter int

func parseReadMode(s string) verifhook.ReadMode {
	switch s {
	case "ok":
		return verifhook.ReadOk
	case "perm":
		return verifhook.ReadErrPerm
	case "other:-1":
		return verifhook.ReadErrOther
	case "other:0":
		return verifhook.ReadGarbage
	}
	panic("bad read mode " + s)
}

func parseWriteMode(s string) verifhook.WriteMode {
	switch s {
	case "applied":
		return verifhook.WriteApplied
	case "refused":
		return verifhook.WriteRefused
	case "ignored":
		return verifhook.WriteIgnored
	}
	panic("bad write mode " + s)
}

// resp=id | q:<n> | t:<k>:<v>;<k>:<v>...
func parseResp(s string) func(int) int {
	switch {
	case s == "id" || s == "":
		return nil
	case strings.HasPrefix(s, "q:"):
		q, _ := strconv.Atoi(s[2:])
		return func(v int) int {
			if q <= 0 {
				return v
			}
			// floor division (values are non-negative in practice)
			d := v / q
			if v%q != 0 && v < 0 {
				d--
			}
			return d * q
		}
	case strings.HasPrefix(s, "t:"):
		m, _ := parseIntMap(strings.ReplaceAll(s[2:], ";", ","))
		return func(v int) int {
			if r, ok := m[v]; ok {
				return r
			}
			return v
		}
	}
	panic("bad resp " + s)
}

func touch(path string, present bool) {
	if present {
		_ = os.WriteFile(path, []byte("0\n"), 0644)
	} else {
		_ = os.Remove(path)
	}
}

// shapes of unparsable file content (ReadIntFromFile must return an error for each of them)
var garbageShapes = []string{"garbage\n", "\n", " \t\n", "4x\n", "\n\n", "0x1F\n"}
var garbageCounter int

var worldRegs = []struct {
	name string
	reg  verifhook.Reg
}{{"pwm1", verifhook.RegPwm}, {"pwm1_enable", verifhook.RegMode}, {"fan1_input", verifhook.RegRpm}}

// bind / unbind a register under the configured (symlinked) path and under the real path writes are resolved to
func (w *world) bindReg(name string, reg verifhook.Reg, on bool) {
	for _, d := range []string{w.dir, w.real} {
		if d == "" {
			continue
		}
		if on {
			verifhook.Bind(d+"/"+name, w.dev, reg)
		} else {
			verifhook.Unbind(d + "/" + name)
		}
	}
}

func (w *world) unbindAll() {
	for _, d := range append([]string{w.dir, w.real}, w.old...) {
		if d == "" {
			continue
		}
		for _, r := range worldRegs {
			verifhook.Unbind(d + "/" + r.name)
		}
	}
}

// reprobe: the device is enumerated again (resume, driver re-probe): the configured path now leads to a NEW directory
// whose registers hold whatever the firmware / another program left there; the old directory lingers on with the old
// content (a ghost device nobody reads). Everything fan2go does has to reach the device the configured path leads to NOW.
func (w *world) reprobe() {
	if w.real == "" {
		return
	}
	ghost := *w.dev
	ghost.Log, ghost.LogOff, ghost.OnWrite, ghost.RpmGate, ghost.RpmEntered = nil, true, nil, nil, nil
	w.gen++
	newReal := fmt.Sprintf("%s.r%d", w.dir, w.gen)
	_ = os.MkdirAll(newReal, 0755)
	for _, r := range worldRegs {
		if _, err := os.Stat(w.real + "/" + r.name); err == nil {
			touch(newReal+"/"+r.name, true)
			verifhook.Bind(w.real+"/"+r.name, &ghost, r.reg)
			verifhook.Bind(newReal+"/"+r.name, w.dev, r.reg)
		}
	}
	_ = os.Remove(w.dir)
	_ = os.Symlink(newReal, w.dir)
	w.old = append(w.old, w.real)
	w.real = newReal
}

var worldInitLocked bool

func (w *world) applyDev(a kv) {
	d := w.dev
	if _, ok := a["reprobe"]; ok {
		w.reprobe()
	}
	for _, v := range a {
		if v == "other:0" {
			garbageCounter++
			d.GarbageText = garbageShapes[garbageCounter%len(garbageShapes)]
		}
	}
	for k, v := range a {
		switch k {
		case "pwm":
			d.Pwm, _ = strconv.Atoi(v)
		case "mode":
			d.Mode, _ = strconv.Atoi(v)
		case "rpm":
			d.Rpm, _ = strconv.Atoi(v)
		case "glitch":
			d.PwmReadGlitch, _ = strconv.Atoi(v)
		case "initlock":
			// another fan of the daemon is being analysed from now on (initlock=1: the serialisation lock of the start-up
			// analysis is held) / its analysis is over (initlock=0); regulation of THIS fan goes on unaffected
			if v == "1" && !worldInitLocked {
				controller.InitializationSequenceMutex.Lock()
				worldInitLocked = true
			} else if v == "0" && worldInitLocked {
				controller.InitializationSequenceMutex.Unlock()
				worldInitLocked = false
			}
		case "resp":
			d.Resp = parseResp(v)
		case "pwmread":
			d.PwmRead = parseReadMode(v)
		case "pwmwrite":
			d.PwmWrite = parseWriteMode(v)
		case "moderead":
			d.ModeRead = parseReadMode(v)
		case "modewrite":
			d.ModeWrite = parseWriteMode(v)
		case "rpmread":
			d.RpmRead = parseReadMode(v)
		case "hasmode":
			if w.kind == "hwmon" {
				touch(w.dir+"/pwm1_enable", v == "1")
				w.bindReg("pwm1_enable", verifhook.RegMode, v == "1")
			}
		case "hasrpm":
			if w.kind == "hwmon" {
				touch(w.dir+"/fan1_input", v == "1")
			}
			w.bindReg("fan1_input", verifhook.RegRpm, v == "1")
		}
	}
	if w.cmd != nil {
		w.cmdApplyDev(a)
	}
}

func (w *world) state() string {
	if w.cmd != nil {
		w.cmdPull()
	}
	last, ok := w.ctl.VerifLastSetPwm()
	ls := "-"
	if ok {
		ls = strconv.Itoa(last)
	}
	st := w.ctl.GetStatistics()
	rint := 0
	switch f := w.fan.(type) {
	case *fans.FileFan:
		rint = f.Rpm
	case *fans.CmdFan:
		rint = f.Rpm
	}
	avg := w.fan.GetRpmAvg()
	if w.kind != "hwmon" {
		avg = 0
	}
	// the raise counter: through the export shim; when the field the shim reads is gone from the tree (the shim is then a
	// stub that panics) the counter of the statistics stands in
	off := func() (v int) {
		defer func() {
			if recover() != nil {
				v = st.MinPwmOffset
			}
		}()
		return w.ctl.VerifMinPwmOffset()
	}()
	return fmt.Sprintf("pwm=%d mode=%d last=%s off=%d min=%d max=%d avg=%s rint=%d cnt=%d inc=%d",
		w.dev.Pwm, w.dev.Mode, ls, off, w.fan.GetMinPwm(), w.fan.GetMaxPwm(),
		fmtF(avg), rint, st.UnexpectedPwmValueCount, st.IncreasedMinPwmCount)
}

func (w *world) takeLog() string {
	if w.cmd != nil {
		w.cmdPull()
	}
	l := w.dev.Log
	w.dev.Log = nil
	if len(l) == 0 {
		return "-"
	}
	return strings.Join(l, ",")
}

func errTok(err error) string {
	if err == nil {
		return "ok"
	}
	if errors.Is(err, controller.ErrFanStalledAtMaxPwm) {
		return "err:stalled-at-max"
	}
	return "err"
}

func init() {
	register("w", func(op string, a kv) string {
		switch op {
		case "w.new":
			if worldInitLocked {
				controller.InitializationSequenceMutex.Unlock()
				worldInitLocked = false
			}
			if worldDirBase == "" {
				d, err := os.MkdirTemp("", "verifworld")
				if err != nil {
					panic(err)
				}
				worldDirBase = d
				cleanups = append(cleanups, func() { os.RemoveAll(d) })
			}
			if curWorld != nil {
				curWorld.unbindAll()
				os.RemoveAll(curWorld.dir)
				for _, d := range append([]string{curWorld.real}, curWorld.old...) {
					if d != "" {
						os.RemoveAll(d)
					}
				}
			}
			worldCounter++
			dir := fmt.Sprintf("%s/w%d", worldDirBase, worldCounter)
			w := &world{dir: dir, kind: a.str("kind", "hwmon")}
			if w.kind == "cmd" {
				_ = os.MkdirAll(dir, 0755)
			} else {
				w.real = dir + ".r0"
				_ = os.MkdirAll(w.real, 0755)
				_ = os.Symlink(w.real, dir)
			}
			touch(dir+"/pwm1", true)
			w.dev = &verifhook.Device{Mode: 2}
			for _, r := range worldRegs {
				w.bindReg(r.name, r.reg, true)
			}
			if w.kind == "hwmon" {
				touch(dir+"/pwm1_enable", a.bool("hasmode", true))
				touch(dir+"/fan1_input", a.bool("hasrpm", true))
			}
			w.fan = newFanFromKV(a, dir)
			if h, ok := w.fan.(*fans.HwMonFan); ok {
				// pointer limits as after AttachFanRpmCurveData (or as configured)
				if p := a.optInt("minp"); p != nil {
					h.MinPwm = p
				}
				if p := a.optInt("startp"); p != nil {
					h.StartPwm = p
				}
				if p := a.optInt("maxp"); p != nil {
					h.MaxPwm = p
				}
				h.RpmMovingAvg = a.f64("avg", 0)
			} else {
				w.fan.SetRpmAvg(float64(a.int("rint", 0)))
			}
			if cf, ok := w.fan.(*fans.CmdFan); ok {
				w.newCmdWorld(cf.Config.Cmd)
			}
			w.applyDev(a)
			w.curve = &scriptCurve{id: "curve"}
			configuration.CurrentConfig.RpmRollingWindowSize = a.int("win", 10)
			pm, hasMap := parseIntMap(a.str("map", "nil"))
			w.ctl = controller.VerifNew(nil, w.fan, w.curve, newLoop(a), 200*time.Millisecond, pm, hasMap)
			w.ctl.VerifSetOriginal(a.int("origmode", 2), a.int("origpwm", 0))
			if p := a.optInt("last"); p != nil {
				w.ctl.VerifSetLastSetPwm(*p, true)
			}
			curWorld = w
			return "ok distinct=" + fmtInts(w.ctl.VerifDistinct()) + " " + w.state()
		case "w.attach":
			// the fan's limits as the start-up path installs them: from measured curve data, on top of the configuration
			m, ok := parseFloatMap(a.str("data", "nil"))
			var err error
			if ok {
				err = curWorld.fan.AttachFanRpmCurveData(&m)
			} else {
				err = curWorld.fan.AttachFanRpmCurveData(nil)
			}
			if err != nil {
				return "err " + curWorld.state()
			}
			return "ok " + curWorld.state()
		case "w.cyclebusy":
			// a control cycle that falls into an RPM measurement of the same controller which is still waiting for its
			// (slow) RPM read: the cycle has to do its work regardless
			w := curWorld
			if w.cmd != nil {
				return "bad-op"
			}
			verifhook.SetClock(int64(a.int("now", 0)))
			w.curve.next = a.str("curve", "0")
			gate, entered := make(chan struct{}), make(chan struct{})
			w.dev.RpmGate, w.dev.RpmEntered = gate, entered
			pollDone := make(chan struct{})
			go func() {
				defer close(pollDone)
				defer func() { _ = recover() }()
				w.ctl.VerifMeasureRpm()
			}()
			select {
			case <-entered:
			case <-pollDone: // the measurement never read the RPM register (no RPM input)
			case <-time.After(5 * time.Second):
			}
			var res string
			func() {
				defer func() {
					if r := recover(); r != nil {
						res = "panic:" + panicClass(r)
					}
				}()
				res = errTok(w.ctl.UpdateFanSpeed())
			}()
			out := "res=" + res + " log=" + w.takeLog() + " " + w.state()
			w.dev.RpmGate = nil
			// fail=1: the slow RPM read the measurement is waiting for ends in an error
			oldRead := w.dev.RpmRead
			if a.bool("fail", false) {
				w.dev.RpmRead = verifhook.ReadErrOther
			}
			close(gate)
			select {
			case <-pollDone:
			case <-time.After(5 * time.Second):
			}
			w.dev.RpmRead = oldRead
			return out
		case "w.setmap":
			// a new PWM map is installed on the SAME controller the way computePwmMap does: assign, then derive the
			// supported inputs with the real updateDistinctPwmValues
			pm, hasMap := parseIntMap(a.str("map", "nil"))
			if !hasMap {
				return "bad-op"
			}
			curWorld.ctl.VerifSetPwmMap(pm)
			curWorld.ctl.VerifUpdateDistinct()
			return "ok distinct=" + fmtInts(curWorld.ctl.VerifDistinct()) + " " + curWorld.state()
		case "w.dev":
			curWorld.applyDev(a)
			return "ok " + curWorld.state()
		case "w.cycle":
			w := curWorld
			verifhook.SetClock(int64(a.int("now", 0)))
			w.curve.next = a.str("curve", "0")
			var res string
			func() {
				defer func() {
					if r := recover(); r != nil {
						res = "panic:" + panicClass(r)
					}
				}()
				res = errTok(w.ctl.UpdateFanSpeed())
			}()
			return "res=" + res + " log=" + w.takeLog() + " " + w.state()
		case "w.calc":
			w := curWorld
			verifhook.SetClock(int64(a.int("now", 0)))
			w.curve.next = a.str("curve", "0")
			var res string
			func() {
				defer func() {
					if r := recover(); r != nil {
						res = "panic:" + panicClass(r)
					}
				}()
				t, err := w.ctl.VerifCalculateTargetPwm()
				if err != nil {
					res = errTok(err)
				} else {
					res = "i" + strconv.Itoa(t)
				}
			}()
			return "res=" + res + " log=" + w.takeLog() + " " + w.state()
		case "w.parallel":
			return wParallel(a)
		case "w.setpwm":
			w := curWorld
			var res string
			func() {
				defer func() {
					if r := recover(); r != nil {
						res = "panic:" + panicClass(r)
					}
				}()
				res = errTok(w.ctl.VerifSetPwm(a.int("t", 0)))
			}()
			return "res=" + res + " log=" + w.takeLog() + " " + w.state()
		case "w.poll":
			curWorld.ctl.VerifMeasureRpm()
			return "ok " + curWorld.state()
		case "w.restore":
			curWorld.ctl.VerifRestore()
			return "ok log=" + curWorld.takeLog() + " " + curWorld.state()
		case "w.manual":
			err := controller.VerifTrySetManualPwm(curWorld.fan)
			return errTok(err) + " log=" + curWorld.takeLog() + " " + curWorld.state()
		}
		return "bad-op"
	})
}
