//go:build verif

// Stream "rc" (property C20, search for a failing schedule): ONE curve object shared by several real fan
// controllers whose control loops (the real DefaultFanController.UpdateFanSpeed) are released at the same instant.
// Meant for the harness built with -race: the race detector's reports on stderr are the result, the line
// protocol only says that the round ran.
//
//	rc.shared kind=<linear|pid|function> loops=<n> rounds=<r> cycles=<c>  -> ok rounds=<r>
package main

import (
	"fmt"
	"os"
	"path/filepath"
	"sync"
	"time"

	"github.com/markusressel/fan2go/internal"
	"github.com/markusressel/fan2go/internal/configuration"
	"github.com/markusressel/fan2go/internal/control_loop"
	"github.com/markusressel/fan2go/internal/controller"
	"github.com/markusressel/fan2go/internal/curves"
	"github.com/markusressel/fan2go/internal/fans"
	"github.com/markusressel/fan2go/internal/sensors"
	"github.com/markusressel/fan2go/internal/verifhook"
)

var rcCounter = 0

func rcShared(a kv) string {
	kind := a.str("kind", "function")
	loops, rounds, cycles := a.int("loops", 4), a.int("rounds", 20), a.int("cycles", 20)
	dir, err := os.MkdirTemp("", "verifrc")
	if err != nil {
		panic(err)
	}
	defer os.RemoveAll(dir)
	identity := map[int]int{}
	for i := 0; i < 256; i++ {
		identity[i] = i
	}
	for r := 0; r < rounds; r++ {
		rcCounter++
		p := fmt.Sprintf("rc%d_", rcCounter)
		verifhook.SetClock(int64(rcCounter) * 1_000_000_000)
		// a real, mutex-guarded sensor object
		sfile := filepath.Join(dir, p+"temp")
		_ = os.WriteFile(sfile, []byte("50000\n"), 0o644)
		s, err := sensors.NewSensor(configuration.SensorConfig{ID: p + "s", File: &configuration.FileSensorConfig{Path: sfile}})
		if err != nil {
			panic(err)
		}
		s.SetMovingAvg(50000)
		sensors.RegisterSensor(s)
		mk := func(cfg configuration.CurveConfig) curves.SpeedCurve {
			c, err := curves.NewSpeedCurve(cfg)
			if err != nil {
				panic(err)
			}
			curves.RegisterSpeedCurve(c)
			return c
		}
		lin := func(id string, mn, mx int) curves.SpeedCurve {
			return mk(configuration.CurveConfig{ID: id, Linear: &configuration.LinearCurveConfig{Sensor: p + "s", Min: mn, Max: mx}})
		}
		var shared curves.SpeedCurve
		switch kind {
		case "linear":
			shared = lin(p+"c", 30, 80)
		case "pid":
			shared = mk(configuration.CurveConfig{ID: p + "c", PID: &configuration.PidCurveConfig{Sensor: p + "s", SetPoint: 60,
				P: -0.05, I: -0.005, D: -0.005}})
		default:
			lin(p+"a", 30, 80)
			lin(p+"b", 40, 90)
			shared = mk(configuration.CurveConfig{ID: p + "c", Function: &configuration.FunctionCurveConfig{
				Type: configuration.FunctionMaximum, Curves: []string{p + "a", p + "b"}}})
		}
		ctls := make([]*controller.DefaultFanController, loops)
		for i := range ctls {
			pf := filepath.Join(dir, fmt.Sprintf("%spwm%d", p, i))
			_ = os.WriteFile(pf, []byte("100\n"), 0o644)
			f, err := fans.NewFan(configuration.FanConfig{ID: fmt.Sprintf("%sf%d", p, i), Curve: p + "c",
				File: &configuration.FileFanConfig{Path: pf}})
			if err != nil {
				panic(err)
			}
			ctls[i] = controller.VerifNew(nil, f, shared, control_loop.NewDirectControlLoop(nil), 200*time.Millisecond, identity, true)
		}
		start := make(chan struct{})
		var wg sync.WaitGroup
		for i := range ctls {
			wg.Add(1)
			go func(c *controller.DefaultFanController) {
				defer wg.Done()
				defer func() { _ = recover() }()
				<-start
				for k := 0; k < cycles; k++ {
					_ = c.UpdateFanSpeed()
				}
			}(ctls[i])
		}
		close(start)
		wg.Wait()
	}
	return fmt.Sprintf("ok rounds=%d", rounds)
}

// rc.sensor kind=<file|hwmon|cmd> readers=<n> rounds=<r>: ONE sensor object read by its monitor (the real updateSensor),
// by control loops (PID curves call GetValue), and by scrapes (GetValue + GetMovingAvg) at the same time, while its
// input flips between a valid reading, garbage / empty content and a missing file - the error and recovery paths of
// GetValue run concurrently.
func rcSensor(a kv) string {
	kind := a.str("kind", "file")
	readers, rounds := a.int("readers", 3), a.int("rounds", 20)
	dir, err := os.MkdirTemp("", "verifrcs")
	if err != nil {
		panic(err)
	}
	defer os.RemoveAll(dir)
	configuration.CurrentConfig.TempRollingWindowSize = 10
	for r := 0; r < rounds; r++ {
		rcCounter++
		p := fmt.Sprintf("rcs%d_", rcCounter)
		sfile := filepath.Join(dir, p+"temp")
		_ = os.WriteFile(sfile, []byte("50000\n"), 0o644)
		cfg := configuration.SensorConfig{ID: p + "s"}
		switch kind {
		case "hwmon":
			cfg.HwMon = &configuration.HwMonSensorConfig{Platform: "fake", Index: 1, TempInput: sfile}
		case "cmd":
			script := filepath.Join(dir, p+"s.sh")
			_ = os.WriteFile(script, []byte("#!/bin/sh\ncat "+sfile+"\n"), 0o755)
			_ = os.Chown(script, 0, 0)
			cfg.Cmd = &configuration.CmdSensorConfig{Exec: script}
		default:
			cfg.File = &configuration.FileSensorConfig{Path: sfile}
		}
		s, err := sensors.NewSensor(cfg)
		if err != nil {
			panic(err)
		}
		s.SetMovingAvg(50000)
		stop := make(chan struct{})
		var wg sync.WaitGroup
		for i := 0; i < readers+1; i++ {
			wg.Add(1)
			go func(i int) {
				defer wg.Done()
				defer func() { _ = recover() }()
				for {
					select {
					case <-stop:
						return
					default:
					}
					if i == 0 {
						_ = internal.VerifUpdateSensor(s)
					} else {
						_, _ = s.GetValue()
						_ = s.GetMovingAvg()
					}
				}
			}(i)
		}
		contents := []string{"50000\n", "", "61000\n", "x\n", "47000\n"}
		n := 40
		if kind == "cmd" {
			n = 6
		}
		for k := 0; k < n; k++ {
			if k%7 == 5 {
				_ = os.Remove(sfile)
			} else {
				_ = os.WriteFile(sfile, []byte(contents[k%len(contents)]), 0o644)
			}
			time.Sleep(300 * time.Microsecond)
		}
		close(stop)
		wg.Wait()
	}
	return fmt.Sprintf("ok rounds=%d", rounds)
}

// rc.indep loops=<n> rounds=<r> cycles=<c>: controllers that share NOTHING (own sensor, own step-curve with its own step
// table, own fan) run their control loops at the same time - hidden shared state inside "pure" helper functions
// (buffer pools, caches) shows up here
func rcIndep(a kv) string {
	loops, rounds, cycles := a.int("loops", 6), a.int("rounds", 10), a.int("cycles", 40)
	dir, err := os.MkdirTemp("", "verifrci")
	if err != nil {
		panic(err)
	}
	defer os.RemoveAll(dir)
	identity := map[int]int{}
	for i := 0; i < 256; i++ {
		identity[i] = i
	}
	for r := 0; r < rounds; r++ {
		rcCounter++
		p := fmt.Sprintf("rci%d_", rcCounter)
		ctls := make([]*controller.DefaultFanController, loops)
		for i := range ctls {
			sfile := filepath.Join(dir, fmt.Sprintf("%stemp%d", p, i))
			_ = os.WriteFile(sfile, []byte(fmt.Sprintf("%d\n", 30000+i*3000)), 0o644)
			sid := fmt.Sprintf("%ss%d", p, i)
			s, err := sensors.NewSensor(configuration.SensorConfig{ID: sid, File: &configuration.FileSensorConfig{Path: sfile}})
			if err != nil {
				panic(err)
			}
			s.SetMovingAvg(float64(30000 + i*3000))
			sensors.RegisterSensor(s)
			steps := map[int]float64{}
			for k := 0; k < 3+i%5; k++ {
				steps[20+k*(7+i)] = float64((k * 40) % 256)
			}
			cid := fmt.Sprintf("%sc%d", p, i)
			c, err := curves.NewSpeedCurve(configuration.CurveConfig{ID: cid, Linear: &configuration.LinearCurveConfig{Sensor: sid, Steps: steps}})
			if err != nil {
				panic(err)
			}
			curves.RegisterSpeedCurve(c)
			pf := filepath.Join(dir, fmt.Sprintf("%spwm%d", p, i))
			_ = os.WriteFile(pf, []byte("100\n"), 0o644)
			f, err := fans.NewFan(configuration.FanConfig{ID: fmt.Sprintf("%sf%d", p, i), Curve: cid, File: &configuration.FileFanConfig{Path: pf}})
			if err != nil {
				panic(err)
			}
			ctls[i] = controller.VerifNew(nil, f, c, control_loop.NewDirectControlLoop(nil), 200*time.Millisecond, identity, true)
		}
		start := make(chan struct{})
		var wg sync.WaitGroup
		for i := range ctls {
			wg.Add(1)
			go func(c *controller.DefaultFanController) {
				defer wg.Done()
				defer func() { _ = recover() }()
				<-start
				for k := 0; k < cycles; k++ {
					_ = c.UpdateFanSpeed()
				}
			}(ctls[i])
		}
		close(start)
		wg.Wait()
	}
	return fmt.Sprintf("ok rounds=%d", rounds)
}

func init() {
	register("rc", func(op string, a kv) string {
		if op == "rc.indep" {
			return rcIndep(a)
		}
		if op == "rc.shared" {
			return rcShared(a)
		}
		if op == "rc.sensor" {
			return rcSensor(a)
		}
		if op == "rc.cfgmap" {
			return rcCfgMap(a)
		}
		return "bad-op"
	})
}
