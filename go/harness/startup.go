//go:build verif

package main

import (
	"context"
	"fmt"
	bolt "go.etcd.io/bbolt"
	"os"
	"sort"
	"strconv"
	"strings"
	"sync"
	"sync/atomic"
	"time"

	"github.com/markusressel/fan2go/internal/configuration"
	"github.com/markusressel/fan2go/internal/control_loop"
	"github.com/markusressel/fan2go/internal/controller"
	"github.com/markusressel/fan2go/internal/curves"
	"github.com/markusressel/fan2go/internal/fans"
	"github.com/markusressel/fan2go/internal/persistence"
	"github.com/markusressel/fan2go/internal/verifhook"
)

// Start-up stream (C15, C16): runs the REAL DefaultFanController.Run on fans whose sysfs files are
// virtual devices, with a real bbolt file, in virtual time (sleeps only advance the clock), and
// stops each controller right after its first regulation cycle.
//
// `su.start` / `su.init` / `su.reset` / `su.together` report WHICH analysis steps happened (booleans);
// `su.data` reports WHAT the analysis computed (stored PWM map, stored RPM curve, derived limits, device
// registers), `su.poke` sets the device registers, `su.settle` runs the real waitForFanToSettle on a
// scripted RPM input. Model counterpart: lean/Fan2go/Model/Analysis.lean via lean/Driver/StartupStream.lean.

type suFan struct {
	id     string
	kind   string
	dir    string
	dev    *verifhook.Device
	cfg    configuration.FanConfig
	spinAt int // device model: rpm = 0 below this pwm, else 10*pwm
	// inertia: after a PWM write the RPM register keeps moving for `drift` more polls (virtual sleeps) before it rests at
	// rpmOf(pwm): a fan that takes long to settle
	drift     int64
	driftLeft int64
	evalSeq   int64
	// panicAttachUs > 0: the fan's driver panics in AttachFanRpmCurveData that many microseconds (real time) after the
	// call began (a fault on the start-up path of ONE controller, outside any analysis of its own)
	panicAttachUs int
	// cycles: regulation cycles (curve evaluations) a start runs before it is stopped (default 1); rival: from the first
	// regulation cycle on something else moves the PWM register after every write of fan2go's, so every cycle reads back a
	// value the map does not predict (a BIOS overriding the fan, a firmware that applies PWM gradually)
	cycles    int
	rival     bool
	evalCount int64
}

// panicFan is a fan whose driver faults (panics) when the measured curve is attached
type panicFan struct {
	fans.Fan
	after time.Duration
}

func (p *panicFan) AttachFanRpmCurveData(d *map[int]float64) error {
	time.Sleep(p.after)
	panic("verif: fan driver fault in AttachFanRpmCurveData")
}

// the device's physics: the RPM register follows the PWM register at every write event
func (f *suFan) rpmOf(pwm int) int {
	if pwm >= f.spinAt {
		return 10 * pwm
	}
	return 0
}

var (
	suDir    string
	suDb     string
	suFans   map[string]*suFan
	suSeq    int64 // global sequence counter for write events
	suEvents []suEvent
	suMu     sync.Mutex
)

type suEvent struct {
	seq  int64
	fan  string
	what string // "pwm=<v>" / "mode=<v>" / "eval"
}

// evalCurve is the fan's curve: its first Evaluate marks "regulation began".
type suCurve struct {
	id   string
	fan  *suFan
	done chan struct{}
	once sync.Once
}

func (c *suCurve) GetId() string { return c.id }
func (c *suCurve) Evaluate() (int, error) {
	n := atomic.AddInt64(&c.fan.evalCount, 1)
	if n == 1 {
		suRecord(c.fan.id, "eval")
	}
	if n >= int64(c.fan.cycles) {
		c.once.Do(func() { close(c.done) })
	}
	return 128, nil
}
func (c *suCurve) CurrentValue() int { return 128 }

func suRecord(fan, what string) {
	s := atomic.AddInt64(&suSeq, 1)
	suMu.Lock()
	suEvents = append(suEvents, suEvent{s, fan, what})
	suMu.Unlock()
}

func suNewFan(a kv) *suFan {
	id := a.str("fan", "f1")
	dir := suDir + "/" + id
	_ = os.MkdirAll(dir, 0755)
	f := &suFan{id: id, kind: a.str("kind", "hwmon"), dir: dir, dev: &verifhook.Device{Mode: 2, Pwm: 100}, spinAt: a.int("spinat", 30)}
	f.dev.LogOff = true
	f.dev.OnWrite = func(e string) {
		suRecord(f.id, e)
		// the device model: RPM follows the PWM register
		f.dev.Rpm = f.rpmOf(f.dev.Pwm)
		if f.drift > 0 && strings.HasPrefix(e, "pwm=") {
			atomic.StoreInt64(&f.driftLeft, f.drift)
		}
		if f.rival && atomic.LoadInt64(&f.evalCount) > 0 && strings.HasPrefix(e, "pwm=") {
			f.dev.Pwm = (f.dev.Pwm + 3) % 256
		}
	}
	f.cycles = a.int("cycles", 1)
	f.rival = a.bool("rival", false)
	f.drift = int64(a.int("drift", 0))
	f.panicAttachUs = a.int("panicattach_us", 0)
	if q := a.int("quant", 0); q > 1 {
		f.dev.Resp = func(v int) int { return (v / q) * q }
	}
	if !a.bool("pwmread", true) {
		// a fan whose PWM value cannot be read: Supports(FeaturePwmSensor) = false
		f.dev.PwmRead = verifhook.ReadErrOther
	}
	touch(dir+"/pwm1", true)
	verifhook.Bind(dir+"/pwm1", f.dev, verifhook.RegPwm)
	verifhook.Bind(dir+"/pwm1_enable", f.dev, verifhook.RegMode)
	if a.bool("hasrpm", true) {
		verifhook.Bind(dir+"/fan1_input", f.dev, verifhook.RegRpm)
	} else {
		// a re-declared id must not keep the RPM input of its previous device
		verifhook.Unbind(dir + "/fan1_input")
	}
	cfg := configuration.FanConfig{ID: id, NeverStop: a.bool("ns", false), Curve: "sucurve_" + id}
	if a.bool("minmax", false) {
		mn, mx := 40, 200
		cfg.MinPwm, cfg.MaxPwm = &mn, &mx
	}
	if sp := a.optInt("startpwm"); sp != nil {
		cfg.StartPwm = sp
	}
	if a.bool("cfgmap", false) {
		m := map[int]int{0: 0, 64: 64, 128: 128, 192: 192, 255: 255}
		switch a.str("mapstyle", "identity") {
		case "plateau": // a 3-speed fan over the full key range
			m = map[int]int{0: 0, 40: 0, 80: 64, 120: 64, 160: 128, 200: 128, 230: 255, 255: 255}
		case "shifted": // outputs differ from the keys
			m = map[int]int{0: 10, 60: 70, 120: 130, 180: 190, 255: 250}
		}
		cfg.PwmMap = &m
	}
	switch f.kind {
	case "hwmon":
		touch(dir+"/pwm1_enable", true)
		touch(dir+"/fan1_input", a.bool("hasrpm", true))
		cfg.HwMon = &configuration.HwMonFanConfig{Platform: "fake", Index: 1, RpmChannel: 1, PwmChannel: 1, SysfsPath: dir,
			RpmInputPath: dir + "/fan1_input", PwmPath: dir + "/pwm1", PwmEnablePath: dir + "/pwm1_enable"}
	case "file":
		rp := ""
		if a.bool("hasrpm", true) {
			rp = dir + "/fan1_input"
		}
		cfg.File = &configuration.FileFanConfig{Path: dir + "/pwm1", RpmPath: rp}
	}
	f.cfg = cfg
	return f
}

func (f *suFan) newFan() fans.Fan {
	fan, err := fans.NewFan(f.cfg)
	if err != nil {
		panic(err)
	}
	return fan
}

// classify the PWM writes of one fan that happened before its first curve evaluation
func suClassify(fan string, from int64) (writes int, sweep bool, measure bool, first, last int64) {
	suMu.Lock()
	defer suMu.Unlock()
	var vals []int
	var seqs []int64
	first, last = -1, -1
	for _, e := range suEvents {
		if e.fan != fan || e.seq <= from {
			continue
		}
		if e.what == "eval" {
			break
		}
		if strings.HasPrefix(e.what, "pwm=") {
			v, _ := strconv.Atoi(strings.SplitN(e.what[4:], ":", 2)[0])
			vals = append(vals, v)
			seqs = append(seqs, e.seq)
			if first < 0 {
				first = e.seq
			}
		}
	}
	writes = len(vals)
	// sweep: a run of >= 200 strictly descending consecutive values starting at 255
	for i := 0; i+200 < len(vals); i++ {
		if vals[i] == 255 {
			ok := true
			for j := 1; j <= 200; j++ {
				if vals[i+j] != 255-j {
					ok = false
					break
				}
			}
			if ok {
				sweep = true
				// the sweep runs on down to 0
				j := i + 200
				for j+1 < len(vals) && vals[j+1] == vals[j]-1 {
					j++
				}
				if seqs[j] > last {
					last = seqs[j]
				}
				break
			}
		}
	}
	// measurement: a run of >= 4 strictly ascending values (the staircase over distinct targets)
	run := 1
	for i := 1; i < len(vals); i++ {
		if vals[i] > vals[i-1] {
			run++
			if run >= 4 {
				measure = true
				if seqs[i] > last { // the analysis interval ends with the last write of a sweep / staircase: what the
					last = seqs[i] // controller writes afterwards (restore on a stop request) is not analysis
				}
			}
		} else {
			run = 1
		}
	}
	return
}

// flakyPersistence: the real persistence, except that the `failAt`-th LoadFanPwmMap of ONE start fails with a transient
// error (what a concurrently running `fan2go fan reset`, or a database briefly locked by another tool, looks like to a
// controller that reads the same entry more than once during one start-up)
type flakyPersistence struct {
	persistence.Persistence
	failAt int
	n      int64
}

func (p *flakyPersistence) LoadFanPwmMap(fanId string) (map[int]int, error) {
	if int(atomic.AddInt64(&p.n, 1)) == p.failAt {
		return nil, fmt.Errorf("transient database error")
	}
	return p.Persistence.LoadFanPwmMap(fanId)
}

// fan id -> failAt, consumed by the fan's next start
var suFlaky = map[string]int{}
var suFlakyMu sync.Mutex

// the fan object of the most recent suRunOne (the one that went through the real Run)
var suLastFan fans.Fan

// the configuration lists exactly the declared fans (in id order)
func suSyncConfig() {
	ids := make([]string, 0, len(suFans))
	for id := range suFans {
		ids = append(ids, id)
	}
	sort.Strings(ids)
	configuration.CurrentConfig.Fans = nil
	for _, id := range ids {
		configuration.CurrentConfig.Fans = append(configuration.CurrentConfig.Fans, suFans[id].cfg)
	}
}

// suPre: controllers created ahead of their start (`su.open ... createpar=1`: created while the option
// runFanInitializationInParallel still had its built-in default, true; the configured value is in force when they start)
var (
	suPre       = map[string]*suPrepared{}
	suCreatePar bool
)

type suPrepared struct {
	c     controller.FanController
	curve *suCurve
}

func suRunOne(f *suFan, ctx context.Context, cancelAfterEval bool) (res string, from int64) {
	from = atomic.LoadInt64(&suSeq)
	suFlakyMu.Lock()
	pre := suPre[f.id]
	delete(suPre, f.id)
	suFlakyMu.Unlock()
	if pre == nil {
		pre = suPrepare(f)
	}
	res = suRunPrepared(pre.c, pre.curve, ctx)
	return
}

func suPrepare(f *suFan) *suPrepared {
	atomic.StoreInt64(&f.evalCount, 0)
	fan := f.newFan()
	if f.panicAttachUs > 0 {
		fan = &panicFan{Fan: fan, after: time.Duration(f.panicAttachUs) * time.Microsecond}
	}
	suLastFan = fan
	curve := &suCurve{id: f.cfg.Curve, fan: f, done: make(chan struct{})}
	curves.RegisterSpeedCurve(curve)
	var p persistence.Persistence = persistence.NewPersistence(suDb)
	suFlakyMu.Lock()
	if at, ok := suFlaky[f.id]; ok {
		delete(suFlaky, f.id)
		p = &flakyPersistence{Persistence: p, failAt: at}
	}
	suFlakyMu.Unlock()
	c := controller.NewFanController(p, fan, control_loop.NewDirectControlLoop(nil), 2*time.Millisecond)
	return &suPrepared{c: c, curve: curve}
}

func suRunPrepared(c controller.FanController, curve *suCurve, ctx context.Context) (res string) {
	cctx, cancel := context.WithCancel(ctx)
	defer cancel()
	errCh := make(chan error, 1)
	go func() {
		defer func() {
			if r := recover(); r != nil {
				errCh <- fmt.Errorf("panic:%s", panicClass(r))
			}
		}()
		errCh <- c.Run(cctx)
	}()
	select {
	case <-curve.done:
		cancel()
		err := <-errCh
		if err != nil {
			res = "err"
		} else {
			res = "ok"
		}
	case err := <-errCh:
		if err != nil {
			if strings.HasPrefix(err.Error(), "panic:") {
				res = err.Error()
			} else {
				res = "err"
			}
		} else {
			res = "ok-noeval"
		}
	case <-time.After(60 * time.Second):
		cancel()
		res = "hang"
	}
	return
}

func suStored(f *suFan) string {
	p := persistence.NewPersistence(suDb)
	_, e1 := p.LoadFanPwmData(f.newFan())
	_, e2 := p.LoadFanPwmMap(f.id)
	return fmt.Sprintf("rpm=%s map=%s", b01(e1 == nil), b01(e2 == nil))
}

func b01(b bool) string {
	if b {
		return "1"
	}
	return "0"
}

func init() {
	register("su", func(op string, a kv) string {
		switch op {
		case "su.open":
			if suDir != "" {
				verifhook.UnbindAll()
				os.RemoveAll(suDir)
			}
			d, err := os.MkdirTemp("", "verifstartup")
			if err != nil {
				panic(err)
			}
			suDir = d
			cleanups = append(cleanups, func() { os.RemoveAll(d) })
			suDb = d + "/fan2go.db"
			suFans = map[string]*suFan{}
			configuration.CurrentConfig.Fans = nil
			suEvents = nil
			configuration.CurrentConfig.RunFanInitializationInParallel = a.bool("parallel", true)
			suCreatePar = a.bool("createpar", false)
			suPre = map[string]*suPrepared{}
			configuration.CurrentConfig.RpmPollingRate = 2 * time.Millisecond
			configuration.CurrentConfig.RpmRollingWindowSize = 10
			configuration.CurrentConfig.TempSensorPollingRate = 200 * time.Millisecond
			configuration.CurrentConfig.MaxRpmDiffForSettledFan = 20
			configuration.CurrentConfig.FanResponseDelay = 2
			verifhook.SetClock(1_000_000_000)
			yield := time.Duration(a.int("yield_us", 0)) * time.Microsecond
			verifhook.SleepHook = func(d time.Duration) {
				for _, f := range suFans {
					if f.drift > 0 {
						if l := atomic.LoadInt64(&f.driftLeft); l > 0 {
							atomic.AddInt64(&f.driftLeft, -1)
							f.dev.Rpm = f.rpmOf(f.dev.Pwm) + int(l)*37
						}
					}
				}
				if yield > 0 {
					time.Sleep(yield)
				}
			}
			return "ok"
		case "su.fan":
			f := suNewFan(a)
			suFans[f.id] = f
			suSyncConfig()
			return "ok"
		case "su.drop":
			// the fan's entry is taken out of the configuration (for a start or two); what is stored under its id stays
			// stored until the USER discards it
			delete(suFans, a.str("fan", "f1"))
			suSyncConfig()
			return "ok"
		case "su.start":
			f := suFans[a.str("fan", "f1")]
			if hold := a.int("hold_ms", 0); hold > 0 {
				// another process (a `fan2go fan` command, a backup tool) holds the database file lock while the daemon
				// starts: the controller has to WAIT for its stored data, not take the wait for "nothing stored"
				if db, err := bolt.Open(suDb, 0600, nil); err == nil {
					go func() {
						time.Sleep(time.Duration(hold) * time.Millisecond)
						_ = db.Close()
					}()
				}
			}
			res, from := suRunOne(f, context.Background(), true)
			w, sweep, measure, _, _ := suClassify(f.id, from)
			_ = w
			// the limits the fan object carries into regulation after the REAL start-up (Run: load / analyse, attach)
			lim := "-"
			if res == "ok" && suLastFan != nil {
				lim = fmt.Sprintf("%d/%d/%d", suLastFan.GetMinPwm(), suLastFan.GetStartPwm(), suLastFan.GetMaxPwm())
			}
			return fmt.Sprintf("res=%s sweep=%s measure=%s %s lim=%s", res, b01(sweep), b01(measure), suStored(f), lim)
		case "su.putrpm":
			// plant a measured RPM curve of an earlier run in the database (through the real persistence)
			f := suFans[a.str("fan", "f1")]
			h, ok := f.newFan().(*fans.HwMonFan)
			if !ok {
				return "bad-op"
			}
			m, _ := parseFloatMap(a.str("data", "-"))
			h.FanCurveData = &m
			if err := persistence.NewPersistence(suDb).SaveFanPwmData(h); err != nil {
				return "err " + suStored(f)
			}
			return "ok " + suStored(f)
		case "su.flaky":
			suFlakyMu.Lock()
			suFlaky[a.str("fan", "f1")] = a.int("at", 2)
			suFlakyMu.Unlock()
			return "ok"
		case "su.delmap":
			f := suFans[a.str("fan", "f1")]
			p := persistence.NewPersistence(suDb)
			return errTok(p.DeleteFanPwmMap(f.id)) + " " + suStored(f)
		case "su.startcancel":
			// start the controller and cancel its context as soon as the start-up PWM sweep has finished, i.e. in
			// the window between "the fan was taken over" and the first regulation cycle (C03)
			f := suFans[a.str("fan", "f1")]
			ctx, cancel := context.WithCancel(context.Background())
			defer cancel()
			sawZero := false
			prev := f.dev.OnWrite
			f.dev.OnWrite = func(e string) {
				if prev != nil {
					prev(e)
				}
				if e == "pwm=0" {
					sawZero = true
				} else if sawZero && strings.HasPrefix(e, "pwm=") {
					cancel() // the write after the sweep (start PWM): cancel now
				}
			}
			res, _ := suRunOne(f, ctx, true)
			f.dev.OnWrite = prev
			return fmt.Sprintf("res=%s swept=%s pwm=%d mode=%d", res, b01(sawZero), f.dev.Pwm, f.dev.Mode)
		case "su.dev":
			// device registers of a fan (not part of the C15 model: used by C03 to see what a failed start left behind)
			f := suFans[a.str("fan", "f1")]
			return fmt.Sprintf("pwm=%d mode=%d", f.dev.Pwm, f.dev.Mode)
		case "su.poke":
			// the environment sets the device registers (a third party, or simply the state the fan is found in);
			// the RPM register follows, as after every write event
			f := suFans[a.str("fan", "f1")]
			f.dev.Pwm = a.int("pwm", f.dev.Pwm)
			f.dev.Mode = a.int("mode", f.dev.Mode)
			f.dev.Rpm = f.rpmOf(f.dev.Pwm)
			return "ok"
		case "su.data":
			// WHAT the analysis computed: the stored PWM map and RPM-curve data of the fan, read through the real
			// persistence; the limits a fresh fan object derives from the stored curve (what the next `Run` does
			// first: LoadFanPwmData + AttachFanRpmCurveData); the device registers
			f := suFans[a.str("fan", "f1")]
			p := persistence.NewPersistence(suDb)
			fan := f.newFan()
			rpm, e1 := p.LoadFanPwmData(fan)
			m, e2 := p.LoadFanPwmMap(f.id)
			ms, rs, lim := "nil", "nil", "-"
			if e2 == nil {
				ms = fmtIntMap(m)
			}
			if e1 == nil {
				rs = fmtFloatMap(rpm)
				if err := fan.AttachFanRpmCurveData(&rpm); err != nil {
					lim = "err"
				} else {
					lim = fmt.Sprintf("%d/%d/%d", fan.GetMinPwm(), fan.GetStartPwm(), fan.GetMaxPwm())
				}
			}
			return fmt.Sprintf("map=%s rpm=%s lim=%s reg=%d/%d/%d", ms, rs, lim, f.dev.Pwm, f.dev.Rpm, f.dev.Mode)
		case "su.settle":
			// the REAL waitForFanToSettle on a scripted RPM input: `rpms` = the values of the successive polls
			// (`e` = a failing read), the last one repeated for ever; reports the number of polls (1 s sleeps)
			f := suFans[a.str("fan", "f1")]
			toks := strings.Split(a.str("rpms", "0"), ",")
			idx := 0
			apply := func() {
				t := toks[len(toks)-1]
				if idx < len(toks) {
					t = toks[idx]
				}
				if t == "e" {
					f.dev.RpmRead = verifhook.ReadErrOther
				} else {
					f.dev.RpmRead = verifhook.ReadOk
					f.dev.Rpm, _ = strconv.Atoi(t)
				}
			}
			oldThr := configuration.CurrentConfig.MaxRpmDiffForSettledFan
			oldHook := verifhook.SleepHook
			oldRpm, oldRead := f.dev.Rpm, f.dev.RpmRead
			configuration.CurrentConfig.MaxRpmDiffForSettledFan = a.f64("thr", 20)
			polls := 0
			limit := a.int("limit", 200)
			type settleHang struct{}
			verifhook.SleepHook = func(d time.Duration) {
				if polls >= limit {
					panic(settleHang{})
				}
				apply()
				idx++
				polls++
			}
			curve := &suCurve{id: f.cfg.Curve, fan: f, done: make(chan struct{})}
			curves.RegisterSpeedCurve(curve)
			c := controller.NewFanController(persistence.NewPersistence(suDb), f.newFan(), control_loop.NewDirectControlLoop(nil), 2*time.Millisecond)
			res := ""
			func() {
				defer func() {
					if r := recover(); r != nil {
						if _, ok := r.(settleHang); ok {
							res = "hang"
						} else {
							res = "panic:" + panicClass(r)
						}
					}
				}()
				c.(*controller.DefaultFanController).VerifWaitForFanToSettle()
				res = fmt.Sprintf("polls=%d", polls)
			}()
			configuration.CurrentConfig.MaxRpmDiffForSettledFan = oldThr
			verifhook.SleepHook = oldHook
			f.dev.Rpm, f.dev.RpmRead = oldRpm, oldRead
			return res
		case "su.reset":
			f := suFans[a.str("fan", "f1")]
			p := persistence.NewPersistence(suDb)
			e1 := p.DeleteFanPwmData(f.newFan())
			e2 := p.DeleteFanPwmMap(f.id)
			return fmt.Sprintf("%s %s", errTok2(e1, e2), suStored(f))
		case "su.init":
			// body of `fan2go fan init` (cmd/fan/init.go): fresh controller, delete, RunInitializationSequence
			f := suFans[a.str("fan", "f1")]
			from := atomic.LoadInt64(&suSeq)
			fan := f.newFan()
			curve := &suCurve{id: f.cfg.Curve, fan: f, done: make(chan struct{})}
			curves.RegisterSpeedCurve(curve)
			p := persistence.NewPersistence(suDb)
			c := controller.NewFanController(p, fan, control_loop.NewDirectControlLoop(nil), 2*time.Millisecond)
			_ = p.DeleteFanPwmData(fan)
			_ = p.DeleteFanPwmMap(f.id)
			err := c.RunInitializationSequence()
			suRecord(f.id, "eval")
			_, sweep, measure, _, _ := suClassify(f.id, from)
			return fmt.Sprintf("res=%s sweep=%s measure=%s %s", errTok(err), b01(sweep), b01(measure), suStored(f))
		case "su.lookups":
			// what concurrently starting controllers do first: every fan looks its stored RPM curve and PWM map up, all at
			// the same moment, on the one database file (`rounds` times each). A look-up of a stored entry that fails makes
			// Run / computePwmMap answer with the analysis (load error => RunInitializationSequence / sweep).
			ids := strings.Split(a.str("fans", "f1,f2"), ",")
			rounds := a.int("rounds", 100)
			deadline := time.Now().Add(time.Duration(a.int("ms", 0)) * time.Millisecond) // ms>0: run for that long instead
			var wg sync.WaitGroup
			var failed int64
			start := make(chan struct{})
			// which entries exist (sequential look-ups first): only those must be found under concurrency
			hasData, hasMap := map[string]bool{}, map[string]bool{}
			for _, id := range ids {
				p := persistence.NewPersistence(suDb)
				fan := suFans[id].newFan()
				_, e1 := p.LoadFanPwmData(fan)
				_, e2 := p.LoadFanPwmMap(fan.GetId())
				hasData[id], hasMap[id] = e1 == nil, e2 == nil
			}
			for _, id := range ids {
				wg.Add(1)
				go func(id string) {
					defer wg.Done()
					f := suFans[id]
					fan := f.newFan()
					p := persistence.NewPersistence(suDb)
					<-start
					for k := 0; k < rounds || (a.int("ms", 0) > 0 && time.Now().Before(deadline)); k++ {
						if hasData[id] {
							if _, err := p.LoadFanPwmData(fan); err != nil {
								atomic.AddInt64(&failed, 1)
							}
						}
						if hasMap[id] {
							if _, err := p.LoadFanPwmMap(fan.GetId()); err != nil {
								atomic.AddInt64(&failed, 1)
							}
						}
					}
				}(id)
			}
			close(start)
			wg.Wait()
			return fmt.Sprintf("ok failed=%d", atomic.LoadInt64(&failed))
		case "su.together":
			// start several fans concurrently (C16); report whether any two analysis intervals overlap
			ids := strings.Split(a.str("fans", "f1,f2"), ",")
			delays := parseInts(a.str("delays_us", "-"))
			from := atomic.LoadInt64(&suSeq)
			var wg sync.WaitGroup
			results := make([]string, len(ids))
			// cancel_us > 0: the daemon is told to stop (SIGTERM, a failing peer) that long after the starts began, i.e.
			// while one fan is being analysed and others wait for their turn
			tctx, tcancel := context.WithCancel(context.Background())
			defer tcancel()
			if c := a.int("cancel_us", 0); c > 0 {
				go func() {
					time.Sleep(time.Duration(c) * time.Microsecond)
					tcancel()
				}()
			}
			if suCreatePar {
				// the controllers exist before the configured value of the option is in force (nothing runs meanwhile)
				saved := configuration.CurrentConfig.RunFanInitializationInParallel
				configuration.CurrentConfig.RunFanInitializationInParallel = true
				for _, id := range ids {
					if suFans[id] != nil {
						suPre[id] = suPrepare(suFans[id])
					}
				}
				configuration.CurrentConfig.RunFanInitializationInParallel = saved
			}
			for i, id := range ids {
				wg.Add(1)
				go func(i int, id string) {
					defer wg.Done()
					if i < len(delays) {
						time.Sleep(time.Duration(delays[i]) * time.Microsecond)
					}
					results[i], _ = suRunOne(suFans[id], tctx, true)
					if strings.HasPrefix(results[i], "panic") {
						results[i] = "panic"
					}
				}(i, id)
			}
			wg.Wait()
			type iv struct{ a, b int64 }
			ivs := map[string]iv{}
			analysed := 0
			for _, id := range ids {
				_, sweep, measure, first, last := suClassify(id, from)
				if (sweep || measure) && first >= 0 {
					ivs[id] = iv{first, last}
					analysed++
				}
			}
			overlap := false
			for i, x := range ids {
				for _, y := range ids[i+1:] {
					ix, okx := ivs[x]
					iy, oky := ivs[y]
					if okx && oky && ix.a < iy.b && iy.a < ix.b {
						overlap = true
					}
				}
			}
			return fmt.Sprintf("res=%s analysed=%d overlap=%s", strings.Join(results, ","), analysed, b01(overlap))
		}
		return "bad-op"
	})
}

func errTok2(a, b error) string {
	if a != nil || b != nil {
		return "err"
	}
	return "ok"
}
