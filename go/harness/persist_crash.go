//go:build verif

package main

// `ps.crashsave kind=rpm|map id=<id> data=<..>|m=<..> delay=<microseconds>` (C14, crash points)
//
// A CHILD PROCESS (this same binary, re-executed with VERIF_PS_CRASH_CHILD set; see init below)
// performs Save* on the current db file; the parent waits until the child reports that it is
// about to call Save*, sleeps `delay` µs and kills it with SIGKILL (if it has not finished yet).
// Then the parent reads the raw bucket contents (read-only bbolt transaction, no fan2go code, so
// nothing is "repaired" by reading) and compares with the snapshot taken before:
//   * every key other than (kind, id) must hold the same bytes as before,
//   * (kind, id) must hold either the old bytes (or still be absent) or exactly json.Marshal(new).
// Finally the parent repeats the save in-process (the recovery a restarted fan2go performs), which
// makes the state determinate again: by theorem C14_crash_then_retry the model's state after
// `ps.crashsave` is that of one uninterrupted save.
//
// Output: `atomic <result of the retried save>` or `violation:<what>`.
// With VERIF_DEBUG set, the numbers of old / new outcomes observed are printed to stderr at exit.

import (
	"bytes"
	"encoding/json"
	"fmt"
	"os"
	"os/exec"
	"strings"
	"syscall"
	"time"

	"github.com/markusressel/fan2go/internal/persistence"
	bolt "go.etcd.io/bbolt"
)

const psChildEnv = "VERIF_PS_CRASH_CHILD"

var psCrashOld, psCrashNew, psCrashChildDone int

// psDoSave runs the Save* call described by (kind, id, tok) on p.
func psDoSave(p persistence.Persistence, kind, id, tok string) error {
	if kind == "map" {
		m, _ := parseIntMap(tok)
		return p.SaveFanPwmMap(id, m)
	}
	m, _ := parseFloatMap(tok)
	return p.SaveFanPwmData(psFan(id, &m))
}

// psNewBytes: the bytes a completed save stores; nil when marshalling fails (nothing is stored).
func psNewBytes(kind, tok string) []byte {
	var b []byte
	var err error
	if kind == "map" {
		m, _ := parseIntMap(tok)
		b, err = json.Marshal(m)
	} else {
		m, _ := parseFloatMap(tok)
		if m == nil {
			m = map[int]float64{}
		}
		b, err = json.Marshal(m)
	}
	if err != nil {
		return nil
	}
	return b
}

// psSnapshot: "bucket/key" -> bytes, of both buckets.
func psSnapshot(path string) (map[string][]byte, error) {
	db, err := bolt.Open(path, 0600, nil)
	if err != nil {
		return nil, err
	}
	defer func() { _ = db.Close() }()
	snap := map[string][]byte{}
	err = db.View(func(tx *bolt.Tx) error {
		for _, bn := range []string{persistence.BucketFans, persistence.BucketFanPwmMap} {
			b := tx.Bucket([]byte(bn))
			if b == nil {
				continue
			}
			if err := b.ForEach(func(k, v []byte) error {
				snap[bn+"/"+string(k)] = append([]byte{}, v...)
				return nil
			}); err != nil {
				return err
			}
		}
		return nil
	})
	return snap, err
}

func psCrashSave(a kv) string {
	kind, id := a.str("kind", "rpm"), a.str("id", "")
	tok := a.str("m", "-")
	if kind != "map" {
		tok = a.str("data", "-")
	}
	before, err := psSnapshot(curPs.path)
	if err != nil {
		return "violation:snapshot-before"
	}
	self, err := os.Executable()
	if err != nil {
		return "err"
	}
	cmd := exec.Command(self)
	cmd.Env = append(os.Environ(), psChildEnv+"="+strings.Join([]string{curPs.path, kind, id, tok}, "\x1f"))
	out, err := cmd.StdoutPipe()
	if err != nil {
		return "err"
	}
	if err := cmd.Start(); err != nil {
		return "err"
	}
	ready := make([]byte, 1)
	_, _ = out.Read(ready) // the child is about to call Save*
	time.Sleep(time.Duration(a.int("delay", 0)) * time.Microsecond)
	_ = cmd.Process.Signal(syscall.SIGKILL)
	if werr := cmd.Wait(); werr == nil {
		psCrashChildDone++ // finished before the kill arrived
	}
	after, err := psSnapshot(curPs.path)
	if err != nil {
		return "violation:unreadable-after-crash"
	}
	slot := psBucket(kind) + "/" + id
	for k, v := range before {
		if k != slot {
			if w, ok := after[k]; !ok || !bytes.Equal(v, w) {
				return "violation:other-entry-changed"
			}
		}
	}
	for k := range after {
		if _, ok := before[k]; !ok && k != slot {
			return "violation:other-entry-appeared"
		}
	}
	oldV, hadOld := before[slot]
	newV, hasNew := after[slot]
	want := psNewBytes(kind, tok)
	switch {
	case hadOld == hasNew && bytes.Equal(oldV, newV):
		psCrashOld++ // (also counts a save that stores the bytes already there)
	case hasNew && want != nil && bytes.Equal(newV, want):
		psCrashNew++
	default:
		return "violation:torn-entry"
	}
	return "atomic " + psErr(psDoSave(curPs.p, kind, id, tok))
}

func init() {
	if spec := os.Getenv(psChildEnv); spec != "" {
		// child mode: never reaches main()
		f := strings.Split(spec, "\x1f")
		if len(f) != 4 {
			os.Exit(3)
		}
		p := persistence.NewPersistence(f[0])
		_, _ = os.Stdout.Write([]byte{'r'})
		if err := psDoSave(p, f[1], f[2], f[3]); err != nil {
			os.Exit(1)
		}
		os.Exit(0)
	}
	psExtra["ps.crashsave"] = psCrashSave
	cleanups = append(cleanups, func() {
		if os.Getenv("VERIF_DEBUG") != "" && psCrashOld+psCrashNew > 0 {
			fmt.Fprintf(os.Stderr, "ps.crashsave: old=%d new=%d (child finished before kill: %d)\n",
				psCrashOld, psCrashNew, psCrashChildDone)
		}
	})
}
