//go:build verif

package main

import (
	"encoding/base64"
	"fmt"
	"os"
	"strconv"
	"strings"
	"time"

	"github.com/markusressel/fan2go/internal"
	"github.com/markusressel/fan2go/internal/configuration"
	"github.com/markusressel/fan2go/internal/sensors"
	"github.com/markusressel/fan2go/internal/verifhook"
)

type sensorWorld struct {
	kind   string
	sensor sensors.Sensor
	dev    *verifhook.Device
	dir    string
}

var curSensor *sensorWorld
var sensorDirBase string
var sensorCounter int

func init() {
	register("sn", func(op string, a kv) string {
		switch op {
		case "sn.new":
			if sensorDirBase == "" {
				d, err := os.MkdirTemp("", "verifsensor")
				if err != nil {
					panic(err)
				}
				sensorDirBase = d
				cleanups = append(cleanups, func() { os.RemoveAll(d) })
			}
			if curSensor != nil {
				verifhook.Unbind(curSensor.dir + "/temp1_input")
				os.RemoveAll(curSensor.dir)
			}
			sensorCounter++
			dir := fmt.Sprintf("%s/s%d", sensorDirBase, sensorCounter)
			_ = os.MkdirAll(dir, 0755)
			w := &sensorWorld{kind: a.str("kind", "file"), dir: dir, dev: &verifhook.Device{}}
			path := dir + "/temp1_input"
			cfg := configuration.SensorConfig{ID: "sensor"}
			switch w.kind {
			case "hwmon":
				cfg.HwMon = &configuration.HwMonSensorConfig{Platform: "fake", Index: 1, TempInput: path}
				verifhook.Bind(path, w.dev, verifhook.RegRaw)
			case "file":
				cfg.File = &configuration.FileSensorConfig{Path: path}
				verifhook.Bind(path, w.dev, verifhook.RegRaw)
			case "cmd":
				script := dir + "/sensor.sh"
				body := fmt.Sprintf("#!/bin/sh\ncat %s/out.txt\nexit $(cat %s/code.txt)\n", dir, dir)
				if err := os.WriteFile(script, []byte(body), 0755); err != nil {
					panic(err)
				}
				cfg.Cmd = &configuration.CmdSensorConfig{Exec: script}
			}
			s, err := sensors.NewSensor(cfg)
			if err != nil {
				panic(err)
			}
			s.SetMovingAvg(a.f64("avg", 0))
			w.sensor = s
			configuration.CurrentConfig.TempRollingWindowSize = a.int("win", 10)
			configuration.CurrentConfig.TempSensorPollingRate = 200 * time.Millisecond
			curSensor = w
			return "ok avg=" + fmtF(s.GetMovingAvg())
		case "sn.poll":
			w := curSensor
			if now := a.int("now", 0); now != 0 {
				verifhook.SetClock(int64(now)) // time between polls: regular ticks and long gaps (outage, suspend)
			}
			if w.kind == "cmd" {
				out, _ := base64.StdEncoding.DecodeString(a.str("out", ""))
				_ = os.WriteFile(w.dir+"/out.txt", out, 0644)
				_ = os.WriteFile(w.dir+"/code.txt", []byte(strconv.Itoa(a.int("exit", 0))), 0644)
				// start=0: the (root-owned, not group/other-writable) script has lost its exec bits: it passes the
				// permission check but cannot be started
				if a.int("start", 1) == 0 {
					_ = os.Chmod(w.dir+"/sensor.sh", 0644)
				} else {
					_ = os.Chmod(w.dir+"/sensor.sh", 0755)
				}
			} else {
				rd := a.str("read", "ok:0")
				switch {
				case strings.HasPrefix(rd, "ok:"):
					w.dev.RawRead = verifhook.ReadOk
					w.dev.Raw = rd[3:]
				case rd == "perm":
					w.dev.RawRead = verifhook.ReadErrPerm
				case rd == "other":
					w.dev.RawRead = verifhook.ReadErrOther
				case rd == "garbage":
					w.dev.RawRead = verifhook.ReadGarbage
					garbageCounter++
					w.dev.GarbageText = garbageShapes[garbageCounter%len(garbageShapes)]
				case rd == "blank":
					w.dev.RawRead = verifhook.ReadGarbage
					w.dev.GarbageText = []string{"\n", " \n", "\t\n"}[garbageCounter%3]
					garbageCounter++
				case rd == "empty":
					w.dev.RawRead = verifhook.ReadEmpty
				}
			}
			err := internal.VerifUpdateSensor(w.sensor)
			r := "ok"
			if err != nil {
				r = "err"
			}
			return r + " avg=" + fmtF(w.sensor.GetMovingAvg())
		}
		return "bad-op"
	})
}
