//go:build verif

package main

import (
	"context"
	"encoding/base64"
	"errors"
	"fmt"
	"os"
	"strconv"
	"strings"
	"sync"
	"time"

	"github.com/markusressel/fan2go/internal"
	"github.com/markusressel/fan2go/internal/configuration"
	"github.com/markusressel/fan2go/internal/sensors"
	"github.com/markusressel/fan2go/internal/verifhook"
	"github.com/prometheus/client_golang/prometheus"
)

type sensorWorld struct {
	kind   string
	sensor sensors.Sensor
	dev    *verifhook.Device
	dir    string
}

var curSensor *sensorWorld
var sensorDirBase string
var sensorCounter int

// scriptedSensor: what the sensor monitor sees of a sensor whose reads succeed `good` times with one value and fail from
// then on (a long outage); it counts the polls
type scriptedSensor struct {
	mu     sync.Mutex
	avg    float64
	value  float64
	good   int
	polls  int
	target int
	hit    chan struct{}
	// inner: the outage is a REAL command sensor whose command keeps failing (`sn.monitor ... cmd=`)
	inner sensors.Sensor
}

func (s *scriptedSensor) GetId() string { return "scripted" }
func (s *scriptedSensor) GetConfig() configuration.SensorConfig {
	return configuration.SensorConfig{ID: "scripted"}
}
func (s *scriptedSensor) GetValue() (float64, error) {
	s.mu.Lock()
	defer s.mu.Unlock()
	s.polls++
	if s.polls == s.target {
		close(s.hit)
	}
	if s.polls <= s.good {
		return s.value, nil
	}
	if s.inner != nil {
		if v, err := s.inner.GetValue(); err != nil {
			return v, err
		}
	}
	return 0, errors.New("sensor outage")
}
func (s *scriptedSensor) GetMovingAvg() float64    { s.mu.Lock(); defer s.mu.Unlock(); return s.avg }
func (s *scriptedSensor) SetMovingAvg(avg float64) { s.mu.Lock(); defer s.mu.Unlock(); s.avg = avg }

// snMonitor runs the REAL sensor monitor (internal.NewSensorMonitor(...).Run, real ticker) over a scripted sensor until
// it has polled `polls` times, then cancels it: the monitor must survive the outage and stop cleanly
func snMonitor(a kv) (res string) {
	configuration.CurrentConfig.TempRollingWindowSize = a.int("win", 10)
	s := &scriptedSensor{avg: a.f64("avg", 0), value: a.f64("val", 0), good: a.int("good", 3), target: a.int("polls", 60), hit: make(chan struct{})}
	if beh := a.str("cmd", ""); beh != "" {
		dir, err := os.MkdirTemp("", "verifmon")
		if err != nil {
			panic(err)
		}
		defer os.RemoveAll(dir)
		script := dir + "/sensor.sh"
		if beh != "missing" {
			body := "#!/bin/sh\nexit 1\n"
			if beh == "garbage" {
				body = "#!/bin/sh\necho not-a-number\n"
			}
			if err := os.WriteFile(script, []byte(body), 0755); err != nil {
				panic(err)
			}
		}
		inner, err := sensors.NewSensor(configuration.SensorConfig{ID: "moncmd", Cmd: &configuration.CmdSensorConfig{Exec: script}})
		if err != nil {
			panic(err)
		}
		s.inner = inner
	}
	ctx, cancel := context.WithCancel(context.Background())
	defer cancel()
	done := make(chan string, 1)
	go func() {
		defer func() {
			if r := recover(); r != nil {
				done <- "panic:" + panicClass(r)
			}
		}()
		err := internal.NewSensorMonitor(s, time.Duration(a.int("rate_us", 500))*time.Microsecond).Run(ctx)
		if err != nil {
			done <- "err"
		} else {
			done <- "ok"
		}
	}()
	select {
	case <-s.hit:
		cancel()
		select {
		case res = <-done:
		case <-time.After(10 * time.Second):
			res = "hang"
		}
	case res = <-done: // ended on its own before the polls were made
		if res == "ok" {
			res = "stopped-early"
		}
	case <-time.After(30 * time.Second):
		res = "stalled" // the monitor stopped polling
	}
	return "res=" + res + " avg=" + fmtF(s.GetMovingAvg())
}

func init() {
	register("sn", func(op string, a kv) string {
		switch op {
		case "sn.monitor":
			return snMonitor(a)
		case "sn.init":
			// start-up: the REAL initializeSensors creates the (cmd) sensor, reads it once and seeds the moving average
			if sensorDirBase == "" {
				d, err := os.MkdirTemp("", "verifsensor")
				if err != nil {
					panic(err)
				}
				sensorDirBase = d
				cleanups = append(cleanups, func() { os.RemoveAll(d) })
			}
			sensorCounter++
			dir := fmt.Sprintf("%s/i%d", sensorDirBase, sensorCounter)
			_ = os.MkdirAll(dir, 0755)
			defer os.RemoveAll(dir)
			out, _ := base64.StdEncoding.DecodeString(a.str("out", ""))
			_ = os.WriteFile(dir+"/out.txt", out, 0644)
			script := dir + "/sensor.sh"
			body := fmt.Sprintf("#!/bin/sh\ncat %s/out.txt\nexit %d\n", dir, a.int("exit", 0))
			if err := os.WriteFile(script, []byte(body), 0755); err != nil {
				panic(err)
			}
			id := fmt.Sprintf("init%d", sensorCounter)
			saved := configuration.CurrentConfig.Sensors
			configuration.CurrentConfig.Sensors = []configuration.SensorConfig{{ID: id, Cmd: &configuration.CmdSensorConfig{Exec: script}}}
			defer func() { configuration.CurrentConfig.Sensors = saved }()
			savedReg := prometheus.DefaultRegisterer
			prometheus.DefaultRegisterer = prometheus.NewRegistry()
			defer func() { prometheus.DefaultRegisterer = savedReg }()
			if err := internal.VerifInitializeSensors(nil); err != nil {
				return "err"
			}
			sn, ok := sensors.GetSensor(id)
			if !ok {
				return "ok avg=<unregistered>"
			}
			return "ok avg=" + fmtF(sn.GetMovingAvg())
		case "sn.initslow":
			// start-up with a sensor whose FIRST read is slow (a helper that has to wake a disk) and fails or answers late,
			// while later reads answer at once: the real initializeSensors, then `polls` real updateSensor polls straight
			// away, then nothing until the first read is long over. Without a poll the smoothed value cannot change.
			if sensorDirBase == "" {
				d, err := os.MkdirTemp("", "verifsensor")
				if err != nil {
					panic(err)
				}
				sensorDirBase = d
				cleanups = append(cleanups, func() { os.RemoveAll(d) })
			}
			sensorCounter++
			dir := fmt.Sprintf("%s/j%d", sensorDirBase, sensorCounter)
			_ = os.MkdirAll(dir, 0755)
			defer os.RemoveAll(dir)
			firstMs := a.int("first_ms", 900)
			firstTail := "exit 1"
			if a.str("first", "fail") == "late" {
				firstTail = fmt.Sprintf("echo %d; exit 0", a.int("firstvalue", 0))
			}
			script := dir + "/sensor.sh"
			body := fmt.Sprintf("#!/bin/sh\nif [ ! -e %s/first ]; then : > %s/first; sleep %d.%03d; %s; fi\necho %d\n",
				dir, dir, firstMs/1000, firstMs%1000, firstTail, a.int("value", 50000))
			if err := os.WriteFile(script, []byte(body), 0755); err != nil {
				panic(err)
			}
			id := fmt.Sprintf("initslow%d", sensorCounter)
			saved := configuration.CurrentConfig.Sensors
			configuration.CurrentConfig.Sensors = []configuration.SensorConfig{{ID: id, Cmd: &configuration.CmdSensorConfig{Exec: script}}}
			defer func() { configuration.CurrentConfig.Sensors = saved }()
			savedReg := prometheus.DefaultRegisterer
			prometheus.DefaultRegisterer = prometheus.NewRegistry()
			defer func() { prometheus.DefaultRegisterer = savedReg }()
			t0 := time.Now()
			if err := internal.VerifInitializeSensors(nil); err != nil {
				return "err"
			}
			sn, ok := sensors.GetSensor(id)
			if !ok {
				return "ok avg=<unregistered>"
			}
			avg0 := sn.GetMovingAvg()
			for k := 0; k < a.int("polls", 5); k++ {
				_ = internal.VerifUpdateSensor(sn)
			}
			avg1 := sn.GetMovingAvg()
			if rest := time.Duration(firstMs+400)*time.Millisecond - time.Since(t0); rest > 0 {
				time.Sleep(rest)
			}
			return "ok avg0=" + fmtF(avg0) + " avg1=" + fmtF(avg1) + " avg2=" + fmtF(sn.GetMovingAvg())
		case "sn.new":
			if sensorDirBase == "" {
				d, err := os.MkdirTemp("", "verifsensor")
				if err != nil {
					panic(err)
				}
				sensorDirBase = d
				cleanups = append(cleanups, func() { os.RemoveAll(d) })
			}
			if curSensor != nil {
				verifhook.Unbind(curSensor.dir + "/temp1_input")
				os.RemoveAll(curSensor.dir)
			}
			sensorCounter++
			dir := fmt.Sprintf("%s/s%d", sensorDirBase, sensorCounter)
			_ = os.MkdirAll(dir, 0755)
			w := &sensorWorld{kind: a.str("kind", "file"), dir: dir, dev: &verifhook.Device{}}
			path := dir + "/temp1_input"
			cfg := configuration.SensorConfig{ID: "sensor"}
			switch w.kind {
			case "hwmon":
				cfg.HwMon = &configuration.HwMonSensorConfig{Platform: "fake", Index: 1, TempInput: path}
				verifhook.Bind(path, w.dev, verifhook.RegRaw)
			case "file":
				cfg.File = &configuration.FileSensorConfig{Path: path}
				verifhook.Bind(path, w.dev, verifhook.RegRaw)
			case "cmd":
				script := dir + "/sensor.sh"
				body := fmt.Sprintf("#!/bin/sh\ncat %s/out.txt\nexit $(cat %s/code.txt)\n", dir, dir)
				if err := os.WriteFile(script, []byte(body), 0755); err != nil {
					panic(err)
				}
				cfg.Cmd = &configuration.CmdSensorConfig{Exec: script}
			}
			s, err := sensors.NewSensor(cfg)
			if err != nil {
				panic(err)
			}
			s.SetMovingAvg(a.f64("avg", 0))
			w.sensor = s
			configuration.CurrentConfig.TempRollingWindowSize = a.int("win", 10)
			configuration.CurrentConfig.TempSensorPollingRate = 200 * time.Millisecond
			curSensor = w
			return "ok avg=" + fmtF(s.GetMovingAvg())
		case "sn.poll":
			w := curSensor
			if now := a.int("now", 0); now != 0 {
				verifhook.SetClock(int64(now)) // time between polls: regular ticks and long gaps (outage, suspend)
			}
			if w.kind == "cmd" {
				out, _ := base64.StdEncoding.DecodeString(a.str("out", ""))
				_ = os.WriteFile(w.dir+"/out.txt", out, 0644)
				_ = os.WriteFile(w.dir+"/code.txt", []byte(strconv.Itoa(a.int("exit", 0))), 0644)
				// start=0: the (root-owned, not group/other-writable) script has lost its exec bits: it passes the
				// permission check but cannot be started
				if a.int("start", 1) == 0 {
					_ = os.Chmod(w.dir+"/sensor.sh", 0644)
				} else {
					_ = os.Chmod(w.dir+"/sensor.sh", 0755)
				}
			} else {
				rd := a.str("read", "ok:0")
				switch {
				case strings.HasPrefix(rd, "ok:"):
					w.dev.RawRead = verifhook.ReadOk
					w.dev.Raw = rd[3:]
				case rd == "perm":
					w.dev.RawRead = verifhook.ReadErrPerm
				case rd == "other":
					w.dev.RawRead = verifhook.ReadErrOther
				case rd == "garbage":
					w.dev.RawRead = verifhook.ReadGarbage
					garbageCounter++
					w.dev.GarbageText = garbageShapes[garbageCounter%len(garbageShapes)]
				case rd == "blank":
					w.dev.RawRead = verifhook.ReadGarbage
					w.dev.GarbageText = []string{"\n", " \n", "\t\n"}[garbageCounter%3]
					garbageCounter++
				case rd == "empty":
					w.dev.RawRead = verifhook.ReadEmpty
				}
			}
			if a.bool("slow", false) && w.kind != "cmd" {
				// the read of this poll hangs (a stalled bus / mount) for longer than any time-out the monitor may apply (3.1 s
				// of virtual time pass while it is blocked) and then completes. Whatever the poll does about it, later polls
				// must each apply THEIR OWN read.
				gate, entered := make(chan struct{}), make(chan struct{})
				w.dev.RawGate, w.dev.RawEntered = gate, entered
				done := make(chan error, 1)
				go func() {
					defer func() {
						if r := recover(); r != nil {
							done <- fmt.Errorf("panic")
						}
					}()
					done <- internal.VerifUpdateSensor(w.sensor)
				}()
				select {
				case <-entered:
				case <-time.After(2 * time.Second):
				}
				verifhook.Advance(3100 * time.Millisecond)
				var err error
				returned := false
				select {
				case err = <-done:
					returned = true
				case <-time.After(300 * time.Millisecond):
				}
				w.dev.RawGate = nil
				close(gate)
				if !returned {
					select {
					case err = <-done:
					case <-time.After(5 * time.Second):
						return "hang avg=" + fmtF(w.sensor.GetMovingAvg())
					}
				} else {
					time.Sleep(30 * time.Millisecond) // the late read finishes
				}
				r := "ok"
				if err != nil {
					r = "err"
				}
				return r + " avg=" + fmtF(w.sensor.GetMovingAvg())
			}
			err := internal.VerifUpdateSensor(w.sensor)
			r := "ok"
			if err != nil {
				r = "err"
			}
			return r + " avg=" + fmtF(w.sensor.GetMovingAvg())
		}
		return "bad-op"
	})
}
