module verif/transgen2

go 1.21
