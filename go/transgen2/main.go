// transgen2: Go -> Lean translator (second generation) for whole functions WITH loops, slices, maps, early
// returns and error results.  usage: transgen2 <repo-root>  ->  JSON on stdout ({"defs":[...]}), rendered into
// lean/Fan2go/Generated/Trans2.lean by vlib/transgen2.py on every check run.
//
// Where transgen (v1) builds a pure expression by continuation passing, this one emits Lean `do` notation in the
// `Res` monad of the model (ok / err / panic), so that the generated text follows the Go statement by statement:
//
//	x := e / var x T = e / x = e / x op= e / x++      let mut x : T := e / x := e
//	if c { } else if { } else { }                      if c then ... else ...          (no init clause)
//	switch tag { case A: ... default: ... }            if tag = A then ... else ...    (no fallthrough)
//	for init; cond; post { }, for cond { }             for _ in Go.Fuel.mk FUEL do (if ¬ cond then break); body; post
//	                                                   (FUEL is declared by the target; running out of fuel is a panic,
//	                                                    so a theorem about the translation covers the real loop only
//	                                                    while FUEL suffices - which the tie theorem has to establish)
//	for _, v := range xs / for i, v := range xs        for v in xs.toList do / for (i, v) in Go.enum xs do
//	for k := range m { ks = append(ks, k) }; sort.Ints(ks)      ks := Go.sortedKeys m   (the only map iteration accepted)
//	break / continue / return e / return a, b          (continue in a 3-clause loop runs the post statement first)
//	a[i]            (← Go.idx a i)      index out of range panics          len(a)  Go.len a      append(a, v)  a.push v
//	m[k]            Go.mapGet m k        missing key gives the zero value
//	a / b, a % b    (← Go.div a b), (← Go.mod a b) on int: truncated, division by zero panics
//	a && b, a || b  short-circuit: the right operand's effects (index, division, call) happen only when it is evaluated
//	v, err := f(..); if err != nil { return .., err }  let v ← f ..    (the Res monad propagates the error; the `if` must be
//	                                                    exactly that propagation and is dropped with a note)
//	ui.<log>(...) skipped (noted);  ui.Fatal(...)      Go.fatal (panic)
//
// Types are resolved syntactically (declared types, literals, signatures of translated functions, the target's own
// declarations for receiver fields / opaque calls).  Anything outside the subset makes the target
// `unsupported: <reason>` - never a guess.
package main

import (
	"bytes"
	"encoding/json"
	"fmt"
	"go/ast"
	"go/parser"
	"go/printer"
	"go/token"
	"os"
	"path/filepath"
	"sort"
	"strconv"
	"strings"
)

type unsupported string

func fail(f string, a ...any) { panic(unsupported(fmt.Sprintf(f, a...))) }

// ---------------------------------------------------------------- source access
type pkg struct {
	dir   string
	files []*ast.File
}

var (
	fset = token.NewFileSet()
	repo string
	pkgs = map[string]*pkg{}
)

func load(dir string) *pkg {
	if p, ok := pkgs[dir]; ok {
		return p
	}
	p := &pkg{dir: dir}
	ents, err := os.ReadDir(filepath.Join(repo, dir))
	if err != nil {
		fail("package directory %s not readable", dir)
	}
	for _, e := range ents {
		if n := e.Name(); strings.HasSuffix(n, ".go") && !strings.HasSuffix(n, "_test.go") {
			f, err := parser.ParseFile(fset, filepath.Join(repo, dir, n), nil, 0)
			if err != nil {
				fail("%s/%s does not parse", dir, n)
			}
			p.files = append(p.files, f)
		}
	}
	pkgs[dir] = p
	return p
}

func str(n ast.Node) string {
	var b bytes.Buffer
	printer.Fprint(&b, fset, n)
	return strings.Join(strings.Fields(b.String()), " ")
}

func line(n ast.Node) int { return fset.Position(n.Pos()).Line }

func recvOf(d *ast.FuncDecl) (name, ty string) {
	if d.Recv == nil || len(d.Recv.List) != 1 {
		return "", ""
	}
	r := d.Recv.List[0]
	if len(r.Names) == 1 {
		name = r.Names[0].Name
	}
	e := r.Type
	if s, ok := e.(*ast.StarExpr); ok {
		e = s.X
	}
	if id, ok := e.(*ast.Ident); ok {
		ty = id.Name
	}
	return
}

func (p *pkg) fn(recv, name string) (*ast.FuncDecl, *ast.File) {
	for _, f := range p.files {
		for _, d := range f.Decls {
			if fd, ok := d.(*ast.FuncDecl); ok && fd.Name.Name == name && fd.Body != nil {
				if _, ty := recvOf(fd); ty == recv {
					return fd, f
				}
			}
		}
	}
	return nil, nil
}

// package-level constant with a literal value: (lean literal, lean type)
func (p *pkg) constOf(name string) (string, string, bool) {
	for _, f := range p.files {
		for _, d := range f.Decls {
			gd, ok := d.(*ast.GenDecl)
			if !ok || gd.Tok != token.CONST {
				continue
			}
			for _, s := range gd.Specs {
				vs := s.(*ast.ValueSpec)
				for i, n := range vs.Names {
					if n.Name != name || i >= len(vs.Values) {
						continue
					}
					if bl, ok := vs.Values[i].(*ast.BasicLit); ok {
						switch bl.Kind {
						case token.INT:
							if _, err := strconv.ParseInt(bl.Value, 10, 64); err == nil && (len(bl.Value) == 1 || bl.Value[0] != '0') {
								return bl.Value, "const", true
							}
						case token.STRING:
							if s, err := strconv.Unquote(bl.Value); err == nil {
								return strconv.Quote(s), "String", true
							}
						}
					}
				}
			}
		}
	}
	return "", "", false
}

func importDir(f *ast.File, alias string) string {
	for _, im := range f.Imports {
		p, _ := strconv.Unquote(im.Path.Value)
		name := p[strings.LastIndex(p, "/")+1:]
		if im.Name != nil {
			name = im.Name.Name
		}
		if name == alias {
			if strings.HasPrefix(p, modPath) {
				return strings.TrimPrefix(p, modPath)
			}
			return "<ext>" + p
		}
	}
	return ""
}

const modPath = "github.com/markusressel/fan2go/"

// ---------------------------------------------------------------- targets
type opq struct {
	lean string   // name of the function parameter
	args []string // lean types of the arguments
	ret  string   // lean type of the result
	res  bool     // the parameter returns `Res ret` (may fail / panic): the call is an effect
	// when the Go call returns (value, error) / (value, bool) and the second result is bound to `_` or an error variable
	two bool
}

type target struct {
	name, dir, recv, fn string
	fields              map[string]string // Go selector text -> Go type text (DECLARED by the table, noted in the output)
	opaque              map[string]opq    // Go call text (function part) -> parameter
	types               map[string]string // named Go type -> lean type (DECLARED)
	fuel                string            // lean expression: iteration bound of every cond-controlled loop of the function
	skip                []string          // statement-level calls that are skipped with a note (effects modelled elsewhere)
	wrap                bool              // Go int + - * wrap at 64 bits (emit Go.wrap64): for aggregates an int(NaN) may flow into
	params              map[string]string // override of parameter types: name -> lean type (for interface-typed parameters that are only passed to opaque calls)
}

var targets = []target{
	{name: "util_FindClosest", dir: "internal/util", fn: "FindClosest", fuel: "(arr.size + 1)"},
	{name: "util_CalculateInterpolatedCurveValue", dir: "internal/util", fn: "CalculateInterpolatedCurveValue", fuel: "(steps.length + 1)"},
	{name: "util_ExtractKeysWithDistinctValues", dir: "internal/util", fn: "ExtractKeysWithDistinctValues"},
	{name: "fans_ComputePwmBoundaries", dir: "internal/fans", fn: "ComputePwmBoundaries",
		params: map[string]string{"fan": "Unit"},
		opaque: map[string]opq{
			"fan.GetStartPwm":        {lean: "fan_GetStartPwm", ret: "Int"},
			"fan.GetFanRpmCurveData": {lean: "fan_GetFanRpmCurveData", ret: "List (Int × F64)"},
		}},
	{name: "FunctionSpeedCurve_Evaluate", dir: "internal/curves", recv: "FunctionSpeedCurve", fn: "Evaluate",
		fields: map[string]string{"c.Config.Function.Curves": "[]string", "c.Config.Function.Type": "string", "c.Config.ID": "string"},
		types:  map[string]string{"SpeedCurve": "String"},
		opaque: map[string]opq{
			"GetSpeedCurve":  {lean: "getSpeedCurve", args: []string{"String"}, ret: "String", two: true},
			"curve.Evaluate": {lean: "evaluate", args: []string{}, ret: "Int", res: true, two: true},
		},
		skip: []string{"c.SetValue"}, wrap: true},
}

// ---------------------------------------------------------------- translation state
type tr struct {
	tg       *target
	p        *pkg
	file     *ast.File
	recv     string
	vars     map[string]string // Go local / parameter -> lean type
	errnil   map[string]bool   // error variables known to be nil (the error path has short-circuited)
	results  []string          // lean types of the results ("error" for a trailing error)
	named    []string          // names of named results
	comments []string
	fields   [][2]string // receiver-field parameters in order of first use
	opqUsed  []string
	opqRecv  map[string]string // opaque method call -> lean type of the handle it is called on
	loopPost []string // innermost 3-clause loop's post statement (lean lines), "" when none; stack
}

func (t *tr) note(n ast.Node, f string, a ...any) {
	c := fmt.Sprintf("line %d: ", line(n)) + fmt.Sprintf(f, a...)
	for _, x := range t.comments {
		if x == c {
			return
		}
	}
	t.comments = append(t.comments, c)
}

var leanKw = map[string]bool{"at": true, "from": true, "fun": true, "end": true, "open": true, "in": true, "then": true, "else": true,
	"if": true, "let": true, "have": true, "show": true, "do": true, "match": true, "with": true, "by": true, "def": true, "theorem": true,
	"instance": true, "structure": true, "where": true, "namespace": true, "section": true, "variable": true, "indef": true, "some": true,
	"none": true, "for": true, "return": true, "mut": true, "max": true, "min": true, "sum": true}

func mangle(s string) string {
	if leanKw[s] {
		return s + "_"
	}
	return s
}

func (t *tr) goTyp(e ast.Expr) string {
	switch x := e.(type) {
	case *ast.Ident:
		switch x.Name {
		case "int":
			return "Int"
		case "float64":
			return "F64"
		case "bool":
			return "Bool"
		case "string":
			return "String"
		case "error":
			return "error"
		}
		if l, ok := t.tg.types[x.Name]; ok {
			return l
		}
	case *ast.ArrayType:
		if x.Len == nil {
			switch t.goTyp(x.Elt) {
			case "Int":
				return "Array Int"
			case "F64":
				return "Array F64"
			case "String":
				return "Array String"
			}
		}
	case *ast.MapType:
		if t.goTyp(x.Key) == "Int" {
			switch t.goTyp(x.Value) {
			case "Int":
				return "List (Int × Int)"
			case "F64":
				return "List (Int × F64)"
			}
		}
	case *ast.StarExpr:
		if in := t.goTyp(x.X); strings.HasPrefix(in, "List (") {
			return in // pointer to a map: dereferences are transparent (a nil pointer is outside the translation)
		}
	}
	fail("type `%s` is outside the supported subset", str(e))
	return ""
}

func zero(ty string) string {
	switch ty {
	case "Int":
		return "0"
	case "F64":
		return "(F64.ofInt 0)"
	case "Bool":
		return "false"
	case "String":
		return "\"\""
	}
	if strings.HasPrefix(ty, "Array ") {
		return "#[]"
	}
	if strings.HasPrefix(ty, "List ") {
		return "[]"
	}
	fail("no zero value for %s", ty)
	return ""
}

type ex struct {
	s  string
	ty string // lean type, or "const" (untyped integer constant), "Prop", "errnil", "nil"
}

func (t *tr) conv(e ex, to string, ctx ast.Node) string {
	switch {
	case e.ty == to:
		return e.s
	case e.ty == "const" && to == "F64":
		return "(F64.ofInt " + e.s + ")"
	case e.ty == "const" && to == "Int":
		return e.s
	case e.ty == "Bool" && to == "Prop":
		return "(" + e.s + " = true)"
	case e.ty == "Prop" && to == "Bool":
		return "(decide " + e.s + ")"
	}
	fail("line %d: type mismatch in `%s`: have %s, want %s", line(ctx), str(ctx), e.ty, to)
	return ""
}

func effectful(s string) bool { return strings.Contains(s, "←") }

func (t *tr) field(e *ast.SelectorExpr) (ex, bool) {
	txt := str(e)
	gty, ok := t.tg.fields[txt]
	if !ok {
		return ex{}, false
	}
	te, err := parser.ParseExpr(gty)
	if err != nil {
		fail("bad declared field type %s", gty)
	}
	lean := strings.ReplaceAll(txt, ".", "_")
	ty := t.goTyp(te)
	seen := false
	for _, f := range t.fields {
		seen = seen || f[0] == lean
	}
	if !seen {
		t.fields = append(t.fields, [2]string{lean, ty})
		t.note(e, "receiver field %s : %s is DECLARED by the target table (not inferred from the source)", txt, gty)
	}
	return ex{lean, ty}, true
}

func (t *tr) expr(e ast.Expr) ex {
	switch e := e.(type) {
	case *ast.ParenExpr:
		return t.expr(e.X)
	case *ast.BasicLit:
		switch e.Kind {
		case token.INT:
			if _, err := strconv.ParseInt(e.Value, 10, 64); err != nil || (len(e.Value) > 1 && e.Value[0] == '0') {
				fail("integer literal %s (only decimal literals)", e.Value)
			}
			return ex{e.Value, "const"}
		case token.FLOAT:
			// only literals with an integral value (0.0, 255.0): exact in binary64
			if f, err := strconv.ParseFloat(e.Value, 64); err == nil && f == float64(int64(f)) && f > -1e15 && f < 1e15 {
				return ex{"(F64.ofInt " + strconv.FormatInt(int64(f), 10) + ")", "F64"}
			}
			fail("float literal %s (only integral values)", e.Value)
		case token.STRING:
			if s, err := strconv.Unquote(e.Value); err == nil {
				return ex{strconv.Quote(s), "String"}
			}
		}
		fail("literal %s", e.Value)
	case *ast.Ident:
		switch e.Name {
		case "true", "false":
			return ex{e.Name, "Bool"}
		case "nil":
			return ex{"nil", "nil"}
		}
		if t.errnil[e.Name] {
			return ex{"nil", "errnil"}
		}
		if ty, ok := t.vars[e.Name]; ok {
			return ex{mangle(e.Name), ty}
		}
		if v, ty, ok := t.p.constOf(e.Name); ok {
			t.note(e, "constant %s = %s (from %s)", e.Name, v, t.p.dir)
			return ex{v, ty}
		}
		fail("line %d: identifier %s is not a parameter, local or literal constant", line(e), e.Name)
	case *ast.SelectorExpr:
		if f, ok := t.field(e); ok {
			return f
		}
		if id, ok := e.X.(*ast.Ident); ok {
			if d := importDir(t.file, id.Name); d != "" && !strings.HasPrefix(d, "<ext>") {
				if _, local := t.vars[id.Name]; !local {
					if v, ty, ok := load(d).constOf(e.Sel.Name); ok {
						t.note(e, "constant %s = %s (from %s)", str(e), v, d)
						return ex{v, ty}
					}
				}
			}
		}
		fail("line %d: selector %s is neither a declared receiver field nor a literal constant of the module", line(e), str(e))
	case *ast.StarExpr:
		in := t.expr(e.X)
		if strings.HasPrefix(in.ty, "List (") {
			return in
		}
		fail("line %d: dereference %s", line(e), str(e))
	case *ast.UnaryExpr:
		x := t.expr(e.X)
		switch e.Op {
		case token.ADD:
			if x.ty == "Int" || x.ty == "F64" || x.ty == "const" {
				return x
			}
		case token.SUB:
			switch x.ty {
			case "F64":
				return ex{"(F64.neg " + x.s + ")", "F64"}
			case "Int", "const":
				return ex{"(-" + x.s + ")", x.ty}
			}
		case token.NOT:
			if x.ty == "Bool" || x.ty == "Prop" {
				return ex{"(¬ " + t.conv(x, "Prop", e) + ")", "Prop"}
			}
		}
		fail("line %d: unary operator in `%s`", line(e), str(e))
	case *ast.IndexExpr:
		x := t.expr(e.X)
		i := t.expr(e.Index)
		is := t.conv(i, "Int", e.Index)
		switch x.ty {
		case "Array Int":
			return ex{"(← Go.idx " + x.s + " " + is + ")", "Int"}
		case "Array F64":
			return ex{"(← Go.idx " + x.s + " " + is + ")", "F64"}
		case "Array String":
			return ex{"(← Go.idx " + x.s + " " + is + ")", "String"}
		case "List (Int × Int)":
			return ex{"(Go.mapGet " + x.s + " " + is + ")", "Int"}
		case "List (Int × F64)":
			return ex{"(Go.mapGet " + x.s + " " + is + ")", "F64"}
		}
		fail("line %d: index expression `%s` on %s", line(e), str(e), x.ty)
	case *ast.BinaryExpr:
		return t.binary(e)
	case *ast.CallExpr:
		return t.call(e)
	}
	fail("line %d: expression `%s` (%T)", line(e), str(e), e)
	return ex{}
}

func (t *tr) binary(e *ast.BinaryExpr) ex {
	if e.Op == token.LAND || e.Op == token.LOR {
		l := t.expr(e.X)
		r := t.expr(e.Y)
		ls, rs := t.conv(l, "Prop", e.X), t.conv(r, "Prop", e.Y)
		if effectful(rs) {
			// short circuit: the right operand is evaluated (with its effects) only when the left one does not decide
			if e.Op == token.LAND {
				return ex{"((← (do if " + ls + " then pure (decide " + rs + ") else pure false)) = true)", "Prop"}
			}
			return ex{"((← (do if " + ls + " then pure true else pure (decide " + rs + "))) = true)", "Prop"}
		}
		op := map[token.Token]string{token.LAND: "∧", token.LOR: "∨"}[e.Op]
		return ex{"(" + ls + " " + op + " " + rs + ")", "Prop"}
	}
	l, r := t.expr(e.X), t.expr(e.Y)
	// nil tests on error values
	if (e.Op == token.EQL || e.Op == token.NEQ) && (l.ty == "errnil" && r.ty == "nil" || l.ty == "nil" && r.ty == "errnil") {
		if e.Op == token.EQL {
			return ex{"True", "Prop"}
		}
		return ex{"False", "Prop"}
	}
	ty := l.ty
	if l.ty == "const" {
		ty = r.ty
	}
	switch e.Op {
	case token.EQL, token.NEQ:
		if ty == "String" && l.ty == "String" && r.ty == "String" {
			op := map[token.Token]string{token.EQL: "=", token.NEQ: "≠"}[e.Op]
			return ex{"(" + l.s + " " + op + " " + r.s + ")", "Prop"}
		}
	}
	if ty != "Int" && ty != "F64" && ty != "const" {
		fail("line %d: operands of `%s` (%s, %s)", line(e), str(e), l.ty, r.ty)
	}
	ls, rs := t.conv(l, ty, e.X), t.conv(r, ty, e.Y)
	switch e.Op {
	case token.ADD, token.SUB, token.MUL:
		if t.tg.wrap && ty == "Int" {
			return ex{"(Go.wrap64 (" + ls + " " + e.Op.String() + " " + rs + "))", ty}
		}
		return ex{"(" + ls + " " + e.Op.String() + " " + rs + ")", ty}
	case token.QUO:
		if ty == "F64" {
			return ex{"(" + ls + " / " + rs + ")", ty}
		}
		return ex{"(← Go.div " + ls + " " + rs + ")", "Int"}
	case token.REM:
		if ty == "F64" {
			fail("line %d: %% on floats", line(e))
		}
		return ex{"(← Go.mod " + ls + " " + rs + ")", "Int"}
	case token.EQL, token.NEQ, token.LSS, token.LEQ, token.GTR, token.GEQ:
		if ty == "F64" {
			f := map[token.Token]string{token.EQL: "feq", token.NEQ: "feq", token.LSS: "lt", token.LEQ: "le", token.GTR: "gt", token.GEQ: "ge"}[e.Op]
			s := "(F64." + f + " " + ls + " " + rs + " = true)"
			if e.Op == token.NEQ {
				s = "(¬ " + s + ")"
			}
			return ex{s, "Prop"}
		}
		op := map[token.Token]string{token.EQL: "=", token.NEQ: "≠", token.LSS: "<", token.LEQ: "≤", token.GTR: ">", token.GEQ: "≥"}[e.Op]
		if ty == "const" {
			ls, rs = "("+ls+" : Int)", "("+rs+" : Int)"
		}
		return ex{"(" + ls + " " + op + " " + rs + ")", "Prop"}
	}
	fail("line %d: operator %s in `%s`", line(e), e.Op, str(e))
	return ex{}
}

func (t *tr) args(e *ast.CallExpr, want []string) string {
	if len(e.Args) != len(want) || e.Ellipsis.IsValid() {
		fail("line %d: call `%s`: %d arguments expected", line(e), str(e), len(want))
	}
	var out []string
	for i, a := range e.Args {
		out = append(out, t.conv(t.expr(a), want[i], a))
	}
	return strings.Join(out, " ")
}

var done = map[string]*tr{}

func (t *tr) useOpaque(e *ast.CallExpr, fun string) opq {
	o := t.tg.opaque[fun]
	seen := false
	for _, u := range t.opqUsed {
		seen = seen || u == fun
	}
	if !seen {
		t.opqUsed = append(t.opqUsed, fun)
		kind := "a pure function"
		if o.res {
			kind = "an effect that may fail"
		}
		t.note(e, "opaque call %s(...) is the function parameter `%s` (%s; what it does to other state is not translated)", fun, o.lean, kind)
	}
	return o
}

func (t *tr) call(e *ast.CallExpr) ex {
	fun := str(e.Fun)
	if _, ok := t.tg.opaque[fun]; ok {
		o := t.useOpaque(e, fun)
		var recvArg string
		if sel, ok := e.Fun.(*ast.SelectorExpr); ok {
			if id, ok := sel.X.(*ast.Ident); ok {
				if ty, isVar := t.vars[id.Name]; isVar && ty != "Unit" {
					recvArg = " " + mangle(id.Name) // method on a handle variable: the handle is the first argument
					t.opqRecv[fun] = ty
				}
			}
		}
		a := t.args(e, o.args)
		s := o.lean + recvArg
		if a != "" {
			s += " " + a
		}
		if o.res {
			return ex{"(← " + s + ")", o.ret}
		}
		return ex{"(" + s + ")", o.ret}
	}
	one := func() ex {
		if len(e.Args) != 1 {
			fail("line %d: conversion `%s`", line(e), str(e))
		}
		return t.expr(e.Args[0])
	}
	mathImported := importDir(t.file, "math") == "<ext>math"
	switch {
	case fun == "float64":
		if c, ok := e.Args[0].(*ast.CallExpr); ok && str(c.Fun) == "float32" && len(c.Args) == 1 {
			return ex{"(F64.toF32 " + t.conv(t.expr(c.Args[0]), "F64", c) + ")", "F64"}
		}
		x := one()
		switch x.ty {
		case "Int", "const":
			return ex{"(F64.ofInt " + x.s + ")", "F64"}
		case "F64":
			return x
		}
		fail("line %d: conversion `%s`", line(e), str(e))
	case fun == "int":
		x := one()
		switch x.ty {
		case "F64":
			return ex{"(F64.toInt indef " + x.s + ")", "Int"}
		case "Int", "const":
			return ex{x.s, "Int"}
		}
		fail("line %d: conversion `%s`", line(e), str(e))
	case fun == "len":
		x := one()
		if strings.HasPrefix(x.ty, "Array ") {
			return ex{"(Go.len " + x.s + ")", "Int"}
		}
		if strings.HasPrefix(x.ty, "List (") {
			return ex{"(Go.lenM " + x.s + ")", "Int"}
		}
		fail("line %d: len of %s", line(e), x.ty)
	case fun == "append":
		if len(e.Args) != 2 || e.Ellipsis.IsValid() {
			fail("line %d: `%s` (only append(slice, one value))", line(e), str(e))
		}
		x := t.expr(e.Args[0])
		if !strings.HasPrefix(x.ty, "Array ") {
			fail("line %d: append to %s", line(e), x.ty)
		}
		v := t.conv(t.expr(e.Args[1]), strings.TrimPrefix(x.ty, "Array "), e.Args[1])
		return ex{"(" + x.s + ".push " + v + ")", x.ty}
	case fun == "make":
		if len(e.Args) >= 2 {
			ty := t.goTyp(e.Args[0])
			if strings.HasPrefix(ty, "Array ") && str(e.Args[1]) == "0" {
				return ex{"#[]", ty}
			}
		}
		fail("line %d: `%s` (only make([]T, 0, ...))", line(e), str(e))
	case mathImported && (fun == "math.Round" || fun == "math.Ceil" || fun == "math.Abs"):
		return ex{"(F64." + strings.ToLower(fun[5:]) + " " + t.conv(one(), "F64", e) + ")", "F64"}
	case mathImported && (fun == "math.Min" || fun == "math.Max"):
		return ex{"(F64.f" + strings.ToLower(fun[5:]) + " " + t.args(e, []string{"F64", "F64"}) + ")", "F64"}
	case fun == "SortedKeys" && t.p.dir == "internal/util" || fun == "util.SortedKeys" && importDir(t.file, "util") == "internal/util":
		checkSortedKeysIdiom()
		x := one()
		if !strings.HasPrefix(x.ty, "List (Int") {
			fail("line %d: SortedKeys of %s", line(e), x.ty)
		}
		t.note(e, "util.SortedKeys (checked to be: collect the keys, sort ascending) is Go.sortedKeys; maps are key-sorted association lists")
		return ex{"(Go.sortedKeys " + x.s + ")", "Array Int"}
	}
	// another translated function (same package, or pkg.F of the module)
	dir, name := t.p.dir, fun
	if s, ok := e.Fun.(*ast.SelectorExpr); ok {
		if id, ok := s.X.(*ast.Ident); ok {
			if _, local := t.vars[id.Name]; !local && id.Name != t.recv {
				dir, name = importDir(t.file, id.Name), s.Sel.Name
			}
		}
	}
	if v1, ok := v1Funcs[dir+":"+name]; ok {
		return ex{"(Generated." + v1.lean + " indef " + t.args(e, v1.args) + ")", v1.ret}
	}
	for i := range targets {
		g := &targets[i]
		if g.recv == "" && g.dir == dir && g.fn == name {
			d := done[g.name]
			if d == nil {
				fail("line %d: call of %s, whose own translation is unsupported (or comes later)", line(e), fun)
			}
			fd, _ := load(dir).fn("", name)
			var want []string
			for _, fl := range fd.Type.Params.List {
				for range fl.Names {
					want = append(want, d.goTyp(fl.Type))
				}
			}
			if len(d.fields) > 0 || len(d.opqUsed) > 0 {
				fail("line %d: call of %s, which has opaque parameters", line(e), fun)
			}
			if len(d.results) != 1 {
				fail("line %d: call of %s with %d results in an expression", line(e), fun, len(d.results))
			}
			return ex{"(← " + g.name + " indef " + t.args(e, want) + ")", d.results[0]}
		}
	}
	fail("line %d: call of %s (not a conversion, builtin, math function, translated function or declared opaque call)", line(e), fun)
	return ex{}
}

// functions translated by transgen v1 (Generated/Trans.lean) that v2 targets may call
type v1fn struct {
	lean string
	args []string
	ret  string
}

var v1Funcs = map[string]v1fn{
	"internal/util:getClosest": {"util_getClosest", []string{"Int", "Int", "Int"}, "Int"},
	"internal/util:Ratio":      {"util_Ratio", []string{"F64", "F64", "F64"}, "F64"},
	"internal/util:Coerce":     {"util_Coerce", []string{"F64", "F64", "F64"}, "F64"},
}

var sortedKeysChecked = false

// util.SortedKeys / util.sortSlice must be exactly the collect-and-sort-ascending idiom
func checkSortedKeysIdiom() {
	if sortedKeysChecked {
		return
	}
	p := load("internal/util")
	fd, _ := p.fn("", "SortedKeys")
	if fd == nil {
		fail("util.SortedKeys not found")
	}
	want := "{ result := make([]T, 0, len(input)) for k := range input { result = append(result, k) } sortSlice(result) return result }"
	if got := str(fd.Body); got != want {
		fail("util.SortedKeys is no longer the collect-and-sort idiom: `%s`", got)
	}
	fs, _ := p.fn("", "sortSlice")
	if fs == nil {
		fail("util.sortSlice not found")
	}
	want = "{ sort.Slice(s, func(i, j int) bool { return s[i] < s[j] }) }"
	if got := str(fs.Body); got != want {
		fail("util.sortSlice is no longer an ascending sort: `%s`", got)
	}
	sortedKeysChecked = true
}

// ---------------------------------------------------------------- statements
func ind(lines []string) []string {
	out := make([]string, len(lines))
	for i, l := range lines {
		out[i] = "  " + l
	}
	return out
}

func (t *tr) declare(name, ty string, n ast.Node) {
	if name == "_" {
		return
	}
	if _, ok := t.vars[name]; ok {
		fail("line %d: `%s` re-declares (shadows) %s", line(n), str(n), name)
	}
	if t.errnil[name] {
		delete(t.errnil, name)
	}
	t.vars[name] = ty
}

func (t *tr) scoped(f func() []string) []string {
	saved := map[string]string{}
	for k, v := range t.vars {
		saved[k] = v
	}
	se := map[string]bool{}
	for k, v := range t.errnil {
		se[k] = v
	}
	out := f()
	t.vars, t.errnil = saved, se
	return out
}

func (t *tr) block(list []ast.Stmt) []string {
	var out []string
	for i := 0; i < len(list); i++ {
		// idiom: for k := range M { K = append(K, k) } ; sort.Ints(K)
		if i+1 < len(list) {
			if l, ok := t.keysIdiom(list[i], list[i+1]); ok {
				out = append(out, l...)
				i++
				continue
			}
		}
		out = append(out, t.stmt(list[i])...)
	}
	if len(out) == 0 {
		out = []string{"pure ()"}
	}
	return out
}

func (t *tr) keysIdiom(a, b ast.Stmt) ([]string, bool) {
	rs, ok := a.(*ast.RangeStmt)
	if !ok || rs.Value != nil || rs.Key == nil || rs.Tok != token.DEFINE || len(rs.Body.List) != 1 {
		return nil, false
	}
	as, ok := rs.Body.List[0].(*ast.AssignStmt)
	if !ok || as.Tok != token.ASSIGN || len(as.Lhs) != 1 || len(as.Rhs) != 1 {
		return nil, false
	}
	k := str(as.Lhs[0])
	if str(as.Rhs[0]) != "append("+k+", "+str(rs.Key)+")" {
		return nil, false
	}
	if str(b) != "sort.Ints("+k+")" || importDir(t.file, "sort") != "<ext>sort" {
		return nil, false
	}
	m := t.expr(rs.X)
	if !strings.HasPrefix(m.ty, "List (Int") || t.vars[k] != "Array Int" {
		return nil, false
	}
	t.note(a, "`for %s := range %s { %s = append(%s, %s) }; sort.Ints(%s)` (keys collected, then sorted ascending; the slice was empty before) is Go.sortedKeys; maps are key-sorted association lists",
		str(rs.Key), str(rs.X), k, k, str(rs.Key), k)
	return []string{mangle(k) + " := " + mangle(k) + " ++ Go.sortedKeys " + m.s}, true
}

func (t *tr) isLog(c *ast.CallExpr) (log, fatal bool) {
	if sel, ok := c.Fun.(*ast.SelectorExpr); ok && str(sel.X) == "ui" && importDir(t.file, "ui") == "internal/ui" {
		return sel.Sel.Name != "Fatal", sel.Sel.Name == "Fatal"
	}
	return false, false
}

func (t *tr) define(name string, rhs ast.Expr, declTy string, n ast.Stmt) []string {
	v := t.expr(rhs)
	ty := v.ty
	if declTy != "" {
		ty = declTy
	} else {
		if ty == "const" {
			ty = "Int"
		}
		if ty == "Prop" {
			v = ex{t.conv(v, "Bool", rhs), "Bool"}
			ty = "Bool"
		}
	}
	s := t.conv(v, ty, rhs)
	t.declare(name, ty, n)
	return []string{"let mut " + mangle(name) + " : " + ty + " := " + s}
}

func (t *tr) assignTo(lhs ast.Expr, n ast.Stmt) (string, string) {
	id, ok := lhs.(*ast.Ident)
	if !ok {
		fail("line %d: assignment to `%s`", line(n), str(lhs))
	}
	ty, ok := t.vars[id.Name]
	if !ok {
		fail("line %d: assignment to %s, which is not a known variable", line(n), id.Name)
	}
	return mangle(id.Name), ty
}

func (t *tr) stmt(st ast.Stmt) []string {
	ln := line(st)
	switch s := st.(type) {
	case *ast.EmptyStmt:
		return nil
	case *ast.ExprStmt:
		if c, ok := s.X.(*ast.CallExpr); ok {
			if lg, fatal := t.isLog(c); lg {
				t.note(st, "SKIPPED (logging): `%s`", str(st))
				return nil
			} else if fatal {
				t.note(st, "ui.Fatal panics: Go.fatal")
				return []string{"let _ ← (Go.fatal : Res Unit)"}
			}
			for _, sk := range t.tg.skip {
				if str(c.Fun) == sk {
					t.note(st, "SKIPPED (effect on other state, modelled separately; DECLARED by the target table): `%s`", str(st))
					return nil
				}
			}
		}
		fail("line %d: statement `%s`", ln, str(st))
	case *ast.DeclStmt:
		gd := s.Decl.(*ast.GenDecl)
		if gd.Tok == token.VAR && len(gd.Specs) == 1 {
			vs := gd.Specs[0].(*ast.ValueSpec)
			if len(vs.Names) == 1 {
				name := vs.Names[0].Name
				declTy := ""
				if vs.Type != nil {
					declTy = t.goTyp(vs.Type)
				}
				if len(vs.Values) == 1 {
					return t.define(name, vs.Values[0], declTy, st)
				}
				if len(vs.Values) == 0 && declTy != "" {
					t.declare(name, declTy, st)
					return []string{"let mut " + mangle(name) + " : " + declTy + " := " + zero(declTy)}
				}
			}
		}
		fail("line %d: declaration `%s`", ln, str(st))
	case *ast.AssignStmt:
		if len(s.Lhs) == 2 && len(s.Rhs) == 1 && s.Tok == token.DEFINE {
			// v, err := f(...)   /   v, _ := f(...)   for an opaque two-result call
			c, ok := s.Rhs[0].(*ast.CallExpr)
			if !ok {
				fail("line %d: `%s`", ln, str(st))
			}
			o, isOpq := t.tg.opaque[str(c.Fun)]
			if !isOpq || !o.two {
				fail("line %d: two-value assignment from `%s` (only declared opaque two-result calls)", ln, str(c.Fun))
			}
			v := t.call(c)
			id0, ok0 := s.Lhs[0].(*ast.Ident)
			id1, ok1 := s.Lhs[1].(*ast.Ident)
			if !ok0 || !ok1 {
				fail("line %d: `%s`", ln, str(st))
			}
			if id1.Name != "_" {
				if !o.res {
					fail("line %d: second result of the pure opaque call %s is used", ln, str(c.Fun))
				}
				// an error variable: from here on it is known to be nil (the failing case has left through the monad)
				delete(t.vars, id1.Name)
				t.errnil[id1.Name] = true
				t.note(st, "`%s`: the error result is carried by the Res monad; afterwards %s is nil", str(st), id1.Name)
			} else {
				t.note(st, "`%s`: the second result is discarded", str(st))
			}
			if id0.Name == "_" {
				return []string{"let _ := " + v.s}
			}
			t.declare(id0.Name, v.ty, st)
			return []string{"let mut " + mangle(id0.Name) + " : " + v.ty + " := " + v.s}
		}
		if len(s.Lhs) != 1 || len(s.Rhs) != 1 {
			fail("line %d: multi-assignment `%s`", ln, str(st))
		}
		if s.Tok == token.DEFINE {
			id, ok := s.Lhs[0].(*ast.Ident)
			if !ok {
				fail("line %d: `%s`", ln, str(st))
			}
			return t.define(id.Name, s.Rhs[0], "", st)
		}
		name, ty := t.assignTo(s.Lhs[0], st)
		rhs := s.Rhs[0]
		if s.Tok != token.ASSIGN {
			op, ok := map[token.Token]token.Token{token.ADD_ASSIGN: token.ADD, token.SUB_ASSIGN: token.SUB, token.MUL_ASSIGN: token.MUL, token.QUO_ASSIGN: token.QUO}[s.Tok]
			if !ok {
				fail("line %d: `%s`", ln, str(st))
			}
			rhs = &ast.BinaryExpr{X: s.Lhs[0], Op: op, Y: &ast.ParenExpr{X: rhs}}
		}
		return []string{name + " := " + t.conv(t.expr(rhs), ty, st)}
	case *ast.IncDecStmt:
		name, ty := t.assignTo(s.X, st)
		if ty != "Int" {
			fail("line %d: `%s` on a non-int", ln, str(st))
		}
		return []string{name + " := " + name + " " + map[token.Token]string{token.INC: "+", token.DEC: "-"}[s.Tok] + " 1"}
	case *ast.ReturnStmt:
		return t.ret(s)
	case *ast.BranchStmt:
		if s.Label != nil {
			fail("line %d: labelled %s", ln, s.Tok)
		}
		switch s.Tok {
		case token.BREAK:
			return []string{"break"}
		case token.CONTINUE:
			if len(t.loopPost) == 0 {
				fail("line %d: continue outside a loop", ln)
			}
			out := []string{}
			if p := t.loopPost[len(t.loopPost)-1]; p != "" {
				out = append(out, p)
			}
			return append(out, "continue")
		}
		fail("line %d: %s", ln, s.Tok)
	case *ast.BlockStmt:
		return t.scoped(func() []string { return t.block(s.List) })
	case *ast.IfStmt:
		return t.ifStmt(s)
	case *ast.SwitchStmt:
		return t.switchStmt(s)
	case *ast.ForStmt:
		return t.forStmt(s)
	case *ast.RangeStmt:
		return t.rangeStmt(s)
	}
	fail("line %d: statement `%s` (%T)", ln, strings.SplitN(str(st), "{", 2)[0], st)
	return nil
}

func (t *tr) ret(s *ast.ReturnStmt) []string {
	res := s.Results
	if len(res) == 0 {
		if len(t.named) == 0 {
			fail("line %d: bare return", line(s))
		}
		for _, n := range t.named {
			res = append(res, ast.NewIdent(n))
		}
	}
	if len(res) != len(t.results) {
		fail("line %d: `%s`: %d results expected", line(s), str(s), len(t.results))
	}
	var vals []string
	for i, r := range res {
		if t.results[i] == "error" {
			v := t.expr(r)
			if v.ty == "nil" || v.ty == "errnil" {
				continue
			}
			fail("line %d: `%s` returns a non-nil error value", line(s), str(s))
		}
		vals = append(vals, t.conv(t.expr(r), t.results[i], r))
	}
	switch len(vals) {
	case 0:
		return []string{"return ()"}
	case 1:
		return []string{"return " + vals[0]}
	}
	return []string{"return (" + strings.Join(vals, ", ") + ")"}
}

// `if err != nil { return <anything>, err }` right after `v, err := f()`: the propagation the monad performs
func (t *tr) isPropagation(s *ast.IfStmt) bool {
	b, ok := s.Cond.(*ast.BinaryExpr)
	if !ok || b.Op != token.NEQ || s.Else != nil || s.Init != nil || len(s.Body.List) != 1 {
		return false
	}
	id, ok := b.X.(*ast.Ident)
	if !ok || !t.errnil[id.Name] || str(b.Y) != "nil" {
		return false
	}
	r, ok := s.Body.List[0].(*ast.ReturnStmt)
	if !ok || len(r.Results) == 0 || len(r.Results) != len(t.results) || t.results[len(t.results)-1] != "error" {
		return false
	}
	return str(r.Results[len(r.Results)-1]) == id.Name
}

func (t *tr) ifStmt(s *ast.IfStmt) []string {
	if s.Init != nil {
		fail("line %d: `if` with an init clause", line(s))
	}
	if t.isPropagation(s) {
		t.note(s, "SKIPPED (error propagation, performed by the Res monad): `%s`", str(s))
		return nil
	}
	c := t.conv(t.expr(s.Cond), "Prop", s.Cond)
	out := []string{"if " + c + " then"}
	out = append(out, ind(t.scoped(func() []string { return t.block(s.Body.List) }))...)
	switch e := s.Else.(type) {
	case nil:
	case *ast.BlockStmt:
		out = append(out, "else")
		out = append(out, ind(t.scoped(func() []string { return t.block(e.List) }))...)
	case *ast.IfStmt:
		out = append(out, "else")
		out = append(out, ind(t.scoped(func() []string { return t.ifStmt(e) }))...)
	default:
		fail("line %d: else branch", line(s))
	}
	return out
}

func (t *tr) switchStmt(s *ast.SwitchStmt) []string {
	if s.Init != nil || s.Tag == nil {
		fail("line %d: switch with init clause / without tag", line(s))
	}
	tag := t.expr(s.Tag)
	if effectful(tag.s) {
		fail("line %d: switch on an effectful expression", line(s))
	}
	type arm struct {
		cond string
		body []ast.Stmt
	}
	var arms []arm
	var def []ast.Stmt
	hasDef := false
	for _, c := range s.Body.List {
		cc := c.(*ast.CaseClause)
		for _, b := range cc.Body {
			if br, ok := b.(*ast.BranchStmt); ok && (br.Tok == token.FALLTHROUGH || br.Tok == token.BREAK) {
				fail("line %d: %s inside switch", line(b), br.Tok)
			}
		}
		if cc.List == nil {
			hasDef, def = true, cc.Body
			continue
		}
		var cs []string
		for _, v := range cc.List {
			x := t.expr(v)
			if x.ty != tag.ty && !(x.ty == "const" && tag.ty == "Int") {
				fail("line %d: case %s of type %s against tag of type %s", line(v), str(v), x.ty, tag.ty)
			}
			cs = append(cs, "("+tag.s+" = "+x.s+")")
		}
		arms = append(arms, arm{strings.Join(cs, " ∨ "), cc.Body})
	}
	// break inside a switch arm would bind to the switch in Go but to the enclosing loop in Lean: refused above
	var build func(i int) []string
	build = func(i int) []string {
		if i == len(arms) {
			if hasDef {
				return t.scoped(func() []string { return t.block(def) })
			}
			return []string{"pure ()"}
		}
		out := []string{"if " + arms[i].cond + " then"}
		out = append(out, ind(t.scoped(func() []string { return t.block(arms[i].body) }))...)
		out = append(out, "else")
		out = append(out, ind(build(i+1))...)
		return out
	}
	return build(0)
}

func (t *tr) forStmt(s *ast.ForStmt) []string {
	if t.tg.fuel == "" {
		fail("line %d: condition-controlled loop but the target declares no fuel", line(s))
	}
	var out []string
	if s.Init != nil {
		out = append(out, t.stmt(s.Init)...) // declared in the enclosing scope (names are unique per function in this subset)
	}
	post := ""
	if s.Post != nil {
		p := t.stmt(s.Post)
		if len(p) != 1 {
			fail("line %d: post statement", line(s))
		}
		post = p[0]
	}
	t.note(s, "loop bound (fuel) %s is DECLARED by the target table; exhausting it is a panic of the translation", t.tg.fuel)
	out = append(out, "for _ in Go.Fuel.mk "+t.tg.fuel+" do")
	var body []string
	if s.Cond != nil {
		c := t.conv(t.expr(s.Cond), "Prop", s.Cond)
		body = append(body, "if ¬ "+c+" then break")
	}
	t.loopPost = append(t.loopPost, post)
	body = append(body, t.scoped(func() []string { return t.block(s.Body.List) })...)
	t.loopPost = t.loopPost[:len(t.loopPost)-1]
	if post != "" {
		body = append(body, post)
	}
	return append(out, ind(body)...)
}

func (t *tr) rangeStmt(s *ast.RangeStmt) []string {
	if s.Tok != token.DEFINE {
		fail("line %d: range with assignment", line(s))
	}
	x := t.expr(s.X)
	if !strings.HasPrefix(x.ty, "Array ") {
		fail("line %d: range over %s (only slices; map iteration order is random - only the collect-and-sort idiom is accepted)", line(s), x.ty)
	}
	if effectful(x.s) {
		fail("line %d: range over an effectful expression", line(s))
	}
	elt := strings.TrimPrefix(x.ty, "Array ")
	key, val := "_", "_"
	if s.Key != nil {
		key = str(s.Key)
	}
	if s.Value != nil {
		val = str(s.Value)
	}
	var hdr string
	return t.scoped(func() []string {
		if key != "_" {
			t.declare(key, "Int", s)
		}
		if val != "_" {
			t.declare(val, elt, s)
		}
		switch {
		case key == "_" && val == "_":
			hdr = "for _ in " + x.s + ".toList do"
		case key == "_":
			hdr = "for " + mangle(val) + " in " + x.s + ".toList do"
		default:
			v := "_"
			if val != "_" {
				v = mangle(val)
			}
			hdr = "for (" + mangle(key) + ", " + v + ") in Go.enum " + x.s + " do"
		}
		t.loopPost = append(t.loopPost, "")
		body := t.block(s.Body.List)
		t.loopPost = t.loopPost[:len(t.loopPost)-1]
		return append([]string{hdr}, ind(body)...)
	})
}

// ---------------------------------------------------------------- driver
type defOut struct {
	Name        string   `json:"name"`
	Source      string   `json:"source"`
	Lean        string   `json:"lean"`
	Comments    []string `json:"comments"`
	Unsupported string   `json:"unsupported"`
}

func translate(g *target) (out defOut) {
	out.Name = g.name
	out.Source = g.dir + ": " + g.fn
	if g.recv != "" {
		out.Source = g.dir + ": (*" + g.recv + ")." + g.fn
	}
	t := &tr{tg: g, vars: map[string]string{}, errnil: map[string]bool{}, opqRecv: map[string]string{}}
	defer func() {
		out.Comments = t.comments
		if r := recover(); r != nil {
			u, ok := r.(unsupported)
			if !ok {
				panic(r)
			}
			out.Unsupported = string(u)
		}
	}()
	t.p = load(g.dir)
	fd, f := t.p.fn(g.recv, g.fn)
	if fd == nil {
		fail("function not found")
	}
	t.file = f
	t.recv, _ = recvOf(fd)
	out.Source += fmt.Sprintf("  (%s:%d)", strings.TrimPrefix(fset.Position(fd.Pos()).Filename, repo+"/"), line(fd))
	var params [][2]string
	for _, fl := range fd.Type.Params.List {
		for _, n := range fl.Names {
			ty, ok := g.params[n.Name]
			if ok {
				t.comments = append(t.comments, fmt.Sprintf("parameter %s : %s has the lean type %s DECLARED by the target table", n.Name, str(fl.Type), ty))
			} else {
				ty = t.goTyp(fl.Type)
			}
			t.vars[n.Name] = ty
			params = append(params, [2]string{mangle(n.Name), ty})
		}
	}
	var pre []string
	if fd.Type.Results == nil {
		fail("function has no result")
	}
	for _, fl := range fd.Type.Results.List {
		ty := t.goTyp(fl.Type)
		if len(fl.Names) == 0 {
			t.results = append(t.results, ty)
		}
		for _, n := range fl.Names {
			t.results = append(t.results, ty)
			t.named = append(t.named, n.Name)
			if ty == "error" {
				t.errnil[n.Name] = true // a named error result starts out nil; assignments to it are not supported
			} else {
				t.vars[n.Name] = ty
				pre = append(pre, "let mut "+mangle(n.Name)+" : "+ty+" := "+zero(ty))
			}
		}
	}
	for i, r := range t.results {
		if r == "error" && i != len(t.results)-1 {
			fail("error result that is not the last one")
		}
	}
	body := append(pre, t.block(fd.Body.List)...)
	var rts []string
	for _, r := range t.results {
		if r != "error" {
			rts = append(rts, r)
		}
	}
	rt := "Unit"
	if len(rts) == 1 {
		rt = rts[0]
	} else if len(rts) > 1 {
		rt = "(" + strings.Join(rts, " × ") + ")"
	}
	all := [][2]string{{"indef", "Int"}}
	var used []string
	used = append(used, t.opqUsed...)
	sort.Strings(used)
	for _, fun := range used {
		o := g.opaque[fun]
		var tys []string
		if ty, ok := t.opqRecv[fun]; ok {
			tys = append(tys, ty)
		}
		tys = append(tys, o.args...)
		r := o.ret
		if o.res {
			r = "Res " + wrapTy(o.ret)
		}
		if len(tys) == 0 {
			all = append(all, [2]string{o.lean, r})
		} else {
			all = append(all, [2]string{o.lean, strings.Join(append(tys, r), " → ")})
		}
	}
	all = append(all, t.fields...)
	all = append(all, params...)
	hdr := "def " + g.name
	for _, p := range all {
		hdr += " (" + p[0] + " : " + p[1] + ")"
	}
	out.Lean = hdr + " : Res " + wrapTy(rt) + " := do\n" + strings.Join(ind(body), "\n")
	done[g.name] = t
	return
}

func wrapTy(s string) string {
	if strings.Contains(s, " ") && !strings.HasPrefix(s, "(") {
		return "(" + s + ")"
	}
	return s
}

func main() {
	if len(os.Args) != 2 {
		fmt.Fprintln(os.Stderr, "usage: transgen2 <repo-root>")
		os.Exit(2)
	}
	repo = filepath.Clean(os.Args[1])
	var defs []defOut
	for i := range targets {
		defs = append(defs, translate(&targets[i]))
	}
	enc := json.NewEncoder(os.Stdout)
	enc.SetIndent("", " ")
	enc.SetEscapeHTML(false)
	enc.Encode(map[string]any{"defs": defs})
}
