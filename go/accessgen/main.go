// Command accessgen extracts, from /repo's sources as they are NOW, the table of accesses to the
// shared fan / sensor / curve / controller state per concurrent activity, together with the lockset
// held at every access (property C20). It prints JSON; vlib/accessgen.py renders the access table
// into lean/Fan2go/Generated/Access.lean, where the conflict computation is done by the Lean kernel
// (Model/Lockset.lean, Props/C20.lean). The conflict list printed here is only for reports.
//
// What it does (see the comments at each step for the precise rules):
//   - loads the fan2go module with go/packages (pure-Go gosensors stand-in through -modfile, no cgo,
//     no verif tag, no overlay: the pristine tree), builds SSA with generics instantiated;
//   - activities (roots) are enumerated from the code: sensorMonitor.Run, DefaultFanController.Run
//     (start-up part, kind "init"), measureRpm, UpdateFanSpeed + restorePwmEnabled, every Collect
//     method in internal/statistics, every func(echo.Context) error in internal/api;
//   - a class-hierarchy call graph restricted to call sites inside the fan2go module (interface
//     calls -> every in-module implementor; function values -> every address-taken in-module
//     function of identical signature); calls leaving the module are opaque except for the
//     reflection rules below;
//   - per reachable function: every FieldAddr/Field/whole-struct load/store on a tracked struct
//     type; map reads/updates on maps reached through a tracked field (provenance followed through
//     loads, locals, parameters <- call sites, call results, and "publication": a local map whose
//     address a callee stores into a tracked field IS that field's content; only when the origin
//     stays unknown the access is attributed to every tracked field of the same map type);
//     the initialisation of a local variable whose address is stored into a tracked field
//     ("pointee": `fan.MinPwm = &pwm`) counts as a write of that field;
//     values converted to `any` (fmt-like sinks read every field; encoding/json and echo's JSON read
//     exported fields and follow interfaces; reprint reads every field but does NOT follow
//     interfaces nested below the top level -- checked against reprint's source: reflect.Interface
//     falls to forceCopyValue, so `reprint.This(map[string]Fan)` copies the map, not the fans);
//   - tracked types = the listed ones + every in-module struct implementing Fan / Sensor /
//     SpeedCurve / FanController, minus types the daemon never allocates (reachability from
//     internal.RunDaemon; e.g. VirtualSensor is only built by a CLI sub-command);
//   - per-fan activities (control, rpmmon, init) are analysed once per concrete fan type T assuming
//     every fans.Fan value they see is their own fan of type T: Fan interface calls resolve to T's
//     methods and branches of `fan.(*X)` type assertions that cannot be taken are pruned (otherwise
//     RunInitializationSequence, only entered for *HwMonFan, would "write" FileFan/CmdFan fields);
//   - lockset: must-hold forward dataflow over (*sync.Mutex).Lock/Unlock (+RWMutex.Lock/Unlock;
//     RLock is deliberately NOT counted) inside the function, package-level mutexes additionally
//     inherited from all call paths from the root (intersection). A field mutex `x.mu` protects
//     only accesses through the same SSA base value `x` in the same function.
//
// Not seen (documented limits): happens-before through channels / goroutine start (only the
// kind-level relation of Model/Lockset.lean), atomics, aliasing of two tracked objects or maps,
// state behind untracked interfaces (control_loop.ControlLoop, persistence), package-level
// variables, code of other modules calling back into the module other than through the roots.
package main

import (
	"encoding/json"
	"fmt"
	"go/token"
	"go/types"
	"os"
	"path/filepath"
	"reflect"
	"sort"
	"strings"

	"golang.org/x/tools/go/packages"
	"golang.org/x/tools/go/ssa"
	"golang.org/x/tools/go/ssa/ssautil"
)

const modPath = "github.com/markusressel/fan2go"

// ---------------------------------------------------------------------------------------------
// output

type Access struct {
	Root  string   `json:"root"`
	Kind  string   `json:"kind"`
	Type  string   `json:"type"`
	Field string   `json:"field"`
	Write bool     `json:"write"`
	Locks []string `json:"locks"`
	Func  string   `json:"func"`
	Pos   string   `json:"pos"`
	Via   string   `json:"via"` // direct | struct | map | map-by-type | escape | reflect:<mode>
}

// Row is one row of the Lean table: the site-level accesses projected to what the lockset argument needs
type Row struct {
	Activity string   `json:"activity"`
	Kind     string   `json:"kind"`
	Obj      string   `json:"obj"`
	Field    string   `json:"field"`
	Write    bool     `json:"write"`
	Locks    []string `json:"locks"`
}

type Conflict struct {
	Key   string `json:"key"`
	KindA string `json:"kindA"`
	KindB string `json:"kindB"`
	A     Access `json:"a"`
	B     Access `json:"b"`
	N     int    `json:"pairs"`
}

type RootInfo struct {
	Name string `json:"name"`
	Kind string `json:"kind"`
	Func string `json:"func"`
	N    int    `json:"reachable"`
}

type Output struct {
	Roots           []RootInfo          `json:"roots"`
	Tracked         map[string][]string `json:"tracked"` // type -> fields
	Accesses        []Access            `json:"accesses"`
	Table           []Row               `json:"table"`
	Conflicts       []Conflict          `json:"conflicts"`
	Unresolved      []string            `json:"unresolved"`      // places where the extractor knowingly gives up
	NotInstantiated []string            `json:"notInstantiated"` // candidate types the daemon never allocates
	Broken          []string            `json:"broken"`          // ties: expected roots / types that were not found
}

// ---------------------------------------------------------------------------------------------
// globals

var (
	prog       *ssa.Program
	repoRoot   string
	tracked    = map[*types.Named]bool{}   // tracked struct types
	trackedByN = map[string]*types.Named{} // short name -> type
	modPkgs    []*ssa.Package
	addrTaken  = map[*ssa.Function]bool{}
	modFuncs   []*ssa.Function
	unresolved = map[string]bool{}
	broken     []string
	mapFields  []mapField // tracked fields holding a map or a pointer to a map
)

type mapField struct {
	typ   *types.Named
	field string
	m     *types.Map
}

func inModule(path string) bool {
	return path == modPath || strings.HasPrefix(path, modPath+"/")
}

func fnPkgPath(fn *ssa.Function) string {
	for i := 0; fn != nil && i < 16; i++ {
		if fn.Pkg != nil {
			return fn.Pkg.Pkg.Path()
		}
		if o := fn.Object(); o != nil && o.Pkg() != nil {
			return o.Pkg().Path()
		}
		if fn.Origin() != nil && fn.Origin() != fn {
			fn = fn.Origin()
			continue
		}
		fn = fn.Parent()
	}
	return ""
}

func fnName(fn *ssa.Function) string {
	s := fn.String()
	s = strings.ReplaceAll(s, modPath+"/internal/", "")
	s = strings.ReplaceAll(s, modPath+"/", "")
	return s
}

func posOf(p token.Pos, fn *ssa.Function) string {
	if !p.IsValid() && fn != nil {
		p = fn.Pos()
	}
	if !p.IsValid() {
		return "-"
	}
	pp := prog.Fset.Position(p)
	rel, err := filepath.Rel(repoRoot, pp.Filename)
	if err != nil || strings.HasPrefix(rel, "..") {
		rel = pp.Filename
	}
	return fmt.Sprintf("%s:%d", rel, pp.Line)
}

func namedOf(t types.Type) *types.Named {
	t = types.Unalias(t)
	if n, ok := t.(*types.Named); ok {
		return n.Origin()
	}
	return nil
}

func derefNamedStruct(t types.Type) (*types.Named, *types.Struct) {
	t = types.Unalias(t)
	if p, ok := t.Underlying().(*types.Pointer); ok {
		t = p.Elem()
	}
	n := namedOf(t)
	if n == nil {
		return nil, nil
	}
	s, ok := n.Underlying().(*types.Struct)
	if !ok {
		return nil, nil
	}
	return n, s
}

func isEmptyInterface(t types.Type) bool {
	i, ok := types.Unalias(t).Underlying().(*types.Interface)
	return ok && i.NumMethods() == 0
}

func isSyncType(t types.Type) bool {
	n := namedOf(t)
	return n != nil && n.Obj().Pkg() != nil && (n.Obj().Pkg().Path() == "sync" || n.Obj().Pkg().Path() == "sync/atomic")
}

// ---------------------------------------------------------------------------------------------
// per-function summary

type lockKey struct {
	id   string
	base ssa.Value // nil for package-level mutexes
}

type rawAccess struct {
	typ    *types.Named
	field  string
	write  bool
	base   ssa.Value // innermost base value of the access path (nil for reflective)
	instr  ssa.Instruction
	via    string
	pos    token.Pos
	allFld bool // field == "*": every field (mode in via)
}

type callSite struct {
	instr   ssa.CallInstruction
	callees []*ssa.Function
}

type summary struct {
	fn       *ssa.Function
	accesses []rawAccess
	calls    []callSite
	held     map[ssa.Instruction]map[lockKey]bool // must-hold set BEFORE the instruction
}

type sumKey struct {
	fn     *ssa.Function
	assume *types.Named
}

var summaries = map[sumKey]*summary{}

// Per-fan activities (control loop, RPM monitor, controller start-up) are analysed once per concrete fan
// type T under the assumption "every fans.Fan value this activity sees is its own fan, of type T"
// (the code only ever takes the fan from f.fan): interface calls on a Fan resolve to T's methods only and
// the branch of a failed / succeeded type assertion `fan.(*X)` is pruned. nil = no assumption.
var (
	assume   *types.Named
	fanIface types.Type
	fanImpls []*types.Named
)

func isFanIface(t types.Type) bool {
	return fanIface != nil && types.Identical(types.Unalias(t), fanIface)
}

func recvNamed(f *ssa.Function) *types.Named {
	if f.Signature.Recv() == nil {
		if len(f.Params) > 0 && f.Synthetic != "" {
			n, _ := derefNamedStruct(f.Params[0].Type())
			return n
		}
		return nil
	}
	n, _ := derefNamedStruct(f.Signature.Recv().Type())
	return n
}

// blocks that cannot execute under the current assumption
func deadBlocks(fn *ssa.Function) map[*ssa.BasicBlock]bool {
	if assume == nil || len(fn.Blocks) == 0 {
		return nil
	}
	type edge struct{ from, to *ssa.BasicBlock }
	deadEdge := map[edge]bool{}
	for _, b := range fn.Blocks {
		if len(b.Instrs) == 0 {
			continue
		}
		iff, ok := b.Instrs[len(b.Instrs)-1].(*ssa.If)
		if !ok {
			continue
		}
		ex, ok := iff.Cond.(*ssa.Extract)
		if !ok || ex.Index != 1 {
			continue
		}
		ta, ok := ex.Tuple.(*ssa.TypeAssert)
		if !ok || !ta.CommaOk || !isFanIface(ta.X.Type()) {
			continue
		}
		n, _ := derefNamedStruct(ta.AssertedType)
		if n == nil {
			continue
		}
		isImpl := false
		for _, f := range fanImpls {
			if f == n {
				isImpl = true
			}
		}
		if !isImpl {
			continue
		}
		if n == assume {
			deadEdge[edge{b, b.Succs[1]}] = true
		} else {
			deadEdge[edge{b, b.Succs[0]}] = true
		}
	}
	if len(deadEdge) == 0 {
		return nil
	}
	live := map[*ssa.BasicBlock]bool{}
	work := []*ssa.BasicBlock{fn.Blocks[0]}
	for len(work) > 0 {
		b := work[0]
		work = work[1:]
		if live[b] {
			continue
		}
		live[b] = true
		for _, sx := range b.Succs {
			if !deadEdge[edge{b, sx}] {
				work = append(work, sx)
			}
		}
	}
	if fn.Recover != nil {
		live[fn.Recover] = true
	}
	dead := map[*ssa.BasicBlock]bool{}
	for _, b := range fn.Blocks {
		if !live[b] {
			dead[b] = true
		}
	}
	return dead
}

// call resolution under the current assumption
func resolveAssumed(c ssa.CallInstruction) []*ssa.Function {
	all := resolveCached(c)
	cc := c.Common()
	if assume == nil || !cc.IsInvoke() || !isFanIface(cc.Value.Type()) {
		return all
	}
	var r []*ssa.Function
	for _, f := range all {
		if recvNamed(f) == assume {
			r = append(r, f)
		}
	}
	return r
}

func mutexOp(c ssa.CallInstruction) (op string, recv ssa.Value) {
	if _, isCall := c.(*ssa.Call); !isCall {
		return "", nil // defer mu.Unlock(): held until the function returns; go: irrelevant
	}
	callee := c.Common().StaticCallee()
	if callee == nil {
		return "", nil
	}
	switch callee.String() {
	case "(*sync.Mutex).Lock", "(*sync.RWMutex).Lock":
		return "lock", c.Common().Args[0]
	case "(*sync.Mutex).Unlock", "(*sync.RWMutex).Unlock":
		return "unlock", c.Common().Args[0]
	}
	return "", nil
}

func isMutexMethod(c ssa.CallInstruction) bool {
	callee := c.Common().StaticCallee()
	if callee == nil {
		return false
	}
	s := callee.String()
	return strings.HasPrefix(s, "(*sync.Mutex).") || strings.HasPrefix(s, "(*sync.RWMutex).")
}

func lockKeyOf(v ssa.Value) (lockKey, bool) {
	switch x := v.(type) {
	case *ssa.Global:
		return lockKey{id: x.Pkg.Pkg.Name() + "." + x.Name()}, true
	case *ssa.FieldAddr:
		n, s := derefNamedStruct(x.X.Type())
		if n != nil {
			return lockKey{id: n.Obj().Name() + "." + s.Field(x.Field).Name(), base: x.X}, true
		}
	}
	return lockKey{}, false
}

func computeHeld(fn *ssa.Function) map[ssa.Instruction]map[lockKey]bool {
	held := map[ssa.Instruction]map[lockKey]bool{}
	if len(fn.Blocks) == 0 {
		return held
	}
	out := make([]map[lockKey]bool, len(fn.Blocks)) // nil = not yet computed (top)
	copySet := func(m map[lockKey]bool) map[lockKey]bool {
		r := map[lockKey]bool{}
		for k := range m {
			r[k] = true
		}
		return r
	}
	changed := true
	for iter := 0; changed && iter < 100; iter++ {
		changed = false
		for _, b := range fn.Blocks {
			var in map[lockKey]bool
			if b.Index == 0 {
				in = map[lockKey]bool{}
			} else {
				first := true
				for _, p := range b.Preds {
					if out[p.Index] == nil {
						continue
					}
					if first {
						in = copySet(out[p.Index])
						first = false
					} else {
						for k := range in {
							if !out[p.Index][k] {
								delete(in, k)
							}
						}
					}
				}
				if first {
					continue // unreachable so far
				}
			}
			cur := in
			for _, ins := range b.Instrs {
				held[ins] = copySet(cur)
				if c, ok := ins.(ssa.CallInstruction); ok {
					if op, recv := mutexOp(c); op != "" {
						if k, ok := lockKeyOf(recv); ok {
							if op == "lock" {
								cur[k] = true
							} else {
								delete(cur, k)
							}
						} else if op == "unlock" {
							// unknown mutex released: drop nothing we know of (ids are by syntactic identity)
							unresolved["unlock of an unidentified mutex in "+fnName(fn)] = true
						}
					}
				}
			}
			if out[b.Index] == nil || !reflect.DeepEqual(out[b.Index], cur) {
				out[b.Index] = cur
				changed = true
			}
		}
	}
	return held
}

// innermost base of a FieldAddr/IndexAddr chain
func baseOf(v ssa.Value) ssa.Value {
	for {
		switch x := v.(type) {
		case *ssa.FieldAddr:
			v = x.X
		case *ssa.IndexAddr:
			v = x.X
		default:
			return v
		}
	}
}

// how is the address v used: read / write / escapes
func classifyAddr(v ssa.Value, depth int) (read, write, escape bool) {
	refs := v.Referrers()
	if refs == nil || depth > 8 {
		return false, false, true
	}
	for _, r := range *refs {
		switch x := r.(type) {
		case *ssa.Store:
			if x.Addr == v {
				write = true
			}
			if x.Val == v {
				escape = true
			}
		case *ssa.UnOp:
			if x.Op == token.MUL {
				read = true
			}
		case *ssa.FieldAddr:
			r2, w2, e2 := classifyAddr(x, depth+1)
			read, write, escape = read || r2, write || w2, escape || e2
		case *ssa.IndexAddr:
			r2, w2, e2 := classifyAddr(x, depth+1)
			read, write, escape = read || r2, write || w2, escape || e2
		case *ssa.DebugRef:
		case ssa.CallInstruction:
			if isMutexMethod(x) {
				continue // lock operations on a mutex field are synchronisation, not data accesses
			}
			escape = true
		default:
			escape = true
		}
	}
	return
}

// which tracked (type, field) does the map value m come from
type prov struct {
	fields  []mapField
	fresh   bool
	unknown bool
	base    ssa.Value
}

func mapProv(v ssa.Value, depth int, seen map[ssa.Value]bool) prov {
	if seen[v] {
		return prov{}
	}
	if depth > 12 {
		return prov{unknown: true}
	}
	seen[v] = true
	join := func(res *prov, p prov) {
		res.fields = append(res.fields, p.fields...)
		res.unknown = res.unknown || p.unknown
		res.fresh = res.fresh || p.fresh
		if p.base != nil {
			res.base = p.base
		}
	}
	switch x := v.(type) {
	case *ssa.MakeMap, *ssa.Const, *ssa.Global:
		return prov{fresh: true} // new map / nil / package-level variable: not tracked state
	case *ssa.FieldAddr:
		if n, s := derefNamedStruct(x.X.Type()); n != nil && tracked[n] {
			return prov{fields: []mapField{{typ: n, field: s.Field(x.Field).Name()}}, base: baseOf(x)}
		}
		return prov{fresh: true} // a field of an untracked struct (configuration, ...): foreign
	case *ssa.UnOp:
		if x.Op != token.MUL {
			return prov{unknown: true}
		}
		return mapProv(x.X, depth+1, seen)
	case *ssa.ChangeType:
		return mapProv(x.X, depth+1, seen)
	case *ssa.Alloc: // local variable: union over the values stored into it (+ what callees do with its address)
		res := prov{}
		n := 0
		if refs := x.Referrers(); refs != nil {
			for _, r := range *refs {
				if st, ok := r.(*ssa.Store); ok && st.Addr == x {
					join(&res, mapProv(st.Val, depth+1, seen))
					n++
				} else if _, ok := r.(*ssa.UnOp); ok {
				} else if _, ok := r.(*ssa.DebugRef); ok {
				} else if c, ok := r.(ssa.CallInstruction); ok {
					join(&res, escapeProv(c, x, depth+1, seen))
				} else {
					res.unknown = true // address escapes
				}
			}
		}
		if n == 0 {
			res.unknown = true
		}
		return res
	case *ssa.Phi:
		res := prov{}
		for _, e := range x.Edges {
			join(&res, mapProv(e, depth+1, seen))
		}
		return res
	case *ssa.Extract:
		if c, ok := x.Tuple.(*ssa.Call); ok {
			return callResultProv(c, x.Index, depth, seen)
		}
	case *ssa.Call:
		return callResultProv(x, 0, depth, seen)
	case *ssa.Parameter:
		fn := x.Parent()
		idx := -1
		for i, p := range fn.Params {
			if p == x {
				idx = i
			}
		}
		sites := callersOf[fn]
		if idx < 0 || len(sites) == 0 {
			return prov{unknown: true}
		}
		res := prov{}
		for _, c := range sites {
			cc := c.Common()
			var arg ssa.Value
			if cc.IsInvoke() {
				if idx == 0 {
					arg = cc.Value
				} else if idx-1 < len(cc.Args) {
					arg = cc.Args[idx-1]
				}
			} else if idx < len(cc.Args) {
				arg = cc.Args[idx]
			}
			if arg == nil {
				res.unknown = true
				continue
			}
			p := mapProv(arg, depth+1, seen)
			p.base = nil // a base value of another function says nothing here
			join(&res, p)
		}
		return res
	}
	return prov{unknown: true}
}

// the address `addr` of a local map variable is handed to call c: what can the callees do with it?
// - store it into a tracked field (publish): from then on the variable IS that field's content
// - store another map through it: join that map's provenance
// - hand it on: recurse; anything else (external callee, other use): unknown
func escapeProv(c ssa.CallInstruction, addr ssa.Value, depth int, seen map[ssa.Value]bool) prov {
	if depth > 12 {
		return prov{unknown: true}
	}
	callees := resolveCached(c)
	if len(callees) == 0 {
		return prov{unknown: true}
	}
	res := prov{fresh: true}
	cc := c.Common()
	for _, f := range callees {
		if !inModule(fnPkgPath(f)) || len(f.Blocks) == 0 {
			return prov{unknown: true}
		}
		for i, a := range cc.Args {
			if a != addr {
				continue
			}
			idx := i
			if cc.IsInvoke() {
				idx = i + 1
			}
			if idx >= len(f.Params) {
				return prov{unknown: true}
			}
			p := paramUseProv(f.Params[idx], depth+1, seen)
			res.fields = append(res.fields, p.fields...)
			res.unknown = res.unknown || p.unknown
		}
	}
	return res
}

func paramUseProv(p ssa.Value, depth int, seen map[ssa.Value]bool) prov {
	res := prov{}
	if seen[p] {
		return res
	}
	seen[p] = true
	refs := p.Referrers()
	if refs == nil {
		return res
	}
	for _, r := range *refs {
		switch x := r.(type) {
		case *ssa.UnOp, *ssa.DebugRef:
		case *ssa.BinOp: // nil comparison
		case *ssa.Store:
			if x.Val == p { // the pointer itself is stored: publish
				if fa, ok := x.Addr.(*ssa.FieldAddr); ok {
					if n, s := derefNamedStruct(fa.X.Type()); n != nil && tracked[n] {
						res.fields = append(res.fields, mapField{typ: n, field: s.Field(fa.Field).Name()})
						continue
					}
				}
				res.unknown = true
			} else { // *p = m
				q := mapProv(x.Val, depth+1, seen)
				res.fields = append(res.fields, q.fields...)
				res.unknown = res.unknown || q.unknown
			}
		case ssa.CallInstruction:
			q := escapeProv(x, p, depth+1, seen)
			res.fields = append(res.fields, q.fields...)
			res.unknown = res.unknown || q.unknown
		default:
			res.unknown = true
		}
	}
	return res
}

func callResultProv(c *ssa.Call, k int, depth int, seen map[ssa.Value]bool) prov {
	callees := resolveCached(c)
	if len(callees) == 0 {
		return prov{unknown: true}
	}
	res := prov{}
	for _, f := range callees {
		if !inModule(fnPkgPath(f)) || len(f.Blocks) == 0 {
			res.unknown = true
			continue
		}
		for _, b := range f.Blocks {
			for _, ins := range b.Instrs {
				if r, ok := ins.(*ssa.Return); ok && k < len(r.Results) {
					p := mapProv(r.Results[k], depth+1, seen)
					res.fields = append(res.fields, p.fields...)
					res.unknown = res.unknown || p.unknown
					res.fresh = res.fresh || p.fresh
				}
			}
		}
	}
	return res
}

var (
	resolveCache = map[ssa.CallInstruction][]*ssa.Function{}
	callersOf    = map[*ssa.Function][]ssa.CallInstruction{}
)

func resolveCached(c ssa.CallInstruction) []*ssa.Function {
	if r, ok := resolveCache[c]; ok {
		return r
	}
	r := resolve(c)
	resolveCache[c] = r
	return r
}

func fieldsByMapType(m *types.Map) []mapField {
	var r []mapField
	for _, mf := range mapFields {
		if types.Identical(mf.m, m) {
			r = append(r, mf)
		}
	}
	return r
}

func (s *summary) mapAccess(m ssa.Value, write bool, ins ssa.Instruction) {
	mt, ok := types.Unalias(m.Type()).Underlying().(*types.Map)
	if !ok {
		return
	}
	p := mapProv(m, 0, map[ssa.Value]bool{})
	dd := map[string]bool{}
	for _, f := range p.fields {
		if dd[f.typ.Obj().Name()+"."+f.field] {
			continue
		}
		dd[f.typ.Obj().Name()+"."+f.field] = true
		s.accesses = append(s.accesses, rawAccess{typ: f.typ, field: f.field, write: write, base: p.base, instr: ins, via: "map", pos: ins.Pos()})
	}
	if p.unknown {
		for _, f := range fieldsByMapType(mt) {
			s.accesses = append(s.accesses, rawAccess{typ: f.typ, field: f.field, write: write, instr: ins, via: "map-by-type", pos: ins.Pos()})
		}
	}
}

// static types carried by a value of type `any`
func anyTypes(v ssa.Value, depth int) (ts []types.Type, ok bool) {
	if depth > 6 {
		return nil, false
	}
	switch x := v.(type) {
	case *ssa.MakeInterface:
		return []types.Type{x.X.Type()}, true
	case *ssa.ChangeInterface:
		return []types.Type{x.X.Type()}, true
	case *ssa.Call:
		if c := x.Common().StaticCallee(); c != nil && c.String() == "github.com/qdm12/reprint.This" {
			return anyTypes(x.Common().Args[0], depth+1) // the copy has the dynamic type of the original
		}
	case *ssa.Phi:
		all := true
		for _, e := range x.Edges {
			t, ok := anyTypes(e, depth+1)
			ts = append(ts, t...)
			all = all && ok
		}
		return ts, all
	case *ssa.Const:
		return nil, true
	}
	if !isEmptyInterface(v.Type()) {
		return []types.Type{v.Type()}, true
	}
	return nil, false
}

// reflection sink classification of a call: mode and the indices of the data arguments
func sinkOf(c ssa.CallInstruction) (mode string, args []ssa.Value) {
	cc := c.Common()
	if cc.IsInvoke() {
		if n := namedOf(cc.Value.Type()); n != nil && n.Obj().Pkg() != nil &&
			n.Obj().Pkg().Path() == "github.com/labstack/echo/v4" && n.Obj().Name() == "Context" {
			switch cc.Method.Name() {
			case "JSON", "JSONPretty", "JSONP":
				if len(cc.Args) >= 2 {
					if cc.Method.Name() == "JSONP" && len(cc.Args) >= 3 {
						return "json", []ssa.Value{cc.Args[2]}
					}
					return "json", []ssa.Value{cc.Args[1]}
				}
			case "XML", "XMLPretty":
				if len(cc.Args) >= 2 {
					return "json", []ssa.Value{cc.Args[1]}
				}
			}
		}
		return "", nil
	}
	callee := cc.StaticCallee()
	if callee == nil {
		return "", nil
	}
	switch callee.String() {
	case "github.com/qdm12/reprint.This":
		return "reprint", []ssa.Value{cc.Args[0]}
	case "github.com/qdm12/reprint.FromTo":
		return "reprint", []ssa.Value{cc.Args[0]}
	case "encoding/json.Marshal", "encoding/json.MarshalIndent":
		return "json", []ssa.Value{cc.Args[0]}
	case "(*encoding/json.Encoder).Encode":
		return "json", []ssa.Value{cc.Args[1]}
	}
	return "", nil
}

func implementors(iface *types.Interface) []*types.Named {
	var r []*types.Named
	for n := range tracked {
		if types.Implements(n, iface) || types.Implements(types.NewPointer(n), iface) {
			r = append(r, n)
		}
	}
	sort.Slice(r, func(i, j int) bool { return r[i].Obj().Name() < r[j].Obj().Name() })
	return r
}

// expand: which tracked struct types does a reflective walk over a value of static type t visit
func expand(t types.Type, mode string, top bool, seen map[types.Type]bool, out map[*types.Named]bool) {
	t = types.Unalias(t)
	if seen[t] {
		return
	}
	seen[t] = true
	if n := namedOf(t); n != nil {
		if st, ok := n.Underlying().(*types.Struct); ok {
			if tracked[n] {
				out[n] = true
			}
			for i := 0; i < st.NumFields(); i++ {
				f := st.Field(i)
				if mode == "json" && !jsonVisible(st, i) {
					continue
				}
				expand(f.Type(), mode, false, seen, out)
			}
			return
		}
	}
	switch u := t.Underlying().(type) {
	case *types.Pointer:
		expand(u.Elem(), mode, top, seen, out)
	case *types.Slice:
		expand(u.Elem(), mode, false, seen, out)
	case *types.Array:
		expand(u.Elem(), mode, false, seen, out)
	case *types.Map:
		expand(u.Key(), mode, false, seen, out)
		expand(u.Elem(), mode, false, seen, out)
	case *types.Struct:
		for i := 0; i < u.NumFields(); i++ {
			if mode == "json" && !jsonVisible(u, i) {
				continue
			}
			expand(u.Field(i).Type(), mode, false, seen, out)
		}
	case *types.Interface:
		if mode == "reprint" && !top {
			return // reprint copies a nested interface value as is (forceCopyValue), it does not look inside
		}
		if u.NumMethods() == 0 {
			return // nested `any`: dynamic type unknown (none in the tracked types' fields)
		}
		for _, n := range implementors(u) {
			expand(types.NewPointer(n), mode, false, seen, out)
		}
	}
}

func jsonVisible(st *types.Struct, i int) bool {
	f := st.Field(i)
	if !f.Exported() && !f.Embedded() {
		return false
	}
	tag := reflect.StructTag(st.Tag(i)).Get("json")
	return tag != "-"
}

func reflectFields(n *types.Named, mode string) []string {
	st := n.Underlying().(*types.Struct)
	var r []string
	for i := 0; i < st.NumFields(); i++ {
		if mode == "json" && !jsonVisible(st, i) {
			continue
		}
		if isSyncType(st.Field(i).Type()) {
			continue
		}
		r = append(r, st.Field(i).Name())
	}
	return r
}

func (s *summary) reflectRead(t types.Type, mode string, ins ssa.Instruction) {
	out := map[*types.Named]bool{}
	expand(t, mode, true, map[types.Type]bool{}, out)
	for n := range out {
		for _, f := range reflectFields(n, mode) {
			s.accesses = append(s.accesses, rawAccess{typ: n, field: f, instr: ins, via: "reflect:" + mode, pos: ins.Pos()})
		}
	}
}

func allFields(n *types.Named) []string {
	st := n.Underlying().(*types.Struct)
	var r []string
	for i := 0; i < st.NumFields(); i++ {
		if !isSyncType(st.Field(i).Type()) {
			r = append(r, st.Field(i).Name())
		}
	}
	return r
}

func summarize(fn *ssa.Function) *summary {
	if s, ok := summaries[sumKey{fn, assume}]; ok {
		return s
	}
	s := &summary{fn: fn}
	summaries[sumKey{fn, assume}] = s
	s.held = computeHeld(fn)
	dead := deadBlocks(fn)
	for _, b := range fn.Blocks {
		if dead[b] {
			continue
		}
		for _, ins := range b.Instrs {
			switch x := ins.(type) {
			case *ssa.FieldAddr:
				n, st := derefNamedStruct(x.X.Type())
				if n == nil || !tracked[n] {
					continue
				}
				f := st.Field(x.Field)
				if isSyncType(f.Type()) {
					continue
				}
				r, w, e := classifyAddr(x, 0)
				via := "direct"
				if e {
					via = "escape"
					r, w = true, true
					unresolved[fmt.Sprintf("address of %s.%s escapes in %s (%s): counted as read+write", n.Obj().Name(), f.Name(), fnName(fn), posOf(x.Pos(), fn))] = true
				}
				if r {
					s.accesses = append(s.accesses, rawAccess{typ: n, field: f.Name(), base: baseOf(x), instr: ins, via: via, pos: x.Pos()})
				}
				if w {
					s.accesses = append(s.accesses, rawAccess{typ: n, field: f.Name(), write: true, base: baseOf(x), instr: ins, via: via, pos: x.Pos()})
				}
			case *ssa.Field:
				n, st := derefNamedStruct(x.X.Type())
				if n == nil || !tracked[n] {
					continue
				}
				s.accesses = append(s.accesses, rawAccess{typ: n, field: st.Field(x.Field).Name(), base: x.X, instr: ins, via: "direct", pos: x.Pos()})
			case *ssa.UnOp:
				if x.Op != token.MUL {
					continue
				}
				// whole-struct load  *p  with p : *T, T tracked  (e.g. `return f.stats`)
				if _, isPtr := types.Unalias(x.X.Type()).Underlying().(*types.Pointer); isPtr {
					if n, _ := derefNamedStruct(x.X.Type()); n != nil && tracked[n] {
						if nn := namedOf(x.Type()); nn == n {
							for _, f := range allFields(n) {
								s.accesses = append(s.accesses, rawAccess{typ: n, field: f, base: baseOf(x.X), instr: ins, via: "struct", pos: x.Pos()})
							}
						}
					}
				}
			case *ssa.Store:
				if n, _ := derefNamedStruct(x.Addr.Type()); n != nil && tracked[n] {
					if nn := namedOf(x.Val.Type()); nn == n { // whole-struct store
						if _, isAlloc := x.Addr.(*ssa.Alloc); !isAlloc {
							for _, f := range allFields(n) {
								s.accesses = append(s.accesses, rawAccess{typ: n, field: f, write: true, base: baseOf(x.Addr), instr: ins, via: "struct", pos: x.Pos()})
							}
						}
					}
				}
			case *ssa.Alloc:
				// a local variable whose ADDRESS is stored into a tracked field (here or by a callee): the
				// variable is that field's pointee; its initialisation is part of the (unsynchronised) publication
				var pub []mapField
				if refs := x.Referrers(); refs != nil {
					for _, r := range *refs {
						switch y := r.(type) {
						case *ssa.Store:
							if y.Val == ssa.Value(x) {
								if fa, ok := y.Addr.(*ssa.FieldAddr); ok {
									if n, st := derefNamedStruct(fa.X.Type()); n != nil && tracked[n] {
										pub = append(pub, mapField{typ: n, field: st.Field(fa.Field).Name()})
									}
								}
							}
						case ssa.CallInstruction:
							for _, a := range y.Common().Args {
								if a == ssa.Value(x) {
									pub = append(pub, escapeProv(y, x, 0, map[ssa.Value]bool{}).fields...)
									break
								}
							}
						}
					}
					seenPub := map[string]bool{}
					for _, f := range pub {
						k := f.typ.Obj().Name() + "." + f.field
						if seenPub[k] {
							continue
						}
						seenPub[k] = true
						for _, r := range *refs {
							if st, ok := r.(*ssa.Store); ok && st.Addr == ssa.Value(x) {
								pos := st.Pos()
								if !pos.IsValid() {
									pos = x.Pos()
								}
								s.accesses = append(s.accesses, rawAccess{typ: f.typ, field: f.field, write: true, instr: st, via: "pointee", pos: pos})
							}
						}
					}
				}
			case *ssa.MapUpdate:
				s.mapAccess(x.Map, true, ins)
			case *ssa.Lookup:
				s.mapAccess(x.X, false, ins)
			case *ssa.Range:
				s.mapAccess(x.X, false, ins)
			case *ssa.MakeInterface:
				s.handleAnyConv(x, x.X, ins)
			case *ssa.ChangeInterface:
				s.handleAnyConv(x, x.X, ins)
			}
			if c, ok := ins.(ssa.CallInstruction); ok {
				cc := c.Common()
				if bi, ok := cc.Value.(*ssa.Builtin); ok {
					switch bi.Name() {
					case "len":
						s.mapAccess(cc.Args[0], false, ins)
					case "delete":
						s.mapAccess(cc.Args[0], true, ins)
					}
					continue
				}
				if mode, args := sinkOf(c); mode != "" {
					for _, a := range args {
						ts, ok := anyTypes(a, 0)
						if !ok {
							unresolved[fmt.Sprintf("dynamic type of the value handed to a %s sink unknown in %s (%s)", mode, fnName(fn), posOf(ins.Pos(), fn))] = true
						}
						for _, t := range ts {
							s.reflectRead(t, mode, ins)
						}
					}
				}
				s.calls = append(s.calls, callSite{instr: c, callees: resolveAssumed(c)})
			}
		}
	}
	return s
}

// a value converted to `any`: unless it only feeds a classified sink, it is assumed to be walked by
// reflection (fmt-like: every field, follows interfaces)
func (s *summary) handleAnyConv(v ssa.Value, operand ssa.Value, ins ssa.Instruction) {
	if !isEmptyInterface(v.Type()) {
		return
	}
	onlySinks := true
	refs := v.Referrers()
	if refs == nil || len(*refs) == 0 {
		onlySinks = false
	} else {
		for _, r := range *refs {
			if _, ok := r.(*ssa.DebugRef); ok {
				continue
			}
			c, ok := r.(ssa.CallInstruction)
			if !ok {
				onlySinks = false
				break
			}
			if m, _ := sinkOf(c); m == "" {
				onlySinks = false
				break
			}
		}
	}
	if onlySinks {
		return
	}
	// a map loaded from a tracked field and printed: content read of that field
	if _, isMap := types.Unalias(operand.Type()).Underlying().(*types.Map); isMap {
		s.mapAccess(operand, false, ins)
	}
	s.reflectRead(operand.Type(), "any", ins)
}

// ---------------------------------------------------------------------------------------------
// call resolution (CHA restricted to the module)

func resolve(c ssa.CallInstruction) []*ssa.Function {
	cc := c.Common()
	var res []*ssa.Function
	if cc.IsInvoke() {
		iface, ok := types.Unalias(cc.Value.Type()).Underlying().(*types.Interface)
		if !ok {
			return nil
		}
		for _, p := range modPkgs {
			names := make([]string, 0, len(p.Members))
			for name := range p.Members {
				names = append(names, name)
			}
			sort.Strings(names)
			for _, name := range names {
				tm, ok := p.Members[name].(*ssa.Type)
				if !ok {
					continue
				}
				T := tm.Type()
				if _, isIface := T.Underlying().(*types.Interface); isIface {
					continue
				}
				if tn, ok := T.(*types.Named); ok && tn.TypeParams().Len() > 0 {
					continue
				}
				for _, recv := range []types.Type{T, types.NewPointer(T)} {
					if !types.Implements(recv, iface) {
						continue
					}
					sel := prog.MethodSets.MethodSet(recv).Lookup(cc.Method.Pkg(), cc.Method.Name())
					if sel == nil {
						continue
					}
					if f := prog.MethodValue(sel); f != nil {
						res = append(res, f)
					}
					break
				}
			}
		}
		return res
	}
	if f := cc.StaticCallee(); f != nil {
		return []*ssa.Function{f}
	}
	if _, ok := cc.Value.(*ssa.Builtin); ok {
		return nil
	}
	// dynamic call through a function value
	sig, ok := types.Unalias(cc.Value.Type()).Underlying().(*types.Signature)
	if !ok {
		return nil
	}
	for _, f := range modFuncs {
		if addrTaken[f] && types.Identical(stripRecv(f.Signature), sig) {
			res = append(res, f)
		}
	}
	return res
}

func stripRecv(s *types.Signature) *types.Signature {
	if s.Recv() == nil {
		return s
	}
	return types.NewSignatureType(nil, nil, nil, s.Params(), s.Results(), s.Variadic())
}

// ---------------------------------------------------------------------------------------------
// roots

type root struct {
	name string
	kind string
	fn   *ssa.Function
}

func findMethod(pkgPath, typeName, method string) *ssa.Function {
	p := prog.ImportedPackage(pkgPath)
	if p == nil {
		return nil
	}
	tm, ok := p.Members[typeName].(*ssa.Type)
	if !ok {
		return nil
	}
	for _, recv := range []types.Type{tm.Type(), types.NewPointer(tm.Type())} {
		ms := prog.MethodSets.MethodSet(recv)
		for i := 0; i < ms.Len(); i++ {
			if ms.At(i).Obj().Name() == method {
				if f := prog.MethodValue(ms.At(i)); f != nil && f.Synthetic == "" {
					return f
				}
			}
		}
	}
	return nil
}

func findRoots() []root {
	var rs []root
	add := func(name, kind string, f *ssa.Function) {
		if f == nil {
			broken = append(broken, "root not found: "+name)
			return
		}
		rs = append(rs, root{name: name, kind: kind, fn: f})
	}
	add("internal.sensorMonitor.Run", "sensor", findMethod(modPath+"/internal", "sensorMonitor", "Run"))
	cp := modPath + "/internal/controller"
	add("controller.DefaultFanController.Run", "init", findMethod(cp, "DefaultFanController", "Run"))
	add("controller.DefaultFanController.measureRpm", "rpmmon", findMethod(cp, "DefaultFanController", "measureRpm"))
	add("controller.DefaultFanController.UpdateFanSpeed", "control", findMethod(cp, "DefaultFanController", "UpdateFanSpeed"))
	add("controller.DefaultFanController.restorePwmEnabled", "control", findMethod(cp, "DefaultFanController", "restorePwmEnabled"))
	// collectors: every method named Collect in internal/statistics
	if sp := prog.ImportedPackage(modPath + "/internal/statistics"); sp != nil {
		names := []string{}
		for n := range sp.Members {
			names = append(names, n)
		}
		sort.Strings(names)
		n := 0
		for _, name := range names {
			if _, ok := sp.Members[name].(*ssa.Type); ok {
				if f := findMethod(sp.Pkg.Path(), name, "Collect"); f != nil {
					add("statistics."+name+".Collect", "collector", f)
					n++
				}
			}
		}
		if n == 0 {
			broken = append(broken, "no Collect method found in internal/statistics")
		}
	} else {
		broken = append(broken, "package internal/statistics not loaded")
	}
	// API handlers: every func(echo.Context) error in internal/api
	if ap := prog.ImportedPackage(modPath + "/internal/api"); ap != nil {
		names := []string{}
		for n := range ap.Members {
			names = append(names, n)
		}
		sort.Strings(names)
		n := 0
		for _, name := range names {
			f, ok := ap.Members[name].(*ssa.Function)
			if !ok {
				continue
			}
			sig := f.Signature
			if sig.Params().Len() == 1 && sig.Results().Len() == 1 {
				pn := namedOf(sig.Params().At(0).Type())
				if pn != nil && pn.Obj().Name() == "Context" && pn.Obj().Pkg().Path() == "github.com/labstack/echo/v4" &&
					sig.Results().At(0).Type().String() == "error" {
					add("api."+name, "api", f)
					n++
				}
			}
		}
		if n == 0 {
			broken = append(broken, "no handler found in internal/api")
		}
	} else {
		broken = append(broken, "package internal/api not loaded")
	}
	return rs
}

// ---------------------------------------------------------------------------------------------
// reachability + inherited package-level locks

func globalsHeld(s *summary, ins ssa.Instruction) map[string]bool {
	r := map[string]bool{}
	for k := range s.held[ins] {
		if k.base == nil {
			r[k.id] = true
		}
	}
	return r
}

func analyzeRoot(r root) ([]Access, int) {
	entry := map[*ssa.Function]map[string]bool{r.fn: {}}
	work := []*ssa.Function{r.fn}
	for len(work) > 0 {
		fn := work[0]
		work = work[1:]
		if !inModule(fnPkgPath(fn)) || len(fn.Blocks) == 0 {
			continue
		}
		s := summarize(fn)
		for _, cs := range s.calls {
			ctx := map[string]bool{}
			if _, isCall := cs.instr.(*ssa.Call); isCall {
				for k := range entry[fn] {
					ctx[k] = true
				}
				for k := range globalsHeld(s, cs.instr) {
					ctx[k] = true
				}
			} // go / defer: nothing is known to be held when the callee runs
			for _, callee := range cs.callees {
				if !inModule(fnPkgPath(callee)) {
					continue
				}
				old, seen := entry[callee]
				if !seen {
					cp := map[string]bool{}
					for k := range ctx {
						cp[k] = true
					}
					entry[callee] = cp
					work = append(work, callee)
					continue
				}
				shrunk := false
				for k := range old {
					if !ctx[k] {
						delete(old, k)
						shrunk = true
					}
				}
				if shrunk {
					work = append(work, callee)
				}
			}
		}
	}
	var out []Access
	fns := make([]*ssa.Function, 0, len(entry))
	for fn := range entry {
		fns = append(fns, fn)
	}
	sort.Slice(fns, func(i, j int) bool { return fnName(fns[i]) < fnName(fns[j]) })
	n := 0
	for _, fn := range fns {
		s, ok := summaries[sumKey{fn, assume}]
		if !ok {
			continue
		}
		n++
		for _, a := range s.accesses {
			locks := map[string]bool{}
			for k := range entry[fn] {
				locks[k] = true
			}
			for k := range s.held[a.instr] {
				if k.base == nil {
					locks[k.id] = true
				} else if a.base != nil && k.base == a.base && strings.HasPrefix(k.id, a.typ.Obj().Name()+".") {
					locks[k.id] = true // the mutex of the very object that is accessed
				}
			}
			ls := make([]string, 0, len(locks))
			for k := range locks {
				ls = append(ls, k)
			}
			sort.Strings(ls)
			out = append(out, Access{Root: r.name, Kind: r.kind, Type: a.typ.Obj().Name(), Field: a.field, Write: a.write,
				Locks: ls, Func: fnName(fn), Pos: posOf(a.pos, fn), Via: a.via})
		}
	}
	return out, n
}

// ---------------------------------------------------------------------------------------------
// conflicts (report only; the authoritative computation is Lean's)

var perFan = map[string]bool{"HwMonFan": true, "FileFan": true, "CmdFan": true, "DefaultFanController": true, "FanControllerStatistics": true}

func concurrentKinds(a, b Access) bool {
	fanBound := func(k string) bool { return k == "rpmmon" || k == "control" || k == "init" }
	if a.Kind == b.Kind {
		switch {
		case a.Kind == "sensor":
			return false
		case fanBound(a.Kind):
			return !perFan[a.Type]
		}
		return true
	}
	if (a.Kind == "init" && fanBound(b.Kind)) || (b.Kind == "init" && fanBound(a.Kind)) {
		return !perFan[a.Type]
	}
	return true
}

func disjoint(a, b []string) bool {
	for _, x := range a {
		for _, y := range b {
			if x == y {
				return false
			}
		}
	}
	return true
}

func main() {
	repoRoot = "/repo"
	altmod := "/verif/build/alt.mod"
	if len(os.Args) > 1 {
		repoRoot = os.Args[1]
	}
	if len(os.Args) > 2 {
		altmod = os.Args[2]
	}
	if abs, err := filepath.Abs(altmod); err == nil {
		altmod = abs
	}
	env := append(os.Environ(), "CGO_ENABLED=0", "GOFLAGS=-mod=mod", "GOPROXY=off", "GOSUMDB=off", "GOTOOLCHAIN=local")
	cfg := &packages.Config{Mode: packages.LoadAllSyntax, Dir: repoRoot, Env: env,
		BuildFlags: []string{"-modfile=" + altmod}}
	initial, err := packages.Load(cfg, ".", "./internal/...")
	if err != nil {
		fmt.Fprintln(os.Stderr, "load:", err)
		os.Exit(2)
	}
	nerr := 0
	packages.Visit(initial, nil, func(p *packages.Package) {
		for _, e := range p.Errors {
			if inModule(p.PkgPath) {
				fmt.Fprintln(os.Stderr, "package error:", e)
				nerr++
			}
		}
	})
	if nerr > 0 {
		os.Exit(2)
	}
	var pkgs []*ssa.Package
	prog, pkgs = ssautil.AllPackages(initial, ssa.InstantiateGenerics)
	_ = pkgs
	for _, p := range prog.AllPackages() {
		if inModule(p.Pkg.Path()) {
			p.Build()
			modPkgs = append(modPkgs, p)
		}
	}
	sort.Slice(modPkgs, func(i, j int) bool { return modPkgs[i].Pkg.Path() < modPkgs[j].Pkg.Path() })

	// ---- tracked struct types: the listed ones + every in-module struct implementing Fan / Sensor /
	// SpeedCurve / FanController (so that a NEW implementation is tracked automatically)
	want := map[string][]string{
		modPath + "/internal/fans":       {"HwMonFan", "FileFan", "CmdFan"},
		modPath + "/internal/controller": {"DefaultFanController", "FanControllerStatistics"},
		modPath + "/internal/curves":     {"LinearSpeedCurve", "PidSpeedCurve", "FunctionSpeedCurve"},
		modPath + "/internal/util":       {"PidLoop"},
		modPath + "/internal/sensors":    {"HwmonSensor", "FileSensor", "CmdSensor"},
	}
	for path, names := range want {
		p := prog.ImportedPackage(path)
		for _, n := range names {
			var tm *ssa.Type
			if p != nil {
				tm, _ = p.Members[n].(*ssa.Type)
			}
			if tm == nil {
				broken = append(broken, "tracked type not found: "+path+"."+n)
				continue
			}
			tracked[namedOf(tm.Type())] = true
		}
	}
	ifaces := [][2]string{{"fans", "Fan"}, {"sensors", "Sensor"}, {"curves", "SpeedCurve"}, {"controller", "FanController"}}
	for _, ifn := range ifaces {
		p := prog.ImportedPackage(modPath + "/internal/" + ifn[0])
		if p == nil {
			continue
		}
		tm, ok := p.Members[ifn[1]].(*ssa.Type)
		if !ok {
			broken = append(broken, "interface not found: "+ifn[0]+"."+ifn[1])
			continue
		}
		iface, ok := tm.Type().Underlying().(*types.Interface)
		if !ok {
			continue
		}
		for _, mp := range modPkgs {
			for _, m := range mp.Members {
				t, ok := m.(*ssa.Type)
				if !ok {
					continue
				}
				n := namedOf(t.Type())
				if n == nil || n.TypeParams().Len() > 0 {
					continue
				}
				if _, isStruct := n.Underlying().(*types.Struct); !isStruct {
					continue
				}
				if types.Implements(n, iface) || types.Implements(types.NewPointer(n), iface) {
					tracked[n] = true
				}
			}
		}
	}
	out := Output{Tracked: map[string][]string{}, Accesses: []Access{}, Conflicts: []Conflict{}, Unresolved: []string{},
		NotInstantiated: []string{}, Broken: []string{}}
	for n := range tracked {
		if prev, dup := trackedByN[n.Obj().Name()]; dup && prev != n {
			broken = append(broken, "two tracked types share the short name "+n.Obj().Name())
		}
		trackedByN[n.Obj().Name()] = n
		st := n.Underlying().(*types.Struct)
		fs := []string{}
		for i := 0; i < st.NumFields(); i++ {
			fs = append(fs, st.Field(i).Name())
			ft := types.Unalias(st.Field(i).Type())
			if p, ok := ft.Underlying().(*types.Pointer); ok {
				ft = p.Elem()
			}
			if m, ok := ft.Underlying().(*types.Map); ok {
				mapFields = append(mapFields, mapField{typ: n, field: st.Field(i).Name(), m: m})
			}
		}
		out.Tracked[n.Obj().Name()] = fs
	}
	sort.Slice(mapFields, func(i, j int) bool {
		return mapFields[i].typ.Obj().Name()+"."+mapFields[i].field < mapFields[j].typ.Obj().Name()+"."+mapFields[j].field
	})

	// ---- in-module functions, address-taken ones
	all := ssautil.AllFunctions(prog)
	for f := range all {
		if inModule(fnPkgPath(f)) && len(f.Blocks) > 0 {
			modFuncs = append(modFuncs, f)
		}
	}
	sort.Slice(modFuncs, func(i, j int) bool {
		a, b := fnName(modFuncs[i]), fnName(modFuncs[j])
		if a != b {
			return a < b
		}
		return modFuncs[i].Pos() < modFuncs[j].Pos()
	})
	for _, f := range modFuncs {
		for _, b := range f.Blocks {
			for _, ins := range b.Instrs {
				var ops []*ssa.Value
				ops = ins.Operands(ops)
				for i, op := range ops {
					if op == nil || *op == nil {
						continue
					}
					if c, ok := ins.(ssa.CallInstruction); ok && i == 0 && !c.Common().IsInvoke() {
						if _, isFn := (*op).(*ssa.Function); isFn {
							continue // callee position
						}
					}
					switch v := (*op).(type) {
					case *ssa.Function:
						addrTaken[v] = true
					case *ssa.MakeClosure:
						if fn, ok := v.Fn.(*ssa.Function); ok {
							addrTaken[fn] = true
						}
					}
				}
				if mc, ok := ins.(*ssa.MakeClosure); ok {
					if fn, ok := mc.Fn.(*ssa.Function); ok {
						addrTaken[fn] = true
					}
				}
			}
		}
	}

	// ---- drop tracked types the daemon never instantiates (e.g. a type only built by a CLI
	// sub-command or a test helper): reachability from internal.RunDaemon incl. closures and
	// function values, then look for allocations of the type
	roots := findRoots()
	if ip := prog.ImportedPackage(modPath + "/internal"); ip != nil && ip.Func("RunDaemon") != nil {
		reach := map[*ssa.Function]bool{}
		work := []*ssa.Function{ip.Func("RunDaemon")}
		for _, r := range roots {
			work = append(work, r.fn)
		}
		inst := map[*types.Named]bool{}
		var markInst func(t types.Type)
		markInst = func(t types.Type) { // a struct and everything it embeds by value
			n, st := derefNamedStruct(t)
			if n == nil || inst[n] {
				return
			}
			inst[n] = true
			for i := 0; i < st.NumFields(); i++ {
				if _, isPtr := types.Unalias(st.Field(i).Type()).Underlying().(*types.Pointer); !isPtr {
					markInst(st.Field(i).Type())
				}
			}
		}
		for len(work) > 0 {
			f := work[0]
			work = work[1:]
			if reach[f] || !inModule(fnPkgPath(f)) {
				continue
			}
			reach[f] = true
			for _, b := range f.Blocks {
				for _, ins := range b.Instrs {
					if al, ok := ins.(*ssa.Alloc); ok {
						if os.Getenv("ACCESSGEN_DEBUG") != "" {
							if n, _ := derefNamedStruct(al.Type()); n != nil && tracked[n] {
								fmt.Fprintln(os.Stderr, "alloc", n.Obj().Name(), "in", fnName(f))
							}
						}
						copyOf := false // a spilled parameter / a copy of an existing object is no new instance
						if refs := al.Referrers(); refs != nil {
							for _, r := range *refs {
								if st, ok := r.(*ssa.Store); ok && st.Addr == al {
									copyOf = true
								}
							}
						}
						if !copyOf {
							markInst(al.Type())
						}
					}
					if c, ok := ins.(ssa.CallInstruction); ok {
						callees := resolveCached(c)
						work = append(work, callees...)
						for _, callee := range callees {
							if inModule(fnPkgPath(callee)) {
								callersOf[callee] = append(callersOf[callee], c)
							}
						}
					}
					var ops []*ssa.Value
					for _, op := range ins.Operands(ops) {
						if op == nil || *op == nil {
							continue
						}
						switch v := (*op).(type) {
						case *ssa.Function:
							work = append(work, v)
						case *ssa.MakeClosure:
							if fn, ok := v.Fn.(*ssa.Function); ok {
								work = append(work, fn)
							}
						}
					}
				}
			}
		}
		for n := range tracked {
			if !inst[n] {
				delete(tracked, n)
				delete(trackedByN, n.Obj().Name())
				delete(out.Tracked, n.Obj().Name())
				out.NotInstantiated = append(out.NotInstantiated, n.Obj().Name())
			}
		}
		sort.Strings(out.NotInstantiated)
		var mf []mapField
		for _, f := range mapFields {
			if tracked[f.typ] {
				mf = append(mf, f)
			}
		}
		mapFields = mf
		for _, names := range want {
			for _, n := range names {
				if _, ok := trackedByN[n]; !ok {
					broken = append(broken, "tracked type "+n+" is never instantiated by the daemon")
				}
			}
		}
	} else {
		broken = append(broken, "internal.RunDaemon not found")
	}

	if fp := prog.ImportedPackage(modPath + "/internal/fans"); fp != nil {
		if tm, ok := fp.Members["Fan"].(*ssa.Type); ok {
			fanIface = tm.Type()
			if iface, ok := fanIface.Underlying().(*types.Interface); ok {
				fanImpls = implementors(iface)
			}
		}
	}
	if len(fanImpls) == 0 {
		broken = append(broken, "no tracked implementation of fans.Fan found")
	}

	// ---- accesses per root
	seenAcc := map[string]bool{}
	for _, r := range roots {
		var acc []Access
		n := 0
		if r.kind == "control" || r.kind == "rpmmon" || r.kind == "init" {
			for _, t := range fanImpls {
				assume = t
				a, k := analyzeRoot(r)
				acc = append(acc, a...)
				if k > n {
					n = k
				}
			}
			assume = nil
		} else {
			acc, n = analyzeRoot(r)
		}
		out.Roots = append(out.Roots, RootInfo{Name: r.name, Kind: r.kind, Func: fnName(r.fn), N: n})
		for _, a := range acc {
			key := fmt.Sprint(a.Root, "|", a.Type, "|", a.Field, "|", a.Write, "|", a.Locks, "|", a.Func, "|", a.Pos, "|", a.Via)
			if seenAcc[key] {
				continue
			}
			seenAcc[key] = true
			out.Accesses = append(out.Accesses, a)
		}
	}
	sort.SliceStable(out.Accesses, func(i, j int) bool {
		a, b := out.Accesses[i], out.Accesses[j]
		ka := []string{a.Kind, a.Root, a.Type, a.Field, fmt.Sprint(a.Write), strings.Join(a.Locks, ","), a.Func, a.Pos, a.Via}
		kb := []string{b.Kind, b.Root, b.Type, b.Field, fmt.Sprint(b.Write), strings.Join(b.Locks, ","), b.Func, b.Pos, b.Via}
		for k := range ka {
			if ka[k] != kb[k] {
				return ka[k] < kb[k]
			}
		}
		return false
	})

	// ---- the Lean table: projection + dedupe (the order of out.Accesses is kept: kind, root, type, field, ...)
	out.Table = []Row{}
	seenRow := map[string]bool{}
	for _, a := range out.Accesses {
		key := fmt.Sprint(a.Kind, "|", a.Root, "|", a.Type, "|", a.Field, "|", a.Write, "|", a.Locks)
		if seenRow[key] {
			continue
		}
		seenRow[key] = true
		out.Table = append(out.Table, Row{Activity: a.Root, Kind: a.Kind, Obj: a.Type, Field: a.Field, Write: a.Write, Locks: a.Locks})
	}

	// ---- conflicts (for the report)
	cm := map[string]*Conflict{}
	for i, a := range out.Accesses {
		for j, b := range out.Accesses {
			if j < i || a.Type != b.Type || a.Field != b.Field || !(a.Write || b.Write) {
				continue
			}
			if i == j && !(a.Write && concurrentKinds(a, a)) {
				continue
			}
			if !concurrentKinds(a, b) || !disjoint(a.Locks, b.Locks) {
				continue
			}
			x, y := a, b
			if x.Kind > y.Kind {
				x, y = y, x
			}
			key := x.Type + "." + x.Field + "|" + x.Kind + "|" + y.Kind
			if c, ok := cm[key]; ok {
				c.N++
				continue
			}
			cm[key] = &Conflict{Key: x.Type + "." + x.Field, KindA: x.Kind, KindB: y.Kind, A: x, B: y, N: 1}
		}
	}
	keys := make([]string, 0, len(cm))
	for k := range cm {
		keys = append(keys, k)
	}
	sort.Strings(keys)
	for _, k := range keys {
		out.Conflicts = append(out.Conflicts, *cm[k])
	}
	for u := range unresolved {
		out.Unresolved = append(out.Unresolved, u)
	}
	sort.Strings(out.Unresolved)
	sort.Strings(broken)
	out.Broken = append(out.Broken, broken...)
	enc := json.NewEncoder(os.Stdout)
	enc.SetIndent("", " ")
	if err := enc.Encode(out); err != nil {
		fmt.Fprintln(os.Stderr, err)
		os.Exit(2)
	}
}
