//go:build verif

// Package verifhook is injected into the fan2go module at check time (go build -overlay) under
// build tag "verif". Mechanically rewritten copies of a few fan2go files call it instead of
// os.ReadFile / os.WriteFile / atomic.WriteFile / time.Now / time.Sleep, so that the
// verification harness can (a) play the fan device behind a set of sysfs-like paths, including
// refused and silently ignored writes and failing reads, and (b) run in virtual time.
package verifhook

import (
	"errors"
	"fmt"
	"io"
	"io/fs"
	"os"
	"strconv"
	"strings"
	"sync"
	"syscall"
	"time"

	"github.com/natefinch/atomic"
)

type ReadMode int

const (
	ReadOk       ReadMode = iota
	ReadErrPerm           // errors.Is(err, os.ErrPermission)
	ReadErrOther          // unreadable (ReadIntFromFile returns -1)
	ReadGarbage           // unparsable text (ReadIntFromFile returns 0 + error)
	ReadEmpty             // empty file (ReadIntFromFile returns -1 + error)
)

type WriteMode int

const (
	WriteApplied WriteMode = iota
	WriteRefused
	WriteIgnored
)

type Reg int

const (
	RegPwm Reg = iota
	RegMode
	RegRpm
	RegRaw // plain register (sensors): Raw text is returned as is
)

// Device is the virtual fan device (or a sensor input) behind intercepted paths.
type Device struct {
	Pwm, Mode, Rpm int
	Resp           func(int) int
	PwmRead        ReadMode
	PwmWrite       WriteMode
	ModeRead       ReadMode
	ModeWrite      WriteMode
	RpmRead        ReadMode
	Raw            string // RegRaw content
	RawRead        ReadMode
	// PwmReadGlitch, if > 0, counts PWM-register reads down; the read that brings it to 0 fails once with an I/O error
	// (a sporadic EIO / a read racing a rewrite of the file), every other read is unaffected
	PwmReadGlitch int
	// GarbageText is what a ReadGarbage read returns (default "garbage\n"); whitespace-only content is a garbage shape too
	GarbageText string
	// Log of writes: "pwm=<v>" / "mode=<v>" (":refused" suffix for refused writes)
	Log []string
	// RpmGate, if set, holds the NEXT read of the RPM register until the channel is closed; RpmEntered is closed when
	// the reader has arrived
	RpmGate    chan struct{}
	RpmEntered chan struct{}
	// the same for the NEXT read of a RegRaw register (a sensor input)
	RawGate    chan struct{}
	RawEntered chan struct{}
	// OnWrite, if set, is called for every write (while the hook lock is held: it must not call
	// back into this package); LogOff disables the Log slice
	OnWrite func(entry string)
	LogOff  bool
}

type binding struct {
	dev *Device
	reg Reg
}

var (
	mu       sync.Mutex
	bindings = map[string]binding{}
	// virtual clock
	clockOn  bool
	clockNs  int64
	sleepLog []time.Duration
	// SleepHook, if set, is called (outside the lock) on every virtual Sleep
	SleepHook func(d time.Duration)
)

func Bind(path string, dev *Device, reg Reg) {
	mu.Lock()
	defer mu.Unlock()
	bindings[path] = binding{dev, reg}
}

func Unbind(path string) {
	mu.Lock()
	defer mu.Unlock()
	delete(bindings, path)
}

func UnbindAll() {
	mu.Lock()
	defer mu.Unlock()
	bindings = map[string]binding{}
}

func readErr(path string, m ReadMode) error {
	switch m {
	case ReadErrPerm:
		return &fs.PathError{Op: "open", Path: path, Err: syscall.EACCES}
	default:
		return &fs.PathError{Op: "open", Path: path, Err: syscall.EIO}
	}
}

func regRead(path string, b binding) ([]byte, error) {
	d := b.dev
	var mode ReadMode
	var v string
	switch b.reg {
	case RegPwm:
		mode, v = d.PwmRead, strconv.Itoa(d.Pwm)
	case RegMode:
		mode, v = d.ModeRead, strconv.Itoa(d.Mode)
	case RegRpm:
		mode, v = d.RpmRead, strconv.Itoa(d.Rpm)
	case RegRaw:
		mode, v = d.RawRead, d.Raw
	}
	if b.reg == RegPwm && d.PwmReadGlitch > 0 {
		d.PwmReadGlitch--
		if d.PwmReadGlitch == 0 {
			return nil, readErr(path, ReadErrOther)
		}
	}
	switch mode {
	case ReadOk:
		return []byte(v + "\n"), nil
	case ReadGarbage:
		if d.GarbageText != "" {
			return []byte(d.GarbageText), nil
		}
		return []byte("garbage\n"), nil
	case ReadEmpty:
		return []byte{}, nil
	default:
		return nil, readErr(path, mode)
	}
}

func regWrite(path string, b binding, data []byte) error {
	d := b.dev
	text := strings.TrimSpace(string(data))
	v, err := strconv.Atoi(text)
	if err != nil {
		return fmt.Errorf("verifhook: non-integer write %q to %s", text, path)
	}
	var mode WriteMode
	var name string
	switch b.reg {
	case RegPwm:
		mode, name = d.PwmWrite, "pwm"
	case RegMode:
		mode, name = d.ModeWrite, "mode"
	default:
		return &fs.PathError{Op: "write", Path: path, Err: syscall.EACCES}
	}
	note := func(e string) {
		if !d.LogOff {
			d.Log = append(d.Log, e)
		}
		if d.OnWrite != nil {
			d.OnWrite(e)
		}
	}
	switch mode {
	case WriteRefused:
		note(fmt.Sprintf("%s=%d:refused", name, v))
		return &fs.PathError{Op: "write", Path: path, Err: syscall.EINVAL}
	case WriteIgnored:
		note(fmt.Sprintf("%s=%d", name, v))
		return nil
	}
	if b.reg == RegPwm {
		w := v
		if d.Resp != nil {
			w = d.Resp(v)
		}
		d.Pwm = w
	} else {
		d.Mode = v
	}
	note(fmt.Sprintf("%s=%d", name, v))
	return nil
}

// ReadFile replaces os.ReadFile in rewritten fan2go files.
func ReadFile(path string) ([]byte, error) {
	mu.Lock()
	b, ok := bindings[path]
	if ok && b.reg == RegRpm && b.dev.RpmGate != nil {
		// a slow RPM read: the reader is held here (without the hook lock) until the harness opens the gate
		gate, entered := b.dev.RpmGate, b.dev.RpmEntered
		b.dev.RpmGate = nil
		mu.Unlock()
		if entered != nil {
			close(entered)
		}
		<-gate
		mu.Lock()
	} else if ok && b.reg == RegRaw && b.dev.RawGate != nil {
		gate, entered := b.dev.RawGate, b.dev.RawEntered
		b.dev.RawGate = nil
		mu.Unlock()
		if entered != nil {
			close(entered)
		}
		<-gate
		mu.Lock()
	}
	if ok {
		defer mu.Unlock()
		return regRead(path, b)
	}
	mu.Unlock()
	return os.ReadFile(path)
}

// WriteFile replaces os.WriteFile in rewritten fan2go files.
func WriteFile(path string, data []byte, perm os.FileMode) error {
	mu.Lock()
	b, ok := bindings[path]
	if ok {
		defer mu.Unlock()
		return regWrite(path, b, data)
	}
	mu.Unlock()
	return os.WriteFile(path, data, perm)
}

// AtomicWriteFile replaces atomic.WriteFile in rewritten fan2go files.
func AtomicWriteFile(path string, r io.Reader) error {
	mu.Lock()
	b, ok := bindings[path]
	if ok {
		defer mu.Unlock()
		data, err := io.ReadAll(r)
		if err != nil {
			return err
		}
		return regWrite(path, b, data)
	}
	mu.Unlock()
	return atomic.WriteFile(path, r)
}

// SetClock switches to virtual time at the given nanosecond count.
func SetClock(ns int64) {
	mu.Lock()
	defer mu.Unlock()
	clockOn = true
	clockNs = ns
}

func RealClock() {
	mu.Lock()
	defer mu.Unlock()
	clockOn = false
}

// Now replaces time.Now in rewritten fan2go files.
func Now() time.Time {
	mu.Lock()
	defer mu.Unlock()
	if clockOn {
		return time.Unix(0, clockNs)
	}
	return time.Now()
}

type waiter struct {
	at int64
	ch chan time.Time
}

var waiters []*waiter

// fireWaiters (hook lock held): timers of the virtual clock that are due
func fireWaiters() {
	keep := waiters[:0]
	for _, w := range waiters {
		if w.at <= clockNs {
			select {
			case w.ch <- time.Unix(0, clockNs):
			default:
			}
		} else {
			keep = append(keep, w)
		}
	}
	waiters = keep
}

// After replaces time.After in rewritten fan2go files: in virtual time the channel fires when the virtual clock has
// advanced by d (through virtual sleeps of any goroutine), so a time-out built on it is measured on the same clock as
// the sleeps it bounds.
func After(d time.Duration) <-chan time.Time {
	mu.Lock()
	if !clockOn {
		mu.Unlock()
		return time.After(d)
	}
	w := &waiter{at: clockNs + int64(d), ch: make(chan time.Time, 1)}
	waiters = append(waiters, w)
	fireWaiters()
	if !stallWatch {
		stallWatch = true
		go watchStall()
	}
	mu.Unlock()
	return w.ch
}

// Timer stands in for *time.Timer in rewritten fan2go files (time.NewTimer -> verifhook.NewTimer): in virtual time its
// channel fires when the virtual clock has advanced by d, like After.
type Timer struct {
	C    <-chan time.Time
	real *time.Timer
	w    *waiter
}

func NewTimer(d time.Duration) *Timer {
	mu.Lock()
	on := clockOn
	mu.Unlock()
	if !on {
		rt := time.NewTimer(d)
		return &Timer{C: rt.C, real: rt}
	}
	ch := After(d)
	mu.Lock()
	defer mu.Unlock()
	t := &Timer{C: ch}
	for _, w := range waiters {
		if (<-chan time.Time)(w.ch) == ch {
			t.w = w
		}
	}
	return t
}

// Stop prevents the timer from firing; reports whether it was still pending.
func (t *Timer) Stop() bool {
	if t.real != nil {
		return t.real.Stop()
	}
	mu.Lock()
	defer mu.Unlock()
	for i, w := range waiters {
		if w == t.w {
			waiters = append(waiters[:i], waiters[i+1:]...)
			return true
		}
	}
	return false
}

var stallWatch bool

// watchStall: virtual time only moves when some goroutine sleeps. When timers are pending and NOBODY has moved the clock
// for a while (25-50 ms of real time: everybody is blocked, e.g. all wait on their timers), time passes: the clock jumps
// to the earliest pending timer. Without this a wait written as `select { case <-ctx.Done(): case <-time.After(d): }`
// instead of `time.Sleep(d)` would never end.
func watchStall() {
	last := int64(-1)
	for {
		time.Sleep(25 * time.Millisecond)
		mu.Lock()
		if len(waiters) == 0 {
			stallWatch = false
			mu.Unlock()
			return
		}
		if !clockOn {
			// the harness went back to real time with timers still pending: let them go
			for _, w := range waiters {
				select {
				case w.ch <- time.Now():
				default:
				}
			}
			waiters = nil
			stallWatch = false
			mu.Unlock()
			return
		}
		if clockNs == last {
			min := waiters[0].at
			for _, w := range waiters {
				if w.at < min {
					min = w.at
				}
			}
			if min > clockNs {
				clockNs = min
			}
			fireWaiters()
		}
		last = clockNs
		mu.Unlock()
	}
}

// Advance moves the virtual clock forward by d and fires the timers that are due (what a Sleep of some goroutine does,
// without the sleep log entry).
func Advance(d time.Duration) {
	mu.Lock()
	defer mu.Unlock()
	if clockOn {
		clockNs += int64(d)
		fireWaiters()
	}
}

// Sleep replaces time.Sleep in rewritten fan2go files: in virtual time it only advances the clock.
func Sleep(d time.Duration) {
	mu.Lock()
	on := clockOn
	if on {
		clockNs += int64(d)
		sleepLog = append(sleepLog, d)
		fireWaiters()
	}
	h := SleepHook
	mu.Unlock()
	if !on {
		time.Sleep(d)
		return
	}
	if h != nil {
		h(d)
	}
}

func TakeSleepLog() []time.Duration {
	mu.Lock()
	defer mu.Unlock()
	l := sleepLog
	sleepLog = nil
	return l
}

var ErrHook = errors.New("verifhook")

func init() {
	// a separately started fan2go process (daemon stream) can be put into virtual time
	if os.Getenv("VERIF_VIRTUAL_CLOCK") == "1" {
		SetClock(time.Now().UnixNano())
	}
}
