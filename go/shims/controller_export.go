//go:build verif

package controller

// Export shims for the verification harness (added at check time through -overlay; they only
// forward to unexported identifiers and never change behaviour).

import (
	"github.com/markusressel/fan2go/internal/control_loop"
	"github.com/markusressel/fan2go/internal/curves"
	"github.com/markusressel/fan2go/internal/fans"
	"github.com/markusressel/fan2go/internal/persistence"
	"time"
)

type VerifController = DefaultFanController

// VerifNew builds a controller the way NewFanController does, then installs the given PWM map
// and derives the distinct targets with the real updateDistinctPwmValues.
func VerifNew(p persistence.Persistence, fan fans.Fan, curve curves.SpeedCurve, loop control_loop.ControlLoop,
	updateRate time.Duration, pwmMap map[int]int, setMap bool) *DefaultFanController {
	// through the real constructor (it looks the curve up by the fan's curve id), so that the shim names no field of the
	// controller it does not need
	curves.RegisterSpeedCurve(curve)
	c := NewFanController(p, fan, loop, updateRate).(*DefaultFanController)
	c.curve = curve
	if setMap {
		c.pwmMap = pwmMap
		c.updateDistinctPwmValues()
	}
	return c
}

func (f *DefaultFanController) VerifCalculateTargetPwm() (int, error) { return f.calculateTargetPwm() }
func (f *DefaultFanController) VerifSetPwm(t int) error               { return f.setPwm(t) }
func (f *DefaultFanController) VerifMeasureRpm()                      { f.measureRpm(f.fan) }
func (f *DefaultFanController) VerifRestore()                         { f.restorePwmEnabled() }
func (f *DefaultFanController) VerifComputePwmMap() error             { return f.computePwmMap() }
func (f *DefaultFanController) VerifUpdateDistinct()                  { f.updateDistinctPwmValues() }
func (f *DefaultFanController) VerifLastSetPwm() (int, bool) {
	if f.lastSetPwm == nil {
		return 0, false
	}
	return *f.lastSetPwm, true
}
func (f *DefaultFanController) VerifSetLastSetPwm(v int, ok bool) {
	if ok {
		f.lastSetPwm = &v
	} else {
		f.lastSetPwm = nil
	}
}
func (f *DefaultFanController) VerifMinPwmOffset() int       { return f.minPwmOffset }
func (f *DefaultFanController) VerifPwmMap() map[int]int     { return f.pwmMap }
func (f *DefaultFanController) VerifSetPwmMap(m map[int]int) { f.pwmMap = m }
func (f *DefaultFanController) VerifDistinct() []int         { return f.pwmValuesWithDistinctTarget }
func (f *DefaultFanController) VerifSetOriginal(mode, pwm int) {
	f.originalPwmEnabled = fans.ControlMode(mode)
	f.originalPwmValue = pwm
}
func (f *DefaultFanController) VerifOriginal() (int, int) {
	return int(f.originalPwmEnabled), f.originalPwmValue
}
func VerifTrySetManualPwm(fan fans.Fan) error { return trySetManualPwm(fan) }

// VerifControlLoop exposes the control loop a controller was wired with (C04: which algorithm a configuration selects)
func (f *DefaultFanController) VerifControlLoop() control_loop.ControlLoop { return f.controlLoop }
