//go:build verif

package controller

// Export shim for the start-up data stream (`su.settle`): forwards to the unexported
// waitForFanToSettle and never changes behaviour.

func (f *DefaultFanController) VerifWaitForFanToSettle() { f.waitForFanToSettle(f.fan) }
