//go:build verif

package util

func VerifGetClosest(a, b, t int) int { return getClosest(a, b, t) }
func (p *PidLoop) VerifState() (float64, float64, bool) {
	return p.error, p.integral, p.lastTime.IsZero()
}
