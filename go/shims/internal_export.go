//go:build verif

package internal

import (
	"github.com/markusressel/fan2go/internal/configuration"
	"github.com/markusressel/fan2go/internal/controller"
	"github.com/markusressel/fan2go/internal/fans"
	"github.com/markusressel/fan2go/internal/hwmon"
	"github.com/markusressel/fan2go/internal/persistence"
	"github.com/markusressel/fan2go/internal/sensors"
)

func VerifUpdateSensor(s sensors.Sensor) error { return updateSensor(s) }
func VerifInitializeSensors(c []*hwmon.HwMonController) error {
	return initializeSensors(c)
}
func VerifInitializeCurves() error { return initializeCurves() }
func VerifInitializeFans(c []*hwmon.HwMonController) (map[configuration.FanConfig]fans.Fan, error) {
	return initializeFans(c)
}
func VerifInitializeFanControllers(p persistence.Persistence, m map[configuration.FanConfig]fans.Fan) (map[fans.Fan]controller.FanController, error) {
	return initializeFanControllers(p, m)
}
