// Command factgen re-derives, from /repo's sources as they are NOW, the facts the Lean theorems
// depend on, and prints them as JSON. It is deliberately dumb: syntactic pattern facts, no
// semantics. vlib/factgen.py renders the JSON into lean/Fan2go/Generated/*.lean; the expectations
// are Lean terms and `generated = expected` is a kernel-checked theorem (Props/Facts.lean).
package main

import (
	"encoding/json"
	"fmt"
	"go/ast"
	"go/parser"
	"go/printer"
	"go/token"
	"os"
	"path/filepath"
	"sort"
	"strings"
)

type Site struct {
	File string `json:"file"`
	Func string `json:"func"`
	Kind string `json:"kind"`
	Ord  int    `json:"ord"`
	Arg  string `json:"arg,omitempty"`
}

type Facts struct {
	Consts     map[string]string   `json:"consts"`
	CrashSites []Site              `json:"crashSites"`
	ExecSites  []Site              `json:"execSites"`
	Sequences  map[string][]string `json:"sequences"`
	Broken     []string            `json:"broken"`
}

var fset = token.NewFileSet()

// functions whose closures' return statements are recorded (exit paths of the actor closures)
// functions whose `go` statements are part of the extracted sequence
var wantGo = map[string]bool{
	"internal/backend.go:initializeSensors": true,
	"internal/monitor.go:sensorMonitor.Run": true,
}

var wantReturns = map[string]bool{
	"internal/controller/controller.go:DefaultFanController.Run": true,
}

// inFuncLit reports whether node n lies inside a function literal within body
func inFuncLit(body ast.Node, n ast.Node) bool {
	found := false
	ast.Inspect(body, func(m ast.Node) bool {
		if fl, ok := m.(*ast.FuncLit); ok {
			if fl.Pos() <= n.Pos() && n.End() <= fl.End() {
				found = true
			}
		}
		return !found
	})
	return found
}

func exprString(e ast.Expr) string {
	var sb strings.Builder
	_ = printer.Fprint(&sb, fset, e)
	return sb.String()
}

func parseDir(root, rel string) map[string]*ast.File {
	res := map[string]*ast.File{}
	dir := filepath.Join(root, rel)
	entries, err := os.ReadDir(dir)
	if err != nil {
		return res
	}
	for _, e := range entries {
		n := e.Name()
		if e.IsDir() || !strings.HasSuffix(n, ".go") || strings.HasSuffix(n, "_test.go") {
			continue
		}
		f, err := parser.ParseFile(fset, filepath.Join(dir, n), nil, parser.ParseComments)
		if err != nil {
			continue
		}
		res[filepath.Join(rel, n)] = f
	}
	return res
}

// funcName of an enclosing declaration incl. receiver type
func funcName(fd *ast.FuncDecl) string {
	if fd.Recv != nil && len(fd.Recv.List) > 0 {
		t := fd.Recv.List[0].Type
		if s, ok := t.(*ast.StarExpr); ok {
			t = s.X
		}
		return exprString(t) + "." + fd.Name.Name
	}
	return fd.Name.Name
}

func callName(c *ast.CallExpr) string {
	switch f := c.Fun.(type) {
	case *ast.SelectorExpr:
		return exprString(f.X) + "." + f.Sel.Name
	case *ast.Ident:
		return f.Name
	}
	return ""
}

// daemon-reachable packages (everything RunDaemon can reach; cmd/* CLI bodies are excluded)
var daemonPkgs = []string{
	"internal", "internal/controller", "internal/control_loop", "internal/curves", "internal/fans",
	"internal/sensors", "internal/util", "internal/hwmon", "internal/persistence", "internal/configuration",
	"internal/statistics", "internal/api", "internal/ui",
}

func main() {
	root := "/repo"
	if len(os.Args) > 1 {
		root = os.Args[1]
	}
	facts := Facts{Consts: map[string]string{}, Sequences: map[string][]string{}}
	files := map[string]*ast.File{}
	for _, p := range daemonPkgs {
		for k, v := range parseDir(root, p) {
			files[k] = v
		}
	}
	names := make([]string, 0, len(files))
	for k := range files {
		names = append(names, k)
	}
	sort.Strings(names)

	// ---- constants and literal defaults
	wantConst := map[string]bool{"MaxPwmValue": true, "MinPwmValue": true, "ControlModeDisabled": true,
		"ControlModePWM": true, "ControlModeAutomatic": true, "BucketFans": true, "BucketFanPwmMap": true,
		"FunctionSum": true, "FunctionDifference": true, "FunctionAverage": true, "FunctionDelta": true,
		"FunctionMinimum": true, "FunctionMaximum": true, "pwmSetGetDelay": true,
		"FeaturePwmSensor": true, "FeatureRpmSensor": true, "FeatureControlMode": true}
	for _, fn := range names {
		f := files[fn]
		for _, d := range f.Decls {
			gd, ok := d.(*ast.GenDecl)
			if !ok {
				continue
			}
			for _, sp := range gd.Specs {
				vs, ok := sp.(*ast.ValueSpec)
				if !ok {
					continue
				}
				for i, n := range vs.Names {
					if wantConst[n.Name] && i < len(vs.Values) {
						facts.Consts[n.Name] = exprString(vs.Values[i])
					}
					if n.Name == "DefaultPidConfig" && i < len(vs.Values) {
						if cl, ok := vs.Values[i].(*ast.CompositeLit); ok {
							for _, el := range cl.Elts {
								if kv, ok := el.(*ast.KeyValueExpr); ok {
									facts.Consts["DefaultPid."+exprString(kv.Key)] = exprString(kv.Value)
								}
							}
						}
					}
				}
			}
		}
		// viper defaults
		ast.Inspect(f, func(n ast.Node) bool {
			c, ok := n.(*ast.CallExpr)
			if !ok {
				return true
			}
			if callName(c) == "viper.SetDefault" && len(c.Args) == 2 {
				if bl, ok := c.Args[0].(*ast.BasicLit); ok {
					key := strings.Trim(bl.Value, "\"")
					switch c.Args[1].(type) {
					case *ast.BasicLit, *ast.BinaryExpr, *ast.Ident:
						facts.Consts["viper."+key] = exprString(c.Args[1])
					}
				}
			}
			return true
		})
	}
	// exec timeouts: every `timeout := <expr>` in cmd fan / cmd sensor
	for _, fn := range []string{"internal/fans/cmd.go", "internal/sensors/cmd.go"} {
		f := files[fn]
		if f == nil {
			facts.Broken = append(facts.Broken, "missing "+fn)
			continue
		}
		k := 0
		ast.Inspect(f, func(n ast.Node) bool {
			as, ok := n.(*ast.AssignStmt)
			if ok && len(as.Lhs) == 1 && len(as.Rhs) == 1 {
				if id, ok := as.Lhs[0].(*ast.Ident); ok && id.Name == "timeout" {
					facts.Consts[fmt.Sprintf("timeout.%s.%d", strings.TrimPrefix(fn, "internal/"), k)] = exprString(as.Rhs[0])
					k++
				}
			}
			return true
		})
	}

	// ---- crash sites and exec sites
	for _, fn := range names {
		f := files[fn]
		for _, d := range f.Decls {
			fd, ok := d.(*ast.FuncDecl)
			if !ok || fd.Body == nil {
				continue
			}
			name := funcName(fd)
			ordC, ordE := 0, 0
			// type assertions with comma-ok are checked; collect those first
			checked := map[*ast.TypeAssertExpr]bool{}
			ast.Inspect(fd.Body, func(n ast.Node) bool {
				switch s := n.(type) {
				case *ast.AssignStmt:
					if len(s.Lhs) == 2 && len(s.Rhs) == 1 {
						if ta, ok := s.Rhs[0].(*ast.TypeAssertExpr); ok {
							checked[ta] = true
						}
					}
				case *ast.ValueSpec:
					if len(s.Names) == 2 && len(s.Values) == 1 {
						if ta, ok := s.Values[0].(*ast.TypeAssertExpr); ok {
							checked[ta] = true
						}
					}
				case *ast.TypeSwitchStmt:
					ast.Inspect(s.Assign, func(m ast.Node) bool {
						if ta, ok := m.(*ast.TypeAssertExpr); ok {
							checked[ta] = true
						}
						return true
					})
				}
				return true
			})
			ast.Inspect(fd.Body, func(n ast.Node) bool {
				switch c := n.(type) {
				case *ast.CallExpr:
					cn := callName(c)
					kind := ""
					switch {
					case cn == "panic":
						kind = "panic"
					case cn == "ui.Fatal":
						kind = "ui.Fatal"
					case cn == "ui.FatalWithoutStacktrace":
						kind = "ui.FatalWithoutStacktrace"
					case cn == "os.Exit":
						kind = "os.Exit"
					case strings.HasPrefix(cn, "log.Fatal"), strings.HasPrefix(cn, "log.Panic"):
						kind = cn
					case strings.HasSuffix(cn, ".MustCompile") || strings.HasPrefix(cn, "regexp.MustCompile"):
						kind = "MustCompile"
					}
					if kind != "" {
						facts.CrashSites = append(facts.CrashSites, Site{fn, name, kind, ordC, ""})
						ordC++
					}
					if cn == "exec.Command" || cn == "exec.CommandContext" {
						arg := ""
						idx := 0
						if cn == "exec.CommandContext" {
							idx = 1
						}
						if idx < len(c.Args) {
							arg = exprString(c.Args[idx])
						}
						facts.ExecSites = append(facts.ExecSites, Site{fn, name, cn, ordE, arg})
						ordE++
					}
					if cn == "util.SafeCmdExecution" || cn == "SafeCmdExecution" {
						facts.ExecSites = append(facts.ExecSites, Site{fn, name, "SafeCmdExecution", ordE, ""})
						ordE++
					}
				case *ast.TypeAssertExpr:
					if c.Type != nil && !checked[c] {
						facts.CrashSites = append(facts.CrashSites, Site{fn, name, "typeassert", ordC, exprString(c.Type)})
						ordC++
					}
				}
				return true
			})
		}
	}

	// ---- statement sequences of selected functions (calls of interest, in source order)
	seq := func(file, fname string, interesting func(string) string) {
		f := files[file]
		key := file + ":" + fname
		if f == nil {
			facts.Broken = append(facts.Broken, "missing "+file)
			return
		}
		found := false
		for _, d := range f.Decls {
			fd, ok := d.(*ast.FuncDecl)
			if !ok || fd.Body == nil || funcName(fd) != fname {
				continue
			}
			found = true
			var out []string
			ast.Inspect(fd.Body, func(n ast.Node) bool {
				switch s := n.(type) {
				case *ast.DeferStmt:
					if t := interesting(callName(s.Call)); t != "" {
						out = append(out, "defer:"+t)
					}
					return false
				case *ast.CallExpr:
					if t := interesting(callName(s)); t != "" {
						out = append(out, t)
					}
				case *ast.GoStmt:
					if wantGo[key] {
						out = append(out, "go{")
					}
				case *ast.ForStmt, *ast.RangeStmt:
					out = append(out, "loop{")
					// children are visited next; the closing marker is added by position below
				case *ast.FuncLit:
					if wantReturns[key] {
						out = append(out, "func{")
					}
				case *ast.ReturnStmt:
					if wantReturns[key] && inFuncLit(fd.Body, s) {
						out = append(out, "return")
					}
				}
				return true
			})
			facts.Sequences[key] = out
		}
		if !found {
			facts.Broken = append(facts.Broken, "function not found: "+key)
			facts.Sequences[key] = []string{}
		}
	}
	_ = wantReturns
	lockish := func(n string) string {
		switch {
		case n == "InitializationSequenceMutex.Lock":
			return "lock"
		case n == "InitializationSequenceMutex.Unlock":
			return "unlock"
		case n == "f.computePwmMap":
			return "computePwmMap"
		case n == "f.computePwmMapLocked":
			return "computePwmMapLocked"
		case n == "f.computePwmMapAutomatically":
			return "sweep"
		case n == "f.setPwm":
			return "setPwm"
		case n == "fan.SetPwm":
			return "fanSetPwm"
		case n == "fan.GetRpm":
			return "getRpm"
		case n == "f.waitForFanToSettle":
			return "settle"
		case n == "f.RunInitializationSequence":
			return "runInit"
		case n == "f.restorePwmEnabled":
			return "restore"
		case n == "f.UpdateFanSpeed":
			return "update"
		case n == "trySetManualPwm":
			return "manual"
		}
		return ""
	}
	ctl := "internal/controller/controller.go"
	seq(ctl, "DefaultFanController.RunInitializationSequence", lockish)
	seq(ctl, "DefaultFanController.computePwmMap", lockish)
	seq(ctl, "DefaultFanController.computePwmMapLocked", lockish)
	seq(ctl, "DefaultFanController.computePwmMapAutomatically", lockish)
	seq(ctl, "DefaultFanController.Run", lockish)
	seq(ctl, "DefaultFanController.UpdateFanSpeed", func(n string) string {
		switch n {
		case "f.calculateTargetPwm":
			return "calc"
		case "trySetManualPwm":
			return "manual"
		case "f.setPwm":
			return "setPwm"
		}
		return ""
	})
	seq(ctl, "DefaultFanController.restorePwmEnabled", func(n string) string {
		switch n {
		case "f.fan.SetPwm":
			return "fanSetPwm"
		case "f.fan.SetPwmEnabled":
			return "fanSetMode"
		}
		return ""
	})
	seq("internal/util/exec.go", "SafeCmdExecution", func(n string) string {
		switch n {
		case "CheckFilePermissionsForExecution":
			return "checkPerm"
		case "exec.CommandContext":
			return "exec"
		case "context.WithTimeout":
			return "withTimeout"
		case "cmd.Output":
			return "output"
		case "errors.As":
			return "errorsAs"
		}
		return ""
	})
	seq("internal/backend.go", "RunDaemon", func(n string) string {
		switch n {
		case "signal.Notify":
			return "signalNotify"
		case "signal.Stop":
			return "signalStop"
		case "close":
			return "close"
		case "cancel":
			return "cancel"
		case "panic":
			return "panic"
		case "g.Add":
			return "actor"
		case "g.Run":
			return "groupRun"
		case "os.Exit":
			return "exit"
		}
		return ""
	})
	// the sensor start-up: read once, seed the moving average, register - in this order, in the start-up's own goroutine
	seq("internal/backend.go", "initializeSensors", func(n string) string {
		switch n {
		case "sensors.NewSensor":
			return "newSensor"
		case "sensor.GetValue":
			return "getValue"
		case "sensor.SetMovingAvg":
			return "setAvg"
		case "sensors.RegisterSensor":
			return "register"
		case "time.After", "time.NewTimer", "time.AfterFunc", "time.Sleep":
			return "timer"
		}
		return ""
	})
	// the sensor monitor: one ticker at the configured rate, one updateSensor per tick, nothing else touches the ticker
	seq("internal/monitor.go", "sensorMonitor.Run", func(n string) string {
		switch {
		case n == "time.NewTicker":
			return "newTicker"
		case n == "updateSensor":
			return "updateSensor"
		case strings.HasPrefix(n, "tick."):
			return n
		case n == "time.After" || n == "time.NewTimer" || n == "time.AfterFunc" || n == "time.Sleep" || n == "panic":
			return "timer"
		}
		return ""
	})
	seq("internal/configuration/validation.go", "validateConfig", func(n string) string {
		switch n {
		case "validateSensors", "validateCurves", "validateFans", "containsCmdSensors", "containsCmdFan":
			return n
		case "util.CheckFilePermissionsForExecution":
			return "checkPerm"
		}
		return ""
	})
	// ---- validation.go: the error messages (format strings) of each validator function, in source order
	if vf := files["internal/configuration/validation.go"]; vf != nil {
		for _, d := range vf.Decls {
			fd, ok := d.(*ast.FuncDecl)
			if !ok || fd.Body == nil {
				continue
			}
			var msgs []string
			ast.Inspect(fd.Body, func(n ast.Node) bool {
				ce, ok := n.(*ast.CallExpr)
				if !ok {
					return true
				}
				if cn := callName(ce); (cn == "fmt.Errorf" || cn == "errors.New") && len(ce.Args) > 0 {
					if bl, ok := ce.Args[0].(*ast.BasicLit); ok {
						m := strings.Trim(bl.Value, "\"`")
						if len(m) > 60 {
							m = m[:60]
						}
						msgs = append(msgs, m)
					}
				}
				return true
			})
			if len(msgs) > 0 {
				facts.Sequences["validation:"+fd.Name.Name] = msgs
			}
		}
	} else {
		facts.Broken = append(facts.Broken, "missing internal/configuration/validation.go")
	}
	for _, c := range []struct{ file, fn string }{{"cmd/fan/reset.go", ""}, {"cmd/fan/init.go", ""}} {
		// CLI bodies re-stated in the harness: record their persistence / init calls
		fs := parseDir(root, filepath.Dir(c.file))
		f := fs[c.file]
		if f == nil {
			facts.Broken = append(facts.Broken, "missing "+c.file)
			continue
		}
		var out []string
		ast.Inspect(f, func(n ast.Node) bool {
			if ce, ok := n.(*ast.CallExpr); ok {
				switch cn := callName(ce); cn {
				case "p.DeleteFanPwmData", "p.DeleteFanPwmMap", "fanController.RunInitializationSequence", "controller.NewFanController":
					out = append(out, cn)
				}
			}
			return true
		})
		facts.Sequences[c.file] = out
	}

	sort.SliceStable(facts.CrashSites, func(i, j int) bool {
		a, b := facts.CrashSites[i], facts.CrashSites[j]
		if a.File != b.File {
			return a.File < b.File
		}
		if a.Func != b.Func {
			return a.Func < b.Func
		}
		return a.Ord < b.Ord
	})
	sort.SliceStable(facts.ExecSites, func(i, j int) bool {
		a, b := facts.ExecSites[i], facts.ExecSites[j]
		if a.File != b.File {
			return a.File < b.File
		}
		if a.Func != b.Func {
			return a.Func < b.Func
		}
		return a.Ord < b.Ord
	})
	enc := json.NewEncoder(os.Stdout)
	enc.SetIndent("", " ")
	_ = enc.Encode(facts)
}
