module verif/factgen

go 1.21
