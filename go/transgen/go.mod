module verif/transgen

go 1.21
