// transgen: a deliberately small and dumb Go -> Lean translator for the pure arithmetic / decision core
// of fan2go.  usage: transgen <repo-root>  ->  JSON on stdout ({"defs":[...]}); rendered into
// lean/Fan2go/Generated/Trans.lean by vlib/transgen.py on every check run.
//
// Untyped (go/ast only): the few types needed are resolved syntactically (function signatures, struct
// declarations followed across packages of the module, untyped integer constants).  Whatever is outside
// the supported subset makes the target `unsupported: <reason>` -- never a guess.
//
// Supported subset
//
//	types       int -> Int, float64 -> F64, bool -> Bool, *int -> Option Int   (parameters, receiver fields)
//	expressions identifiers, integer literals, untyped integer constants of the module, ( ), unary - + !,
//	            + - * on int, + - * / on float64, == != < <= > >= on int and float64, && ||,
//	            float64(int), float64(float32(f)), int(f) (-> F64.toInt indef), math.Round/Ceil/Min/Max/Abs,
//	            p == nil / p != nil, *p inside the non-nil side of a nil test on the same p, &x (int x),
//	            calls of other fully translated functions, same-receiver zero-argument single-`return` methods
//	            (inlined), calls declared opaque by the target (become function parameters)
//	statements  x := e, var x = e, x = e, x op= e, x++ / x--, return e, if / else if / else (no init clause)
//	skipped     (listed in the output) x := time.Now(); recv.field = x for such an x; ui.<Log>(...) statements
package main

import (
	"bytes"
	"encoding/json"
	"fmt"
	"go/ast"
	"go/parser"
	"go/printer"
	"go/token"
	"os"
	"path/filepath"
	"strconv"
	"strings"
)

const modPath = "github.com/markusressel/fan2go/"

type typ int

const (
	tInt typ = iota
	tFloat
	tBool
	tProp
	tPtr   // *int  -> Option Int
	tConst // untyped integer constant
)

var leanTy = map[typ]string{tInt: "Int", tFloat: "F64", tBool: "Bool", tProp: "Prop", tPtr: "Option Int"}

type unsupported string

func fail(f string, a ...any) { panic(unsupported(fmt.Sprintf(f, a...))) }

// ---------------------------------------------------------------- source access
type pkg struct {
	dir   string
	files []*ast.File
}

var (
	fset = token.NewFileSet()
	repo string
	pkgs = map[string]*pkg{}
)

func load(dir string) *pkg {
	if p, ok := pkgs[dir]; ok {
		return p
	}
	p := &pkg{dir: dir}
	ents, err := os.ReadDir(filepath.Join(repo, dir))
	if err != nil {
		fail("package directory %s not readable", dir)
	}
	for _, e := range ents {
		if n := e.Name(); strings.HasSuffix(n, ".go") && !strings.HasSuffix(n, "_test.go") {
			f, err := parser.ParseFile(fset, filepath.Join(repo, dir, n), nil, 0)
			if err != nil {
				fail("%s/%s does not parse", dir, n)
			}
			p.files = append(p.files, f)
		}
	}
	pkgs[dir] = p
	return p
}

func str(n ast.Node) string {
	var b bytes.Buffer
	printer.Fprint(&b, fset, n)
	return strings.Join(strings.Fields(b.String()), " ")
}

func recvOf(d *ast.FuncDecl) (name, ty string) {
	if d.Recv == nil || len(d.Recv.List) != 1 {
		return "", ""
	}
	r := d.Recv.List[0]
	if len(r.Names) == 1 {
		name = r.Names[0].Name
	}
	e := r.Type
	if s, ok := e.(*ast.StarExpr); ok {
		e = s.X
	}
	if id, ok := e.(*ast.Ident); ok {
		ty = id.Name
	}
	return
}

func (p *pkg) fn(recv, name string) (*ast.FuncDecl, *ast.File) {
	for _, f := range p.files {
		for _, d := range f.Decls {
			if fd, ok := d.(*ast.FuncDecl); ok && fd.Name.Name == name && fd.Body != nil {
				if _, ty := recvOf(fd); ty == recv {
					return fd, f
				}
			}
		}
	}
	return nil, nil
}

func (p *pkg) structOf(name string) (*ast.StructType, *ast.File) {
	for _, f := range p.files {
		for _, d := range f.Decls {
			if gd, ok := d.(*ast.GenDecl); ok && gd.Tok == token.TYPE {
				for _, s := range gd.Specs {
					ts := s.(*ast.TypeSpec)
					if st, ok := ts.Type.(*ast.StructType); ok && ts.Name.Name == name {
						return st, f
					}
				}
			}
		}
	}
	return nil, nil
}

// untyped integer constant `name = <int literal>` of the package
func (p *pkg) constOf(name string) (string, bool) {
	for _, f := range p.files {
		for _, d := range f.Decls {
			if gd, ok := d.(*ast.GenDecl); ok && gd.Tok == token.CONST {
				for _, s := range gd.Specs {
					vs := s.(*ast.ValueSpec)
					for i, n := range vs.Names {
						if n.Name == name && vs.Type == nil && i < len(vs.Values) {
							if bl, ok := vs.Values[i].(*ast.BasicLit); ok && bl.Kind == token.INT {
								return bl.Value, true
							}
						}
					}
				}
			}
		}
	}
	return "", false
}

// directory (relative to the module root) imported under `alias` in file f; "" if not a module package
func importDir(f *ast.File, alias string) string {
	for _, im := range f.Imports {
		path, _ := strconv.Unquote(im.Path.Value)
		name := path[strings.LastIndex(path, "/")+1:]
		if im.Name != nil {
			name = im.Name.Name
		}
		if name == alias {
			if strings.HasPrefix(path, modPath) {
				return strings.TrimPrefix(path, modPath)
			}
			return "<ext>" + path
		}
	}
	return ""
}

func goTyp(e ast.Expr) (typ, bool) {
	switch str(e) {
	case "int":
		return tInt, true
	case "float64":
		return tFloat, true
	case "bool":
		return tBool, true
	case "*int":
		return tPtr, true
	}
	return 0, false
}

// ---------------------------------------------------------------- targets
type param struct {
	name string
	ty   string
}
type opq struct { // call treated as an uninterpreted function parameter
	lean string
	args []typ
	ret  typ
}
type target struct {
	name, dir, recv, fn string
	mode                string // func | stmts | cond | mutate
	pick                func(t *tr, body *ast.BlockStmt) (stmts []ast.Stmt, cond ast.Expr)
	free                []string // fragments: "name type" of the free variables (declared, not inferred)
	result              string   // stmts: result variable; mutate: receiver field
	opaque              map[string]opq
}

func uniq(what string, body ast.Node, pred func(n ast.Node) bool) ast.Node {
	var hits []ast.Node
	ast.Inspect(body, func(n ast.Node) bool {
		if n != nil && pred(n) {
			hits = append(hits, n)
		}
		return true
	})
	if len(hits) != 1 {
		fail("%s: expected exactly one such statement, found %d", what, len(hits))
	}
	return hits[0]
}
func has(n ast.Node, sub string) bool { return n != nil && strings.Contains(str(n), sub) }
func ifWith(what string, body ast.Node, pred func(s *ast.IfStmt) bool) *ast.IfStmt {
	return uniq(what, body, func(n ast.Node) bool { s, ok := n.(*ast.IfStmt); return ok && pred(s) }).(*ast.IfStmt)
}
func stallIf(b *ast.BlockStmt) *ast.IfStmt {
	return ifWith("the `if int(avgRpm) ...` stall test", b, func(s *ast.IfStmt) bool { return has(s.Cond, "int(avgRpm)") })
}

const ctl = "internal/controller"

var targets = []target{
	{name: "util_Coerce", dir: "internal/util", fn: "Coerce", mode: "func"},
	{name: "util_Ratio", dir: "internal/util", fn: "Ratio", mode: "func"},
	{name: "util_UpdateSimpleMovingAvg", dir: "internal/util", fn: "UpdateSimpleMovingAvg", mode: "func"},
	{name: "util_getClosest", dir: "internal/util", fn: "getClosest", mode: "func"},
	{name: "ctl_clamp", dir: ctl, recv: "DefaultFanController", fn: "calculateTargetPwm", mode: "stmts",
		free: []string{"target int"}, result: "target",
		pick: func(t *tr, b *ast.BlockStmt) ([]ast.Stmt, ast.Expr) {
			return []ast.Stmt{ifWith("the `if target > fans.MaxPwmValue` clamp", b, func(s *ast.IfStmt) bool { return has(s.Cond, "fans.MaxPwmValue") })}, nil
		}},
	{name: "ctl_rescale", dir: ctl, recv: "DefaultFanController", fn: "calculateTargetPwm", mode: "stmts",
		free: []string{"target int", "minPwm int", "maxPwm int"}, result: "target",
		pick: func(t *tr, b *ast.BlockStmt) ([]ast.Stmt, ast.Expr) {
			return []ast.Stmt{uniq("the range mapping `target = minPwm + int(...)`", b, func(n ast.Node) bool {
				a, ok := n.(*ast.AssignStmt)
				return ok && len(a.Lhs) == 1 && a.Tok == token.ASSIGN && str(a.Lhs[0]) == "target" && has(a.Rhs[0], "maxPwm") && has(a.Rhs[0], "minPwm")
			}).(ast.Stmt)}, nil
		}},
	{name: "DirectControlLoop_Cycle", dir: "internal/control_loop", recv: "DirectControlLoop", fn: "Cycle", mode: "func"},
	{name: "LinearSpeedCurve_minMax", dir: "internal/curves", recv: "LinearSpeedCurve", fn: "Evaluate", mode: "stmts",
		free: []string{"avgTemp float64"}, result: "value",
		pick: func(t *tr, b *ast.BlockStmt) ([]ast.Stmt, ast.Expr) {
			s := ifWith("`if steps != nil`", b, func(s *ast.IfStmt) bool { return str(s.Cond) == "steps != nil" })
			eb, ok := s.Else.(*ast.BlockStmt)
			if !ok {
				fail("`if steps != nil` has no else block")
			}
			return eb.List, nil
		}},
	{name: "PidControlLoop_Cycle", dir: "internal/control_loop", recv: "PidControlLoop", fn: "Cycle", mode: "func",
		opaque: map[string]opq{"l.pidLoop.Loop": {"pidLoop_Loop", []typ{tFloat, tFloat}, tFloat}}},
	{name: "ctl_stallCond", dir: ctl, recv: "DefaultFanController", fn: "calculateTargetPwm", mode: "cond",
		free: []string{"avgRpm float64"},
		pick: func(t *tr, b *ast.BlockStmt) ([]ast.Stmt, ast.Expr) { return nil, stallIf(b).Cond }},
	{name: "ctl_stallAtMax", dir: ctl, recv: "DefaultFanController", fn: "calculateTargetPwm", mode: "cond",
		free: []string{"target int", "maxPwm int"},
		pick: func(t *tr, b *ast.BlockStmt) ([]ast.Stmt, ast.Expr) {
			return nil, ifWith("the `if` returning ErrFanStalledAtMaxPwm inside the stall test", stallIf(b).Body, func(s *ast.IfStmt) bool {
				return has(s.Body, "ErrFanStalledAtMaxPwm") && has(s.Body, "return")
			}).Cond
		}},
	{name: "ctl_lastSetEqualsTarget", dir: ctl, recv: "DefaultFanController", fn: "calculateTargetPwm", mode: "cond",
		free: []string{"target int"},
		pick: func(t *tr, b *ast.BlockStmt) ([]ast.Stmt, ast.Expr) {
			return nil, uniq("`lastSetTargetEqualsNewTarget := ...`", b, func(n ast.Node) bool {
				a, ok := n.(*ast.AssignStmt)
				return ok && a.Tok == token.DEFINE && len(a.Lhs) == 1 && str(a.Lhs[0]) == "lastSetTargetEqualsNewTarget"
			}).(*ast.AssignStmt).Rhs[0]
		}},
	{name: "HwMonFan_GetMinPwm", dir: "internal/fans", recv: "HwMonFan", fn: "GetMinPwm", mode: "func"},
	{name: "HwMonFan_GetStartPwm", dir: "internal/fans", recv: "HwMonFan", fn: "GetStartPwm", mode: "func"},
	{name: "HwMonFan_GetMaxPwm", dir: "internal/fans", recv: "HwMonFan", fn: "GetMaxPwm", mode: "func"},
	{name: "HwMonFan_SetMinPwm", dir: "internal/fans", recv: "HwMonFan", fn: "SetMinPwm", mode: "mutate", result: "fan.MinPwm"},
	{name: "HwMonFan_SetStartPwm", dir: "internal/fans", recv: "HwMonFan", fn: "SetStartPwm", mode: "mutate", result: "fan.StartPwm"},
	{name: "HwMonFan_SetMaxPwm", dir: "internal/fans", recv: "HwMonFan", fn: "SetMaxPwm", mode: "mutate", result: "fan.MaxPwm"},
}

var done = map[string]bool{} // target name -> translated

// ---------------------------------------------------------------- translator
type tr struct {
	tg       *target
	p        *pkg
	file     *ast.File
	recv     string
	recvType string
	vars     map[string]typ    // Go local / parameter name -> type
	fields   []param           // receiver fields used, in order of first use
	ftyp     map[string]typ    // lean name of receiver field -> type
	opqUsed  []string          // opaque calls used
	ptr      map[string]string // lean name of a pointer -> name bound on the non-nil side
	clock    map[string]bool
	unset    map[string]bool // declared (named result) but not yet assigned in the translated fragment
	comments []string
	ret      typ
}

func (t *tr) isVar(n string) bool { _, ok := t.vars[n]; return ok }

func (t *tr) note(n ast.Node, f string, a ...any) {
	c := fmt.Sprintf("line %d: ", fset.Position(n.Pos()).Line) + fmt.Sprintf(f, a...)
	for _, x := range t.comments {
		if x == c {
			return
		}
	}
	t.comments = append(t.comments, c)
}

var leanKw = map[string]bool{"at": true, "from": true, "fun": true, "end": true, "open": true, "in": true, "then": true, "else": true,
	"if": true, "let": true, "have": true, "show": true, "do": true, "match": true, "with": true, "by": true, "def": true, "theorem": true,
	"instance": true, "structure": true, "where": true, "namespace": true, "section": true, "variable": true, "indef": true, "some": true, "none": true}

func mangle(s string) string {
	if leanKw[s] {
		return s + "_"
	}
	return s
}

// receiver field chain `recv.A.B` -> (lean parameter name, type); types are followed through the struct declarations
func (t *tr) field(e *ast.SelectorExpr) (string, typ, bool) {
	var names []string
	var x ast.Expr = e
	for {
		s, ok := x.(*ast.SelectorExpr)
		if !ok {
			break
		}
		names = append([]string{s.Sel.Name}, names...)
		x = s.X
	}
	id, ok := x.(*ast.Ident)
	if !ok || t.recv == "" || id.Name != t.recv {
		return "", 0, false
	}
	lean := strings.Join(names, "_")
	if ty, ok := t.ftyp[lean]; ok {
		return lean, ty, true
	}
	p, sname := t.p, t.recvType
	for i, n := range names {
		st, f := p.structOf(sname)
		if st == nil {
			fail("struct %s not found in %s (resolving %s)", sname, p.dir, str(e))
		}
		var fty ast.Expr
		for _, fl := range st.Fields.List {
			for _, fn := range fl.Names {
				if fn.Name == n {
					fty = fl.Type
				}
			}
		}
		if fty == nil {
			fail("field %s not found in struct %s (resolving %s)", n, sname, str(e))
		}
		if i == len(names)-1 {
			ty, ok := goTyp(fty)
			if !ok {
				fail("receiver field %s has unsupported type %s", str(e), str(fty))
			}
			t.fields = append(t.fields, param{lean, leanTy[ty]})
			t.ftyp[lean] = ty
			t.comments = append(t.comments, fmt.Sprintf("receiver field %s : %s is the parameter `%s : %s`", str(e), str(fty), lean, leanTy[ty]))
			return lean, ty, true
		}
		if s, ok := fty.(*ast.StarExpr); ok {
			t.note(e, "%s goes through the pointer field %s (implicit dereference, nil not considered)", str(e), n)
			fty = s.X
		}
		switch ft := fty.(type) {
		case *ast.Ident:
			sname = ft.Name
		case *ast.SelectorExpr:
			d := importDir(f, str(ft.X))
			if d == "" || strings.HasPrefix(d, "<ext>") {
				fail("type %s of field %s is outside the module", str(fty), n)
			}
			p, sname = load(d), ft.Sel.Name
		default:
			fail("field %s has unsupported type %s", n, str(fty))
		}
	}
	return "", 0, false
}

func (t *tr) conv(s string, from, to typ, ctx ast.Node) string {
	switch {
	case from == to:
		return s
	case from == tConst && to == tFloat:
		return "(F64.ofInt " + s + ")"
	case from == tConst && to == tInt:
		return s
	case from == tBool && to == tProp:
		return "(" + s + " = true)"
	case from == tProp && to == tBool:
		return "(decide " + s + ")"
	}
	fail("type mismatch in `%s`: have %v, want %v", str(ctx), leanTy[from], leanTy[to])
	return ""
}

func nilTest(e ast.Expr) (ptr ast.Expr, isNil bool, ok bool) {
	b, o := e.(*ast.BinaryExpr)
	if !o || (b.Op != token.EQL && b.Op != token.NEQ) {
		return nil, false, false
	}
	if id, o := b.Y.(*ast.Ident); o && id.Name == "nil" {
		return b.X, b.Op == token.EQL, true
	}
	return nil, false, false
}

// pointer-typed expression -> lean name
func (t *tr) pointer(e ast.Expr) string {
	for {
		p, ok := e.(*ast.ParenExpr)
		if !ok {
			break
		}
		e = p.X
	}
	s, ty := t.expr(e)
	if ty != tPtr {
		fail("`%s` is not a *int variable / field (nil tests and dereferences are supported on those only)", str(e))
	}
	return s
}

// with `p` known non-nil and bound to `v` while f runs
func (t *tr) bound(p string, f func() string) (v, body string) {
	v = p + "_v"
	old, had := t.ptr[p]
	t.ptr[p] = v
	body = f()
	if had {
		t.ptr[p] = old
	} else {
		delete(t.ptr, p)
	}
	return
}

func (t *tr) expr(e ast.Expr) (string, typ) {
	switch e := e.(type) {
	case *ast.ParenExpr:
		return t.expr(e.X)
	case *ast.BasicLit:
		if e.Kind == token.INT {
			if _, err := strconv.ParseInt(e.Value, 10, 64); err != nil || (len(e.Value) > 1 && e.Value[0] == '0') {
				fail("integer literal %s (only decimal literals)", e.Value)
			}
			return e.Value, tConst
		}
		fail("literal %s (only integer literals are supported)", e.Value)
	case *ast.Ident:
		if e.Name == "true" || e.Name == "false" {
			return e.Name, tBool
		}
		if t.clock[e.Name] {
			fail("clock value %s is used in a computation", e.Name)
		}
		if ty, ok := t.vars[e.Name]; ok {
			if t.unset[e.Name] {
				fail("variable %s may be read before the translated statements assign it", e.Name)
			}
			return mangle(e.Name), ty
		}
		if v, ok := t.p.constOf(e.Name); ok {
			t.note(e, "constant %s = %s (from %s)", e.Name, v, t.p.dir)
			return v, tConst
		}
		fail("identifier %s is not a parameter, local, or untyped integer constant", e.Name)
	case *ast.SelectorExpr:
		if lean, ty, ok := t.field(e); ok {
			return lean, ty
		}
		if id, ok := e.X.(*ast.Ident); ok {
			if d := importDir(t.file, id.Name); d != "" && !strings.HasPrefix(d, "<ext>") && !t.isVar(id.Name) {
				if v, ok := load(d).constOf(e.Sel.Name); ok {
					t.note(e, "constant %s = %s (from %s)", str(e), v, d)
					return v, tConst
				}
			}
		}
		fail("selector %s is neither a receiver field nor an untyped integer constant of the module", str(e))
	case *ast.StarExpr:
		p := t.pointer(e.X)
		if v, ok := t.ptr[p]; ok {
			return v, tInt
		}
		fail("dereference %s outside the non-nil side of a nil test on it (may panic)", str(e))
	case *ast.UnaryExpr:
		switch e.Op {
		case token.AND:
			if id, ok := e.X.(*ast.Ident); ok && t.vars[id.Name] == tInt {
				if _, ok := t.vars[id.Name]; ok {
					t.note(e, "%s: pointer to an int variable becomes `some %s` (value semantics)", str(e), id.Name)
					return "(some " + mangle(id.Name) + ")", tPtr
				}
			}
			fail("address-of %s (only &<int variable>)", str(e))
		case token.ADD:
			s, ty := t.expr(e.X)
			if ty == tInt || ty == tFloat || ty == tConst {
				return s, ty
			}
		case token.SUB:
			s, ty := t.expr(e.X)
			switch ty {
			case tFloat:
				return "(F64.neg " + s + ")", tFloat
			case tInt, tConst:
				return "(-" + s + ")", ty
			}
		case token.NOT:
			s, ty := t.expr(e.X)
			if ty == tBool || ty == tProp {
				return "(¬ " + t.conv(s, ty, tProp, e) + ")", tProp
			}
		}
		fail("unary operator in `%s`", str(e))
	case *ast.BinaryExpr:
		return t.binary(e)
	case *ast.CallExpr:
		return t.call(e)
	}
	fail("expression `%s` (%T)", str(e), e)
	return "", 0
}

func derefs(n ast.Node) (r bool) {
	ast.Inspect(n, func(x ast.Node) bool { _, ok := x.(*ast.StarExpr); r = r || ok; return true })
	return
}

func (t *tr) binary(e *ast.BinaryExpr) (string, typ) {
	if p, isNil, ok := nilTest(e); ok {
		if isNil {
			return "(" + t.pointer(p) + " = none)", tProp
		}
		return "(" + t.pointer(p) + " ≠ none)", tProp
	}
	if e.Op == token.LAND || e.Op == token.LOR {
		// `p != nil && c` / `p == nil || c` with c dereferencing something: c is evaluated with p non-nil only
		if p, isNil, ok := nilTest(e.X); ok && isNil == (e.Op == token.LOR) && derefs(e.Y) {
			pn := t.pointer(p)
			v, c := t.bound(pn, func() string { s, ty := t.expr(e.Y); return t.conv(s, ty, tBool, e.Y) })
			short := map[bool]string{true: "true", false: "false"}[isNil]
			return fmt.Sprintf("(match %s with | none => %s | some %s => %s)", pn, short, v, c), tBool
		}
		l, lt := t.expr(e.X)
		r, rt := t.expr(e.Y)
		op := map[token.Token]string{token.LAND: "∧", token.LOR: "∨"}[e.Op]
		return "(" + t.conv(l, lt, tProp, e.X) + " " + op + " " + t.conv(r, rt, tProp, e.Y) + ")", tProp
	}
	l, lt := t.expr(e.X)
	r, rt := t.expr(e.Y)
	ty := lt
	if lt == tConst {
		ty = rt
	}
	if ty != tInt && ty != tFloat && ty != tConst {
		fail("operands of `%s`", str(e))
	}
	l, r = t.conv(l, lt, ty, e.X), t.conv(r, rt, ty, e.Y)
	switch e.Op {
	case token.ADD, token.SUB, token.MUL:
		return "(" + l + " " + e.Op.String() + " " + r + ")", ty
	case token.QUO:
		if ty != tFloat {
			fail("integer division `%s` (truncation / division by zero are not translated)", str(e))
		}
		return "(" + l + " / " + r + ")", ty
	case token.EQL, token.NEQ, token.LSS, token.LEQ, token.GTR, token.GEQ:
		if ty == tFloat {
			f := map[token.Token]string{token.EQL: "feq", token.NEQ: "feq", token.LSS: "lt", token.LEQ: "le", token.GTR: "gt", token.GEQ: "ge"}[e.Op]
			s := "(F64." + f + " " + l + " " + r + " = true)"
			if e.Op == token.NEQ {
				s = "(¬ " + s + ")"
			}
			return s, tProp
		}
		op := map[token.Token]string{token.EQL: "=", token.NEQ: "≠", token.LSS: "<", token.LEQ: "≤", token.GTR: ">", token.GEQ: "≥"}[e.Op]
		if ty == tConst { // comparison of two constants: as Int
			l, r = "("+l+" : Int)", "("+r+" : Int)"
		}
		return "(" + l + " " + op + " " + r + ")", tProp
	}
	fail("operator %s in `%s`", e.Op, str(e))
	return "", 0
}

func (t *tr) args(e *ast.CallExpr, want []typ) string {
	if len(e.Args) != len(want) || e.Ellipsis.IsValid() {
		fail("call `%s`: %d arguments expected", str(e), len(want))
	}
	var out []string
	for i, a := range e.Args {
		s, ty := t.expr(a)
		out = append(out, t.conv(s, ty, want[i], a))
	}
	return strings.Join(out, " ")
}

func (t *tr) call(e *ast.CallExpr) (string, typ) {
	fun := str(e.Fun)
	if o, ok := t.tg.opaque[fun]; ok {
		seen := false
		for _, u := range t.opqUsed {
			seen = seen || u == fun
		}
		if !seen {
			t.opqUsed = append(t.opqUsed, fun)
			t.note(e, "opaque call %s(...) is the function parameter `%s` (its effect on other state is not translated)", fun, o.lean)
		}
		return "(" + o.lean + " " + t.args(e, o.args) + ")", o.ret
	}
	one := func() (string, typ) {
		if len(e.Args) != 1 {
			fail("conversion `%s`", str(e))
		}
		return t.expr(e.Args[0])
	}
	mathImported := importDir(t.file, "math") == "<ext>math"
	switch {
	case fun == "float64":
		if c, ok := e.Args[0].(*ast.CallExpr); ok && str(c.Fun) == "float32" && len(c.Args) == 1 {
			s, ty := t.expr(c.Args[0])
			return "(F64.toF32 " + t.conv(s, ty, tFloat, c) + ")", tFloat
		}
		s, ty := one()
		switch ty {
		case tInt, tConst:
			return "(F64.ofInt " + s + ")", tFloat
		case tFloat:
			return s, tFloat
		}
		fail("conversion `%s`", str(e))
	case fun == "int":
		s, ty := one()
		switch ty {
		case tFloat:
			return "(F64.toInt indef " + s + ")", tInt
		case tInt, tConst:
			return s, tInt
		}
		fail("conversion `%s`", str(e))
	case mathImported && (fun == "math.Round" || fun == "math.Ceil" || fun == "math.Abs"):
		s, ty := one()
		return "(F64." + strings.ToLower(fun[5:]) + " " + t.conv(s, ty, tFloat, e) + ")", tFloat
	case mathImported && (fun == "math.Min" || fun == "math.Max"):
		return "(F64.f" + strings.ToLower(fun[5:]) + " " + t.args(e, []typ{tFloat, tFloat}) + ")", tFloat
	}
	// another translated function (same package, or pkg.F of the module)
	dir, name := t.p.dir, fun
	if s, ok := e.Fun.(*ast.SelectorExpr); ok {
		if id, ok := s.X.(*ast.Ident); ok {
			if _, local := t.vars[id.Name]; !local && id.Name != t.recv {
				dir, name = importDir(t.file, id.Name), s.Sel.Name
			} else if id.Name == t.recv && len(e.Args) == 0 {
				return t.inline(e, s.Sel.Name)
			}
		}
	}
	for i := range targets {
		g := &targets[i]
		if g.mode == "func" && g.recv == "" && g.dir == dir && g.fn == name {
			if !done[g.name] {
				fail("call of %s, whose own translation is unsupported", fun)
			}
			fd, _ := load(dir).fn("", name)
			ps, ret := signature(fd)
			var want []typ
			for _, p := range ps {
				want = append(want, p.ty)
			}
			return "(" + g.name + " indef " + t.args(e, want) + ")", ret
		}
	}
	fail("call of %s (not a conversion, math.Round/Ceil/Abs/Min/Max, a translated function, or a declared opaque call)", fun)
	return "", 0
}

// recv.M() with M a method of the same receiver type whose body is a single `return <expr>`
func (t *tr) inline(e *ast.CallExpr, m string) (string, typ) {
	fd, f := t.p.fn(t.recvType, m)
	if fd == nil {
		fail("method %s.%s not found", t.recvType, m)
	}
	r, ok := fd.Body.List[0].(*ast.ReturnStmt)
	if len(fd.Body.List) != 1 || !ok || len(r.Results) != 1 || fd.Type.Params.NumFields() != 0 {
		fail("method %s.%s is not a single `return <expr>` (cannot be inlined)", t.recvType, m)
	}
	rn, _ := recvOf(fd)
	t.note(e, "inlined %s() = `%s`  (%s.%s, line %d)", str(e.Fun), str(r.Results[0]), t.recvType, m, fset.Position(fd.Pos()).Line)
	sub := &tr{tg: t.tg, p: t.p, file: f, recv: rn, recvType: t.recvType, vars: map[string]typ{}, fields: t.fields, ftyp: t.ftyp,
		ptr: map[string]string{}, clock: map[string]bool{}, unset: map[string]bool{}, comments: t.comments}
	s, ty := sub.expr(r.Results[0])
	t.fields, t.comments = sub.fields, sub.comments
	return s, ty
}

type sigParam struct {
	name string
	ty   typ
}

func signature(fd *ast.FuncDecl) (ps []sigParam, ret typ) {
	for _, fl := range fd.Type.Params.List {
		ty, ok := goTyp(fl.Type)
		if !ok {
			fail("parameter type %s of %s", str(fl.Type), fd.Name.Name)
		}
		for _, n := range fl.Names {
			ps = append(ps, sigParam{n.Name, ty})
		}
	}
	ret = -1
	if fd.Type.Results != nil {
		if fd.Type.Results.NumFields() != 1 {
			fail("%s has several results", fd.Name.Name)
		}
		ty, ok := goTyp(fd.Type.Results.List[0].Type)
		if !ok {
			fail("result type %s of %s", str(fd.Type.Results.List[0].Type), fd.Name.Name)
		}
		ret = ty
	}
	return
}

// ---------------------------------------------------------------- statements
func ind(s string) string { return "  " + strings.ReplaceAll(s, "\n", "\n  ") }

func hasReturn(n ast.Node) (r bool) {
	ast.Inspect(n, func(x ast.Node) bool { _, ok := x.(*ast.ReturnStmt); r = r || ok; return true })
	return
}

// lean names of outer variables / receiver fields assigned somewhere inside n
func (t *tr) assigned(n ast.Node) (out []string) {
	add := func(e ast.Expr) {
		s, _, _ := t.lvalue(e)
		for _, o := range out {
			if o == s {
				return
			}
		}
		out = append(out, s)
	}
	ast.Inspect(n, func(x ast.Node) bool {
		switch x := x.(type) {
		case *ast.AssignStmt:
			if x.Tok != token.DEFINE {
				for _, l := range x.Lhs {
					add(l)
				}
			}
		case *ast.IncDecStmt:
			add(x.X)
		}
		return true
	})
	return
}

func (t *tr) lvalue(e ast.Expr) (lean string, ty typ, isField bool) {
	switch e := e.(type) {
	case *ast.Ident:
		if ty, ok := t.vars[e.Name]; ok {
			return mangle(e.Name), ty, false
		}
		fail("assignment to %s, which is not a known variable", e.Name)
	case *ast.SelectorExpr:
		if lean, ty, ok := t.field(e); ok {
			return lean, ty, true
		}
	}
	fail("assignment to `%s`", str(e))
	return
}

func (t *tr) let(name string, ty typ, val string, rest func() string) string {
	if strings.Contains(val, "\n") {
		return "let " + name + " : " + leanTy[ty] + " :=\n" + ind(val) + "\n" + rest()
	}
	return "let " + name + " : " + leanTy[ty] + " := " + val + "\n" + rest()
}

func (t *tr) scoped(f func() string) string {
	saved := map[string]typ{}
	for k, v := range t.vars {
		saved[k] = v
	}
	un := map[string]bool{}
	for k, v := range t.unset {
		un[k] = v
	}
	s := f()
	t.vars, t.unset = saved, un
	return s
}

func (t *tr) ifExpr(s *ast.IfStmt, k func() string) string {
	if s.Init != nil {
		fail("`if` with an init clause (line %d)", fset.Position(s.Pos()).Line)
	}
	then := func() string { return t.scoped(func() string { return t.stmts(s.Body.List, k) }) }
	els := func() string {
		switch e := s.Else.(type) {
		case nil:
			return k()
		case *ast.BlockStmt:
			return t.scoped(func() string { return t.stmts(e.List, k) })
		default:
			return t.scoped(func() string { return t.stmts([]ast.Stmt{e}, k) })
		}
	}
	if p, isNil, ok := nilTest(s.Cond); ok {
		pn := t.pointer(p)
		var some, none, v string
		if isNil {
			none = then()
			v, some = t.bound(pn, els)
		} else {
			v, some = t.bound(pn, then)
			none = els()
		}
		return "(match " + pn + " with\n  | none =>\n" + ind(ind(none)) + "\n  | some " + v + " =>\n" + ind(ind(some)) + ")"
	}
	c, cty := t.expr(s.Cond)
	return "(if " + t.conv(c, cty, tProp, s.Cond) + " then\n" + ind(then()) + "\nelse\n" + ind(els()) + ")"
}

func (t *tr) stmts(list []ast.Stmt, k func() string) string {
	if len(list) == 0 {
		if k == nil {
			fail("control reaches the end of the function body without a `return`")
		}
		return k()
	}
	st := list[0]
	rest := func() string { return t.stmts(list[1:], k) }
	line := fset.Position(st.Pos()).Line
	define := func(name string, rhs ast.Expr) string {
		if c, ok := rhs.(*ast.CallExpr); ok && str(c) == "time.Now()" && importDir(t.file, "time") == "<ext>time" {
			t.clock[name] = true
			t.note(st, "SKIPPED (clock bookkeeping): `%s`", str(st))
			return rest()
		}
		if _, ok := t.vars[name]; ok {
			fail("line %d: `%s` re-declares (shadows) %s", line, str(st), name)
		}
		v, ty := t.expr(rhs)
		if ty == tConst {
			ty = tInt
		}
		if ty == tProp {
			v, ty = t.conv(v, tProp, tBool, rhs), tBool
		}
		t.vars[name] = ty
		return t.let(mangle(name), ty, v, rest)
	}
	switch s := st.(type) {
	case *ast.EmptyStmt:
		return rest()
	case *ast.ExprStmt:
		if c, ok := s.X.(*ast.CallExpr); ok {
			if sel, ok := c.Fun.(*ast.SelectorExpr); ok && str(sel.X) == "ui" && importDir(t.file, "ui") == "internal/ui" && sel.Sel.Name != "Fatal" {
				t.note(st, "SKIPPED (logging): `%s`", str(st))
				return rest()
			}
		}
		fail("line %d: statement `%s`", line, str(st))
	case *ast.DeclStmt:
		gd := s.Decl.(*ast.GenDecl)
		if gd.Tok == token.VAR && len(gd.Specs) == 1 {
			if vs := gd.Specs[0].(*ast.ValueSpec); len(vs.Names) == 1 && len(vs.Values) == 1 && vs.Type == nil {
				return define(vs.Names[0].Name, vs.Values[0])
			}
		}
		fail("line %d: declaration `%s`", line, str(st))
	case *ast.AssignStmt:
		if len(s.Lhs) != 1 || len(s.Rhs) != 1 {
			fail("line %d: multi-assignment `%s`", line, str(st))
		}
		if s.Tok == token.DEFINE {
			id, ok := s.Lhs[0].(*ast.Ident)
			if !ok {
				fail("line %d: `%s`", line, str(st))
			}
			return define(id.Name, s.Rhs[0])
		}
		if sel, ok := s.Lhs[0].(*ast.SelectorExpr); ok && str(sel.X) == t.recv {
			if id, ok := s.Rhs[0].(*ast.Ident); ok && t.clock[id.Name] {
				t.note(st, "SKIPPED (clock bookkeeping): `%s`", str(st))
				return rest()
			}
		}
		name, ty, _ := t.lvalue(s.Lhs[0])
		rhs := s.Rhs[0]
		if s.Tok != token.ASSIGN {
			op, ok := map[token.Token]token.Token{token.ADD_ASSIGN: token.ADD, token.SUB_ASSIGN: token.SUB, token.MUL_ASSIGN: token.MUL, token.QUO_ASSIGN: token.QUO}[s.Tok]
			if !ok {
				fail("line %d: `%s`", line, str(st))
			}
			rhs = &ast.BinaryExpr{X: s.Lhs[0], Op: op, Y: &ast.ParenExpr{X: rhs}}
		}
		v, vty := t.expr(rhs)
		if id, ok := s.Lhs[0].(*ast.Ident); ok {
			delete(t.unset, id.Name)
		}
		return t.let(name, ty, t.conv(v, vty, ty, st), rest)
	case *ast.IncDecStmt:
		name, ty, _ := t.lvalue(s.X)
		if ty != tInt {
			fail("line %d: `%s` on a non-int", line, str(st))
		}
		return t.let(name, ty, "("+name+" "+map[token.Token]string{token.INC: "+", token.DEC: "-"}[s.Tok]+" 1)", rest)
	case *ast.ReturnStmt:
		if t.tg.mode != "func" || len(s.Results) != 1 {
			fail("line %d: `%s` (only single-value returns of whole functions)", line, str(st))
		}
		v, ty := t.expr(s.Results[0])
		return t.conv(v, ty, t.ret, st)
	case *ast.IfStmt:
		if hasReturn(s) {
			// some path returns: the rest of the list is the continuation of every path that falls through
			return t.ifExpr(s, rest)
		}
		as := t.assigned(s)
		if len(as) != 1 {
			fail("line %d: `if` without `return` must assign exactly one outer variable (assigns %v)", line, as)
		}
		x := as[0]
		ty, ok := t.ftyp[x]
		if !ok {
			for g, gty := range t.vars {
				if mangle(g) == x {
					ty = gty
				}
			}
		}
		v := t.ifExpr(s, func() string {
			if t.unset[x] {
				fail("line %d: a path through this `if` leaves %s unassigned", line, x)
			}
			return x
		})
		delete(t.unset, x)
		return t.let(x, ty, v, rest)
	}
	fail("line %d: statement `%s` (%T)", line, strings.SplitN(str(st), "{", 2)[0], st)
	return ""
}

// ---------------------------------------------------------------- driver
type defOut struct {
	Name        string   `json:"name"`
	Source      string   `json:"source"`
	Lean        string   `json:"lean"`
	Comments    []string `json:"comments"`
	Unsupported string   `json:"unsupported"`
}

func translate(g *target) (out defOut) {
	out.Name = g.name
	out.Source = g.dir + ": " + g.fn
	if g.recv != "" {
		out.Source = g.dir + ": (*" + g.recv + ")." + g.fn
	}
	t := &tr{tg: g, vars: map[string]typ{}, ftyp: map[string]typ{}, ptr: map[string]string{}, clock: map[string]bool{}, unset: map[string]bool{}}
	defer func() {
		out.Comments = t.comments
		if r := recover(); r != nil {
			u, ok := r.(unsupported)
			if !ok {
				panic(r)
			}
			out.Unsupported = string(u)
		}
	}()
	t.p = load(g.dir)
	fd, f := t.p.fn(g.recv, g.fn)
	if fd == nil {
		fail("function not found")
	}
	t.file = f
	t.recv, t.recvType = recvOf(fd)
	out.Source += fmt.Sprintf("  (%s:%d)", strings.TrimPrefix(fset.Position(fd.Pos()).Filename, repo+"/"), fset.Position(fd.Pos()).Line)
	var params []param
	var body string
	switch g.mode {
	case "func", "mutate":
		ps, ret := signature(fd)
		for _, p := range ps {
			t.vars[p.name] = p.ty
			params = append(params, param{mangle(p.name), leanTy[p.ty]})
		}
		t.ret = ret
		var k func() string
		if g.mode == "mutate" {
			e, err := parser.ParseExpr(g.result)
			if err != nil {
				fail("bad result spec")
			}
			name, ty, ok := t.field(e.(*ast.SelectorExpr))
			if !ok || ret != -1 {
				fail("%s is not a field of the receiver of a result-less method", g.result)
			}
			t.ret = ty
			t.comments = append(t.comments, fmt.Sprintf("the definition returns the value of %s after the call", g.result))
			k = func() string { return name }
		} else if ret == -1 {
			fail("function has no result")
		}
		body = t.stmts(fd.Body.List, k)
	case "stmts", "cond":
		for _, fv := range g.free {
			nt := strings.Fields(fv)
			e, _ := parser.ParseExpr(nt[1])
			ty, _ := goTyp(e)
			t.vars[nt[0]] = ty
			params = append(params, param{mangle(nt[0]), leanTy[ty]})
			t.comments = append(t.comments, fmt.Sprintf("free variable %s : %s is DECLARED by the target table (not inferred from the source)", nt[0], nt[1]))
		}
		sts, cond := g.pick(t, fd.Body)
		if g.mode == "cond" {
			t.ret = tProp
			t.comments = append(t.comments, fmt.Sprintf("line %d: condition `%s`", fset.Position(cond.Pos()).Line, str(cond)))
			s, ty := t.expr(cond)
			body = t.conv(s, ty, tProp, cond)
		} else {
			if !t.isVar(g.result) { // a named result of the function: known type, no known value
				if fd.Type.Results != nil {
					for _, fl := range fd.Type.Results.List {
						for _, n := range fl.Names {
							if ty, ok := goTyp(fl.Type); ok && n.Name == g.result {
								t.vars[g.result], t.unset[g.result] = ty, true
							}
						}
					}
				}
				if !t.isVar(g.result) {
					fail("result variable %s is neither a declared free variable nor a named result", g.result)
				}
			}
			t.ret = t.vars[g.result]
			t.comments = append(t.comments, fmt.Sprintf("lines %d-%d; the definition returns the value of `%s` after them",
				fset.Position(sts[0].Pos()).Line, fset.Position(sts[len(sts)-1].End()).Line, g.result))
			body = t.stmts(sts, func() string { return mangle(g.result) })
		}
	}
	all := []param{{"indef", "Int"}}
	all = append(all, t.fields...)
	for _, fun := range t.opqUsed {
		o := g.opaque[fun]
		var tys []string
		for _, a := range o.args {
			tys = append(tys, leanTy[a])
		}
		all = append(all, param{o.lean, strings.Join(append(tys, leanTy[o.ret]), " → ")})
	}
	all = append(all, params...)
	hdr := "def " + g.name
	for _, p := range all {
		hdr += " (" + p.name + " : " + p.ty + ")"
	}
	out.Lean = hdr + " : " + leanTy[t.ret] + " :=\n" + ind(body)
	done[g.name] = true
	return
}

func main() {
	if len(os.Args) != 2 {
		fmt.Fprintln(os.Stderr, "usage: transgen <repo-root>")
		os.Exit(2)
	}
	repo = filepath.Clean(os.Args[1])
	var defs []defOut
	for i := range targets {
		defs = append(defs, translate(&targets[i]))
	}
	enc := json.NewEncoder(os.Stdout)
	enc.SetIndent("", " ")
	enc.SetEscapeHTML(false)
	enc.Encode(map[string]any{"defs": defs})
}
