module github.com/md14454/gosensors

go 1.18
