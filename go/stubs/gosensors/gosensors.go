// Package gosensors is a pure-Go stand-in for github.com/md14454/gosensors (cgo binding of
// libsensors), used only by the verification harness build (-modfile replace). It enumerates a
// fake set of chips supplied by the harness instead of calling libsensors.
package gosensors

import (
	"encoding/json"
	"os"
)

type SubFeatureType int32
type FeatureType int32

const (
	SubFeatureTypeFanInput SubFeatureType = 256
	SubFeatureTypeFanMin   SubFeatureType = 257
	SubFeatureTypeFanMax   SubFeatureType = 258

	SubFeatureTypeTempInput SubFeatureType = 512
	SubFeatureTypeTempMax   SubFeatureType = 513
	SubFeatureTypeTempMin   SubFeatureType = 515

	SubFeatureTypeInInput SubFeatureType = 0
	SubFeatureTypeUnknown SubFeatureType = 0x7fffffff
)

const (
	FeatureTypeIn      FeatureType = 0
	FeatureTypeFan     FeatureType = 1
	FeatureTypeTemp    FeatureType = 2
	FeatureTypePower   FeatureType = 3
	FeatureTypeUnknown FeatureType = 0x7fffffff
)

type SubFeature struct {
	Name    string
	Number  int32
	Type    SubFeatureType
	Mapping int32
	Flags   uint32
	Value   float64
}

func (s SubFeature) GetValue() float64 { return s.Value }

type Feature struct {
	Name        string
	Number      int32
	Type        FeatureType
	SubFeatures []SubFeature
}

func (f Feature) GetSubFeatures() []SubFeature { return f.SubFeatures }
func (f Feature) GetLabel() string             { return f.Name }
func (f Feature) GetValue() float64            { return f.SubFeatures[0].Value }

type Bus struct {
	Type int16
	Nr   int16
}

func (b Bus) String() string { return "*" }

type Chip struct {
	Prefix   string
	Bus      Bus
	Addr     int32
	Path     string
	Features []Feature
}

func (c Chip) String() string         { return c.Prefix }
func (c Chip) AdapterName() string    { return c.Bus.String() }
func (c Chip) GetFeatures() []Feature { return c.Features }

// Fake is the chip list GetDetectedChips returns, in this order.
var Fake []Chip

// Init loads the fake chip list from the JSON file named by VERIF_GOSENSORS_JSON (if set and
// Fake has not been set programmatically).
func Init() {
	if Fake != nil {
		return
	}
	if p := os.Getenv("VERIF_GOSENSORS_JSON"); p != "" {
		data, err := os.ReadFile(p)
		if err == nil {
			_ = json.Unmarshal(data, &Fake)
		}
	}
}
func Cleanup() {}

func GetDetectedChips() []Chip { return Fake }
