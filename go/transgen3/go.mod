module verif/transgen3

go 1.21
