// transgen3: Go -> Lean translator (third generation) for the STATEFUL core of the fan controller: methods that read
// and write receiver fields, call the fan / curve / control-loop interfaces and each other, and treat errors as VALUES
// (`if err != nil { log }` and carry on).  usage: transgen3 <repo-root>  ->  JSON on stdout, rendered into
// lean/Fan2go/Generated/Trans3.lean by vlib/transgen3.py on every check run.
//
// The output is Lean `do` notation in the monad `GoM σ` (Fan2go/Model/GoSem.lean: state σ threaded through, a panic
// aborts and keeps the state).  Everything the translated code does to the outside is a field of ONE record of
// operations `CtlOps σ` (generated too, from the table `ops` below): interface calls (`f.fan.GetPwm()` ->
// `ops.fan_GetPwm : GoM σ (Int × Option String)`), receiver fields (`f.lastSetPwm` -> `ops.get_lastSetPwm` /
// `ops.set_lastSetPwm`), configuration values.  Props/Trans3*.lean instantiate the record with the primitives of the
// hand-written model and prove that each translated method, run on a model world, does what the model's function does.
//
//	error                      Option String   (none = nil); named error values come from the table `errValues`
//	(T, error) results         T × Option String;   v, err := call()  ->  let __r ← call; let mut v := __r.1; let mut err := __r.2
//	*int fields                Option Int;  p != nil -> p ≠ none;  *p -> (← Go.deref p) (panics on nil);  p = &x -> some x
//	m[k] on a map field        Go.mapGetOpt (a nil map reads as the zero value)
//	x := e shadowing an outer x    a fresh Lean name (x_1)
//	if init; cond { }          the init statement in a scope of its own, then the `if`
//	f.method(...) / pkgFunc(f.fan)   the translated definition of that method (same record of operations)
//	ui.<log>(...) skipped (noted); statements, loops, arithmetic as in transgen2
//
// Anything outside the subset makes the target `unsupported: <reason>` - never a guess.
package main

import (
	"bytes"
	"encoding/json"
	"fmt"
	"go/ast"
	"go/parser"
	"go/printer"
	"go/token"
	"os"
	"path/filepath"
	"sort"
	"strconv"
	"strings"
)

type unsupported string

func fail(f string, a ...any) { panic(unsupported(fmt.Sprintf(f, a...))) }

// ---------------------------------------------------------------- source access
type pkg struct {
	dir   string
	files []*ast.File
}

var (
	fset = token.NewFileSet()
	repo string
	pkgs = map[string]*pkg{}
)

func load(dir string) *pkg {
	if p, ok := pkgs[dir]; ok {
		return p
	}
	p := &pkg{dir: dir}
	ents, err := os.ReadDir(filepath.Join(repo, dir))
	if err != nil {
		fail("package directory %s not readable", dir)
	}
	for _, e := range ents {
		if n := e.Name(); strings.HasSuffix(n, ".go") && !strings.HasSuffix(n, "_test.go") {
			f, err := parser.ParseFile(fset, filepath.Join(repo, dir, n), nil, 0)
			if err != nil {
				fail("%s/%s does not parse", dir, n)
			}
			p.files = append(p.files, f)
		}
	}
	pkgs[dir] = p
	return p
}

func str(n ast.Node) string {
	var b bytes.Buffer
	printer.Fprint(&b, fset, n)
	return strings.Join(strings.Fields(b.String()), " ")
}

func line(n ast.Node) int { return fset.Position(n.Pos()).Line }

func recvOf(d *ast.FuncDecl) (name, ty string) {
	if d.Recv == nil || len(d.Recv.List) != 1 {
		return "", ""
	}
	r := d.Recv.List[0]
	if len(r.Names) == 1 {
		name = r.Names[0].Name
	}
	e := r.Type
	if s, ok := e.(*ast.StarExpr); ok {
		e = s.X
	}
	if id, ok := e.(*ast.Ident); ok {
		ty = id.Name
	}
	return
}

func (p *pkg) fn(recv, name string) (*ast.FuncDecl, *ast.File) {
	for _, f := range p.files {
		for _, d := range f.Decls {
			if fd, ok := d.(*ast.FuncDecl); ok && fd.Name.Name == name && fd.Body != nil {
				if _, ty := recvOf(fd); ty == recv {
					return fd, f
				}
			}
		}
	}
	return nil, nil
}

// package-level constant with a literal value: (lean literal, lean type)
func (p *pkg) constOf(name string) (string, string, bool) {
	for _, f := range p.files {
		for _, d := range f.Decls {
			gd, ok := d.(*ast.GenDecl)
			if !ok || gd.Tok != token.CONST {
				continue
			}
			iotaBlock := false // a block `X T = iota; Y; Z`: every later spec without a value is its position
			for si, s := range gd.Specs {
				vs := s.(*ast.ValueSpec)
				if len(vs.Values) == 1 && str(vs.Values[0]) == "iota" && len(vs.Names) == 1 {
					iotaBlock = true
				} else if len(vs.Values) != 0 {
					iotaBlock = false
				}
				if iotaBlock && len(vs.Names) == 1 && vs.Names[0].Name == name {
					return strconv.Itoa(si), "const", true
				}
				for i, n := range vs.Names {
					if n.Name != name || i >= len(vs.Values) {
						continue
					}
					if bl, ok := vs.Values[i].(*ast.BasicLit); ok {
						switch bl.Kind {
						case token.INT:
							if _, err := strconv.ParseInt(bl.Value, 10, 64); err == nil && (len(bl.Value) == 1 || bl.Value[0] != '0') {
								return bl.Value, "const", true
							}
						case token.STRING:
							if s, err := strconv.Unquote(bl.Value); err == nil {
								return strconv.Quote(s), "String", true
							}
						}
					}
				}
			}
		}
	}
	return "", "", false
}

func importDir(f *ast.File, alias string) string {
	for _, im := range f.Imports {
		p, _ := strconv.Unquote(im.Path.Value)
		name := p[strings.LastIndex(p, "/")+1:]
		if im.Name != nil {
			name = im.Name.Name
		}
		if name == alias {
			if strings.HasPrefix(p, modPath) {
				return strings.TrimPrefix(p, modPath)
			}
			return "<ext>" + p
		}
	}
	return ""
}

const modPath = "github.com/markusressel/fan2go/"

// ---------------------------------------------------------------- targets

// ---------------------------------------------------------------- the record of operations
type op struct {
	goText     string   // call text (function part) or field selector text, after alias resolution
	lean       string   // field of CtlOps
	args       []string // lean types of the arguments
	ret        string   // lean type of the result ("Unit" for none)
	field      bool     // a receiver field: `lean` is the getter, "set_"+name the setter (when settable)
	set        bool
	ignoreArgs bool // the (handle) arguments of the call are not passed on
	inPlace    bool // a statement `f(x)` that updates the slice variable x: `x := (← ops.f x)`
}

type group struct {
	name     string // name of the record of operations
	dir      string
	recvPath string            // what the receiver variable stands for in operation texts ("f", "fan")
	handles  []string          // receiver paths that are interface handles (`fan := f.fan` makes `fan` an alias)
	intTypes []string          // named integer types of the package (conversions are the identity)
	errs     map[string]string // named error values / error constructors (by text prefix) -> error string
	binders  map[string]string // `h, _ := <text>` / `h := <text>` statements that bind an interface handle: text -> handle name (DECLARED)
	skips    map[string]string // statements (by text prefix) left out of the translation, with the DECLARED reason
	// statements (by text prefix) whose only modelled effect is one operation of the record applied to the named variables
	effects map[string][2]string
	// `switch x := <handle>.(type)`: concrete type -> tag; the record gets an operation `typeTag_<handle>` and inside the
	// cases x stands for the handle `<x>T`
	typeSwitch map[string]int
	hbinders   map[string]string // `h, err := <call>(...)`: call (function text) whose FIRST result is a handle and whose operation returns only the error
	ops        []op
	targets    []target
}

var cur *group

var groups = []*group{
	{name: "CtlOps", dir: "internal/controller", recvPath: "f", handles: []string{"f.fan", "f.curve", "f.controlLoop"},
		errs: map[string]string{"ErrFanStalledAtMaxPwm": "stalled-at-max"},
		ops: []op{
			{goText: "f.fan.Supports", lean: "fan_Supports", args: []string{"Int"}, ret: "Bool"},
			{goText: "f.fan.GetPwm", lean: "fan_GetPwm", ret: "Int × Option String"},
			{goText: "f.fan.SetPwm", lean: "fan_SetPwm", args: []string{"Int"}, ret: "Option String"},
			{goText: "f.fan.GetMinPwm", lean: "fan_GetMinPwm", ret: "Int"},
			{goText: "f.fan.GetMaxPwm", lean: "fan_GetMaxPwm", ret: "Int"},
			{goText: "f.fan.GetRpm", lean: "fan_GetRpm", ret: "Int × Option String"},
			{goText: "f.fan.GetRpmAvg", lean: "fan_GetRpmAvg", ret: "F64"},
			{goText: "f.fan.SetRpmAvg", lean: "fan_SetRpmAvg", args: []string{"F64"}, ret: "Unit"},
			{goText: "f.fan.ShouldNeverStop", lean: "fan_ShouldNeverStop", ret: "Bool"},
			{goText: "f.fan.SetPwmEnabled", lean: "fan_SetPwmEnabled", args: []string{"Int"}, ret: "Option String"},
			{goText: "f.fan.UpdateFanRpmCurveValue", lean: "fan_UpdateFanRpmCurveValue", args: []string{"Int", "F64"}, ret: "Unit"},
			{goText: "f.curve.Evaluate", lean: "curve_Evaluate", ret: "Int × Option String"},
			{goText: "f.controlLoop.Cycle", lean: "controlLoop_Cycle", args: []string{"Int", "Int"}, ret: "Int"},
			{goText: "f.lastSetPwm", lean: "lastSetPwm", ret: "Option Int", field: true, set: true},
			{goText: "f.pwmMap", lean: "pwmMap", ret: "Option (List (Int × Int))", field: true},
			{goText: "f.pwmValuesWithDistinctTarget", lean: "pwmValuesWithDistinctTarget", ret: "Array Int", field: true},
			{goText: "f.minPwmOffset", lean: "minPwmOffset", ret: "Int", field: true, set: true},
			{goText: "f.stats.UnexpectedPwmValueCount", lean: "stats_UnexpectedPwmValueCount", ret: "Int", field: true, set: true},
			{goText: "f.stats.MinPwmOffset", lean: "stats_MinPwmOffset", ret: "Int", field: true, set: true},
			{goText: "f.stats.IncreasedMinPwmCount", lean: "stats_IncreasedMinPwmCount", ret: "Int", field: true, set: true},
			{goText: "f.originalPwmValue", lean: "originalPwmValue", ret: "Int", field: true},
			{goText: "f.originalPwmEnabled", lean: "originalPwmEnabled", ret: "Int", field: true},
			{goText: "configuration.CurrentConfig.RpmRollingWindowSize", lean: "cfg_RpmRollingWindowSize", ret: "Int", field: true},
		},
		targets: []target{
			{name: "ctl_getPwm", recv: "DefaultFanController", fn: "getPwm"},
			{name: "ctl_trySetManualPwm", fn: "trySetManualPwm", alias: map[string]string{"fan": "f.fan"}},
			{name: "ctl_findClosestDistinctTarget", recv: "DefaultFanController", fn: "findClosestDistinctTarget"},
			{name: "ctl_applyPwmMapping", recv: "DefaultFanController", fn: "applyPwmMapping"},
			{name: "ctl_increaseMinPwmOffset", recv: "DefaultFanController", fn: "increaseMinPwmOffset"},
			{name: "ctl_ensureNoThirdPartyIsMessingWithUs", recv: "DefaultFanController", fn: "ensureNoThirdPartyIsMessingWithUs"},
			{name: "ctl_calculateTargetPwm", recv: "DefaultFanController", fn: "calculateTargetPwm"},
			{name: "ctl_setPwm", recv: "DefaultFanController", fn: "setPwm"},
			{name: "ctl_UpdateFanSpeed", recv: "DefaultFanController", fn: "UpdateFanSpeed"},
			{name: "ctl_measureRpm", recv: "DefaultFanController", fn: "measureRpm", alias: map[string]string{"fan": "f.fan"}},
			{name: "ctl_restorePwmEnabled", recv: "DefaultFanController", fn: "restorePwmEnabled"},
		}},
	// the hwmon fan object itself: what the controller's `f.fan.*` operations are when the fan is a HwMonFan
	{name: "HwMonOps", dir: "internal/fans", recvPath: "fan", intTypes: []string{"ControlMode", "FeatureFlag"},
		errs: map[string]string{"os.ErrInvalid": "invalid", "fmt.Errorf(\"PWM mode stuck": "stuck"},
		ops: []op{
			{goText: "util.ReadIntFromFile", lean: "readIntFromFile", args: []string{"String"}, ret: "Int × Option String"},
			{goText: "util.WriteIntToFile", lean: "writeIntToFile", args: []string{"Int", "String"}, ret: "Option String"},
			{goText: "os.Stat", lean: "stat", args: []string{"String"}, ret: "Unit × Option String"},
			{goText: "fan.Config.HwMon.PwmPath", lean: "Config_HwMon_PwmPath", ret: "String", field: true},
			{goText: "fan.Config.HwMon.PwmEnablePath", lean: "Config_HwMon_PwmEnablePath", ret: "String", field: true},
			{goText: "fan.Config.HwMon.RpmInputPath", lean: "Config_HwMon_RpmInputPath", ret: "String", field: true},
			{goText: "fan.Config.NeverStop", lean: "Config_NeverStop", ret: "Bool", field: true},
			{goText: "fan.Config.MinPwm", lean: "Config_MinPwm", ret: "Option Int", field: true},
			{goText: "fan.Config.StartPwm", lean: "Config_StartPwm", ret: "Option Int", field: true},
			{goText: "fan.Config.MaxPwm", lean: "Config_MaxPwm", ret: "Option Int", field: true},
			{goText: "fan.MinPwm", lean: "MinPwm", ret: "Option Int", field: true, set: true},
			{goText: "fan.StartPwm", lean: "StartPwm", ret: "Option Int", field: true, set: true},
			{goText: "fan.MaxPwm", lean: "MaxPwm", ret: "Option Int", field: true, set: true},
			{goText: "fan.RpmMovingAvg", lean: "RpmMovingAvg", ret: "F64", field: true, set: true},
			{goText: "fan.Rpm", lean: "Rpm", ret: "Int", field: true, set: true},
			{goText: "fan.Pwm", lean: "Pwm", ret: "Int", field: true, set: true},
			{goText: "fan.FanCurveData", lean: "FanCurveData", ret: "Option (List (Int × F64))", field: true, set: true},
		},
		targets: []target{
			{name: "HwMonFan_ShouldNeverStop", recv: "HwMonFan", fn: "ShouldNeverStop"},
			{name: "HwMonFan_GetMinPwm", recv: "HwMonFan", fn: "GetMinPwm"},
			{name: "HwMonFan_SetMinPwm", recv: "HwMonFan", fn: "SetMinPwm"},
			{name: "HwMonFan_GetStartPwm", recv: "HwMonFan", fn: "GetStartPwm"},
			{name: "HwMonFan_SetStartPwm", recv: "HwMonFan", fn: "SetStartPwm"},
			{name: "HwMonFan_GetMaxPwm", recv: "HwMonFan", fn: "GetMaxPwm"},
			{name: "HwMonFan_SetMaxPwm", recv: "HwMonFan", fn: "SetMaxPwm"},
			{name: "HwMonFan_GetRpm", recv: "HwMonFan", fn: "GetRpm"},
			{name: "HwMonFan_GetRpmAvg", recv: "HwMonFan", fn: "GetRpmAvg"},
			{name: "HwMonFan_SetRpmAvg", recv: "HwMonFan", fn: "SetRpmAvg"},
			{name: "HwMonFan_GetPwm", recv: "HwMonFan", fn: "GetPwm"},
			{name: "HwMonFan_SetPwm", recv: "HwMonFan", fn: "SetPwm"},
			{name: "HwMonFan_GetFanRpmCurveData", recv: "HwMonFan", fn: "GetFanRpmCurveData"},
			{name: "HwMonFan_AttachFanRpmCurveData", recv: "HwMonFan", fn: "AttachFanRpmCurveData"},
			{name: "HwMonFan_UpdateFanRpmCurveValue", recv: "HwMonFan", fn: "UpdateFanRpmCurveValue"},
			{name: "HwMonFan_GetPwmEnabled", recv: "HwMonFan", fn: "GetPwmEnabled"},
			{name: "HwMonFan_IsPwmAuto", recv: "HwMonFan", fn: "IsPwmAuto"},
			{name: "HwMonFan_SetPwmEnabled", recv: "HwMonFan", fn: "SetPwmEnabled"},
			{name: "HwMonFan_Supports", recv: "HwMonFan", fn: "Supports"},
		}},
}

func init() {
	groups = append(groups,
		// the two leaf curve kinds: what `f.curve.Evaluate()` is for a linear / PID curve
		&group{name: "CurveOps", dir: "internal/curves", recvPath: "c", handles: []string{},
			binders: map[string]string{"sensors.GetSensor(c.Config.Linear.Sensor)": "sensor", "sensors.GetSensor(c.Config.PID.Sensor)": "sensor"},
			ops: []op{
				{goText: "sensor.GetMovingAvg", lean: "sensor_GetMovingAvg", ret: "F64"},
				{goText: "sensor.GetValue", lean: "sensor_GetValue", ret: "F64 × Option String"},
				{goText: "c.pidLoop.Loop", lean: "pidLoop_Loop", args: []string{"F64", "F64"}, ret: "F64"},
				{goText: "c.Config.Linear.Steps", lean: "Config_Linear_Steps", ret: "Option (List (Int × F64))", field: true},
				{goText: "c.Config.Linear.Min", lean: "Config_Linear_Min", ret: "Int", field: true},
				{goText: "c.Config.Linear.Max", lean: "Config_Linear_Max", ret: "Int", field: true},
				{goText: "c.Config.PID.SetPoint", lean: "Config_PID_SetPoint", ret: "F64", field: true},
				{goText: "c.Value", lean: "Value", ret: "Int", field: true, set: true},
			},
			targets: []target{
				{name: "LinearSpeedCurve_SetValue", recv: "LinearSpeedCurve", fn: "SetValue"},
				{name: "LinearSpeedCurve_Evaluate", recv: "LinearSpeedCurve", fn: "Evaluate"},
				{name: "PidSpeedCurve_SetValue", recv: "PidSpeedCurve", fn: "SetValue"},
				{name: "PidSpeedCurve_Evaluate", recv: "PidSpeedCurve", fn: "Evaluate"},
			}},
		// the file fan object: what the controller's `f.fan.*` operations are when the fan is a FileFan
		&group{name: "FileFanOps", dir: "internal/fans", recvPath: "fan", intTypes: []string{"ControlMode", "FeatureFlag"},
			ops: []op{
				{goText: "util.ReadIntFromFile", lean: "readIntFromFile", args: []string{"String"}, ret: "Int × Option String"},
				{goText: "util.WriteIntToFileAtomic", lean: "writeIntToFileAtomic", args: []string{"Int", "String"}, ret: "Option String"},
				{goText: "expandHome", lean: "expandHome", args: []string{"String"}, ret: "String × Option String"},
				{goText: "fan.Config.File.Path", lean: "Config_File_Path", ret: "String", field: true},
				{goText: "fan.Config.File.RpmPath", lean: "Config_File_RpmPath", ret: "String", field: true},
				{goText: "fan.Config.NeverStop", lean: "Config_NeverStop", ret: "Bool", field: true},
				{goText: "fan.Pwm", lean: "Pwm", ret: "Int", field: true, set: true},
				{goText: "fan.Rpm", lean: "Rpm", ret: "Int", field: true, set: true},
			},
			targets: []target{
				{name: "FileFan_GetStartPwm", recv: "FileFan", fn: "GetStartPwm"},
				{name: "FileFan_SetStartPwm", recv: "FileFan", fn: "SetStartPwm"},
				{name: "FileFan_GetMinPwm", recv: "FileFan", fn: "GetMinPwm"},
				{name: "FileFan_SetMinPwm", recv: "FileFan", fn: "SetMinPwm"},
				{name: "FileFan_GetMaxPwm", recv: "FileFan", fn: "GetMaxPwm"},
				{name: "FileFan_SetMaxPwm", recv: "FileFan", fn: "SetMaxPwm"},
				{name: "FileFan_GetRpm", recv: "FileFan", fn: "GetRpm"},
				{name: "FileFan_GetRpmAvg", recv: "FileFan", fn: "GetRpmAvg"},
				{name: "FileFan_SetRpmAvg", recv: "FileFan", fn: "SetRpmAvg"},
				{name: "FileFan_GetPwm", recv: "FileFan", fn: "GetPwm"},
				{name: "FileFan_SetPwm", recv: "FileFan", fn: "SetPwm"},
				{name: "FileFan_AttachFanRpmCurveData", recv: "FileFan", fn: "AttachFanRpmCurveData"},
				{name: "FileFan_UpdateFanRpmCurveValue", recv: "FileFan", fn: "UpdateFanRpmCurveValue"},
				{name: "FileFan_ShouldNeverStop", recv: "FileFan", fn: "ShouldNeverStop"},
				{name: "FileFan_GetPwmEnabled", recv: "FileFan", fn: "GetPwmEnabled"},
				{name: "FileFan_SetPwmEnabled", recv: "FileFan", fn: "SetPwmEnabled"},
				{name: "FileFan_IsPwmAuto", recv: "FileFan", fn: "IsPwmAuto"},
				{name: "FileFan_Supports", recv: "FileFan", fn: "Supports"},
			}},
		// the start-up analysis of the controller: which PWM map is used, the sweep that detects it, the supported inputs
		&group{name: "InitOps", dir: "internal/controller", recvPath: "f", handles: []string{"f.fan", "f.persistence"},
			skips: map[string]string{"time.Sleep(pwmSetGetDelay)": "only lets time pass (the device model answers at once)",
				"time.Sleep(time.Duration(configuration.CurrentConfig.FanResponseDelay)": "only lets time pass (the device model answers at once)"},
			ops: []op{
				{goText: "f.setPwm", lean: "setPwm", args: []string{"Int"}, ret: "Option String"},
				{goText: "f.getPwm", lean: "getPwm", ret: "Int × Option String"},
				{goText: "f.waitForFanToSettle", lean: "waitForFanToSettle", ret: "Unit", ignoreArgs: true},
				{goText: "f.fan.GetRpm", lean: "fan_GetRpm", ret: "Int × Option String"},
				{goText: "f.fan.SetRpmAvg", lean: "fan_SetRpmAvg", args: []string{"F64"}, ret: "Unit"},
				{goText: "f.fan.AttachFanRpmCurveData", lean: "fan_AttachFanRpmCurveData", args: []string{"Option (List (Int × F64))"}, ret: "Option String"},
				{goText: "f.persistence.SaveFanPwmData", lean: "persistence_SaveFanPwmData", ret: "Option String", ignoreArgs: true},
				{goText: "configuration.CurrentConfig.RunFanInitializationInParallel", lean: "cfg_RunFanInitializationInParallel", ret: "Bool", field: true},
				{goText: "f.fan.Supports", lean: "fan_Supports", args: []string{"Int"}, ret: "Bool"},
				{goText: "f.fan.GetPwm", lean: "fan_GetPwm", ret: "Int × Option String"},
				{goText: "f.fan.SetPwm", lean: "fan_SetPwm", args: []string{"Int"}, ret: "Option String"},
				{goText: "f.fan.GetStartPwm", lean: "fan_GetStartPwm", ret: "Int"},
				{goText: "f.fan.GetId", lean: "fan_GetId", ret: "String"},
				{goText: "trySetManualPwm", lean: "trySetManualPwm", ret: "Option String", ignoreArgs: true},
				{goText: "f.persistence.LoadFanPwmMap", lean: "persistence_LoadFanPwmMap", args: []string{"String"}, ret: "Option (List (Int × Int)) × Option String"},
				{goText: "f.persistence.SaveFanPwmMap", lean: "persistence_SaveFanPwmMap", args: []string{"String", "Option (List (Int × Int))"}, ret: "Option String"},
				{goText: "util.InterpolateLinearlyInt", lean: "interpolateLinearlyInt", args: []string{"Option (List (Int × Int))", "Int", "Int"}, ret: "Option (List (Int × Int))"},
				{goText: "sort.Ints", lean: "sortInts", args: []string{"Array Int"}, ret: "Array Int", inPlace: true},
				{goText: "typeTag:f.fan", lean: "typeTag_fan", ret: "Int"},
				{goText: "fanT.Config.PwmMap", lean: "fan_Config_PwmMap", ret: "Option (List (Int × Int))", field: true},
				{goText: "f.pwmMap", lean: "pwmMap", ret: "Option (List (Int × Int))", field: true, set: true},
				{goText: "f.pwmValuesWithDistinctTarget", lean: "pwmValuesWithDistinctTarget", ret: "Array Int", field: true, set: true},
			},
			typeSwitch: map[string]int{"*fans.HwMonFan": 0, "*fans.CmdFan": 1, "*fans.FileFan": 2},
			targets: []target{
				{name: "init_applyPwmMapping", recv: "DefaultFanController", fn: "applyPwmMapping"},
				{name: "init_computePwmMapAutomatically", recv: "DefaultFanController", fn: "computePwmMapAutomatically", alias: map[string]string{"fan": "f.fan"}},
				{name: "init_computePwmMapLocked", recv: "DefaultFanController", fn: "computePwmMapLocked"},
				{name: "init_updateDistinctPwmValues", recv: "DefaultFanController", fn: "updateDistinctPwmValues"},
				{name: "init_RunInitializationSequence", recv: "DefaultFanController", fn: "RunInitializationSequence"},
			}},
		// command fans
		&group{name: "CmdFanOps", dir: "internal/fans", recvPath: "fan", intTypes: []string{"ControlMode", "FeatureFlag"},
			binders: map[string]string{"fan.Config.Cmd.GetRpm": "rpmConf", "fan.Config.Cmd.GetPwm": "pwmConf", "fan.Config.Cmd.SetPwm": "setConf"},
			ops: []op{
				{goText: "util.SafeCmdExecution", lean: "safeCmdExecution", args: []string{"String", "Array String", "Int"}, ret: "String × Option String"},
				{goText: "strconv.ParseFloat", lean: "parseFloat", args: []string{"String", "Int"}, ret: "F64 × Option String"},
				{goText: "strings.ReplaceAll", lean: "replaceAll", args: []string{"String", "String", "String"}, ret: "String"},
				{goText: "strconv.Itoa", lean: "itoa", args: []string{"Int"}, ret: "String"},
				{goText: "fan.Config.Cmd.GetRpm", lean: "Config_Cmd_GetRpm", ret: "Option Unit", field: true},
				{goText: "fan.Config.Cmd.GetPwm", lean: "Config_Cmd_GetPwm", ret: "Option Unit", field: true},
				{goText: "rpmConf.Exec", lean: "rpmConf_Exec", ret: "String", field: true},
				{goText: "rpmConf.Args", lean: "rpmConf_Args", ret: "Array String", field: true},
				{goText: "pwmConf.Exec", lean: "pwmConf_Exec", ret: "String", field: true},
				{goText: "pwmConf.Args", lean: "pwmConf_Args", ret: "Array String", field: true},
				{goText: "setConf.Exec", lean: "setConf_Exec", ret: "String", field: true},
				{goText: "setConf.Args", lean: "setConf_Args", ret: "Array String", field: true},
				{goText: "fan.Config.NeverStop", lean: "Config_NeverStop", ret: "Bool", field: true},
				{goText: "fan.Pwm", lean: "Pwm", ret: "Int", field: true, set: true},
				{goText: "fan.Rpm", lean: "Rpm", ret: "Int", field: true, set: true},
			},
			targets: []target{
				{name: "CmdFan_Supports", recv: "CmdFan", fn: "Supports"},
				{name: "CmdFan_GetStartPwm", recv: "CmdFan", fn: "GetStartPwm"},
				{name: "CmdFan_SetStartPwm", recv: "CmdFan", fn: "SetStartPwm"},
				{name: "CmdFan_GetMinPwm", recv: "CmdFan", fn: "GetMinPwm"},
				{name: "CmdFan_SetMinPwm", recv: "CmdFan", fn: "SetMinPwm"},
				{name: "CmdFan_GetMaxPwm", recv: "CmdFan", fn: "GetMaxPwm"},
				{name: "CmdFan_SetMaxPwm", recv: "CmdFan", fn: "SetMaxPwm"},
				{name: "CmdFan_GetRpm", recv: "CmdFan", fn: "GetRpm"},
				{name: "CmdFan_GetRpmAvg", recv: "CmdFan", fn: "GetRpmAvg"},
				{name: "CmdFan_SetRpmAvg", recv: "CmdFan", fn: "SetRpmAvg"},
				{name: "CmdFan_GetPwm", recv: "CmdFan", fn: "GetPwm"},
				{name: "CmdFan_SetPwm", recv: "CmdFan", fn: "SetPwm"},
				{name: "CmdFan_AttachFanRpmCurveData", recv: "CmdFan", fn: "AttachFanRpmCurveData"},
				{name: "CmdFan_UpdateFanRpmCurveValue", recv: "CmdFan", fn: "UpdateFanRpmCurveValue"},
				{name: "CmdFan_ShouldNeverStop", recv: "CmdFan", fn: "ShouldNeverStop"},
				{name: "CmdFan_GetPwmEnabled", recv: "CmdFan", fn: "GetPwmEnabled"},
				{name: "CmdFan_SetPwmEnabled", recv: "CmdFan", fn: "SetPwmEnabled"},
				{name: "CmdFan_IsPwmAuto", recv: "CmdFan", fn: "IsPwmAuto"},
			}},
		// reading and writing the integer registers of hwmon / file fans and sensors
		&group{name: "FileIoOps", dir: "internal/util", recvPath: "",
			errs: map[string]string{"fmt.Errorf(\"file is empty": "file is empty"},
			ops: []op{
				{goText: "os.ReadFile", lean: "readFile", args: []string{"String"}, ret: "String × Option String"},
				{goText: "strings.TrimSpace", lean: "trimSpace", args: []string{"String"}, ret: "String"},
				{goText: "strconv.Atoi", lean: "atoi", args: []string{"String"}, ret: "Int × Option String"},
				{goText: "filepath.EvalSymlinks", lean: "evalSymlinks", args: []string{"String"}, ret: "String × Option String"},
				{goText: "os.WriteFile", lean: "writeFile", args: []string{"String", "String", "Int"}, ret: "Option String"},
				{goText: "atomic.WriteFile", lean: "atomicWriteFile", args: []string{"String", "String"}, ret: "Option String"},
			},
			targets: []target{
				{name: "util_ReadIntFromFile", fn: "ReadIntFromFile"},
				{name: "util_resolvePath", fn: "resolvePath"},
				{name: "util_WriteIntToFile", fn: "WriteIntToFile"},
				{name: "util_WriteIntToFileAtomic", fn: "WriteIntToFileAtomic"},
			}},
		// the permission check in front of every external command (C18)
		&group{name: "PermOps", dir: "internal/util", recvPath: "", intTypes: []string{"os.FileMode"},
			errs: map[string]string{"errors.New(\"file not found\")": "file not found", "errors.New(\"owner is not root\")": "owner is not root",
				"errors.New(\"group is not root but has write permission\")": "group is not root but has write permission",
				"errors.New(\"others have write permission\")":               "others have write permission"},
			binders:  map[string]string{"info.Sys().(*syscall.Stat_t)": "stat"},
			hbinders: map[string]string{"os.Stat": "info"},
			ops: []op{
				{goText: "filepath.EvalSymlinks", lean: "evalSymlinks", args: []string{"String"}, ret: "String × Option String"},
				{goText: "os.Stat", lean: "stat", args: []string{"String"}, ret: "Option String"},
				{goText: "info.Mode", lean: "info_Mode", ret: "Int"},
				{goText: "stat.Uid", lean: "stat_Uid", ret: "Int", field: true},
				{goText: "stat.Gid", lean: "stat_Gid", ret: "Int", field: true},
			},
			targets: []target{
				{name: "util_CheckFilePermissionsForExecution", fn: "CheckFilePermissionsForExecution"},
			}},
		// running an external command (C18, C19)
		&group{name: "ExecOps", dir: "internal/util", recvPath: "", intTypes: []string{"time.Duration"},
			errs: map[string]string{"fmt.Errorf(\"cannot execute": "cannot execute", "context.DeadlineExceeded": "context deadline exceeded"},
			skips: map[string]string{
				"ctx, cancel := context.WithTimeout(context.Background(), timeout)": "the deadline `timeout` is part of the operation `cmd.Output`",
				"defer cancel()": "releases the context's timer",
				"cmd.WaitDelay = cmdWaitDelay":                         "the wait delay is part of the operation `cmd.Output`",
				"var exitError *exec.ExitError":                        "only used to choose the log text",
				"if errors.As(err, &exitError) {":                      "both branches only log",
			},
			effects: map[string][2]string{"cmd := exec.CommandContext(ctx, executable, args...)": {"commandContext", "executable"}},
			ops: []op{
				{goText: "filepath.Base", lean: "base", args: []string{"String"}, ret: "String"},
				{goText: "exec.LookPath", lean: "lookPath", args: []string{"String"}, ret: "String × Option String"},
				{goText: "exec.CommandContext", lean: "commandContext", args: []string{"String"}, ret: "Unit"},
				{goText: "CheckFilePermissionsForExecution", lean: "checkPerm", args: []string{"String"}, ret: "Bool × Option String"},
				{goText: "cmd.Output", lean: "cmdOutput", ret: "String × Option String"},
				{goText: "ctx.Err", lean: "ctxErr", ret: "Option String"},
				{goText: "strings.Trim", lean: "stringsTrim", args: []string{"String", "String"}, ret: "String"},
			},
			targets: []target{
				{name: "util_SafeCmdExecution", fn: "SafeCmdExecution"},
			}},
		// the three sensor backends
		&group{name: "SensorOps", dir: "internal/sensors", recvPath: "sensor",
			errs: map[string]string{"fmt.Errorf(\"sensor %s: %s\"": "exec", "fmt.Errorf(\"sensor %s: command returned a non-finite": "non-finite"},
			ops: []op{
				{goText: "util.ReadIntFromFile", lean: "readIntFromFile", args: []string{"String"}, ret: "Int × Option String"},
				{goText: "util.SafeCmdExecution", lean: "safeCmdExecution", args: []string{"String", "Array String", "Int"}, ret: "String × Option String"},
				{goText: "strconv.ParseFloat", lean: "parseFloat", args: []string{"String", "Int"}, ret: "F64 × Option String"},
				{goText: "expandHome", lean: "expandHome", args: []string{"String"}, ret: "String × Option String"},
				{goText: "sensor.Input", lean: "Input", ret: "String", field: true},
				{goText: "sensor.Config.File.Path", lean: "Config_File_Path", ret: "String", field: true},
				{goText: "sensor.Config.Cmd.Exec", lean: "Config_Cmd_Exec", ret: "String", field: true},
				{goText: "sensor.Config.Cmd.Args", lean: "Config_Cmd_Args", ret: "Array String", field: true},
				{goText: "sensor.MovingAvg", lean: "MovingAvg", ret: "F64", field: true, set: true},
			},
			targets: []target{
				{name: "HwmonSensor_GetValue", recv: "HwmonSensor", fn: "GetValue"},
				{name: "HwmonSensor_GetMovingAvg", recv: "HwmonSensor", fn: "GetMovingAvg"},
				{name: "HwmonSensor_SetMovingAvg", recv: "HwmonSensor", fn: "SetMovingAvg"},
				{name: "FileSensor_GetValue", recv: "FileSensor", fn: "GetValue"},
				{name: "FileSensor_GetMovingAvg", recv: "FileSensor", fn: "GetMovingAvg"},
				{name: "FileSensor_SetMovingAvg", recv: "FileSensor", fn: "SetMovingAvg"},
				{name: "CmdSensor_GetValue", recv: "CmdSensor", fn: "GetValue"},
				{name: "CmdSensor_GetMovingAvg", recv: "CmdSensor", fn: "GetMovingAvg"},
				{name: "CmdSensor_SetMovingAvg", recv: "CmdSensor", fn: "SetMovingAvg"},
			}},
		// the sensor monitor's smoothing step (internal/monitor.go)
		&group{name: "MonitorOps", dir: "internal", recvPath: "",
			ops: []op{
				{goText: "s.GetValue", lean: "s_GetValue", ret: "F64 × Option String"},
				{goText: "s.GetMovingAvg", lean: "s_GetMovingAvg", ret: "F64"},
				{goText: "s.SetMovingAvg", lean: "s_SetMovingAvg", args: []string{"F64"}, ret: "Unit"},
				{goText: "configuration.CurrentConfig.TempRollingWindowSize", lean: "cfg_TempRollingWindowSize", ret: "Int", field: true},
			},
			targets: []target{
				{name: "internal_updateSensor", fn: "updateSensor", alias: map[string]string{"s": "s"}},
			}},
		// util.PidLoop: the PID term behind PID curves and the PID control algorithm
		&group{name: "PidOps", dir: "internal/util", recvPath: "p",
			ops: []op{
				{goText: "time.Now", lean: "now", ret: "Int"},
				{goText: "p.p", lean: "p", ret: "F64", field: true},
				{goText: "p.i", lean: "i", ret: "F64", field: true},
				{goText: "p.d", lean: "d", ret: "F64", field: true},
				{goText: "p.error", lean: "error", ret: "F64", field: true, set: true},
				{goText: "p.integral", lean: "integral", ret: "F64", field: true, set: true},
				{goText: "p.lastTime", lean: "lastTime", ret: "Option Int", field: true, set: true},
			},
			targets: []target{
				{name: "PidLoop_Loop", recv: "PidLoop", fn: "Loop"},
			}},
	)
}

func findOp(text string) *op {
	for i := range cur.ops {
		if cur.ops[i].goText == text {
			return &cur.ops[i]
		}
	}
	return nil
}

type target struct {
	name, recv, fn string
	alias          map[string]string // parameter / local that stands for a receiver path (e.g. fan -> f.fan), DECLARED
}

// ---------------------------------------------------------------- translation state
type tr struct {
	tg       *target
	p        *pkg
	file     *ast.File
	recv     string
	vars     map[string]string // Go name -> lean type
	names    map[string]string // Go name -> current lean name (renamed when shadowing)
	alias    map[string]string // Go name -> receiver path it stands for
	used     map[string]int    // lean base name -> number of declarations so far
	results  []string
	named    []string
	comments []string
	loopPost []string
	scopeOf  map[string]int // Go name -> block level of its declaration
	level    int
}

func (t *tr) note(n ast.Node, f string, a ...any) {
	c := fmt.Sprintf("line %d: ", line(n)) + fmt.Sprintf(f, a...)
	for _, x := range t.comments {
		if x == c {
			return
		}
	}
	t.comments = append(t.comments, c)
}

var leanKw = map[string]bool{"at": true, "from": true, "fun": true, "end": true, "open": true, "in": true, "then": true, "else": true,
	"if": true, "let": true, "have": true, "show": true, "do": true, "match": true, "with": true, "by": true, "def": true, "theorem": true,
	"instance": true, "structure": true, "where": true, "namespace": true, "section": true, "variable": true, "indef": true, "some": true,
	"none": true, "for": true, "return": true, "mut": true, "max": true, "min": true, "sum": true, "ops": true}

func mangle(s string) string {
	if leanKw[s] {
		return s + "_"
	}
	return s
}

func isIntType(name string) bool {
	for _, n := range cur.intTypes {
		if n == name {
			return true
		}
	}
	return false
}

func (t *tr) goTyp(e ast.Expr) string {
	if id, ok := e.(*ast.Ident); ok {
		switch id.Name {
		case "int":
			return "Int"
		case "float64":
			return "F64"
		case "bool":
			return "Bool"
		case "string":
			return "String"
		case "error":
			return "Option String"
		}
		if isIntType(id.Name) {
			return "Int"
		}
	}
	if str(e) == "[]string" {
		return "Array String"
	}
	if isIntType(str(e)) {
		return "Int"
	}
	if str(e) == "map[int]int" {
		return "Option (List (Int × Int))"
	}
	if st, ok := e.(*ast.StarExpr); ok {
		switch str(st.X) {
		case "int":
			return "Option Int"
		case "map[int]float64":
			return "Option (List (Int × F64))"
		case "map[int]int":
			return "Option (List (Int × Int))"
		}
	}
	fail("type `%s` is outside the supported subset", str(e))
	return ""
}

func zero(ty string) string {
	switch ty {
	case "Int":
		return "0"
	case "F64":
		return "(F64.ofInt 0)"
	case "Bool":
		return "false"
	case "Option String":
		return "none"
	}
	if strings.HasPrefix(ty, "Option ") {
		return "none"
	}
	fail("no zero value for %s", ty)
	return ""
}

type ex struct {
	s  string
	ty string // lean type, or "const", "Prop", "nil"
}

func (t *tr) conv(e ex, to string, ctx ast.Node) string {
	switch {
	case e.ty == to:
		return e.s
	case to == "Option ("+e.ty+")" || to == "Option "+e.ty:
		return "(some " + e.s + ")"
	case e.ty == "const" && to == "F64":
		return "(F64.ofInt " + e.s + ")"
	case e.ty == "const" && to == "Int":
		return e.s
	case e.ty == "Bool" && to == "Prop":
		return "(" + e.s + " = true)"
	case e.ty == "Prop" && to == "Bool":
		return "(decide " + e.s + ")"
	case e.ty == "nil" && strings.HasPrefix(to, "Option "):
		return "none"
	}
	fail("line %d: type mismatch in `%s`: have %s, want %s", line(ctx), str(ctx), e.ty, to)
	return ""
}

func effectful(s string) bool { return strings.Contains(s, "←") }

// receiver path of a selector / identifier after alias resolution: `fan.GetPwm` -> `f.fan.GetPwm`
func (t *tr) path(e ast.Expr) string {
	switch x := e.(type) {
	case *ast.Ident:
		if a, ok := t.alias[x.Name]; ok {
			return a
		}
		if x.Name == t.recv && t.recv != "" {
			return cur.recvPath
		}
		return x.Name
	case *ast.SelectorExpr:
		return t.path(x.X) + "." + x.Sel.Name
	case *ast.ParenExpr:
		return t.path(x.X)
	}
	return "?" + str(e)
}

func isHandle(p string) bool {
	for _, h := range cur.handles {
		if h == p {
			return true
		}
	}
	return false
}

// error value denoted by an expression text (named error values, error constructors by text prefix)
func errValue(txt string) (string, bool) {
	for k, v := range cur.errs {
		if strings.HasPrefix(k, "errors.New(") && txt == k {
			return v, true
		}
		if txt == k || (strings.HasSuffix(k, "stuck") && strings.HasPrefix(txt, k)) || (strings.Contains(k, "(") && strings.HasPrefix(txt, k)) {
			return v, true
		}
	}
	return "", false
}

func (t *tr) expr(e ast.Expr) ex {
	switch e := e.(type) {
	case *ast.ParenExpr:
		return t.expr(e.X)
	case *ast.BasicLit:
		if e.Kind == token.INT {
			if strings.HasPrefix(e.Value, "0o") {
				if v, err := strconv.ParseInt(e.Value[2:], 8, 64); err == nil {
					return ex{strconv.FormatInt(v, 10), "const"}
				}
			}
			if len(e.Value) > 1 && e.Value[0] == '0' {
				if v, err := strconv.ParseInt(e.Value[1:], 8, 64); err == nil {
					return ex{strconv.FormatInt(v, 10), "const"} // 0644
				}
			}
			if _, err := strconv.ParseInt(e.Value, 10, 64); err != nil {
				fail("integer literal %s (only decimal and octal literals)", e.Value)
			}
			return ex{e.Value, "const"}
		}
		if e.Kind == token.FLOAT {
			// only literals with an integral value (0.0, 1000.0): exact in binary64
			if f, err := strconv.ParseFloat(e.Value, 64); err == nil && f == float64(int64(f)) && f > -1e15 && f < 1e15 {
				return ex{"(F64.ofInt " + strconv.FormatInt(int64(f), 10) + ")", "F64"}
			}
		}
		if e.Kind == token.STRING {
			if sv, err := strconv.Unquote(e.Value); err == nil {
				return ex{strconv.Quote(sv), "String"}
			}
		}
		fail("literal %s", e.Value)
	case *ast.Ident:
		switch e.Name {
		case "true", "false":
			return ex{e.Name, "Bool"}
		case "nil":
			return ex{"none", "nil"}
		}
		if _, isAlias := t.alias[e.Name]; isAlias {
			fail("line %d: interface value %s used as a plain value", line(e), e.Name)
		}
		if ty, ok := t.vars[e.Name]; ok {
			return ex{t.names[e.Name], ty}
		}
		if v, ok := errValue(e.Name); ok {
			t.note(e, "named error value %s is (some \"%s\") (DECLARED by the translator's table)", e.Name, v)
			return ex{"(some \"" + v + "\")", "Option String"}
		}
		if v, ty, ok := t.p.constOf(e.Name); ok {
			t.note(e, "constant %s = %s (from %s)", e.Name, v, t.p.dir)
			return ex{v, ty}
		}
		fail("line %d: identifier %s is not a parameter, local or literal constant", line(e), e.Name)
	case *ast.SelectorExpr:
		p := t.path(e)
		if o := findOp(p); o != nil && o.field {
			return ex{"(← ops.get_" + o.lean + ")", o.ret}
		}
		if v, ok := errValue(str(e)); ok {
			t.note(e, "named error value %s is (some \"%s\") (DECLARED by the translator's table)", str(e), v)
			return ex{"(some \"" + v + "\")", "Option String"}
		}
		if id, ok := e.X.(*ast.Ident); ok {
			if d := importDir(t.file, id.Name); d != "" && !strings.HasPrefix(d, "<ext>") {
				if _, local := t.vars[id.Name]; !local {
					if v, ty, ok := load(d).constOf(e.Sel.Name); ok {
						t.note(e, "constant %s = %s (from %s)", str(e), v, d)
						return ex{v, ty}
					}
				}
			}
		}
		if d := map[string]string{"time.Second": "1000000000", "time.Millisecond": "1000000"}[str(e)]; d != "" && importDir(t.file, "time") == "<ext>time" {
			t.note(e, "%s = %s (a time.Duration is a count of nanoseconds)", str(e), d)
			return ex{d, "const"}
		}
		fail("line %d: selector %s (path %s) is neither a field of the record of operations nor a literal constant", line(e), str(e), p)
	case *ast.CompositeLit:
		if str(e) == "[]string{}" {
			return ex{"(#[] : Array String)", "Array String"}
		}
		if str(e) == "map[int]float64{}" {
			return ex{"(some [])", "Option (List (Int × F64))"}
		}
		if str(e.Type) == "map[int]int" {
			// a map literal with constant integer keys: the key-sorted association list
			type kvp struct {
				k int64
				v string
			}
			var ps []kvp
			for _, el := range e.Elts {
				kv, ok := el.(*ast.KeyValueExpr)
				if !ok {
					fail("line %d: map literal `%s`", line(e), str(e))
				}
				k, err := strconv.ParseInt(str(kv.Key), 10, 64)
				if err != nil {
					fail("line %d: map literal key `%s`", line(e), str(kv.Key))
				}
				ps = append(ps, kvp{k, t.conv(t.expr(kv.Value), "Int", kv.Value)})
			}
			sort.Slice(ps, func(i, j int) bool { return ps[i].k < ps[j].k })
			var items []string
			for i, p := range ps {
				if i > 0 && ps[i-1].k == p.k {
					fail("line %d: duplicate key in map literal", line(e))
				}
				items = append(items, fmt.Sprintf("(%d, %s)", p.k, p.v))
			}
			return ex{"(some [" + strings.Join(items, ", ") + "])", "Option (List (Int × Int))"}
		}
		fail("line %d: composite literal `%s`", line(e), str(e))
	case *ast.StarExpr:
		in := t.expr(e.X)
		if strings.HasPrefix(in.ty, "Option ") {
			inner := strings.TrimPrefix(in.ty, "Option ")
			inner = strings.TrimSuffix(strings.TrimPrefix(inner, "("), ")")
			if strings.HasPrefix(in.ty, "Option (") {
				inner = in.ty[len("Option (") : len(in.ty)-1]
			}
			return ex{"(← Go.deref " + in.s + ")", inner}
		}
		fail("line %d: dereference %s of type %s", line(e), str(e), in.ty)
	case *ast.UnaryExpr:
		if e.Op == token.AND {
			if str(e.X) == "map[int]float64{}" {
				return ex{"(some [])", "Option (List (Int × F64))"}
			}
			if cl, ok := e.X.(*ast.CompositeLit); ok && str(cl.Type) == "map[int]int" {
				t.note(e, "`%s`: a pointer to a map literal is carried as the map", str(e))
				return t.expr(cl)
			}
			if id, ok := e.X.(*ast.Ident); ok && strings.HasPrefix(t.vars[id.Name], "Option (List (Int × ") {
				t.note(e, "%s: a pointer to a map variable is carried as the map", str(e))
				return ex{t.names[id.Name], t.vars[id.Name]}
			}
			if id, ok := e.X.(*ast.Ident); ok && t.vars[id.Name] == "Int" {
				t.note(e, "%s: pointer to an int variable becomes `some %s` (value semantics; the variable must not change afterwards)", str(e), id.Name)
				return ex{"(some " + t.names[id.Name] + ")", "Option Int"}
			}
			fail("line %d: address-of %s", line(e), str(e))
		}
		x := t.expr(e.X)
		switch e.Op {
		case token.SUB:
			switch x.ty {
			case "F64":
				return ex{"(F64.neg " + x.s + ")", "F64"}
			case "Int", "const":
				return ex{"(-" + x.s + ")", x.ty}
			}
		case token.NOT:
			if x.ty == "Bool" || x.ty == "Prop" {
				return ex{"(¬ " + t.conv(x, "Prop", e) + ")", "Prop"}
			}
		}
		fail("line %d: unary operator in `%s`", line(e), str(e))
	case *ast.IndexExpr:
		x := t.expr(e.X)
		is := t.conv(t.expr(e.Index), "Int", e.Index)
		if x.ty == "Option (List (Int × Int))" {
			return ex{"(Go.mapGetOpt " + x.s + " " + is + ")", "Int"}
		}
		if x.ty == "List (Int × F64)" {
			return ex{"(Go.mapGet " + x.s + " " + is + ")", "F64"}
		}
		fail("line %d: index expression `%s` on %s", line(e), str(e), x.ty)
	case *ast.BinaryExpr:
		return t.binary(e)
	case *ast.CallExpr:
		r := t.call(e)
		if len(r) != 1 {
			fail("line %d: call `%s` with %d results used as a value", line(e), str(e), len(r))
		}
		return r[0]
	}
	fail("line %d: expression `%s` (%T)", line(e), str(e), e)
	return ex{}
}

func (t *tr) binary(e *ast.BinaryExpr) ex {
	if e.Op == token.LAND || e.Op == token.LOR {
		l := t.expr(e.X)
		r := t.expr(e.Y)
		ls, rs := t.conv(l, "Prop", e.X), t.conv(r, "Prop", e.Y)
		if effectful(rs) {
			if e.Op == token.LAND {
				return ex{"((← (do if " + ls + " then pure (decide " + rs + ") else pure false)) = true)", "Prop"}
			}
			return ex{"((← (do if " + ls + " then pure true else pure (decide " + rs + "))) = true)", "Prop"}
		}
		op := map[token.Token]string{token.LAND: "∧", token.LOR: "∨"}[e.Op]
		return ex{"(" + ls + " " + op + " " + rs + ")", "Prop"}
	}
	l, r := t.expr(e.X), t.expr(e.Y)
	if (e.Op == token.EQL || e.Op == token.NEQ) && (l.ty == "nil" || r.ty == "nil") {
		o := l
		if l.ty == "nil" {
			o = r
		}
		if !strings.HasPrefix(o.ty, "Option ") {
			fail("line %d: nil test on %s", line(e), o.ty)
		}
		if e.Op == token.EQL {
			return ex{"(" + o.s + " = none)", "Prop"}
		}
		return ex{"(" + o.s + " ≠ none)", "Prop"}
	}
	ty := l.ty
	if l.ty == "const" {
		ty = r.ty
	}
	if l.ty == "String" && r.ty == "String" && (e.Op == token.EQL || e.Op == token.NEQ) {
		op := map[token.Token]string{token.EQL: "=", token.NEQ: "≠"}[e.Op]
		return ex{"(" + l.s + " " + op + " " + r.s + ")", "Prop"}
	}
	if l.ty == "Option String" && r.ty == "Option String" && (e.Op == token.EQL || e.Op == token.NEQ) {
		// comparison of error values: identity of sentinel errors is equality of their strings
		t.note(e, "`%s`: comparing error values is comparing their strings", str(e))
		op := map[token.Token]string{token.EQL: "=", token.NEQ: "≠"}[e.Op]
		return ex{"(" + l.s + " " + op + " " + r.s + ")", "Prop"}
	}
	if ty != "Int" && ty != "F64" && ty != "const" {
		fail("line %d: operands of `%s` (%s, %s)", line(e), str(e), l.ty, r.ty)
	}
	ls, rs := t.conv(l, ty, e.X), t.conv(r, ty, e.Y)
	switch e.Op {
	case token.AND:
		if ty == "F64" {
			fail("line %d: & on floats", line(e))
		}
		return ex{"(Go.land " + ls + " " + rs + ")", "Int"}
	case token.ADD, token.SUB, token.MUL:
		return ex{"(" + ls + " " + e.Op.String() + " " + rs + ")", ty}
	case token.QUO:
		if ty == "F64" {
			return ex{"(" + ls + " / " + rs + ")", ty}
		}
		fail("line %d: integer division `%s`", line(e), str(e))
	case token.EQL, token.NEQ, token.LSS, token.LEQ, token.GTR, token.GEQ:
		if ty == "F64" {
			f := map[token.Token]string{token.EQL: "feq", token.NEQ: "feq", token.LSS: "lt", token.LEQ: "le", token.GTR: "gt", token.GEQ: "ge"}[e.Op]
			s := "(F64." + f + " " + ls + " " + rs + " = true)"
			if e.Op == token.NEQ {
				s = "(¬ " + s + ")"
			}
			return ex{s, "Prop"}
		}
		op := map[token.Token]string{token.EQL: "=", token.NEQ: "≠", token.LSS: "<", token.LEQ: "≤", token.GTR: ">", token.GEQ: "≥"}[e.Op]
		if ty == "const" {
			ls, rs = "("+ls+" : Int)", "("+rs+" : Int)"
		}
		return ex{"(" + ls + " " + op + " " + rs + ")", "Prop"}
	}
	fail("line %d: operator %s in `%s`", line(e), e.Op, str(e))
	return ex{}
}

func (t *tr) args(e *ast.CallExpr, want []string) string {
	if len(e.Args) != len(want) || e.Ellipsis.IsValid() {
		fail("line %d: call `%s`: %d arguments expected", line(e), str(e), len(want))
	}
	var out []string
	for i, a := range e.Args {
		out = append(out, t.conv(t.expr(a), want[i], a))
	}
	return strings.Join(out, " ")
}

var done = map[string]*tr{}

// splitTuple: "Int × Option String" -> ["Int", "Option String"]
func splitTuple(ty string) []string {
	if ty == "Unit" {
		return nil
	}
	// split at top-level products only
	var out []string
	depth, last := 0, 0
	rs := []rune(ty)
	for i := 0; i < len(rs); i++ {
		switch rs[i] {
		case '(':
			depth++
		case ')':
			depth--
		case '×':
			if depth == 0 {
				out = append(out, strings.TrimSpace(string(rs[last:i])))
				last = i + 1
			}
		}
	}
	return append(out, strings.TrimSpace(string(rs[last:])))
}

// call returns one ex per Go result; for a multi-result call the components of a bound tuple
func (t *tr) call(e *ast.CallExpr) []ex {
	fun := str(e.Fun)
	p := t.path(e.Fun)
	if o := findOp(p); o != nil && !o.field {
		a := ""
		if !o.ignoreArgs {
			a = t.args(e, o.args)
		}
		s := "ops." + o.lean
		if a != "" {
			s += " " + a
		}
		return t.results1("(← "+s+")", o.ret)
	}
	one := func() ex {
		if len(e.Args) != 1 {
			fail("line %d: conversion `%s`", line(e), str(e))
		}
		return t.expr(e.Args[0])
	}
	// fmt.Errorf("%s", err.Error()): a new error with the same text
	if fun == "fmt.Errorf" && len(e.Args) == 2 && str(e.Args[0]) == `"%s"` {
		if c, ok := e.Args[1].(*ast.CallExpr); ok && len(c.Args) == 0 {
			if sel, ok := c.Fun.(*ast.SelectorExpr); ok && sel.Sel.Name == "Error" {
				x := t.expr(sel.X)
				if x.ty == "Option String" {
					t.note(e, "`%s` is an error with the text of %s: the same error value (calling Error() on a nil error would panic: the translation is `deref`)", str(e), str(sel.X))
					return []ex{{"(some (← Go.deref " + x.s + "))", "Option String"}}
				}
			}
		}
	}
	if v, ok := errValue(str(e)); ok {
		t.note(e, "error value `%s` is (some \"%s\") (DECLARED by the translator's table; the formatted text is not modelled)", strings.SplitN(str(e), ",", 2)[0], v)
		return []ex{{"(some \"" + v + "\")", "Option String"}}
	}
	// time.Time values are nanosecond counts; a zero Time (IsZero) is `none` of an `Option Int` field
	if sel, ok := e.Fun.(*ast.SelectorExpr); ok && sel.Sel.Name == "IsZero" && len(e.Args) == 0 {
		x := t.expr(sel.X)
		if x.ty == "Option Int" {
			t.note(e, "`%s`: a time.Time field is an Option Int of nanoseconds, the zero Time is none", str(e))
			return []ex{{"(" + x.s + " = none)", "Prop"}}
		}
	}
	if sel, ok := e.Fun.(*ast.SelectorExpr); ok && sel.Sel.Name == "Seconds" && len(e.Args) == 0 {
		if in, ok := sel.X.(*ast.CallExpr); ok {
			if s2, ok := in.Fun.(*ast.SelectorExpr); ok && s2.Sel.Name == "Sub" && len(in.Args) == 1 {
				a := t.expr(s2.X)
				b := t.expr(in.Args[0])
				bs := b.s
				if b.ty == "Option Int" {
					bs = "(← Go.deref " + b.s + ")"
				} else if b.ty != "Int" {
					fail("line %d: `%s`", line(e), str(e))
				}
				if a.ty != "Int" {
					fail("line %d: `%s`", line(e), str(e))
				}
				t.note(e, "`%s`: difference of two clock readings (ns) as float seconds: F64.secondsOfNanos", str(e))
				return []ex{{"(F64.secondsOfNanos (" + a.s + " - " + bs + "))", "F64"}}
			}
		}
	}
	switch {
	case fun == "os.IsNotExist" && importDir(t.file, "os") == "<ext>os" && len(e.Args) == 1:
		x := t.expr(e.Args[0])
		if x.ty != "Option String" {
			fail("line %d: os.IsNotExist on %s", line(e), x.ty)
		}
		t.note(e, "os.IsNotExist(_) is (_ = some \"notexist\"): not-exist errors are the error string \"notexist\"")
		return []ex{{"(" + x.s + " = some \"notexist\")", "Prop"}}
	case fun == "append" && len(e.Args) == 2 && !e.Ellipsis.IsValid():
		a := t.expr(e.Args[0])
		if !strings.HasPrefix(a.ty, "Array ") {
			fail("line %d: append to %s", line(e), a.ty)
		}
		x := t.conv(t.expr(e.Args[1]), strings.TrimPrefix(a.ty, "Array "), e.Args[1])
		return []ex{{"(" + a.s + ".push " + x + ")", a.ty}}
	case fun == "math.IsNaN" && importDir(t.file, "math") == "<ext>math":
		return []ex{{"(F64.isNaN " + t.conv(one(), "F64", e) + ")", "Bool"}}
	case fun == "math.IsInf" && importDir(t.file, "math") == "<ext>math" && len(e.Args) == 2 && str(e.Args[1]) == "0":
		x := t.conv(t.expr(e.Args[0]), "F64", e.Args[0])
		t.note(e, "math.IsInf(x, 0): neither NaN nor finite")
		return []ex{{"((! (F64.isNaN " + x + ")) && (! (F64.isFinite " + x + ")))", "Bool"}}
	case fun == "math.Round" && importDir(t.file, "math") == "<ext>math":
		return []ex{{"(F64.round " + t.conv(one(), "F64", e) + ")", "F64"}}
	case fun == "util.Coerce" && importDir(t.file, "util") == "internal/util":
		t.note(e, "util.Coerce is Generated.util_Coerce (transgen)")
		return []ex{{"(Generated.util_Coerce indef " + t.args(e, []string{"F64", "F64", "F64"}) + ")", "F64"}}
	case fun == "util.CalculateInterpolatedCurveValue" && importDir(t.file, "util") == "internal/util" && len(e.Args) == 3:
		m := t.expr(e.Args[0])
		if m.ty != "Option (List (Int × F64))" {
			fail("line %d: steps of type %s", line(e), m.ty)
		}
		ty := t.expr(e.Args[1])
		x := t.conv(t.expr(e.Args[2]), "F64", e.Args[2])
		t.note(e, "util.CalculateInterpolatedCurveValue is Generated2.util_CalculateInterpolatedCurveValue (transgen2), lifted; a nil map is the empty map")
		return []ex{{"(← Go.liftRes (Generated2.util_CalculateInterpolatedCurveValue indef (Go.mapOf " + m.s + ") " + ty.s + " " + x + "))", "F64"}}
	case isIntType(fun):
		x := one()
		if x.ty == "Int" || x.ty == "const" {
			return []ex{{x.s, "Int"}}
		}
		fail("line %d: conversion `%s`", line(e), str(e))
	case fun == "errors.Is" && importDir(t.file, "errors") == "<ext>errors" && len(e.Args) == 2 && str(e.Args[1]) == "os.ErrPermission":
		x := t.expr(e.Args[0])
		if x.ty != "Option String" {
			fail("line %d: errors.Is on %s", line(e), x.ty)
		}
		t.note(e, "errors.Is(_, os.ErrPermission) is (_ = some \"perm\"): permission errors are the error string \"perm\"")
		return []ex{{"(" + x.s + " = some \"perm\")", "Prop"}}
	case fun == "len":
		x := one()
		if strings.HasPrefix(x.ty, "List (") {
			return []ex{{"(Go.lenM " + x.s + ")", "Int"}}
		}
		if x.ty == "String" {
			return []ex{{"(Go.lenS " + x.s + ")", "Int"}}
		}
		fail("line %d: len of %s", line(e), x.ty)
	case fun == "ComputePwmBoundaries" && cur.dir == "internal/fans" && len(e.Args) == 1 && t.path(e.Args[0]) == cur.recvPath:
		// fans.ComputePwmBoundaries(fan) is Generated2.fans_ComputePwmBoundaries (transgen2) applied to what the fan's own
		// GetFanRpmCurveData / GetStartPwm return
		for _, need := range []string{"HwMonFan_GetFanRpmCurveData", "HwMonFan_GetStartPwm"} {
			if done[need] == nil {
				fail("line %d: ComputePwmBoundaries needs %s, whose translation is unsupported", line(e), need)
			}
		}
		t.note(e, "fans.ComputePwmBoundaries(fan) is Generated2.fans_ComputePwmBoundaries (transgen2) on the fan's own GetFanRpmCurveData() (dereferenced: nil panics) and GetStartPwm()")
		return t.results1("(← Go.liftRes (Generated2.fans_ComputePwmBoundaries indef (← Go.deref (← HwMonFan_GetFanRpmCurveData indef ops)) (← HwMonFan_GetStartPwm indef ops) ()))", "Int × Int")
	case fun == "fmt.Sprintf" && len(e.Args) == 2 && str(e.Args[0]) == `"%d"`:
		x := t.conv(t.expr(e.Args[1]), "Int", e.Args[1])
		t.note(e, "`%s`: the decimal text of an int (Go.itoa)", str(e))
		return []ex{{"(Go.itoa " + x + ")", "String"}}
	case (fun == "[]byte" || fun == "strings.NewReader") && len(e.Args) == 1:
		x := t.expr(e.Args[0])
		if x.ty != "String" {
			fail("line %d: %s of %s", line(e), fun, x.ty)
		}
		t.note(e, "`%s`: bytes / a reader over a string are carried as the string", str(e))
		return []ex{x}
	case fun == "string" && len(e.Args) == 1:
		x := t.expr(e.Args[0])
		if x.ty != "String" {
			fail("line %d: string(%s)", line(e), x.ty)
		}
		t.note(e, "`%s`: a []byte read from outside is carried as a string", str(e))
		return []ex{x}
	case fun == "float64":
		x := one()
		switch x.ty {
		case "Int", "const":
			return []ex{{"(F64.ofInt " + x.s + ")", "F64"}}
		case "F64":
			return []ex{x}
		}
		fail("line %d: conversion `%s`", line(e), str(e))
	case fun == "int":
		x := one()
		switch x.ty {
		case "F64":
			return []ex{{"(F64.toInt indef " + x.s + ")", "Int"}}
		case "Int", "const":
			return []ex{{x.s, "Int"}}
		}
		fail("line %d: conversion `%s`", line(e), str(e))
	case fun == "time.Now" && findOp("time.Now") != nil && len(e.Args) == 0:
		t.note(e, "time.Now() is the operation `now` (nanoseconds)")
		return []ex{{"(← ops.now)", "Int"}}
	case (fun == "util.ExtractKeysWithDistinctValues" && importDir(t.file, "util") == "internal/util" && len(e.Args) == 1):
		m := t.expr(e.Args[0])
		if m.ty != "Option (List (Int × Int))" {
			fail("line %d: ExtractKeysWithDistinctValues of %s", line(e), m.ty)
		}
		t.note(e, "util.ExtractKeysWithDistinctValues is Generated2.util_ExtractKeysWithDistinctValues (transgen2; a nil map ranges like an empty one), lifted into the state monad")
		return []ex{{"(← Go.liftRes (Generated2.util_ExtractKeysWithDistinctValues indef (" + m.s + ".getD [])))", "Array Int"}}
	case (fun == "util.FindClosest" && importDir(t.file, "util") == "internal/util"):
		t.note(e, "util.FindClosest is Generated2.util_FindClosest (transgen2), lifted into the state monad")
		return []ex{{"(← Go.liftRes (Generated2.util_FindClosest indef " + t.args(e, []string{"Int", "Array Int"}) + "))", "Int"}}
	case (fun == "util.UpdateSimpleMovingAvg" && importDir(t.file, "util") == "internal/util"):
		t.note(e, "util.UpdateSimpleMovingAvg is Generated.util_UpdateSimpleMovingAvg (transgen)")
		return []ex{{"(Generated.util_UpdateSimpleMovingAvg indef " + t.args(e, []string{"F64", "Int", "F64"}) + ")", "F64"}}
	}
	// another target of the group: method on the receiver, or a package-level function taking the receiver's fan
	name := ""
	onRecv := false
	if s, ok := e.Fun.(*ast.SelectorExpr); ok {
		if id, ok := s.X.(*ast.Ident); ok && id.Name == t.recv && t.recv != "" {
			name = s.Sel.Name
			onRecv = true
		}
	} else if id, ok := e.Fun.(*ast.Ident); ok {
		name = id.Name
	}
	for i := range cur.targets {
		g := &cur.targets[i]
		if g.fn != name || (onRecv && g.recv != t.tg.recv) || (!onRecv && g.recv != "") {
			continue
		}
		d := done[g.name]
		if d == nil {
			fail("line %d: call of %s, whose own translation is unsupported (or comes later)", line(e), fun)
		}
		fd, _ := load(cur.dir).fn(g.recv, g.fn)
		var want []string
		var argv []ast.Expr
		k := 0
		for _, fl := range fd.Type.Params.List {
			for _, n := range fl.Names {
				if a, isAlias := g.alias[n.Name]; isAlias {
					// an interface parameter that stands for a receiver path: the argument must be that path
					if k >= len(e.Args) || t.path(e.Args[k]) != a {
						fail("line %d: call of %s: argument %d must be %s", line(e), fun, k, a)
					}
				} else {
					want = append(want, d.goTyp(fl.Type))
					argv = append(argv, e.Args[k])
				}
				k++
			}
		}
		if k != len(e.Args) {
			fail("line %d: call of %s: argument count", line(e), fun)
		}
		var as []string
		for i, a := range argv {
			as = append(as, t.conv(t.expr(a), want[i], a))
		}
		s := g.name + " indef ops"
		if len(as) > 0 {
			s += " " + strings.Join(as, " ")
		}
		rt := "Unit"
		if len(d.results) > 0 {
			rt = strings.Join(d.results, " × ")
		}
		return t.results1("(← "+s+")", rt)
	}
	fail("line %d: call of %s (path %s): not an operation of the record, a conversion, or a translated function", line(e), fun, p)
	return nil
}

var tmpCounter = 0

// results1 wraps an effectful expression of (tuple) type ty into per-result expressions
func (t *tr) results1(s, ty string) []ex {
	parts := splitTuple(ty)
	switch len(parts) {
	case 0:
		return []ex{{s, "Unit"}}
	case 1:
		return []ex{{s, parts[0]}}
	}
	// the caller (assignment) binds the tuple; mark with a pseudo expression
	out := []ex{}
	for i, p := range parts {
		out = append(out, ex{fmt.Sprintf("%s.%d", s, i+1), p})
	}
	out[0].s = s // the first carries the whole effectful expression; see bindCall
	return out
}

// ---------------------------------------------------------------- statements
func ind(lines []string) []string {
	out := make([]string, len(lines))
	for i, l := range lines {
		out[i] = "  " + l
	}
	return out
}

func (t *tr) declare(name, ty string, n ast.Node) string {
	if name == "_" {
		return "_"
	}
	base := mangle(name)
	t.used[base]++
	lean := base
	if t.used[base] > 1 {
		lean = fmt.Sprintf("%s_%d", base, t.used[base]-1)
		t.note(n, "`%s` declares %s again (shadowing / a second scope): Lean name %s", strings.SplitN(str(n), "{", 2)[0], name, lean)
	}
	t.vars[name] = ty
	t.names[name] = lean
	delete(t.alias, name)
	return lean
}

func (t *tr) scoped(f func() []string) []string {
	sv, sn, sa := map[string]string{}, map[string]string{}, map[string]string{}
	for k, v := range t.vars {
		sv[k] = v
	}
	for k, v := range t.names {
		sn[k] = v
	}
	for k, v := range t.alias {
		sa[k] = v
	}
	out := f()
	t.vars, t.names, t.alias = sv, sn, sa
	return out
}

func (t *tr) block(list []ast.Stmt) []string {
	var out []string
	for _, s := range list {
		out = append(out, t.stmt(s)...)
	}
	if len(out) == 0 {
		out = []string{"pure ()"}
	}
	return out
}

func (t *tr) isLog(c *ast.CallExpr) bool {
	if sel, ok := c.Fun.(*ast.SelectorExpr); ok && str(sel.X) == "ui" && importDir(t.file, "ui") == "internal/ui" && sel.Sel.Name != "Fatal" {
		return true
	}
	return false
}

// every statement nested in a block
func allStmts(b *ast.BlockStmt) []ast.Stmt {
	var out []ast.Stmt
	ast.Inspect(b, func(n ast.Node) bool {
		if s, ok := n.(ast.Stmt); ok {
			out = append(out, s)
		}
		return true
	})
	return out
}

// an if statement whose branches contain nothing but logging calls
func (t *tr) onlyLogs(is *ast.IfStmt) bool {
	if is.Init != nil {
		return false
	}
	blk := func(b *ast.BlockStmt) bool {
		for _, x := range b.List {
			es, ok := x.(*ast.ExprStmt)
			if !ok {
				return false
			}
			c, ok := es.X.(*ast.CallExpr)
			if !ok || !t.isLog(c) {
				return false
			}
		}
		return true
	}
	if !blk(is.Body) {
		return false
	}
	switch e := is.Else.(type) {
	case nil:
		return true
	case *ast.BlockStmt:
		return blk(e)
	}
	return false
}

// multi-value definition / assignment from a call
func (t *tr) bindCall(lhs []ast.Expr, c *ast.CallExpr, define bool, n ast.Stmt) []string {
	rs := t.call(c)
	if len(rs) != len(lhs) {
		fail("line %d: `%s`: %d results for %d variables", line(n), str(n), len(rs), len(lhs))
	}
	tmpCounter++
	tmp := fmt.Sprintf("__r%d", tmpCounter)
	var tys []string
	for _, r := range rs {
		tys = append(tys, r.ty)
	}
	out := []string{"let " + tmp + " : " + strings.Join(tys, " × ") + " ← " + strings.TrimSuffix(strings.TrimPrefix(rs[0].s, "(← "), ")")}
	for i, l := range lhs {
		id, ok := l.(*ast.Ident)
		if !ok {
			fail("line %d: `%s`", line(n), str(n))
		}
		if id.Name == "_" {
			continue
		}
		comp := fmt.Sprintf("%s.%d", tmp, i+1)
		if len(rs) == 2 && i == 1 {
			comp = tmp + ".2"
		}
		_, exists := t.vars[id.Name]
		if define && !(exists && t.sameScopeRedecl(id.Name)) {
			lean := t.declare(id.Name, rs[i].ty, n)
			out = append(out, "let mut "+lean+" : "+rs[i].ty+" := "+comp)
		} else {
			if !exists {
				fail("line %d: assignment to unknown %s", line(n), id.Name)
			}
			if t.vars[id.Name] != rs[i].ty {
				fail("line %d: `%s`: %s has type %s, result has %s", line(n), str(n), id.Name, t.vars[id.Name], rs[i].ty)
			}
			out = append(out, t.names[id.Name]+" := "+comp)
		}
	}
	return out
}

// `a, err := f()` where err already exists IN THE SAME SCOPE re-uses err (Go's := rule); scopes are tracked by level
func (t *tr) sameScopeRedecl(name string) bool { return t.scopeOf[name] == t.level }

func (t *tr) stmt(st ast.Stmt) []string {
	ln := line(st)
	for k, eff := range cur.effects {
		if strings.HasPrefix(str(st), k) {
			var as []string
			for _, v := range strings.Split(eff[1], ",") {
				n, ok := t.names[v]
				if !ok {
					fail("line %d: `%s`: %s is not a variable here", ln, k, v)
				}
				as = append(as, n)
			}
			t.note(st, "`%s`: modelled as the operation %s on %s (DECLARED by the translator's table)", k, eff[0], eff[1])
			return []string{"ops." + eff[0] + " " + strings.Join(as, " ")}
		}
	}
	for k, why := range cur.skips {
		if strings.HasPrefix(str(st), k) {
			if is, ok := st.(*ast.IfStmt); ok && !t.onlyLogs(is) {
				fail("line %d: `%s` is declared to only log, but does more", ln, k)
			}
			t.note(st, "SKIPPED (DECLARED by the translator's table: %s): `%s`", why, k)
			return nil
		}
	}
	switch s := st.(type) {
	case *ast.EmptyStmt:
		return nil
	case *ast.ExprStmt:
		if c, ok := s.X.(*ast.CallExpr); ok {
			if t.isLog(c) {
				t.note(st, "SKIPPED (logging): `%s`", str(st))
				return nil
			}
			if strings.HasSuffix(str(c.Fun), "Mu.Lock") || strings.HasSuffix(str(c.Fun), "Mu.Unlock") || strings.HasSuffix(str(c.Fun), ".mu.Lock") ||
				strings.HasSuffix(str(c.Fun), "Mutex.Lock") || strings.HasSuffix(str(c.Fun), "Mutex.Unlock") {
				t.note(st, "SKIPPED (mutex; mutual exclusion is C20's subject): `%s`", str(st))
				return nil
			}
			if o := findOp(t.path(c.Fun)); o != nil && o.inPlace && len(c.Args) == 1 {
				id, ok := c.Args[0].(*ast.Ident)
				if !ok || t.vars[id.Name] != o.ret {
					fail("line %d: `%s`: in-place operation on something that is not a local %s", ln, str(st), o.ret)
				}
				t.note(st, "`%s` updates the slice in place: the variable takes the operation's result", str(st))
				return []string{t.names[id.Name] + " := (← ops." + o.lean + " " + t.names[id.Name] + ")"}
			}
			rs := t.call(c)
			if len(rs) == 1 && rs[0].ty == "Unit" {
				return []string{strings.TrimSuffix(strings.TrimPrefix(rs[0].s, "(← "), ")")}
			}
			return []string{"let _ ← " + strings.TrimSuffix(strings.TrimPrefix(rs[0].s, "(← "), ")")}
		}
		fail("line %d: statement `%s`", ln, str(st))
	case *ast.DeferStmt:
		if strings.HasSuffix(str(s.Call.Fun), "Mu.Unlock") || strings.HasSuffix(str(s.Call.Fun), ".mu.Unlock") || strings.HasSuffix(str(s.Call.Fun), "Mutex.Unlock") {
			t.note(st, "SKIPPED (mutex; mutual exclusion is C20's subject): `%s`", str(st))
			return nil
		}
		fail("line %d: defer `%s`", ln, str(st))
	case *ast.DeclStmt:
		gd := s.Decl.(*ast.GenDecl)
		if gd.Tok == token.VAR && len(gd.Specs) == 1 {
			vs := gd.Specs[0].(*ast.ValueSpec)
			if len(vs.Names) == 1 {
				name := vs.Names[0].Name
				if len(vs.Values) == 1 && vs.Type == nil {
					return t.stmt(&ast.AssignStmt{Lhs: []ast.Expr{vs.Names[0]}, Tok: token.DEFINE, Rhs: vs.Values, TokPos: st.Pos()})
				}
				if len(vs.Values) == 0 && vs.Type != nil {
					ty := t.goTyp(vs.Type)
					lean := t.declare(name, ty, st)
					t.scopeOf[name] = t.level
					return []string{"let mut " + lean + " : " + ty + " := " + zero(ty)}
				}
			}
		}
		fail("line %d: declaration `%s`", ln, str(st))
	case *ast.AssignStmt:
		if len(s.Lhs) == 1 && len(s.Rhs) == 1 && s.Tok == token.DEFINE {
			if h, ok := cur.binders[str(s.Rhs[0])]; ok {
				if id, isId := s.Lhs[0].(*ast.Ident); isId {
					t.alias[id.Name] = h
					delete(t.vars, id.Name)
					t.note(st, "`%s`: %s stands for the handle `%s` from here on (DECLARED by the translator's table; a failing type assertion is outside the translation)", str(st), id.Name, h)
					return nil
				}
			}
		}
		if len(s.Lhs) == 2 && len(s.Rhs) == 1 {
			if c, ok := s.Rhs[0].(*ast.CallExpr); ok {
				if h, ok := cur.hbinders[str(c.Fun)]; ok {
					// `info, err := os.Stat(file)`: the first result is an interface handle, the operation yields the error
					id0, ok0 := s.Lhs[0].(*ast.Ident)
					id1, ok1 := s.Lhs[1].(*ast.Ident)
					o := findOp(str(c.Fun))
					if ok0 && ok1 && o != nil {
						t.alias[id0.Name] = h
						delete(t.vars, id0.Name)
						t.note(st, "`%s`: %s stands for the handle `%s` (DECLARED by the translator's table); the operation `%s` yields the error", str(st), id0.Name, h, o.lean)
						call := "(← ops." + o.lean + " " + t.args(c, o.args) + ")"
						_, exists := t.vars[id1.Name]
						if s.Tok == token.DEFINE && !(exists && t.sameScopeRedecl(id1.Name)) {
							lean := t.declare(id1.Name, "Option String", st)
							t.scopeOf[id1.Name] = t.level
							return []string{"let mut " + lean + " : Option String := " + call}
						}
						return []string{t.names[id1.Name] + " := " + call}
					}
				}
			}
		}
		if len(s.Lhs) == 2 && len(s.Rhs) == 1 && s.Tok == token.DEFINE {
			if h, ok := cur.binders[str(s.Rhs[0])]; ok && str(s.Lhs[1]) == "_" {
				id, isId := s.Lhs[0].(*ast.Ident)
				if isId {
					t.alias[id.Name] = h
					delete(t.vars, id.Name)
					t.note(st, "`%s`: %s stands for the interface handle `%s` from here on (DECLARED by the translator's table)", str(st), id.Name, h)
					return nil
				}
			}
		}
		if len(s.Rhs) == 1 {
			if c, ok := s.Rhs[0].(*ast.CallExpr); ok && len(s.Lhs) >= 2 {
				return t.bindCall(s.Lhs, c, s.Tok == token.DEFINE, st)
			}
		}
		if len(s.Lhs) != 1 || len(s.Rhs) != 1 {
			fail("line %d: multi-assignment `%s`", ln, str(st))
		}
		if id, ok := s.Lhs[0].(*ast.Ident); ok && id.Name == "_" {
			c, ok := s.Rhs[0].(*ast.CallExpr)
			if !ok {
				fail("line %d: `%s`", ln, str(st))
			}
			rs := t.call(c)
			return []string{"let _ ← " + strings.TrimSuffix(strings.TrimPrefix(rs[0].s, "(← "), ")")}
		}
		if s.Tok == token.DEFINE {
			id, ok := s.Lhs[0].(*ast.Ident)
			if !ok {
				fail("line %d: `%s`", ln, str(st))
			}
			// alias of a receiver path: `fan := f.fan`
			if p := t.path(s.Rhs[0]); isHandle(p) {
				t.alias[id.Name] = p
				delete(t.vars, id.Name)
				t.note(st, "`%s`: %s stands for %s from here on", str(st), id.Name, p)
				return nil
			}
			v := t.expr(s.Rhs[0])
			ty := v.ty
			if ty == "const" {
				ty = "Int"
			}
			if ty == "Prop" {
				v = ex{t.conv(v, "Bool", s.Rhs[0]), "Bool"}
				ty = "Bool"
			}
			if ty == "nil" {
				fail("line %d: `%s`: untyped nil", ln, str(st))
			}
			val := t.conv(v, ty, s.Rhs[0])
			lean := t.declare(id.Name, ty, st)
			t.scopeOf[id.Name] = t.level
			return []string{"let mut " + lean + " : " + ty + " := " + val}
		}
		// assignment: to a local, or to a settable receiver field
		rhs := s.Rhs[0]
		if s.Tok != token.ASSIGN {
			op, ok := map[token.Token]token.Token{token.ADD_ASSIGN: token.ADD, token.SUB_ASSIGN: token.SUB, token.MUL_ASSIGN: token.MUL}[s.Tok]
			if !ok {
				fail("line %d: `%s`", ln, str(st))
			}
			rhs = &ast.BinaryExpr{X: s.Lhs[0], Op: op, Y: &ast.ParenExpr{X: rhs}}
		}
		if id, ok := s.Lhs[0].(*ast.Ident); ok {
			ty, ok := t.vars[id.Name]
			if !ok {
				fail("line %d: assignment to %s, which is not a known variable", ln, id.Name)
			}
			return []string{t.names[id.Name] + " := " + t.conv(t.expr(rhs), ty, st)}
		}
		if ix, ok := s.Lhs[0].(*ast.IndexExpr); ok {
			if id, ok := ix.X.(*ast.Ident); ok && (t.vars[id.Name] == "Option (List (Int × Int))" || t.vars[id.Name] == "Option (List (Int × F64))") && s.Tok == token.ASSIGN {
				k := t.conv(t.expr(ix.Index), "Int", ix.Index)
				vt := "Int"
				if t.vars[id.Name] == "Option (List (Int × F64))" {
					vt = "F64"
				}
				v := t.conv(t.expr(rhs), vt, rhs)
				n := t.names[id.Name]
				return []string{n + " := some (Go.mapPut (← Go.deref " + n + ") " + k + " " + v + ")"}
			}
		}
		p := t.path(s.Lhs[0])
		if o := findOp(p); o != nil && o.field && o.set {
			v := t.expr(rhs)
			if o.ret == "Option Int" && v.ty == "Int" && strings.HasSuffix(o.goText, "Time") {
				return []string{"ops.set_" + o.lean + " (some " + v.s + ")"} // a clock reading stored in a time.Time field
			}
			return []string{"ops.set_" + o.lean + " " + t.conv(v, o.ret, st)}
		}
		// (*fan.Field)[k] = v   on a pointer-to-map field
		if ix, ok := s.Lhs[0].(*ast.IndexExpr); ok {
			if pe, ok := ix.X.(*ast.ParenExpr); ok {
				if se, ok := pe.X.(*ast.StarExpr); ok {
					if o := findOp(t.path(se.X)); o != nil && o.field && o.set && o.ret == "Option (List (Int × F64))" {
						k := t.conv(t.expr(ix.Index), "Int", ix.Index)
						v := t.conv(t.expr(rhs), "F64", rhs)
						return []string{"ops.set_" + o.lean + " (some (Go.mapSet (← Go.deref (← ops.get_" + o.lean + ")) " + k + " " + v + "))"}
					}
				}
			}
		}
		fail("line %d: assignment to `%s` (path %s)", ln, str(s.Lhs[0]), p)
	case *ast.IncDecStmt:
		id, ok := s.X.(*ast.Ident)
		if !ok || t.vars[id.Name] != "Int" {
			fail("line %d: `%s`", ln, str(st))
		}
		n := t.names[id.Name]
		return []string{n + " := " + n + " " + map[token.Token]string{token.INC: "+", token.DEC: "-"}[s.Tok] + " 1"}
	case *ast.ReturnStmt:
		return t.ret(s)
	case *ast.BlockStmt:
		return t.scoped(func() []string { t.level++; defer func() { t.level-- }(); return t.block(s.List) })
	case *ast.IfStmt:
		return t.ifStmt(s)
	case *ast.SwitchStmt:
		return t.switchStmt(s)
	case *ast.BranchStmt:
		if s.Tok == token.CONTINUE && s.Label == nil {
			return []string{"continue"}
		}
		fail("line %d: %s", ln, s.Tok)
	case *ast.ForStmt:
		// `for i := A; i >= B; i-- { ... }` with constant bounds and a body that leaves i alone: `for i in Go.downFrom A B do`
		as, ok1 := s.Init.(*ast.AssignStmt)
		be, ok2 := s.Cond.(*ast.BinaryExpr)
		ps, ok3 := s.Post.(*ast.IncDecStmt)
		if !ok1 || !ok2 || !ok3 || as.Tok != token.DEFINE || len(as.Lhs) != 1 || be.Op != token.GEQ || ps.Tok != token.DEC ||
			str(be.X) != str(as.Lhs[0]) || str(ps.X) != str(as.Lhs[0]) {
			fail("line %d: for statement `%s` (only `for i := A; i >= B; i--`)", ln, strings.SplitN(str(st), "{", 2)[0])
		}
		iv := str(as.Lhs[0])
		from, to := t.expr(as.Rhs[0]), t.expr(be.Y)
		if effectful(from.s) || effectful(to.s) {
			fail("line %d: loop bounds with effects", ln)
		}
		for _, b := range allStmts(s.Body) {
			if br, ok := b.(*ast.BranchStmt); ok {
				fail("line %d: %s inside a for loop", line(b), br.Tok)
			}
			if a2, ok := b.(*ast.AssignStmt); ok {
				for _, l := range a2.Lhs {
					if str(l) == iv {
						fail("line %d: the loop variable is assigned in the body", line(b))
					}
				}
			}
			if i2, ok := b.(*ast.IncDecStmt); ok && str(i2.X) == iv {
				fail("line %d: the loop variable is changed in the body", line(b))
			}
		}
		lv := ""
		body := t.scoped(func() []string {
			t.level++
			defer func() { t.level-- }()
			lv = t.declare(iv, "Int", st)
			t.scopeOf[iv] = t.level
			return t.block(s.Body.List)
		})
		out := []string{"for " + lv + " in Go.downFrom " + t.conv(from, "Int", as.Rhs[0]) + " " + t.conv(to, "Int", be.Y) + " do"}
		return append(out, ind(body)...)
	case *ast.TypeSwitchStmt:
		// `switch x := <handle>.(type)`: the concrete type is an operation of the record (a tag), inside the cases x
		// stands for the handle `<x>T`
		as, ok := s.Assign.(*ast.AssignStmt)
		if !ok || len(as.Lhs) != 1 || len(as.Rhs) != 1 || cur.typeSwitch == nil {
			fail("line %d: type switch `%s`", ln, strings.SplitN(str(st), "{", 2)[0])
		}
		ta, ok := as.Rhs[0].(*ast.TypeAssertExpr)
		if !ok || !isHandle(t.path(ta.X)) {
			fail("line %d: type switch on `%s`", ln, str(as.Rhs[0]))
		}
		x := str(as.Lhs[0])
		hname := strings.ReplaceAll(strings.TrimPrefix(t.path(ta.X), cur.recvPath+"."), ".", "_")
		t.note(st, "type switch on %s: the concrete type is the operation typeTag_%s (tags %v, anything else -1); inside a case `%s` stands for the handle `%sT`",
			t.path(ta.X), hname, cur.typeSwitch, x, hname)
		tagv := fmt.Sprintf("__tag%d", ln)
		out := []string{"let " + tagv + " : Int ← ops.typeTag_" + hname}
		var build func(i int) []string
		clauses := s.Body.List
		var def []ast.Stmt
		var arms []*ast.CaseClause
		for _, c := range clauses {
			cc := c.(*ast.CaseClause)
			if cc.List == nil {
				def = cc.Body
				continue
			}
			arms = append(arms, cc)
		}
		inCase := func(body []ast.Stmt) []string {
			return t.scoped(func() []string {
				t.level++
				defer func() { t.level-- }()
				t.alias[x] = hname + "T"
				delete(t.vars, x)
				return t.block(body)
			})
		}
		build = func(i int) []string {
			if i == len(arms) {
				for _, b := range def {
					es, ok := b.(*ast.ExprStmt)
					if !ok || !strings.HasPrefix(str(es.X), "fmt.Println(") {
						fail("line %d: default clause of the type switch does more than print", line(b))
					}
					t.note(b, "SKIPPED (prints a message): `%s`", str(b))
				}
				return []string{"pure ()"}
			}
			var cs []string
			for _, ty := range arms[i].List {
				tag, ok := cur.typeSwitch[str(ty)]
				if !ok {
					fail("line %d: type switch case %s has no tag in the translator's table", line(ty), str(ty))
				}
				cs = append(cs, fmt.Sprintf("(%s = %d)", tagv, tag))
			}
			o := []string{"if " + strings.Join(cs, " ∨ ") + " then"}
			o = append(o, ind(inCase(arms[i].Body))...)
			o = append(o, "else")
			o = append(o, ind(build(i+1))...)
			return o
		}
		return append(out, build(0)...)
	case *ast.RangeStmt:
		// `for _, x := range xs { ... }` over a slice: Lean's `for x in xs do` (ForIn of Array in the monad GoM)
		if s.Tok != token.DEFINE || s.Key == nil || str(s.Key) != "_" || s.Value == nil {
			fail("line %d: range statement `%s` (only `for _, x := range xs`)", ln, strings.SplitN(str(st), "{", 2)[0])
		}
		id, ok := s.Value.(*ast.Ident)
		if !ok {
			fail("line %d: range value", ln)
		}
		xs := t.expr(s.X)
		if !strings.HasPrefix(xs.ty, "Array ") {
			fail("line %d: range over %s", ln, xs.ty)
		}
		for _, b := range allStmts(s.Body) {
			if br, ok := b.(*ast.BranchStmt); ok && (br.Tok != token.CONTINUE || br.Label != nil) {
				fail("line %d: %s inside a range loop", line(b), br.Tok)
			}
		}
		elt := strings.TrimPrefix(xs.ty, "Array ")
		var out []string
		arr := xs.s
		if effectful(arr) {
			tmp := fmt.Sprintf("__xs%d", ln)
			out = append(out, "let "+tmp+" : "+xs.ty+" := "+arr)
			arr = tmp
		}
		lv := ""
		body := t.scoped(func() []string {
			t.level++
			defer func() { t.level-- }()
			lv = t.declare(id.Name, elt, st)
			t.scopeOf[id.Name] = t.level
			return t.block(s.Body.List)
		})
		out = append(out, "for "+lv+" in "+arr+" do")
		out = append(out, ind(body)...)
		return out
	}
	fail("line %d: statement `%s` (%T)", ln, strings.SplitN(str(st), "{", 2)[0], st)
	return nil
}

func (t *tr) ret(s *ast.ReturnStmt) []string {
	res := s.Results
	if len(res) == 0 {
		if len(t.results) == 0 {
			return []string{"return ()"}
		}
		if len(t.named) == 0 {
			fail("line %d: bare return", line(s))
		}
		for _, n := range t.named {
			res = append(res, ast.NewIdent(n))
		}
	}
	if len(res) == 1 && len(t.results) > 1 {
		// return f()  with a multi-result call
		c, ok := res[0].(*ast.CallExpr)
		if !ok {
			fail("line %d: `%s`", line(s), str(s))
		}
		rs := t.call(c)
		if len(rs) != len(t.results) {
			fail("line %d: `%s`: result count", line(s), str(s))
		}
		for i := range rs {
			if rs[i].ty != t.results[i] {
				fail("line %d: `%s`: result %d has type %s, want %s", line(s), str(s), i, rs[i].ty, t.results[i])
			}
		}
		return []string{"return " + rs[0].s}
	}
	if len(res) != len(t.results) {
		fail("line %d: `%s`: %d results expected", line(s), str(s), len(t.results))
	}
	var vals []string
	for i, r := range res {
		vals = append(vals, t.conv(t.expr(r), t.results[i], r))
	}
	if len(vals) == 1 {
		return []string{"return " + vals[0]}
	}
	return []string{"return (" + strings.Join(vals, ", ") + ")"}
}

// the `~` expansion idiom of file sensors / file fans:
//
//	if strings.HasPrefix(v, "~") { currentUser, err := user.Current(); if err != nil { return ... }; v = filepath.Join(currentUser.HomeDir, v[1:]) }
//
// becomes the operation expandHome (the path, or the error of user.Current)
func (t *tr) tildeIdiom(s *ast.IfStmt) ([]string, bool) {
	c, ok := s.Cond.(*ast.CallExpr)
	if !ok || str(c.Fun) != "strings.HasPrefix" || len(c.Args) != 2 || str(c.Args[1]) != "\"~\"" || s.Else != nil || s.Init != nil || len(s.Body.List) != 3 {
		return nil, false
	}
	v, ok := c.Args[0].(*ast.Ident)
	if !ok || t.vars[v.Name] != "String" || findOp("expandHome") == nil {
		return nil, false
	}
	if str(s.Body.List[0]) != "currentUser, err := user.Current()" || str(s.Body.List[2]) != v.Name+" = filepath.Join(currentUser.HomeDir, "+v.Name+"[1:])" {
		return nil, false
	}
	inner, ok := s.Body.List[1].(*ast.IfStmt)
	if !ok || str(inner.Cond) != "err != nil" {
		return nil, false
	}
	tmpCounter++
	tmp := fmt.Sprintf("__h%d", tmpCounter)
	t.note(s, "`if strings.HasPrefix(%s, \"~\") { user.Current ... filepath.Join(HomeDir, %s[1:]) }` is the operation expandHome (path with the home directory, or the error of user.Current)", v.Name, v.Name)
	out := []string{"let " + tmp + " : String × Option String ← ops.expandHome " + t.names[v.Name]}
	out = append(out, t.scoped(func() []string {
		t.level++
		defer func() { t.level-- }()
		lean := t.declare("err", "Option String", s)
		t.scopeOf["err"] = t.level
		o := []string{"if (" + tmp + ".2 ≠ none) then"}
		body := []string{"let mut " + lean + " : Option String := " + tmp + ".2"}
		body = append(body, t.block(inner.Body.List)...)
		return append(o, ind(body)...)
	})...)
	out = append(out, t.names[v.Name]+" := "+tmp+".1")
	return out, true
}

func (t *tr) ifStmt(s *ast.IfStmt) []string {
	if l, ok := t.tildeIdiom(s); ok {
		return l
	}
	if s.Init != nil {
		// `if v, err := f(); cond { }`: the init statement lives in a scope that ends with the `if`
		return t.scoped(func() []string {
			t.level++
			defer func() { t.level-- }()
			out := t.stmt(s.Init)
			cp := *s
			cp.Init = nil
			return append(out, t.ifStmt(&cp)...)
		})
	}
	c := t.conv(t.expr(s.Cond), "Prop", s.Cond)
	out := []string{"if " + c + " then"}
	out = append(out, ind(t.scoped(func() []string { t.level++; defer func() { t.level-- }(); return t.block(s.Body.List) }))...)
	switch e := s.Else.(type) {
	case nil:
	case *ast.BlockStmt:
		out = append(out, "else")
		out = append(out, ind(t.scoped(func() []string { t.level++; defer func() { t.level-- }(); return t.block(e.List) }))...)
	case *ast.IfStmt:
		out = append(out, "else")
		out = append(out, ind(t.scoped(func() []string { return t.ifStmt(e) }))...)
	default:
		fail("line %d: else branch", line(s))
	}
	return out
}

func (t *tr) switchStmt(s *ast.SwitchStmt) []string {
	if s.Init != nil || s.Tag == nil {
		fail("line %d: switch with init clause / without tag", line(s))
	}
	tag := t.expr(s.Tag)
	if effectful(tag.s) {
		fail("line %d: switch on an effectful expression", line(s))
	}
	type arm struct {
		cond string
		body []ast.Stmt
	}
	var arms []arm
	var def []ast.Stmt
	hasDef := false
	for _, c := range s.Body.List {
		cc := c.(*ast.CaseClause)
		for _, b := range cc.Body {
			if br, ok := b.(*ast.BranchStmt); ok {
				fail("line %d: %s inside switch", line(b), br.Tok)
			}
		}
		if cc.List == nil {
			hasDef, def = true, cc.Body
			continue
		}
		var cs []string
		for _, v := range cc.List {
			x := t.expr(v)
			cs = append(cs, "("+tag.s+" = "+t.conv(x, tag.ty, v)+")")
		}
		arms = append(arms, arm{strings.Join(cs, " ∨ "), cc.Body})
	}
	var build func(i int) []string
	build = func(i int) []string {
		if i == len(arms) {
			if hasDef {
				return t.scoped(func() []string { t.level++; defer func() { t.level-- }(); return t.block(def) })
			}
			return []string{"pure ()"}
		}
		out := []string{"if " + arms[i].cond + " then"}
		out = append(out, ind(t.scoped(func() []string { t.level++; defer func() { t.level-- }(); return t.block(arms[i].body) }))...)
		out = append(out, "else")
		out = append(out, ind(build(i+1))...)
		return out
	}
	return build(0)
}

// ---------------------------------------------------------------- driver
type defOut struct {
	Name        string   `json:"name"`
	Source      string   `json:"source"`
	Lean        string   `json:"lean"`
	Comments    []string `json:"comments"`
	Unsupported string   `json:"unsupported"`
}

func translate(g *target) (out defOut) {
	out.Name = g.name
	out.Source = cur.dir + ": " + g.fn
	if g.recv != "" {
		out.Source = cur.dir + ": (*" + g.recv + ")." + g.fn
	}
	t := &tr{tg: g, vars: map[string]string{}, names: map[string]string{}, alias: map[string]string{}, used: map[string]int{}, scopeOf: map[string]int{}}
	defer func() {
		out.Comments = t.comments
		if r := recover(); r != nil {
			u, ok := r.(unsupported)
			if !ok {
				panic(r)
			}
			out.Unsupported = string(u)
		}
	}()
	t.p = load(cur.dir)
	fd, f := t.p.fn(g.recv, g.fn)
	if fd == nil {
		fail("function not found")
	}
	t.file = f
	t.recv, _ = recvOf(fd)
	out.Source += fmt.Sprintf("  (%s:%d)", strings.TrimPrefix(fset.Position(fd.Pos()).Filename, repo+"/"), line(fd))
	var params [][2]string
	for _, fl := range fd.Type.Params.List {
		for _, n := range fl.Names {
			if a, ok := g.alias[n.Name]; ok {
				t.alias[n.Name] = a
				t.comments = append(t.comments, fmt.Sprintf("parameter %s : %s stands for %s (DECLARED by the target table; call sites are checked to pass exactly that)", n.Name, str(fl.Type), a))
				continue
			}
			ty := t.goTyp(fl.Type)
			lean := t.declare(n.Name, ty, fd)
			params = append(params, [2]string{lean, ty})
		}
	}
	var pre []string
	// a parameter that the body assigns to is a local variable initialised with the argument
	assigned := map[string]bool{}
	ast.Inspect(fd.Body, func(n ast.Node) bool {
		switch s := n.(type) {
		case *ast.AssignStmt:
			if s.Tok != token.DEFINE {
				for _, l := range s.Lhs {
					if id, ok := l.(*ast.Ident); ok {
						assigned[id.Name] = true
					}
				}
			}
		case *ast.IncDecStmt:
			if id, ok := s.X.(*ast.Ident); ok {
				assigned[id.Name] = true
			}
		}
		return true
	})
	for _, p := range params {
		for goName, leanName := range t.names {
			if leanName == p[0] && assigned[goName] {
				pre = append(pre, "let mut "+p[0]+" : "+p[1]+" := "+p[0])
			}
		}
	}
	if fd.Type.Results != nil {
		for _, fl := range fd.Type.Results.List {
			ty := t.goTyp(fl.Type)
			if len(fl.Names) == 0 {
				t.results = append(t.results, ty)
			}
			for _, n := range fl.Names {
				t.results = append(t.results, ty)
				t.named = append(t.named, n.Name)
				lean := t.declare(n.Name, ty, fd)
				pre = append(pre, "let mut "+lean+" : "+ty+" := "+zero(ty))
			}
		}
	}
	body := append(pre, t.block(fd.Body.List)...)
	if len(t.results) == 0 {
		body = append(body, "pure ()")
	}
	rt := "Unit"
	if len(t.results) == 1 {
		rt = t.results[0]
		if strings.Contains(rt, " ") {
			rt = "(" + rt + ")"
		}
	} else if len(t.results) > 1 {
		rt = "(" + strings.Join(t.results, " × ") + ")"
	}
	hdr := "def " + g.name + " {σ : Type} (indef : Int) (ops : " + cur.name + " σ)"
	for _, p := range params {
		hdr += " (" + p[0] + " : " + p[1] + ")"
	}
	out.Lean = hdr + " : GoM σ " + rt + " := do\n" + strings.Join(ind(body), "\n")
	done[g.name] = t
	return
}

func opsStructure() string {
	var b strings.Builder
	b.WriteString("/-- everything the translated methods of " + cur.dir + " do to the outside (generated from the translator's table) -/\n")
	b.WriteString("structure " + cur.name + " (σ : Type) where\n")
	for _, o := range cur.ops {
		ty := "GoM σ " + wrapTy(o.ret)
		for i := len(o.args) - 1; i >= 0; i-- {
			ty = o.args[i] + " → " + ty
		}
		if o.field {
			b.WriteString(fmt.Sprintf("  /-- `%s` -/\n  get_%s : %s\n", o.goText, o.lean, ty))
			if o.set {
				b.WriteString(fmt.Sprintf("  set_%s : %s → GoM σ Unit\n", o.lean, wrapTy(o.ret)))
			}
		} else {
			b.WriteString(fmt.Sprintf("  /-- `%s(...)` -/\n  %s : %s\n", o.goText, o.lean, ty))
		}
	}
	return b.String()
}

func wrapTy(s string) string {
	if strings.Contains(s, " ") && !strings.HasPrefix(s, "(") {
		return "(" + s + ")"
	}
	return s
}

func main() {
	if len(os.Args) != 2 {
		fmt.Fprintln(os.Stderr, "usage: transgen3 <repo-root>")
		os.Exit(2)
	}
	repo = filepath.Clean(os.Args[1])
	var out []map[string]any
	for _, g := range groups {
		cur = g
		var defs []defOut
		for i := range g.targets {
			defs = append(defs, translate(&g.targets[i]))
		}
		out = append(out, map[string]any{"name": g.name, "defs": defs, "ops": opsStructure()})
	}
	enc := json.NewEncoder(os.Stdout)
	enc.SetIndent("", " ")
	enc.SetEscapeHTML(false)
	enc.Encode(map[string]any{"groups": out})
}
