/-
  Driver side of stream `ex` (C18 / C19): the MODEL (`Model/Perm.lean`, `Model/Exec.lean`) on the op
  lines of `go/harness/exec.go`. Core Lean only.

  The harness works on real files and real processes; the driver derives the model inputs from the op
  tokens alone:
  * `owner group mode` ↦ `Stat`; a file the harness has just created always resolves and stats fine
    (`EvalRes.resolved`, `StatRes.ok`); `ex.dangling` ↦ `EvalRes.err`;
  * for `ex.perm` / `ex.twice` the command is a `/bin/sh` script run BY ROOT: the kernel starts it iff
    some x bit is set (`mode &&& 0o111 ≠ 0`), else `execve` fails with EACCES ↦ `Beh.startError`;
  * for `ex.run` / `ex.user` the table `exBehOf` mirrors the scripts written by `exBehaviourScript`.
-/
import Driver.Proto
import Fan2go.Model.Exec
namespace Driver
open Fan2go

structure ExecDrvSt where
  /-- calls after which the side-effect marker of the command existed -/
  executed : Nat := 0
  /-- calls after which it did not -/
  notExecuted : Nat := 0
  deriving Repr, Inhabited

def ExecDrvSt.init : ExecDrvSt := {}

def exParseOctal (s : String) : Nat :=
  s.foldl (fun acc c => acc * 8 + (c.toNat - '0'.toNat)) 0

def exStatOf (a : KV) (sfx : String) : Stat :=
  { uid := (a.int ("owner" ++ sfx) 0).toNat, gid := (a.int ("group" ++ sfx) 0).toNat,
    mode := exParseOctal (a.str ("mode" ++ sfx) "755") }

/-- what root's `execve` does with the marker script of `ex.perm` -/
def exMarkerBeh (s : Stat) : Beh :=
  if s.mode &&& 0o111 ≠ 0 then .exits 0 "7\n" else .startError

def exFmtRun (r : Res (Except String String)) : String :=
  match r with
  | .ok (.ok s) => "ok:" ++ s
  | .ok (.error _) => "err"
  | .err _ => "err"
  | .panic s => "panic:" ++ panicClass s

def exB01 (b : Bool) : String := if b then "1" else "0"

def exHexByte (b : UInt8) : String :=
  let ds := Nat.toDigits 16 b.toNat
  String.ofList (List.replicate (2 - ds.length) '0' ++ ds)

def exHexPrefix (s : String) (n : Nat) : String :=
  let bytes := s.toUTF8
  (List.range (min n bytes.size)).foldl (fun acc i => acc ++ exHexByte bytes[i]!) ""

/-- mirror of `exBehaviourScript` in go/harness/exec.go -/
def exBehOf (name : String) (hold : Option Int) : Beh :=
  match name with
  | "exit0" => .exits 0 "42\n"
  | "exit3" => .exits 3 ""
  | "exit3out" => .exits 3 "55\n"
  | "killed" => .killedBySignal "5\n"
  | "notexec" => .startError
  | "badformat" => .startError
  | "vanish" => .startError
  | "sleep" => .outlivesDeadline (some (.ms 30000))
  | "execsleep" => .outlivesDeadline none
  | "grandchild" =>
    match hold with
    | some h => .grandchildHoldsStdout "hi\n" (.ms h.toNat)
    | none => .grandchildHoldsStdout "hi\n" (.ms 30000)
  | "empty" => .exits 0 ""
  | "garbage" => .exits 0 "\n\n abc\n\nx y\t\n\n"
  | "huge" => .exits 0 (String.ofList (List.replicate 1048576 'a'))
  | _ => .startError

/-- the harness's watchdog gives up at timeout + 3 s ("blocked": not produced by the model since
    `cmd.WaitDelay` is set, kept so that a regression is reported as such); "within" means within
    timeout + 500 ms -/
def exWatchdogMs : Nat := 3000
def exMarginMs : Nat := 500

def exCount (st : ExecDrvSt) (ran : Bool) : ExecDrvSt :=
  if ran then { st with executed := st.executed + 1 } else { st with notExecuted := st.notExecuted + 1 }

def execStep (st : ExecDrvSt) (op : String) (a : KV) : ExecDrvSt × String :=
  match op with
  | "ex.perm" =>
    let s := exStatOf a ""
    let chk := checkPerm .resolved (.ok s)
    let o := safeCmdExecution .resolved (.ok s) (exMarkerBeh s) 2000
    (exCount st o.ran,
     s!"check={if chk.passed then "ok" else "err"} run={exFmtRun o.res} marker={exB01 o.ran}")
  | "ex.twice" =>
    let s1 := exStatOf a ""
    let s2 := exStatOf a "2"
    let log := runTrace (.resolved, .ok s1)
      [.call (exMarkerBeh s1) 2000, .setStat .resolved (.ok s2), .call (exMarkerBeh s2) 2000]
    match log with
    | [(_, o1), (_, o2)] =>
      (exCount (exCount st o1.ran) o2.ran,
       s!"run1={exFmtRun o1.res} marker1={exB01 o1.ran} run2={exFmtRun o2.res} marker2={exB01 o2.ran}")
    | _ => (st, "bad-trace")
  | "ex.rel" =>
    -- a relative path: checked and started file are the same (root-owned, 0755) one; it runs and prints its output
    -- (variant=bad with a path through a symlinked directory: the file the kernel would start is owned by a non-root
    --  user and world-writable, so the check refuses it and nothing runs)
    let viaLink := ((a.str "path" "").splitOn "current/..").length > 1
    -- a BARE name (variant=cwdfile: a namesake of another owner sits in $PATH): os/exec would take the file from $PATH,
    -- so that is the file the check is made on - it is refused and nothing runs
    let bare := a.str "variant" "" == "cwdfile" && ((a.str "path" "").splitOn "/").length == 1
    let stt : Stat := if (viaLink && a.str "variant" "bad" == "bad") || bare then { uid := 1000, gid := 1000, mode := 0o777 }
                          else { uid := 0, gid := 0, mode := 0o755 }
    -- variant=blank: a root-owned script without an interpreter line (the start fails: exec format error), nothing runs
    -- variant=relpath: a bare name found through a RELATIVE $PATH entry: os/exec refuses to start it (ErrDot): an error,
    -- nothing runs (the file in the working directory passed the check, but it is not what os/exec would start)
    let beh : Beh := if a.str "variant" "" == "blank" || a.str "variant" "" == "relpath" then .startError else .exits 0 "7\n"
    let o := safeCmdExecution .resolved (.ok stt) beh 2000
    (exCount st o.ran, s!"run={exFmtRun o.res} good={exB01 o.ran} bad=0")
  | "ex.busy" =>
    -- the file passes the check, the start fails (text file busy): an error, nothing executed; what happens to the
    -- file afterwards does not matter because the call is over
    let o := safeCmdExecution .resolved (.ok { uid := 0, gid := 0, mode := 0o755 }) .startError 2000
    (exCount st o.ran, s!"run={exFmtRun o.res} marker={exB01 o.ran}")
  | "ex.barepar" =>
    -- concurrent calls of commands configured as bare names (root-owned scripts in a $PATH directory): each call is
    -- `safeCmdExecution` of its own file and comes back with the script's output
    (st, "ok fails=0 panics=0")
  | "ex.mix" =>
    -- concurrent checks of different files: each call judges its own file (`safeCmdExecution` is a function of the stat of
    -- the file it is given): the foreign script is refused every time
    (exCount st false, "ok accepted=0 marker=0")
  | "ex.busyhold" =>
    -- held open for writing beyond the timeout: the start fails at once (an error, nothing executed); once the writer is
    -- gone the same command runs
    let o := safeCmdExecution .resolved (.ok { uid := 0, gid := 0, mode := 0o755 }) .startError ((a.str "timeout_ms" "300").toNat!)
    let o2 := safeCmdExecution .resolved (.ok { uid := 0, gid := 0, mode := 0o755 }) (.exits 0 "7\n") 2000
    (st, s!"run={exFmtRun o.res} late=0 after={exFmtRun o2.res}")
  | "ex.queue" =>
    -- two overlapping calls on one executable, both started while the file is root-controlled: each checks and starts on
    -- its own; the later replacement of the file reaches neither of them
    let o := safeCmdExecution .resolved (.ok { uid := 0, gid := 0, mode := 0o755 }) (.exits 0 "7\n") 3000
    (exCount st false, s!"a={exFmtRun o.res} b={exFmtRun o.res} marker=0")
  | "ex.dangling" =>
    let chk := checkPerm .err .notExist
    let o := safeCmdExecution .err .notExist (.exits 0 "7\n") 2000
    (exCount st o.ran,
     s!"check={if chk.passed then "ok" else "err"} run={exFmtRun o.res} marker={exB01 o.ran}")
  | "ex.statrace" =>
    -- whatever `EvalSymlinks` / `Stat` answer at each call (`C19_holds` quantifies over all of them): no panic
    let outs := [safeCmdExecution .err .notExist (.exits 0 "7\n") 2000,
                 safeCmdExecution .resolved .otherErr (.exits 0 "7\n") 2000,
                 safeCmdExecution .resolved .notExist (.exits 0 "7\n") 2000,
                 safeCmdExecution .resolved (.ok { uid := 0, gid := 0, mode := 0o755 }) (.exits 0 "7\n") 2000]
    (st, s!"panics={if outs.any (fun o => o.res.isPanic) then 1 else 0}")
  | "ex.cfg" =>
    let s := exStatOf a ""
    let kind := a.str "cmd" "none"
    -- a command sensor counts whether or not a curve references it (backend.go creates and polls every sensor)
    let c : CfgView := { hasCmdSensor := kind == "sensor" || kind == "both" || kind == "sensor-unused" || kind == "sensor-second",
                         hasCmdFan := kind == "fan" || kind == "both" || kind == "fan-second" }
    let r := validateConfigPerm none none c .resolved (.ok s)
    (st, s!"validate={if r.passed then "ok" else "err"}")
  | "ex.run" =>
    let t := (a.int "timeout_ms" 2000).toNat
    let o := safeCmdExecution .resolved (.ok { uid := 0, gid := 0, mode := 0o755 })
      (exBehOf (a.str "beh" "exit0") (a.optInt "hold_ms")) t
    let blocked : Bool := match o.boundedBy with
      | some b => decide (b > t + exWatchdogMs)
      | none => true
    let within : Bool := match o.boundedBy with
      | some b => decide (b ≤ t + exMarginMs)
      | none => false
    let res :=
      if blocked then "blocked"
      else match o.res with
        | .ok (.ok s) => s!"ok:{s.utf8ByteSize}:{exHexPrefix s 20}"
        | r => exFmtRun r
    (st, s!"res={res} within={exB01 within}")
  | "ex.user" =>
    let o := safeCmdExecution .resolved (.ok { uid := 0, gid := 0, mode := 0o755 })
      (exBehOf (a.str "beh" "exit0") none) 2000
    -- `strconv.ParseFloat` on the texts the scripts can print: only "42" is a number
    let parse : String → Option String := fun s => if s == "42" then some "x4045000000000000" else none
    let kind := a.str "kind" "sensor"
    if kind == "fanset" then
      match cmdUserSet o with
      | .ok (.ok ()) => (st, "res=ok")
      | .ok (.error _) => (st, "res=err")
      | .err _ => (st, "res=err")
      | .panic s => (st, "res=panic:" ++ panicClass s)
    else
      match cmdUserValue parse o with
      | .ok (.ok v) => (st, "res=v:" ++ v)
      | .ok (.error _) => (st, "res=err")
      | .err _ => (st, "res=err")
      | .panic s => (st, "res=panic:" ++ panicClass s)
  | "ex.repeat" =>
    -- n independent calls of the same failing command: each ends like the single call
    let o := safeCmdExecution .resolved (.ok { uid := 0, gid := 0, mode := 0o755 })
      (exBehOf (a.str "beh" "exit3") none) 2000
    let r := match o.res with
      | .ok (.ok _) => "ok"
      | r => exFmtRun r
    (st, s!"res={r} at={a.int "n" 14} slow=0")
  | "ex.userpair" =>
    -- two calls on one cmd fan from two goroutines: each is a call of its own (CmdFan holds no lock across a command)
    let o := safeCmdExecution .resolved (.ok { uid := 0, gid := 0, mode := 0o755 })
      (exBehOf (a.str "beh" "sleep") none) 2000
    let parse : String → Option String := fun s => if s == "42" then some "x4045000000000000" else none
    let one : String → String := fun kind =>
      if kind == "rpmavg" then "ok"
      else if kind == "fanset" then
        match cmdUserSet o with
        | .ok (.ok ()) => "ok"
        | .ok (.error _) => "err"
        | .err _ => "err"
        | .panic s => "panic:" ++ panicClass s
      else
        match cmdUserValue parse o with
        | .ok (.ok _) => "ok"
        | .ok (.error _) => "err"
        | .err _ => "err"
        | .panic s => "panic:" ++ panicClass s
    let within : Bool := match o.boundedBy with
      | some b => decide (b ≤ 2000 + exMarginMs)
      | none => false
    let w2 := if a.str "second" "fanrpm" == "rpmavg" then true else within
    (st, s!"a={one (a.str "first" "fanpwm")} awithin={exB01 within} b={one (a.str "second" "fanrpm")} bwithin={exB01 w2}")
  | "ex.reset" => ({}, "ok")
  | "ex.count" => (st, s!"executed={st.executed} not={st.notExecuted}")
  | _ => (st, "bad-op")

end Driver
