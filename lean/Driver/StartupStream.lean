/-
  Driver stream `su` (C15, C16): interprets the `su.*` operations of go/harness/startup.go against the
  model `Fan2go.Startup` (Model/Startup.lean). Core Lean only.

  The harness runs the REAL `DefaultFanController.Run` / `RunInitializationSequence` on virtual devices
  with a real bbolt file and classifies the PWM writes it saw before the first curve evaluation
  (`sweep` = the 255 → 0 staircase, `measure` = an ascending staircase); the driver prints the same
  line from the model's action list and store.

  Integration into Driver/Main.lean:
    import Driver.StartupStream
    structure St ... add field   su : StartupDrvSt := {}
    in `step`, add the case      | "su" => let (s, o) := startupStep st.su op a; ({ st with su := s }, o)
-/
import Driver.Proto
import Fan2go.Model.Startup
namespace Driver
open Fan2go Fan2go.Startup

/-- one declared fan: its declaration and the two database entries of its id -/
structure SuFan where
  id : String
  decl : FanDecl
  store : Store := {}
  deriving Inhabited

structure StartupDrvSt where
  opened : Bool := false
  parallel : Bool := true
  fans : List SuFan := []
  deriving Inhabited

def StartupDrvSt.find? (st : StartupDrvSt) (id : String) : Option SuFan := st.fans.find? (·.id == id)

def StartupDrvSt.setStore (st : StartupDrvSt) (id : String) (s : Store) : StartupDrvSt :=
  { st with fans := st.fans.map fun f => if f.id == id then { f with store := s } else f }

def b01 (b : Bool) : String := if b then "1" else "0"

def suStored (s : Store) : String := s!"rpm={b01 s.rpm} map={b01 s.map.isSome}"

def suOutLine (o : Out) : String :=
  s!"res={if o.ok then "ok" else "err"} sweep={b01 o.swept} measure={b01 o.measured} {suStored o.store}"

def suDecl (a : KV) : FanDecl :=
  { kind := match a.str "kind" "hwmon" with
      | "file" => .file
      | "cmd" => .cmd
      | _ => .hwmon,
    hasRpm := a.bool "hasrpm" true,
    pwmRead := true,          -- the harness's devices always answer PWM reads
    cfgMap := a.bool "cfgmap" false,
    minMax := a.bool "minmax" false,
    devOk := true }           -- … and never fail during the measurement loop

def startupStep (st : StartupDrvSt) (op : String) (a : KV) : StartupDrvSt × String :=
  match op with
  | "su.open" =>
    -- fresh directory, fresh database, no fans
    ({ opened := true, parallel := a.bool "parallel" true, fans := [] }, "ok")
  | "su.fan" =>
    let id := a.str "fan" "f1"
    -- re-declaring an id keeps the database entries of that id
    let old := match st.find? id with | some f => f.store | none => {}
    let f : SuFan := { id := id, decl := suDecl a, store := old }
    ({ st with fans := (st.fans.filter (·.id != id)) ++ [f] }, "ok")
  | "su.start" =>
    match st.find? (a.str "fan" "f1") with
    | none => (st, "bad-op")
    | some f =>
      let o := start f.decl f.store
      (st.setStore f.id o.store, suOutLine o)
  | "su.reset" =>
    match st.find? (a.str "fan" "f1") with
    | none => (st, "bad-op")
    | some f =>
      let o := reset f.decl f.store
      (st.setStore f.id o.store, "ok " ++ suStored o.store)
  | "su.init" =>
    match st.find? (a.str "fan" "f1") with
    | none => (st, "bad-op")
    | some f =>
      let o := init f.decl f.store
      (st.setStore f.id o.store, suOutLine o)
  | "su.together" =>
    -- several controllers started concurrently: the decisions of each depend on its own fan id only;
    -- `overlap=0` is what C16 promises for parallel=0 (for parallel=1 the harness's value depends on the
    -- schedule and the comparison ignores the field)
    let ids := (a.str "fans" "f1,f2").splitOn ","
    let (st', res, n) := ids.foldl (fun (acc : StartupDrvSt × List String × Nat) id =>
      let (s, rs, n) := acc
      match s.find? id with
      | none => (s, rs ++ ["bad-fan"], n)
      | some f =>
        let o := start f.decl f.store
        (s.setStore f.id o.store, rs ++ [if o.ok then "ok" else "err"], if o.analysed then n + 1 else n))
      (st, [], 0)
    (st', s!"res={",".intercalate res} analysed={n} overlap=0")
  | _ => (st, "bad-op")

end Driver
