/-
  Driver stream `su` (C15, C16): interprets the `su.*` operations of go/harness/startup.go against the
  models `Fan2go.Startup` (Model/Startup.lean: WHICH analysis steps a start takes) and `Fan2go.Analysis`
  (Model/Analysis.lean: WHAT they compute). Core Lean only.

  The harness runs the REAL `DefaultFanController.Run` / `RunInitializationSequence` on virtual devices
  with a real bbolt file and classifies the PWM writes it saw before the first curve evaluation
  (`sweep` = the 255 → 0 staircase, `measure` = an ascending staircase); the driver prints the same
  line from the action list and store of the data-carrying run `Analysis.startD` / `initD` / `resetD`
  (whose data-erased image is `Startup.start` / `init` / `reset`: `Proofs/Analysis.lean` `startD_abs`); the two
  flags `sweep=` / `measure=` are the harness's classification applied to the model's log of PWM writes.
  `su.data` prints the stored PWM map and RPM curve of a fan, the limits a fresh fan object derives from the
  stored curve and the device registers; `su.poke` sets the registers; `su.settle` runs `waitForFanToSettle`
  on a scripted RPM input.

  Per fan the driver state carries the configuration (`FanCfg`: kind, RPM input?, PWM readable?, configured
  map, neverStop, configured limits), the device parameters (`quant`, `spinat`), the device registers and
  the stored contents.

  Integration into Driver/Main.lean:
    import Driver.StartupStream
    structure St ... add field   su : StartupDrvSt := {}
    in `step`, add the case      | "su" => let (s, o) := startupStep st.su op a; ({ st with su := s }, o)
-/
import Driver.Proto
import Fan2go.Model.Startup
import Fan2go.Model.Analysis
namespace Driver
open Fan2go Fan2go.Startup Fan2go.Analysis

/-- one declared fan: configuration, device, database entries of its id -/
structure SuFan where
  id : String
  cfg : FanCfg := {}
  quant : Int := 0
  spinAt : Int := 30
  panicAttach : Bool := false
  regs : Regs := {}
  store : DStore := {}
  deriving Inhabited

def SuFan.phys (f : SuFan) : Phys := harnessPhys f.quant f.spinAt

structure StartupDrvSt where
  opened : Bool := false
  parallel : Bool := true
  fans : List SuFan := []
  deriving Inhabited

def StartupDrvSt.find? (st : StartupDrvSt) (id : String) : Option SuFan := st.fans.find? (·.id == id)

def StartupDrvSt.update (st : StartupDrvSt) (id : String) (g : SuFan → SuFan) : StartupDrvSt :=
  { st with fans := st.fans.map fun f => if f.id == id then g f else f }

def StartupDrvSt.setOut (st : StartupDrvSt) (id : String) (o : DOut) : StartupDrvSt :=
  st.update id fun f => { f with store := o.store, regs := o.regs }

def b01 (b : Bool) : String := if b then "1" else "0"

def suStored (s : Store) : String := s!"rpm={b01 s.rpm} map={b01 s.map.isSome}"

def suOutLine (o : Out) : String :=
  s!"res={if o.ok then "ok" else "err"} sweep={b01 o.swept} measure={b01 o.measured} {suStored o.store}"

/-! the harness's classification of the PWM writes of one operation that precede the first curve evaluation
    (`suClassify` in go/harness/startup.go), on the model's event log -/

/-- the values of the PWM writes before the first `eval`, oldest first -/
def suWrites (r : Regs) : List Int :=
  let rec go : List DevEv → List Int
    | [] => []
    | .eval :: _ => []
    | .pwm v :: rest => v :: go rest
    | .mode _ :: rest => go rest
  go r.log.reverse

/-- `vals` starts with 255, 254, …, 55 -/
def suDescFrom (vals : List Int) : Bool :=
  (vals.take 201) == (List.range 201).map (fun (j : Nat) => (255 : Int) - (j : Int))

/-- sweep: a run of > 200 consecutive values descending from 255 somewhere -/
def suIsSweep : List Int → Bool
  | [] => false
  | v :: rest => suDescFrom (v :: rest) || suIsSweep rest

/-- measurement: a run of >= 4 strictly ascending values -/
def suIsMeasure (vals : List Int) : Bool :=
  let rec go : List Int → Int → Nat → Bool
    | [], _, _ => false
    | v :: rest, prev, run =>
      let run' := if v > prev then run + 1 else 1
      run' ≥ 4 || go rest v run'
  match vals with
  | [] => false
  | v :: rest => go rest v 1

def suFlags (o : DOut) : Bool × Bool := (suIsSweep (suWrites o.regs), suIsMeasure (suWrites o.regs))

def suDOutLine (o : DOut) : String :=
  let (sw, me) := suFlags o
  let res := match o.crash with
    | some s => s!"panic:{panicClass s}"
    | none => if o.ok then "ok" else "err"
  s!"res={res} sweep={b01 sw} measure={b01 me} {suStored o.abs.store}"

/-- the configured maps of the harness (`mapstyle`) -/
def suCfgMap (style : String) : List (Int × Int) :=
  match style with
  | "plateau" => [(0, 0), (40, 0), (80, 64), (120, 64), (160, 128), (200, 128), (230, 255), (255, 255)]
  | "shifted" => [(0, 10), (60, 70), (120, 130), (180, 190), (255, 250)]
  | _ => [(0, 0), (64, 64), (128, 128), (192, 192), (255, 255)]

def suCfg (a : KV) : FanCfg :=
  let mm := a.bool "minmax" false
  { kind := match a.str "kind" "hwmon" with
      | "file" => .file
      | "cmd" => .cmd
      | _ => .hwmon,
    hasRpm := a.bool "hasrpm" true,
    pwmRead := a.bool "pwmread" true,
    cfgMap := if a.bool "cfgmap" false then some (suCfgMap (a.str "mapstyle" "identity")) else none,
    neverStop := a.bool "ns" false,
    cfgMin := if mm then some 40 else none,
    cfgStart := a.optInt "startpwm",
    cfgMax := if mm then some 200 else none }

def suLimits (f : SuFan) : String :=
  match f.store.rpm with
  | none => "-"
  | some d =>
    match limitsOf indefAmd64 f.cfg d with
    | some (mn, st, mx) => s!"{mn}/{st}/{mx}"
    | none => "err"

def suDataLine (f : SuFan) : String :=
  s!"map={fmtIntMap (f.store.map.map (·.2))} rpm={fmtFloatMap f.store.rpm} lim={suLimits f} " ++
  s!"reg={f.regs.pwm}/{f.regs.rpm}/{f.regs.mode}"

/-- `rpms=<v|e>,…`: the value of the n-th poll, the last token repeated for ever -/
def suReadings (s : String) : Nat → Option Int :=
  let toks := (s.splitOn ",").toArray
  fun n =>
    let t := if n < toks.size then toks[n]! else toks[toks.size - 1]!
    if t == "e" then none else some ((parseInt? t).getD 0)

def startupStep (st : StartupDrvSt) (op : String) (a : KV) : StartupDrvSt × String :=
  match op with
  | "su.open" =>
    -- fresh directory, fresh database, no fans
    ({ opened := true, parallel := a.bool "parallel" true, fans := [] }, "ok")
  | "su.fan" =>
    let id := a.str "fan" "f1"
    -- re-declaring an id keeps the database entries of that id; the device is a new one
    let old := match st.find? id with | some f => f.store | none => {}
    let f : SuFan := { id := id, cfg := suCfg a, quant := a.int "quant" 0, spinAt := a.int "spinat" 30, store := old,
                       panicAttach := a.int "panicattach_us" 0 > 0 }
    ({ st with fans := (st.fans.filter (·.id != id)) ++ [f] }, "ok")
  | "su.start" =>
    match st.find? (a.str "fan" "f1") with
    | none => (st, "bad-op")
    | some f =>
      let o := startD indefAmd64 f.phys f.cfg f.store { f.regs with log := [] }
      -- the limits the fan carries into regulation: those the curve now in the store yields
      let lim := if o.ok && o.crash.isNone then suLimits { f with store := o.store } else "-"
      (st.setOut f.id o, suDOutLine o ++ s!" lim={lim}")
  | "su.reset" =>
    match st.find? (a.str "fan" "f1") with
    | none => (st, "bad-op")
    | some f =>
      let o := resetD f.cfg f.regs
      (st.setOut f.id o, "ok " ++ suStored o.abs.store)
  | "su.drop" =>
    -- the entry leaves the configuration; the database entries of its id stay (the driver keeps the fan's record, ops
    -- address fans by id and the generator declares the fan again before using it)
    (st, "ok")
  | "su.putrpm" =>
    match st.find? (a.str "fan" "f1") with
    | none => (st, "bad-op")
    | some f =>
      if f.cfg.kind != .hwmon then (st, "bad-op") else
      let s : DStore := { f.store with rpm := some ((parseFloatMap (a.str "data" "-")).getD []) }
      (st.update f.id fun f => { f with store := s }, "ok " ++ suStored s.abs)
  | "su.flaky" =>
    -- a transient failure of the 2nd (or later) look-up of the stored PWM map within ONE start: the start-up of the code
    -- that exists looks the map up once per start, so nothing changes (generators only use at >= 2)
    (st, "ok")
  | "su.delmap" =>
    match st.find? (a.str "fan" "f1") with
    | none => (st, "bad-op")
    | some f =>
      let s : DStore := { f.store with map := none }
      (st.update f.id fun f => { f with store := s }, "ok " ++ suStored s.abs)
  | "su.init" =>
    match st.find? (a.str "fan" "f1") with
    | none => (st, "bad-op")
    | some f =>
      let o := initD indefAmd64 f.phys f.cfg { f.regs with log := [] }
      (st.setOut f.id o, match o.crash with | some s => s!"panic:{panicClass s}" | none => suDOutLine o)
  | "su.poke" =>
    match st.find? (a.str "fan" "f1") with
    | none => (st, "bad-op")
    | some f =>
      let p := a.int "pwm" f.regs.pwm
      let r : Regs := { pwm := p, rpm := f.phys.rpmOf p, mode := a.int "mode" f.regs.mode }
      (st.update f.id fun f => { f with regs := r }, "ok")
  | "su.dev" =>
    match st.find? (a.str "fan" "f1") with
    | none => (st, "bad-op")
    | some f => (st, s!"pwm={f.regs.pwm} mode={f.regs.mode}")
  | "su.data" =>
    match st.find? (a.str "fan" "f1") with
    | none => (st, "bad-op")
    | some f => (st, suDataLine f)
  | "su.settle" =>
    match st.find? (a.str "fan" "f1") with
    | none => (st, "bad-op")
    | some f =>
      -- a fan without RPM input: every `GetRpm` fails (missing file / empty path)
      let rd : Nat → Option Int := if f.cfg.hasRpm then suReadings (a.str "rpms" "0") else fun _ => none
      match settle (a.f64 "thr" (F64.ofInt 20)) rd (a.int "limit" 200).toNat with
      | some n => (st, s!"polls={n}")
      | none => (st, "hang")
  | "su.together" =>
    -- several controllers started concurrently: the decisions of each depend on its own fan id only;
    -- `overlap=0` is what C16 promises for parallel=0 (for parallel=1 the harness's value depends on the
    -- schedule and the comparison ignores the field)
    let ids := (a.str "fans" "f1,f2").splitOn ","
    let (st', res, n) := ids.foldl (fun (acc : StartupDrvSt × List String × Nat) id =>
      let (s, rs, n) := acc
      match s.find? id with
      | none => (s, rs ++ ["bad-fan"], n)
      | some f =>
        -- a fan whose driver panics when the stored curve is attached: that controller dies there (nothing of its own
        -- was analysed, nothing stored); the others are not affected
        if f.panicAttach then (s, rs ++ ["panic"], n) else
        let o := startD indefAmd64 f.phys f.cfg f.store { f.regs with log := [] }
        let (sw, me) := suFlags o
        (s.setOut f.id o, rs ++ [if o.ok then "ok" else "err"], if sw || me then n + 1 else n))
      (st, [], 0)
    (st', s!"res={",".intercalate res} analysed={n} overlap=0")
  | _ => (st, "bad-op")

end Driver
