/-
  Stream "hw" of the line-protocol driver: hwmon discovery and binding (property C17), against
  `Fan2go/Model/Hwmon.lean`. Mirrors go/harness/hwmon.go line for line. Core Lean only.
-/
import Driver.Proto
import Fan2go.Model.Hwmon
namespace Driver
open Fan2go Fan2go.Hwmon

structure HwmonDrvSt where
  /-- the result of the last `hw.tree` (`hwChips` of the harness) -/
  chips : List Chip := []
  deriving Inhabited

def HwmonDrvSt.init : HwmonDrvSt := {}

/-- `<F|T|O><flags>:<name>`; flags bit 1 = has the input sub-feature of its own type -/
def hwParseFeature (tok : String) : Feature :=
  match tok.splitOn ":" with
  | head :: rest =>
    let name := ":".intercalate rest
    let hl := head.toList
    let flags := (String.ofList (hl.drop 1)).toNat?.getD 0
    let kind : FeatKind := match hl.head? with
      | some 'F' => .fan
      | some 'T' => .temp
      | _ => .other
    { kind := kind, name := name, hasInput := flags % 2 == 1, inputName := name ++ "_input" }
  | [] => { kind := .other, name := "", hasInput := false }

def hwParseChip (cs : String) : Option RawChip :=
  match cs.splitOn "|" with
  | [p, bt, bn, ad, path, feats] =>
    some { pfx := if p == "-" then "" else p,
           busType := bt.toInt?.getD 0, busNr := bn.toInt?.getD 0, addr := ad.toNat?.getD 0,
           path := path, nameFile := "",
           features := if feats == "-" || feats == "" then [] else (feats.splitOn ",").map hwParseFeature }
  | _ => none

def hwParseTree (spec : String) : List RawChip :=
  if spec == "-" || spec == "" then [] else (spec.splitOn ";").filterMap hwParseChip

def hwDump (chips : List Chip) : String :=
  let one (c : Chip) : String :=
    let fs := c.fans.map fun f => s!"{f.index}:{f.rpmChannel}:{f.pwmChannel}"
    let ts := c.temps.map fun t => s!"{t.1}:{t.2}"
    let fstr := if fs.isEmpty then "-" else ",".intercalate fs
    let tstr := if ts.isEmpty then "-" else ",".intercalate ts
    s!" [{c.name};{c.platform};{c.path};fans={fstr};temps={tstr}]"
  s!"n={chips.length}" ++ String.join (chips.map one)

/-- position of the failing entry: the text after the last `@` of `"<tag>@<i>"` -/
def hwErrAt (e : String) : String := ((e.splitOn "@").getLast?).getD "?"

def hwmonStep (st : HwmonDrvSt) (op : String) (a : KV) : HwmonDrvSt × String :=
  match op with
  | "hw.files" => (st, "ok")   -- files in a chip's (real) directory: binding is a function of the chip table alone
  | "hw.tree" =>
    let chips := getChips (hwParseTree (a.str "spec" "-"))
    ({ st with chips := chips }, hwDump chips)
  | "hw.bindfan" =>
    let sel : FanSel := { platform := a.str "platform" "", index := a.int "index" 0,
                          rpmChannel := a.int "rpm" 0, pwmChannel := a.int "pwm" 0 }
    match bindFan ciContains st.chips sel with
    | .ok b =>
      (st, s!"ok rpm={b.rpmInputPath} pwm={b.pwmPath} en={b.pwmEnablePath} idx={b.index} rpmch={b.rpmChannel} pwmch={b.pwmChannel}")
    | .err _ => (st, "err")
    | .panic s => (st, s!"panic:{panicClass s}")
  | "hw.bindsensor" =>
    let sel : SensorSel := { platform := a.str "platform" "", index := a.int "index" 0 }
    -- a pattern that does not compile as a regular expression (the streams use `*…` and an unbalanced `[`): matching fails
    -- with an error on the first chip; without chips no device is found: an error either way
    if sel.platform.startsWith "*" || sel.platform.contains '[' then (st, "err") else
    match bindSensor ciContains st.chips sel with
    | .ok p => (st, s!"ok input={p}")
    | .err _ => (st, "err")
    | .panic s => (st, s!"panic:{panicClass s}")
  | "hw.bindsensors" =>
    -- several entries in one `initializeSensors` call (`Hwmon.bindSensors`)
    let sels : List SensorSel := ((a.str "sels" "").splitOn ";").filterMap fun t =>
      match t.splitOn ":" with
      | [p, i] => some { platform := p, index := (i.toInt?).getD 0 }
      | _ => none
    match bindSensors ciContains st.chips sels with
    | .ok ps => (st, "ok inputs=" ++ ",".intercalate ps)
    | .err e => (st, s!"err at={hwErrAt e}")
    | .panic s => (st, s!"panic:{panicClass s}")
  | "hw.bindfans" =>
    -- several entries in one `initializeFans` call (`Hwmon.bindFans`)
    let sels : List FanSel := ((a.str "sels" "").splitOn ";").filterMap fun t =>
      match t.splitOn ":" with
      | [p, i, r, w] => some { platform := p, index := (i.toInt?).getD 0,
                               rpmChannel := (r.toInt?).getD 0, pwmChannel := (w.toInt?).getD 0 }
      | _ => none
    match bindFans ciContains st.chips sels with
    | .ok bs =>
      (st, "ok fans=" ++ ",".intercalate (bs.map fun b => s!"{b.rpmInputPath}|{b.pwmPath}|{b.pwmEnablePath}"))
    | .err e => (st, s!"err at={hwErrAt e}")
    | .panic s => (st, s!"panic:{panicClass s}")
  | _ => (st, "bad-op")

end Driver
