/-
  Stream `cfg` (property C11) of the line-protocol driver. Core Lean only.

    cfg.load spec=<abstract configuration> mode=<octal> [yaml=<ignored>]
        -> verdict=<ok|err:<class>|panic:fatal> ent=<[id]|-> dump=<canonical dump>
    cfg.run  vals=<v0,v1,v2> now=<ns>
        -> run=<ok|panic:<class>|err|hang|skipped> at=<round.curveIdx|-> out=<values>

  The driver cannot parse YAML; `spec=` carries the configuration the generator MEANT, in the same
  grammar as the dump the harness prints of the struct the real loader DECODED:

    dump    := 'S' list(';',sensor) '!' 'C' list(';',curve) '!' 'F' list(';',fan)
    list(sep,x) := <count> { sep x }
    sensor  := id ':' items          items (comma separated, fixed order): h(<index>)  f  c
    curve   := id ':' items          L(<sensor>|<min>|<max>|<steps>)  P(<sensor>|<sp>|<p>|<i>|<d>)
                                     F(<type>|list('/',member))
    steps   := 'nil' | list('/', <key> '>' <float>)
    fan     := id ':' items          k(<curve>)  a(<direct>|<pid>)  h(<index>|<rpm>|<pwm>)
                                     f(<e|n>)  c(<set>|<get>)
    direct  := 'nil' | 'm-' | 'm'<int>       pid := 'nil' | <p>'/'<i>'/'<d>
    set,get := 'nil' | 'e' (exec empty) | 'n'
  `spec=fatal` stands for a document the loader cannot decode (`ui.Fatal`).
-/
import Driver.Proto
import Fan2go.Model.Config
namespace Driver
open Fan2go Fan2go.Cfg

structure ConfigDrvSt where
  cfg : Configuration := {}
  lastOk : Bool := false
  deriving Inhabited

def ConfigDrvSt.init : ConfigDrvSt := {}

/-! ### parsing -/

/-- elements of `list(sep, x)` (the leading count is dropped) -/
def cfgElems (sep : String) (s : String) : List String := (s.splitOn sep).drop 1

/-- `T(a|b|c)` ↦ (`T`, [a,b,c]); a bare tag has no arguments -/
def cfgItem (s : String) : Char × List String :=
  match s.toList with
  | [] => (' ', [])
  | [t] => (t, [])
  | t :: rest =>
    let inner := String.ofList ((rest.drop 1).dropLast)
    (t, inner.splitOn "|")

def cfgItems (s : String) : List (Char × List String) :=
  if s.isEmpty then [] else (s.splitOn ",").map cfgItem

def cfgEntry (s : String) : String × List (Char × List String) :=
  match s.splitOn ":" with
  | [id, items] => (id, cfgItems items)
  | id :: _ => (id, [])
  | [] => ("", [])

def argAt (l : List String) (i : Nat) : String := l.getD i ""
def intAt (l : List String) (i : Nat) : Int := ((argAt l i).toInt?).getD 0

def parseSteps (s : String) : Option (List (Int × F64)) :=
  if s == "nil" then none
  else some ((cfgElems "/" s).filterMap fun e =>
    match e.splitOn ">" with
    | [k, v] => (k.toInt?).map fun k => (k, parseF v)
    | _ => none)

def parseSensor (s : String) : SensorConfig :=
  let (id, items) := cfgEntry s
  items.foldl (fun acc (t, args) =>
    if t == 'h' then { acc with hwmon := some (intAt args 0) }
    else if t == 'f' then { acc with file := true }
    else if t == 'c' then { acc with cmd := true }
    else acc) { id := id }

def parseCurve (s : String) : CurveConfig :=
  let (id, items) := cfgEntry s
  items.foldl (fun acc (t, args) =>
    if t == 'L' then
      { acc with linear := some { sensor := argAt args 0, min := intAt args 1, max := intAt args 2,
                                  steps := parseSteps (argAt args 3) } }
    else if t == 'P' then
      { acc with pid := some { sensor := argAt args 0, setPoint := parseF (argAt args 1),
                               p := parseF (argAt args 2), i := parseF (argAt args 3), d := parseF (argAt args 4) } }
    else if t == 'F' then
      { acc with function := some { type := argAt args 0, curves := cfgElems "/" (argAt args 1) } }
    else acc) { id := id }

def parseExec (s : String) : Option Bool :=
  if s == "nil" then none else some (s == "e")

def parseCtrl (args : List String) : CtrlAlgCfg :=
  let d := argAt args 0
  let p := argAt args 1
  { direct := if d == "nil" then none
              else if d == "m-" then some none
              else some ((String.ofList (d.toList.drop 1)).toInt?),
    pid := if p == "nil" then none
           else match p.splitOn "/" with
             | [a, b, c] => some (parseF a, parseF b, parseF c)
             | _ => none }

def parseFan (s : String) : FanConfig :=
  let (id, items) := cfgEntry s
  items.foldl (fun acc (t, args) =>
    if t == 'k' then { acc with curve := argAt args 0 }
    else if t == 'a' then { acc with controlAlgorithm := some (parseCtrl args) }
    else if t == 'h' then
      { acc with hwmon := some { index := intAt args 0, rpmChannel := intAt args 1, pwmChannel := intAt args 2 } }
    else if t == 'f' then { acc with file := some (argAt args 0 == "e") }
    else if t == 'c' then { acc with cmd := some { setPwm := parseExec (argAt args 0), getPwm := parseExec (argAt args 1) } }
    else acc) { id := id }

def dropFirst (s : String) : String := String.ofList (s.toList.drop 1)

def parseSpec (s : String) : Configuration :=
  match s.splitOn "!" with
  | [ss, cs, fs] =>
    { sensors := (cfgElems ";" (dropFirst ss)).map parseSensor,
      curves := (cfgElems ";" (dropFirst cs)).map parseCurve,
      fans := (cfgElems ";" (dropFirst fs)).map parseFan }
  | _ => {}

/-! ### canonical dump -/

def dumpList (sep : String) (l : List String) : String :=
  l.foldl (fun acc e => acc ++ sep ++ e) (toString l.length)

def dumpSensor (s : SensorConfig) : String :=
  let items := (match s.hwmon with | some i => [s!"h({i})"] | none => [])
    ++ (if s.file then ["f"] else []) ++ (if s.cmd then ["c"] else [])
  s.id ++ ":" ++ ",".intercalate items

def dumpSteps : Option (List (Int × F64)) → String
  | none => "nil"
  | some l => dumpList "/" (l.map fun p => s!"{p.1}>{fmtF p.2}")

def dumpCurve (c : CurveConfig) : String :=
  let items :=
    (match c.linear with
     | some l => [s!"L({l.sensor}|{l.min}|{l.max}|{dumpSteps l.steps})"] | none => [])
    ++ (match c.pid with
     | some p => [s!"P({p.sensor}|{fmtF p.setPoint}|{fmtF p.p}|{fmtF p.i}|{fmtF p.d})"] | none => [])
    ++ (match c.function with
     | some f => [s!"F({f.type}|{dumpList "/" f.curves})"] | none => [])
  c.id ++ ":" ++ ",".intercalate items

def dumpExec : Option Bool → String
  | none => "nil"
  | some true => "e"
  | some false => "n"

def dumpFan (f : FanConfig) : String :=
  let items := [s!"k({f.curve})"]
    ++ (match f.controlAlgorithm with
      | some ca =>
        let d := match ca.direct with
          | none => "nil" | some none => "m-" | some (some m) => s!"m{m}"
        let p := match ca.pid with
          | none => "nil" | some (p, i, d) => s!"{fmtF p}/{fmtF i}/{fmtF d}"
        [s!"a({d}|{p})"]
      | none => [])
    ++ (match f.hwmon with
      | some h => [s!"h({h.index}|{h.rpmChannel}|{h.pwmChannel})"] | none => [])
    ++ (match f.file with
      | some e => [if e then "f(e)" else "f(n)"] | none => [])
    ++ (match f.cmd with
      | some c => [s!"c({dumpExec c.setPwm}|{dumpExec c.getPwm})"] | none => [])
  f.id ++ ":" ++ ",".intercalate items

def dumpConfig (c : Configuration) : String :=
  "S" ++ dumpList ";" (c.sensors.map dumpSensor) ++ "!C" ++ dumpList ";" (c.curves.map dumpCurve)
    ++ "!F" ++ dumpList ";" (c.fans.map dumpFan)

/-! ### verdict -/

def verrClass : VErr → String × Option String
  | .dupSensor id => ("dupSensor", some id)
  | .sensorMultiBackend id => ("sensorMultiBackend", some id)
  | .sensorNoBackend id => ("sensorNoBackend", some id)
  | .sensorBadIndex id => ("sensorBadIndex", some id)
  | .dupCurve id => ("dupCurve", some id)
  | .curveMultiBackend id => ("curveMultiBackend", some id)
  | .curveNoBackend id => ("curveNoBackend", some id)
  | .curveBadFnType id => ("curveBadFnType", some id)
  | .curveNoMembers id => ("curveNoMembers", some id)
  | .curveSelfRef id => ("curveSelfRef", some id)
  | .curveNoCurve id => ("curveNoCurve", some id)
  | .curveNoSensorId id => ("curveNoSensorId", some id)
  | .curveNoSensor id => ("curveNoSensor", some id)
  | .curveEmptySteps id => ("curveEmptySteps", some id)
  | .curvePidZero id => ("curvePidZero", some id)
  | .curveCycle => ("curveCycle", none)
  | .dupFan id => ("dupFan", some id)
  | .fanMultiBackend id => ("fanMultiBackend", some id)
  | .fanNoBackend id => ("fanNoBackend", some id)
  | .fanNoCurveId id => ("fanNoCurveId", some id)
  | .fanNoCurve id => ("fanNoCurve", some id)
  | .fanEmptyAlgo id => ("fanEmptyAlgo", some id)
  | .fanBadMaxPwmChange id => ("fanBadMaxPwmChange", some id)
  | .fanPidZero id => ("fanPidZero", some id)
  | .fanIndexXorRpm id => ("fanIndexXorRpm", some id)
  | .fanBadIndex id => ("fanBadIndex", some id)
  | .fanBadRpmChannel id => ("fanBadRpmChannel", some id)
  | .fanBadPwmChannel id => ("fanBadPwmChannel", some id)
  | .fanNoPath id => ("fanNoPath", some id)
  | .fanNoSetPwm id => ("fanNoSetPwm", some id)
  | .fanSetPwmNoExec id => ("fanSetPwmNoExec", some id)
  | .fanNoGetPwm id => ("fanNoGetPwm", some id)
  | .fanGetPwmNoExec id => ("fanGetPwmNoExec", some id)
  | .configPerm => ("configPerm", none)

def parseOctal (s : String) : Nat :=
  s.foldl (fun acc c => acc * 8 + (c.toNat - '0'.toNat)) 0

/-- `util.CheckFilePermissionsForExecution` on a root:root file: only the other-write bit counts -/
def permOkOfMode (mode : Nat) : Bool := mode &&& 2 == 0

def cfgLoad (a : KV) : ConfigDrvSt × String :=
  let spec := a.str "spec" ""
  if spec == "fatal" then ({}, "verdict=panic:fatal ent=- dump=-")
  else
    let c := parseSpec spec
    let permOk := permOkOfMode (parseOctal (a.str "mode" "644"))
    match validateConfig c permOk with
    | .ok () => ({ cfg := c, lastOk := true }, s!"verdict=ok ent=- dump={dumpConfig c}")
    | .error e =>
      let (cls, ent) := verrClass e
      let ent := match ent with | some id => s!"[{id}]" | none => "-"
      ({ cfg := c, lastOk := false }, s!"verdict=err:{cls} ent={ent} dump={dumpConfig c}")

/-! ### run: instantiate every curve, evaluate every curve once per round -/

def sensorTable (c : Configuration) (v : Int) : SensorTable :=
  (c.sensors.zipIdx).map fun (s, j) =>
    let x := F64.ofInt (v + 1500 * (j : Int))
    (s.id, { avg := x, value := .ok x })

/-- evaluate the curves `ids` (with their index) in order; stops at the first failure -/
def runRound (sensors : SensorTable) (now : Int) (fuel : Nat) (k : Nat) :
    List (String × Nat) → CurveTable → List Int → CurveTable × List Int × Option String
  | [], tbl, outs => (tbl, outs, none)
  | (id, i) :: rest, tbl, outs =>
    match evalCurve indefAmd64 sensors now fuel tbl id with
    | (tbl', .ok v) => runRound sensors now fuel k rest tbl' (outs ++ [v])
    | (tbl', .err _) => (tbl', outs, some s!"run=err at={k}.{i}")
    | (tbl', .panic site) =>
      let r := if site == "out-of-fuel" then "hang" else s!"panic:{panicClass site}"
      (tbl', outs, some s!"run={r} at={k}.{i}")

def runRounds (c : Configuration) (now : Int) (fuel : Nat) (ids : List (String × Nat)) :
    List (Int × Nat) → CurveTable → List Int → CurveTable × List Int × Option String
  | [], tbl, outs => (tbl, outs, none)
  | (v, k) :: rest, tbl, outs =>
    match runRound (sensorTable c v) (now + (k : Int) * 1000000000) fuel k ids tbl outs with
    | (tbl', outs', some fail) => (tbl', outs', some fail)
    | (tbl', outs', none) => runRounds c now fuel ids rest tbl' outs'

/-- the sensors of the failing round: every read fails, the moving averages are those of the last round -/
def sensorTableFailing (c : Configuration) (v : Int) : SensorTable :=
  (c.sensors.zipIdx).map fun (s, j) =>
    let x := F64.ofInt (v + 1500 * (j : Int))
    (s.id, { avg := x, value := .err "read" })

/-- the round in which every sensor read fails: per curve its value or `e`; a crash ends the run -/
def runFailRound (sensors : SensorTable) (now : Int) (fuel : Nat) (k : Nat) :
    List (String × Nat) → CurveTable → List String → List String × Option String
  | [], _, toks => (toks, none)
  | (id, i) :: rest, tbl, toks =>
    match evalCurve indefAmd64 sensors now fuel tbl id with
    | (tbl', .ok v) => runFailRound sensors now fuel k rest tbl' (toks ++ [toString v])
    | (tbl', .err _) => runFailRound sensors now fuel k rest tbl' (toks ++ ["e"])
    | (_, .panic site) =>
      let r := if site == "out-of-fuel" then "hang" else s!"panic:{panicClass site}"
      (toks, some s!"run={r} at={k}.{i}")

def cfgRun (st : ConfigDrvSt) (a : KV) : String :=
  if !st.lastOk then "run=skipped at=- out=-"
  else
    let c := st.cfg
    let tbl := toCurveTable c
    -- the harness evaluates the i-th REGISTERED curve object; an entry that `NewSpeedCurve`
    -- rejects aborts the run
    if tbl.length != c.curves.length then "run=err:instantiate at=- out=-"
    else
      let vals := parseInts (a.str "vals" "30000,55000,90000")
      let now := a.int "now" 1000000000
      let ids := (c.curves.map (·.id)).zipIdx
      match runRounds c now (c.curves.length + 1) ids vals.zipIdx tbl [] with
      | (_, outs, some fail) => s!"{fail} out={fmtInts outs}"
      | (tbl', outs, none) =>
        if !(a.bool "fail" false) then s!"run=ok at=- out={fmtInts outs}"
        else
          let k := vals.length
          match runFailRound (sensorTableFailing c (vals.getLastD 0)) (now + (k : Int) * 1000000000) (c.curves.length + 1) k ids tbl' [] with
          | (_, some fail) => s!"{fail} out={fmtInts outs}"
          | (toks, none) => s!"run=ok at=- out={fmtInts outs} fail={if toks.isEmpty then "-" else ",".intercalate toks}"

def configStep (st : ConfigDrvSt) (op : String) (a : KV) : ConfigDrvSt × String :=
  match op with
  | "cfg.load" => cfgLoad a
  | "cfg.run" => (st, cfgRun st a)
  | _ => (st, "bad-op")

end Driver
