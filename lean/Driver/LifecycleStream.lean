/-
  Driver stream `lc` (C03 part ii): interprets the `lc.*` operations of go/harness/lifecycle.go against the
  single-controller slice of the life-cycle model (Model/Lifecycle.lean: `cstep`, `crunStep`, `crun`,
  `drain`). Core Lean only.

  The harness runs the REAL `DefaultFanController.Run(ctx)` on a virtual device with a real bbolt file in
  virtual time, cancels the context at a scripted stop point, waits for `Run` to return and reports
  `ret touched restored mode pwm evals at`. The driver builds the SCHEDULE of the model that walks one
  controller along the start-up path of the declared fan (stored data → load path; RPM data but no PWM
  map → sweep only; nothing stored → full initialisation for a hwmon fan), delivers the cancellation at
  the same stop point, lets the controller finish (`drain`: nothing before the control loop's `select`
  consults `ctx`), and prints the same line from the model's final state.

  Integration into Driver/Main.lean:
    import Driver.LifecycleStream
    structure St ... add field   lc : LifecycleDrvSt := {}
    in `step`, add the case      | "lc" => let (s, o) := lifecycleStep st.lc op a; ({ st with lc := s }, o)
-/
import Driver.Proto
import Fan2go.Model.Lifecycle
namespace Driver
open Fan2go Fan2go.Lifecycle

/-- one declared fan and the two database entries of its id -/
structure LcFan where
  id : String
  hwmon : Bool := true
  hasRpm : Bool := true
  startPwm : Int := 0
  origMode : Int := 2
  origPwm : Int := 100
  rpmStored : Bool := false
  mapStored : Bool := false
  deriving Inhabited

structure LifecycleDrvSt where
  opened : Bool := false
  fans : List LcFan := []
  deriving Inhabited

/-- an element of a labelled schedule: an event of the model, or the name of a stop point -/
inductive LcItem where
  | ev (e : CEvt)
  | mark (name : String)
  deriving Inhabited

def lcAct (a : CAct) : LcItem := .ev (.act a)

/-- `computePwmMapAutomatically`: `trySetManualPwm`, the staircase 255 … 0 (stop point `midSweep` after the
    100th write), the start-PWM write (stop point `afterSweep` inside that write) -/
def lcSweep (start : Int) : List LcItem :=
  let stair : List LcItem := (List.range 256).foldr (fun (i : Nat) acc =>
      let w := lcAct (.write (255 - (i : Int)))
      if i == 99 then w :: .mark "midSweep" :: acc else w :: acc) []
  [lcAct .needSweep] ++ stair ++ [lcAct (.write start), .mark "afterSweep"]

/-- the RPM-curve measurement loop over the 256 distinct targets of an identity device (`setPwm` skips the
    write when the register already reads the target); stop point `midMeasure` inside the 3rd point -/
def lcMeasure (start : Int) : List LcItem :=
  (List.range 256).foldr (fun (i : Nat) acc =>
      let v : Int := i
      let prev : Int := if i == 0 then start else v - 1
      let w : List LcItem := if prev == v then [] else [lcAct (.write v)]
      if i == 2 then w ++ (.mark "midMeasure" :: acc) else w ++ acc) []

/-- the start-up path when every database operation fails (`db=bad`): a file fan's `SaveFanPwmData` fails before
    anything is written; a hwmon fan is swept (no map can be loaded), measured if it has an RPM input, and then
    `SaveFanPwmData` (→ `RunInitializationSequence` fails) or the second `LoadFanPwmData` fails -/
def lcStartupBadDb (f : LcFan) : List LcItem :=
  [lcAct .advance, .mark "startupWait", lcAct .advance] ++
  (if f.hwmon then
    [lcAct .needInit] ++ lcSweep f.startPwm ++ [lcAct .advance] ++
      (if f.hasRpm then lcMeasure f.startPwm else []) ++ [lcAct .fail]
   else [lcAct .fail])

/-- the start-up path of the declared fan up to the control loop's `select` (or to the error return) -/
def lcStartup (f : LcFan) : List LcItem :=
  let first : List LcItem :=
    if f.rpmStored then [lcAct .advance]                       -- `LoadFanPwmData` succeeds
    else if f.hwmon then
      -- `RunInitializationSequence`
      [lcAct .needInit] ++ (if f.mapStored then [] else lcSweep f.startPwm) ++ [lcAct .advance] ++
        (if f.hasRpm then lcMeasure f.startPwm ++ [lcAct .advance] else [])
    else [lcAct .advance]                                      -- file fan: `SaveFanPwmData`
  let rpmNow := f.rpmStored || !f.hwmon || f.hasRpm
  let mapNow := f.mapStored || (f.hwmon && !f.rpmStored)
  let rest : List LcItem :=
    if !rpmNow then [lcAct .fail]                              -- second `LoadFanPwmData` fails
    else (if mapNow then [] else lcSweep f.startPwm) ++ [lcAct .advance, .mark "headStart", lcAct .advance]
  [lcAct .advance, .mark "startupWait", lcAct .advance] ++ first ++ rest

def lcTicks (n : Nat) : List LcItem := List.replicate n (lcAct .tick)

/-- `cycle<k>` / `idle<k>` → (kind, k) -/
def lcParseStop (s : String) : String × Nat :=
  if s.startsWith "cycle" then ("cycle", max 1 ((s.drop 5).toString.toNat?.getD 1))
  else if s.startsWith "idle" then ("idle", max 1 ((s.drop 4).toString.toNat?.getD 1))
  else (s, 0)

/-- the regulation part of the labelled schedule for a stop point that lies in the control loop -/
def lcLoopPart (kind : String) (k : Nat) (stop : String) (stall : Bool) (after : Nat) : List LcItem :=
  match kind with
  | "cycle" => lcTicks (k - 1) ++ [.mark stop, lcAct .tick]
  | "idle" => lcTicks k ++ [.mark stop]
  | "never" =>
    -- `after` good cycles, the failing one, `restorePwmEnabled`; only then is the context cancelled
    lcTicks (if stall then max after 1 else after) ++ [lcAct .fail, lcAct .advance, .mark "never"]
  | _ => [.mark "cycle1", lcAct .tick]     -- the stop point is not on this path: like cycle1

/-- cut the labelled schedule at the first mark `name`: the events before it, and whether it was found -/
def lcCut (name : String) : List LcItem → List CEvt × Bool
  | [] => ([], false)
  | .ev e :: rest => let (es, b) := lcCut name rest; (e :: es, b)
  | .mark m :: rest => if m == name then ([], true) else lcCut name rest

/-- the schedule: the first mark `name` becomes the cancellation of the context, the other marks vanish. The
    events after it stay: nothing before the control loop's `select` consults `ctx`, and a cycle in progress
    completes -/
def lcEvents (name : String) : List LcItem → List CEvt
  | [] => []
  | .ev e :: rest => e :: lcEvents name rest
  | .mark m :: rest =>
    if m == name then CEvt.cancel :: rest.filterMap (fun it => match it with | .ev e => some e | .mark _ => none)
    else lcEvents name rest

def lcLine (s : CRun) (at_ : String) : String :=
  let ret := match s.ret with
    | some false => "nil"
    | some true => "err"
    | none => "hang"
  s!"ret={ret} touched={if s.c.touched then "1" else "0"} restored={if s.c.regsRestored then "1" else "0"} " ++
  s!"mode={s.c.mode} pwm={s.c.pwm} evals={s.cycles} at={at_}"

def lcRun (f : LcFan) (a : KV) : String :=
  let stop := a.str "stop" "cycle1"
  let (kind, k) := lcParseStop stop
  let err := a.str "err" ""
  let after := (a.int "after" 1).toNat
  if kind == "never" && err != "curve" && err != "stall" then "bad-op" else
  let startup := if a.str "db" "ok" == "bad" then lcStartupBadDb f else lcStartup f
  let init := cinit f.hasRpm f.hwmon f.origMode f.origPwm
  -- a stop point before the control loop, if it is on this fan's path: the controller finishes its start-up
  -- (or fails in it) and sees the cancellation at the first `select`
  let (_, found) := lcCut stop startup
  if found then
    lcLine (drain 12 (crun init (lcEvents stop startup))) stop
  else
    let label := if kind == "cycle" || kind == "idle" then stop else if kind == "never" then "never" else "cycle1"
    let full := startup ++ lcLoopPart kind k stop (err == "stall") after
    -- `Run` may have returned before the stop point (start-up error): nothing is cancelled then
    let sAt := crun init (lcCut label full).1
    let at_ := if kind == "never" then "never" else if sAt.ret.isSome then "none" else label
    lcLine (drain 12 (crun init (lcEvents label full))) at_

def lifecycleStep (st : LifecycleDrvSt) (op : String) (a : KV) : LifecycleDrvSt × String :=
  match op with
  | "lc.open" => ({ opened := true, fans := [] }, "ok")
  | "lc.fan" =>
    if !st.opened then (st, "bad-op") else
    let id := a.str "fan" "f1"
    let stored := a.str "stored" "none"
    -- re-declaring an id keeps (and adds to) the database entries of that id
    let old := st.fans.find? (·.id == id)
    let f : LcFan :=
      { id := id, hwmon := a.str "kind" "hwmon" == "hwmon", hasRpm := a.bool "hasrpm" true,
        startPwm := a.int "startpwm" 255, origMode := a.int "origmode" 2, origPwm := a.int "origpwm" 100,
        rpmStored := stored == "rpm" || stored == "both" || (old.map (·.rpmStored)).getD false,
        mapStored := stored == "both" || (old.map (·.mapStored)).getD false }
    ({ st with fans := (st.fans.filter (·.id != id)) ++ [f] }, "ok")
  | "lc.run" =>
    match st.fans.find? (·.id == a.str "fan" "f1") with
    | none => (st, "bad-op")
    | some f =>
      let out := lcRun f a
      if out == "bad-op" || a.str "db" "ok" == "bad" then (st, out) else
      -- every start-up runs to its end whatever the context says: afterwards a PWM map is stored, and RPM
      -- data too unless the fan is a hwmon fan without RPM input
      let f' := { f with mapStored := true, rpmStored := f.rpmStored || !f.hwmon || f.hasRpm }
      ({ st with fans := st.fans.map fun g => if g.id == f.id then f' else g }, out)
  | "lc.stored" =>
    match st.fans.find? (·.id == a.str "fan" "f1") with
    | none => (st, "bad-op")
    | some f => (st, s!"rpm={if f.rpmStored then "1" else "0"} map={if f.mapStored then "1" else "0"}")
  | _ => (st, "bad-op")

end Driver
